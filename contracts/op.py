"""Orienteering problem (OP): problem definition and contracts of OPEnv."""
import z3

from tvc import ops
from tvc.core import AND, IMPL, NOT, OR, cur, ite, mk, zint, zreal
from tvc.unit import spec, unit, sum_point_update

from .envlib import B_, rowlocal, same_tensor, unchanged

F = "rl4co/envs/routing/op/env.py"
EPS = zreal(1e-6)

# Problem definition: start at the depot, visit a subset of customers (each at most
# once), return to the depot; total length (incl. the return leg) <= L; collect prizes.
# abstract state: visited set, path length so far, current node, closed flag (depot revisited).
# enabled(customer j): tour not closed, j unvisited, len + d(cur,j) + d(j,depot) <= L.
# enabled(depot): always. The environment keeps a safety margin of 1e-6 on L.


def dist(locs, b, p, q):
    """|loc[q] - loc[p]| (orientation: target minus source, as travelled)."""
    return ops.NORM2(locs.at(b, q, 0) - locs.at(b, p, 0), locs.at(b, q, 1) - locs.at(b, p, 1))


def state(u, B, N):
    return u.td(B, locs=((B, N + 1, 2), "f"), prize=((B, N + 1), "f"), tour_length=((B,), "f"),
                max_length=((B, N + 1), "f"), current_node=((B, 1), "i"), visited=((B, N + 1), "b"),
                current_total_prize=((B,), "f"), i=((B,), "i"), action_mask=((B, N + 1), "b"))


def budget(td, b):
    """L recovered from the stored per-node limits: max_length[b,0] = L - d(0,0) - 1e-6."""
    return td["max_length"].at(b, 0) + EPS


def enabled(td, b, j, margin=0):
    """customer j (index into locs, j>=1)."""
    locs = td["locs"]
    c = td["current_node"].at(b, 0)
    return AND(NOT(td["visited"].at(b, j)), NOT(td["visited"].at(b, 0)),
               td["tour_length"].at(b) + dist(locs, b, c, j) + dist(locs, b, j, 0) <= budget(td, b) - margin)


def state_ok(u, td, B, N):
    locs, ml, cn, v, i = td["locs"], td["max_length"], td["current_node"], td["visited"], td["i"]
    return AND(
        u.forall((B,), lambda b: AND(cn.at(b, 0) >= 0, cn.at(b, 0) <= N, i.at(b) >= 0, budget(td, b) >= 0)),
        # stored per-node limit = L - d(depot -> node) - 1e-6   (established by _reset)
        u.forall((B, N + 1), lambda b, j: ml.at(b, j) == budget(td, b) - ops.NORM2(locs.at(b, 0, 0) - locs.at(b, j, 0), locs.at(b, 0, 1) - locs.at(b, j, 1)) - EPS),
        # the return leg always fits: len + d(cur, depot) <= L
        u.forall((B,), lambda b: td["tour_length"].at(b) + dist(locs, b, cn.at(b, 0), 0) <= budget(td, b)),
        u.forall((B,), lambda b: IMPL(v.at(b, 0), AND(cn.at(b, 0) == 0, i.at(b) >= 1))),
        u.forall((B,), lambda b: IMPL(cn.at(b, 0) != 0, v.at(b, cn.at(b, 0)))),
        u.forall((B,), lambda b: IMPL(i.at(b) == 0, cn.at(b, 0) == 0)),
    )


def mask_spec(td):
    B, N1 = td["visited"].shape

    def elem(I):
        b, j = I
        if isinstance(j, int):
            return True if j == 0 else B_(enabled_code(td, b, j))
        return ite(zint(j) == 0, True, B_(enabled_code(td, b, j)))

    return mk((B, N1), "b", lambda I: B_(elem(I)))


def enabled_code(td, b, j):
    """the contract callers rely on: the exact margin of the stored limits."""
    locs = td["locs"]
    c = td["current_node"].at(b, 0)
    return AND(NOT(td["visited"].at(b, j)), NOT(td["visited"].at(b, 0)),
               td["tour_length"].at(b) + dist(locs, b, c, j) <= td["max_length"].at(b, j))


@spec(F, "OPEnv.get_action_mask")
def get_action_mask_spec(u, selfobj, td):
    return mask_spec(td)


@unit("op.get_action_mask", file=F, func="OPEnv.get_action_mask", props=("C01", "C02", "C05", "C04"))
def _(u):
    B, N = u.dims("B N")
    td = state(u, B, N)
    u.requires(state_ok(u, td, B, N))
    pre = u.snapshot(td)
    m = u.run(F, "OPEnv.get_action_mask", td)
    b = u.idx((B,), "b")
    j = u.idx(((1, N + 1),), "j")
    u.prove("mask.sound.customer", IMPL(m.at(b, j), enabled(pre, b, j)), tags=("C01",))
    u.prove("mask.complete.customer", IMPL(enabled(pre, b, j, margin=EPS), m.at(b, j)), tags=("C05",))
    u.prove("mask.depot-always", m.at(b, 0), tags=("C02", "C05"))
    ms = mask_spec(pre)
    same_tensor(u, "mask.eq-spec", m, (B, N + 1), lambda bb, jj: ms.at(bb, jj), tags=("C01", "C05"))
    unchanged(u, "mask", pre, td, ["locs", "prize", "tour_length", "max_length", "current_node", "visited", "i"], tags=("C04",))
    u.canary("mask.ignores-length", IMPL(AND(NOT(pre["visited"].at(b, j)), NOT(pre["visited"].at(b, 0))), m.at(b, j)))
    u.canary("mask.ignores-return-leg",
             IMPL(m.at(b, j), pre["tour_length"].at(b) + dist(pre["locs"], b, pre["current_node"].at(b, 0), j) + 2 * dist(pre["locs"], b, j, 0) <= budget(pre, b)))


@unit("op.step", file=F, func="OPEnv._step", props=("C01", "C02", "C03", "C04"))
def _(u):
    B, N = u.dims("B N")
    td = state(u, B, N)
    td.set("action", u.tensor("action", (B,), "i"))
    u.requires(state_ok(u, td, B, N))
    a = td["action"]
    ms = mask_spec(td)
    am = td["action_mask"]
    u.requires(u.forall((B, N + 1), lambda b, j: am.at(b, j) == ms.at(b, j)))
    u.requires(u.forall((B,), lambda b: AND(a.at(b) >= 0, a.at(b) <= N, ms.at(b, a.at(b)))))
    pre = u.snapshot(td)
    env = u.obj(F, "OPEnv")
    out = u.run(F, "OPEnv._step", td, selfobj=env)
    b = u.idx((B,), "b")
    ab = pre["action"].at(b)
    c0 = pre["current_node"].at(b, 0)
    u.prove("step.action-enabled", IMPL(ab != 0, enabled(pre, b, ab)), tags=("C01",))
    same_tensor(u, "step.tour_length", out["tour_length"], (B,),
                lambda bb: pre["tour_length"].at(bb) + dist(pre["locs"], bb, pre["current_node"].at(bb, 0), pre["action"].at(bb)), tags=("C01", "C03"))
    same_tensor(u, "step.prize", out["current_total_prize"], (B,),
                lambda bb: pre["current_total_prize"].at(bb) + pre["prize"].at(bb, pre["action"].at(bb)), tags=("C03",))
    same_tensor(u, "step.visited", out["visited"], (B, N + 1),
                lambda bb, jj: OR(zint(jj) == pre["action"].at(bb), pre["visited"].at(bb, jj)), tags=("C01",))
    same_tensor(u, "step.current_node", out["current_node"], (B, 1), lambda bb, _: pre["action"].at(bb), tags=("C01",))
    same_tensor(u, "step.i", out["i"], (B,), lambda bb: pre["i"].at(bb) + 1, tags=("C02",))
    same_tensor(u, "step.done", out["done"], (B,), lambda bb: AND(pre["action"].at(bb) == 0, pre["i"].at(bb) > 0), tags=("C01", "C02"))
    # length limit respected at every step, including the return leg (C01)
    u.prove("step.length-within-limit",
            out["tour_length"].at(b) + dist(pre["locs"], b, ab, 0) <= budget(pre, b), tags=("C01",))
    u.prove("step.inv", state_ok(u, out, B, N), tags=("C01", "C02"))
    msn = mask_spec(out)
    same_tensor(u, "step.mask-consistent", out["action_mask"], (B, N + 1), lambda bb, jj: msn.at(bb, jj), tags=("C01", "C05"))
    unchanged(u, "step", pre, out, ["locs", "prize", "max_length"], tags=("C04",))
    # finished rows (depot revisited with i>0, i.e. visited[0] and i>=2) stay finished; padding changes nothing objective-relevant
    fin = AND(pre["visited"].at(b, 0), pre["i"].at(b) >= 2)
    u.prove("step.done-stable", IMPL(fin, AND(ab == 0, out["done"].at(b))), tags=("C02",))
    u.prove("step.pad-idem", IMPL(fin, AND(out["tour_length"].at(b) == pre["tour_length"].at(b),
                                          IMPL(pre["prize"].at(b, 0) == 0, out["current_total_prize"].at(b) == pre["current_total_prize"].at(b)))), tags=("C04",))
    u.canary("step.length-ignores-move", out["tour_length"].at(b) == pre["tour_length"].at(b))


@unit("op.reset", file=F, func="OPEnv._reset", props=("C01", "C02", "C05"))
def _(u):
    B, N = u.dims("B N")
    td = u.td(B, depot=((B, 2), "f"), locs=((B, N, 2), "f"), prize=((B, N), "f"), max_length=((B,), "f"))
    L = td["max_length"]
    u.requires(u.forall((B,), lambda b: L.at(b) >= 0))
    pre = u.snapshot(td)
    env = u.obj(F, "OPEnv")
    out = u.run(F, "OPEnv._reset", td, [B], selfobj=env)
    loc = lambda b, j, c: ite(zint(j) == 0, pre["depot"].at(b, c), pre["locs"].at(b, zint(j) - 1, c))
    same_tensor(u, "reset.locs", out["locs"], (B, N + 1, 2), loc, tags=("C01",))
    same_tensor(u, "reset.prize", out["prize"], (B, N + 1), lambda b, j: ite(zint(j) == 0, 0, pre["prize"].at(b, zint(j) - 1)), tags=("C03",))
    same_tensor(u, "reset.max_length", out["max_length"], (B, N + 1),
                lambda b, j: pre["max_length"].at(b) - ops.NORM2(pre["depot"].at(b, 0) - loc(b, j, 0), pre["depot"].at(b, 1) - loc(b, j, 1)) - EPS, tags=("C01",))
    same_tensor(u, "reset.tour_length", out["tour_length"], (B,), lambda b: 0, tags=("C01",))
    same_tensor(u, "reset.total_prize", out["current_total_prize"], (B,), lambda b: 0, tags=("C03",))
    same_tensor(u, "reset.visited", out["visited"], (B, N + 1), lambda b, j: False, tags=("C01",), dtype="b")
    same_tensor(u, "reset.current_node", out["current_node"], (B, 1), lambda b, _: 0, tags=("C01",), dtype="i")
    same_tensor(u, "reset.i", out["i"], (B,), lambda b: 0, tags=("C02",), dtype="i")
    u.prove("reset.inv", state_ok(u, out, B, N), tags=("C01", "C02"))
    b = u.idx((B,), "b")
    u.prove("reset.budget", budget(out, b) == pre["max_length"].at(b), tags=("C01",))


@unit("op.reward", file=F, func="OPEnv._get_reward", props=("C03",))
def _(u):
    B, N, T = u.dims("B N T")
    u.requires(T >= 2)  # a completed OP episode has at least two steps (done needs i > 0)
    td = state(u, B, N)          # the whole state with arbitrary bookkeeping fields: the reward depends on prizes and actions only
    act = u.tensor("actions", (B, T), "i")
    u.requires(u.forall((B, T), lambda b, t: AND(act.at(b, t) >= 0, act.at(b, t) <= N)))
    u.requires(u.forall((B,), lambda b: td["prize"].at(b, 0) == 0))
    env = u.obj(F, "OPEnv")
    r = u.run(F, "OPEnv._get_reward", td, act, selfobj=env)
    want = ops.reduce("sum", mk((B, T), "f", lambda I: td["prize"].at(I[0], act.at(I[0], I[1]))), -1, label="collected")
    same_tensor(u, "reward.eq", r, (B,), lambda b: want.at(b))
    b = u.idx((B,), "cb")
    u.canary("reward.negated", r.at(b) == -want.at(b))


@unit("op.rowlocal", file=F, func="OPEnv._step", props=("C04", "C14"))
def _(u):
    N = u.dim("N")
    env = u.obj(F, "OPEnv")

    def mk_in(u, B):
        td = state(u, B, N)
        td.set("action", u.tensor("action", (B,), "i"))
        return td

    def req(u, td, B):
        a = td["action"]
        return AND(state_ok(u, td, B, N), u.forall((B,), lambda b: AND(a.at(b) >= 0, a.at(b) <= N)))

    rowlocal(u, "step", mk_in, lambda u, td: u.run(F, "OPEnv._step", td, selfobj=env), requires=req)


@unit("op.rowlocal.mask", file=F, func="OPEnv.get_action_mask", props=("C04", "C14"))
def _(u):
    N = u.dim("N")
    rowlocal(u, "mask", lambda u, B: state(u, B, N), lambda u, td: u.run(F, "OPEnv.get_action_mask", td),
             requires=lambda u, td, B: state_ok(u, td, B, N))


@unit("op.rowlocal.reward", file=F, func="OPEnv._get_reward", props=("C04", "C14"))
def _(u):
    N, T = u.dims("N T")
    u.requires(T >= 2)
    env = u.obj(F, "OPEnv")

    def mk_in(u, B):
        return {"td": state(u, B, N), "actions": u.tensor("actions", (B, T), "i")}

    def req(u, ins, B):
        a = ins["actions"]
        return u.forall((B, T), lambda b, t: AND(a.at(b, t) >= 0, a.at(b, t) <= N))

    rowlocal(u, "reward", mk_in, lambda u, ins: u.run(F, "OPEnv._get_reward", ins["td"], ins["actions"], selfobj=env), requires=req)


@unit("op.reward.padding", file=F, func="OPEnv._get_reward", props=("C04", "C03"))
def _(u):
    from .envlib import reward_pad_invariant

    N = u.dim("N")
    reward_pad_invariant(u, F, "OPEnv._get_reward", "OPEnv", lambda u, B: u.td(B, prize=((B, N + 1), "f")), N + 1,
                         extra_requires=lambda u, td, B: u.forall((B,), lambda b: td["prize"].at(b, 0) == 0))
