"""SDVRP (split delivery): problem definition and contracts."""
import z3

from tvc import ops
from tvc.core import AND, IMPL, NOT, OR, cur, ite, mk, zint, zreal
from tvc.unit import spec, unit

from .envlib import B_, rowlocal, same_tensor, unchanged

F = "rl4co/envs/routing/sdvrp/env.py"

# Problem definition: every customer's demand must be fully served, possibly over several
# visits; the load of a route never exceeds the capacity; a visit delivers
# min(remaining demand, remaining capacity). enabled(customer j): remaining_j > 0.
# pruned: visiting with a full vehicle (delivers nothing); staying at the depot while a customer is servable.


def state(u, B, N):
    return u.td(B, locs=((B, N + 1, 2), "f"), demand=((B, N), "f"), demand_with_depot=((B, N + 1), "f"),
                current_node=((B, 1), "i"), used_capacity=((B, 1), "f"), vehicle_capacity=((B, 1), "f"),
                action_mask=((B, N + 1), "b"))


def state_ok(u, td, B, N):
    rem, cn, used, q = td["demand_with_depot"], td["current_node"], td["used_capacity"], td["vehicle_capacity"]
    return AND(
        u.forall((B, N + 1), lambda b, j: rem.at(b, j) >= 0),
        u.forall((B,), lambda b: AND(rem.at(b, 0) == 0, q.at(b, 0) > 0, cn.at(b, 0) >= 0, cn.at(b, 0) <= N,
                                     used.at(b, 0) >= 0, used.at(b, 0) <= q.at(b, 0),
                                     IMPL(cn.at(b, 0) == 0, used.at(b, 0) == 0))),
    )


def servable(td, b, j):
    """customer j (index into demand_with_depot, j >= 1) can receive something now."""
    return AND(td["demand_with_depot"].at(b, j) > 0, td["used_capacity"].at(b, 0) < td["vehicle_capacity"].at(b, 0))


def mask_spec(td):
    B, N1 = td["demand_with_depot"].shape
    en = mk((B, N1 - 1), "b", lambda I: B_(servable(td, I[0], zint(I[1]) + 1 if not isinstance(I[1], int) else I[1] + 1)))
    anyen = ops.reduce("any", en, -1, label="sdvrp_any")

    def elem(I):
        b, j = I
        dep = NOT(AND(td["current_node"].at(b, 0) == 0, anyen.at(b)))
        if isinstance(j, int):
            return B_(dep) if j == 0 else B_(servable(td, b, j))
        return ite(zint(j) == 0, B_(dep), B_(servable(td, b, j)))

    return mk((B, N1), "b", elem)


@spec(F, "SDVRPEnv.get_action_mask")
def get_action_mask_spec(u, selfobj, td):
    return mask_spec(td)


@unit("sdvrp.get_action_mask", file=F, func="SDVRPEnv.get_action_mask", props=("C01", "C02", "C05", "C04"))
def _(u):
    B, N = u.dims("B N")
    td = state(u, B, N)
    u.requires(state_ok(u, td, B, N))
    pre = u.snapshot(td)
    m = u.run(F, "SDVRPEnv.get_action_mask", td)
    b = u.idx((B,), "b")
    j = u.idx(((1, N + 1),), "j")
    u.prove("mask.customer.iff", m.at(b, j) == servable(pre, b, j), tags=("C01", "C05"))
    some = u.exists(((1, N + 1),), lambda k: servable(pre, b, k))
    u.prove("mask.depot.iff", m.at(b, 0) == NOT(AND(pre["current_node"].at(b, 0) == 0, some)), tags=("C01", "C05"))
    ms = mask_spec(pre)
    same_tensor(u, "mask.eq-spec", m, (B, N + 1), lambda bb, jj: ms.at(bb, jj), tags=("C01", "C05"))
    u.prove("mask.live", u.exists((N + 1,), lambda k: m.at(b, k)), tags=("C02",))
    unchanged(u, "mask", pre, td, ["demand_with_depot", "used_capacity", "vehicle_capacity", "current_node"], tags=("C04",))
    u.canary("mask.served-customers-open", IMPL(pre["used_capacity"].at(b, 0) < pre["vehicle_capacity"].at(b, 0), m.at(b, j)))


@unit("sdvrp.step", file=F, func="SDVRPEnv._step", props=("C01", "C02", "C04", "C05"))
def _(u):
    B, N = u.dims("B N")
    td = state(u, B, N)
    td.set("action", u.tensor("action", (B,), "i"))
    u.requires(state_ok(u, td, B, N))
    a = td["action"]
    ms = mask_spec(td)
    u.requires(u.forall((B,), lambda b: AND(a.at(b) >= 0, a.at(b) <= N, ms.at(b, a.at(b)))))
    pre = u.snapshot(td)
    env = u.obj(F, "SDVRPEnv")
    out = u.run(F, "SDVRPEnv._step", td, selfobj=env)
    b = u.idx((B,), "b")
    ab = pre["action"].at(b)
    used0, q = pre["used_capacity"].at(b, 0), pre["vehicle_capacity"].at(b, 0)
    rem = pre["demand_with_depot"]
    deliver = lambda bb: ite(rem.at(bb, pre["action"].at(bb)) <= pre["vehicle_capacity"].at(bb, 0) - pre["used_capacity"].at(bb, 0),
                             rem.at(bb, pre["action"].at(bb)), pre["vehicle_capacity"].at(bb, 0) - pre["used_capacity"].at(bb, 0))
    same_tensor(u, "step.remaining", out["demand_with_depot"], (B, N + 1),
                lambda bb, jj: ite(zint(jj) == pre["action"].at(bb), rem.at(bb, jj) - deliver(bb), rem.at(bb, jj)), tags=("C01",))
    same_tensor(u, "step.used_capacity", out["used_capacity"], (B, 1),
                lambda bb, _: ite(pre["action"].at(bb) == 0, 0, pre["used_capacity"].at(bb, 0) + deliver(bb)), tags=("C01",))
    same_tensor(u, "step.current_node", out["current_node"], (B, 1), lambda bb, _: pre["action"].at(bb), tags=("C01",))
    u.prove("step.load-within-capacity", AND(out["used_capacity"].at(b, 0) >= 0, out["used_capacity"].at(b, 0) <= q), tags=("C01",))
    u.prove("step.delivers-something", IMPL(ab != 0, out["demand_with_depot"].at(b, ab) < rem.at(b, ab)), tags=("C02",))
    allserved = u.forall((N + 1,), lambda k: out["demand_with_depot"].at(b, k) == 0)
    same_tensor(u, "step.done.shape", out["done"], (B,), lambda bb: out["done"].at(bb), tags=("C02",))
    u.prove("step.done.iff", out["done"].at(b) == allserved, tags=("C01", "C02"))
    u.prove("step.inv", state_ok(u, out, B, N), tags=("C01", "C02"))
    msn = mask_spec(out)
    same_tensor(u, "step.mask-consistent", out["action_mask"], (B, N + 1), lambda bb, jj: msn.at(bb, jj), tags=("C01", "C05"))
    unchanged(u, "step", pre, out, ["locs", "demand", "vehicle_capacity"], tags=("C04",))
    pre_done = u.forall((N + 1,), lambda k: rem.at(b, k) == 0)
    j = u.idx((N + 1,), "j")
    u.prove("step.done-stable", IMPL(pre_done, AND(ab == 0, out["done"].at(b))), tags=("C02",))
    u.prove("step.pad-idem", IMPL(pre_done, AND(out["used_capacity"].at(b, 0) == 0, out["demand_with_depot"].at(b, j) == rem.at(b, j))), tags=("C04",))
    u.canary("step.over-delivery", out["demand_with_depot"].at(b, ab) == 0)


@unit("sdvrp.reset", file=F, func="SDVRPEnv._reset", props=("C01", "C02", "C05"))
def _(u):
    B, N = u.dims("B N")
    td = u.td(B, depot=((B, 2), "f"), locs=((B, N, 2), "f"), demand=((B, N), "f"))
    cap = u.scalar("capacity", "f")
    u.requires(cap > 0)
    d = td["demand"]
    u.requires(u.forall((B, N), lambda b, j: d.at(b, j) >= 0))
    pre = u.snapshot(td)
    env = u.obj(F, "SDVRPEnv", generator=u.ns(vehicle_capacity=cap))
    out = u.run(F, "SDVRPEnv._reset", td, [B], selfobj=env)
    same_tensor(u, "reset.locs", out["locs"], (B, N + 1, 2), lambda b, j, c: ite(zint(j) == 0, pre["depot"].at(b, c), pre["locs"].at(b, zint(j) - 1, c)), tags=("C01",))
    same_tensor(u, "reset.remaining", out["demand_with_depot"], (B, N + 1), lambda b, j: ite(zint(j) == 0, 0, pre["demand"].at(b, zint(j) - 1)), tags=("C01",))
    same_tensor(u, "reset.used_capacity", out["used_capacity"], (B, 1), lambda b, _: 0, tags=("C01",))
    same_tensor(u, "reset.vehicle_capacity", out["vehicle_capacity"], (B, 1), lambda b, _: cap, tags=("C01",))
    same_tensor(u, "reset.current_node", out["current_node"], (B, 1), lambda b, _: 0, tags=("C01",), dtype="i")
    u.prove("reset.inv", state_ok(u, out, B, N), tags=("C01", "C02"))
    msn = mask_spec(out)
    same_tensor(u, "reset.mask-consistent", out["action_mask"], (B, N + 1), lambda bb, jj: msn.at(bb, jj), tags=("C01", "C05"))


@unit("sdvrp.rowlocal.step", file=F, func="SDVRPEnv._step", props=("C04", "C14"))
def _(u):
    N = u.dim("N")
    env = u.obj(F, "SDVRPEnv")

    def mk_in(u, B):
        td = state(u, B, N)
        td.set("action", u.tensor("action", (B,), "i"))
        return td

    def req(u, td, B):
        a = td["action"]
        return AND(state_ok(u, td, B, N), u.forall((B,), lambda b: AND(a.at(b) >= 0, a.at(b) <= N)))

    rowlocal(u, "step", mk_in, lambda u, td: u.run(F, "SDVRPEnv._step", td, selfobj=env), requires=req)


@unit("sdvrp.rowlocal.mask", file=F, func="SDVRPEnv.get_action_mask", props=("C04", "C14"))
def _(u):
    N = u.dim("N")
    rowlocal(u, "mask", lambda u, B: state(u, B, N), lambda u, td: u.run(F, "SDVRPEnv.get_action_mask", td),
             requires=lambda u, td, B: state_ok(u, td, B, N))
