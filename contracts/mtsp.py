"""mTSP: problem definition and contracts of MTSPEnv."""
import z3

from tvc import ops
from tvc.core import AND, IMPL, NOT, OR, cur, ite, mk, zint, zreal
from tvc.unit import spec, unit

from .envlib import B_, rowlocal, same_tensor, unchanged

F = "rl4co/envs/routing/mtsp/env.py"
UT = "rl4co/envs/common/utils.py"

# Problem definition: node 0 is the depot; M agents, each runs one closed sub-tour depot -> ... -> depot;
# every customer 1..N-1 is visited exactly once; at most M sub-tours. Action 0 closes the current
# sub-tour and hands over to the next agent. Objective: longest sub-tour (minmax) or total length (sum).
# enabled(customer j): unvisited. enabled(depot): away from the depot and an agent is left; after the last
# customer only the depot is offered (padding).


def dist(locs, b, p, q):
    """|loc[q] - loc[p]| with the orientation of get_distance(cur_loc, prev_loc): target minus source."""
    return ops.NORM2(locs.at(b, q, 0) - locs.at(b, p, 0), locs.at(b, q, 1) - locs.at(b, p, 1))


def state(u, B, N):
    return u.td(B, locs=((B, N, 2), "f"), num_agents=((B,), "i"), max_subtour_length=((B,), "f"),
                current_length=((B,), "f"), agent_idx=((B,), "i"), first_node=((B,), "i"), current_node=((B,), "i"),
                i=((B,), "i"), action_mask=((B, N), "b"), action=((B,), "i"))


def finished(u, td, b, N):
    return NOT(u.exists(((1, N),), lambda k: td["action_mask"].at(b, k)))


def state_parts(u, td, B, N, A):
    cn, ag, M, i, cl, mx, am = (td[k] for k in ("current_node", "agent_idx", "num_agents", "i", "current_length", "max_subtour_length", "action_mask"))
    return [
        ("shared-step-counter", u.forall((B,), lambda b: AND(i.at(b) == i.at(0), i.at(b) >= 0))),
        ("ranges", u.forall((B,), lambda b: AND(cn.at(b) >= 0, cn.at(b) < N, M.at(b) >= 1, ag.at(b) >= 0,
                                                 cl.at(b) >= 0, A(b) >= 0, IMPL(cn.at(b) == 0, cl.at(b) == 0)))),
        # the visited current customer is no longer offered
        ("current-not-offered", u.forall((B,), lambda b: IMPL(cn.at(b) != 0, NOT(am.at(b, cn.at(b)))))),
        # while unfinished: at most M sub-tours; depot offered iff away from the depot and an agent is left
        ("agents", u.forall((B,), lambda b: IMPL(NOT(finished(u, td, b, N)),
                                                 AND(ag.at(b) <= M.at(b) - 1, am.at(b, 0) == AND(cn.at(b) != 0, ag.at(b) < M.at(b) - 1))))),
        # running objective: longest closed sub-tour so far (ghost A) or the open path of the current agent
        ("objective", u.forall((B,), lambda b: IMPL(NOT(finished(u, td, b, N)), mx.at(b) == ite(A(b) >= cl.at(b), A(b), cl.at(b))))),
        # the running maximum dominates the open path of the current agent (also after the last customer)
        ("max-dominates-current", u.forall((B,), lambda b: mx.at(b) >= cl.at(b))),
    ]


def state_ok(u, td, B, N, A):
    return AND(*[f for _, f in state_parts(u, td, B, N, A)])


def _step(u, pad):
    B, N = u.dims("B N")
    u.requires(N >= 2)
    td = state(u, B, N)
    A_f = z3.Function("ghost_longest_closed", z3.IntSort(), z3.RealSort())
    A = lambda b: A_f(zint(b))
    u.requires(state_ok(u, td, B, N, A))
    a, am = td["action"], td["action_mask"]
    u.requires(u.forall((B,), lambda b: AND(a.at(b) >= 0, a.at(b) < N, am.at(b, a.at(b)))))
    b = u.idx((B,), "b")
    if pad:
        u.requires(finished(u, td, b, N))
    pre = u.snapshot(td)
    u.inline((UT, "batch_to_scalar"))
    out = u.run(F, "MTSPEnv._step", td)
    ab = pre["action"].at(b)
    cl, mx, locs = pre["current_length"].at(b), pre["max_subtour_length"].at(b), pre["locs"]
    prev = pre["current_node"].at(b)
    fin0 = finished(u, pre, b, N)
    j = u.idx(((1, N),), "j")
    if not pad:
        same_tensor(u, "step.mask.customers", ops.getitem(out["action_mask"], (Ellipsis, slice(1, None))), (B, N - 1),
                    lambda bb, jj: AND(pre["action_mask"].at(bb, zint(jj) + 1), zint(jj) + 1 != pre["action"].at(bb)), tags=("C01", "C05"))
        fin1 = finished(u, out, b, N)
        u.prove("step.done.iff", out["done"].at(b) == fin1, tags=("C01", "C02"))
        same_tensor(u, "step.done.shape", out["done"], (B,), lambda bb: out["done"].at(bb), tags=("C04",))
        # depot offered iff (away from the depot and an agent is left) or everything is visited
        u.prove("step.mask.depot", out["action_mask"].at(b, 0) ==
                OR(fin1, AND(ab != 0, pre["agent_idx"].at(b) < pre["num_agents"].at(b) - 1)), tags=("C01", "C02", "C05"))
        u.prove("step.agents-within-limit", IMPL(NOT(fin0), out["agent_idx"].at(b) <= pre["num_agents"].at(b) - 1), tags=("C01",))
        same_tensor(u, "step.agent_idx", out["agent_idx"], (B,), lambda bb: pre["agent_idx"].at(bb) + ite(pre["action"].at(bb) == 0, 1, 0), tags=("C01",))
        same_tensor(u, "step.current_node", out["current_node"], (B,), lambda bb: pre["action"].at(bb), tags=("C01",))
        u.prove("step.live", u.exists((N,), lambda k: out["action_mask"].at(b, k)), tags=("C02",))
        # objective bookkeeping (C03): ghost update A' = max(A, closed sub-tour) on a return
        closed = cl + dist(locs, b, prev, 0)
        A2 = lambda bb: ite(pre["action"].at(bb) == 0,
                            ite(A(bb) >= pre["current_length"].at(bb) + dist(locs, bb, pre["current_node"].at(bb), 0), A(bb),
                                pre["current_length"].at(bb) + dist(locs, bb, pre["current_node"].at(bb), 0)), A(bb))
        u.prove("step.not-finished-returns-are-not-final", IMPL(AND(NOT(fin0), ab == 0), NOT(fin1)), tags=("C03",))
        for lbl, f in state_parts(u, out, B, N, A2):
            u.prove(f"step.inv.{lbl}", f if lbl == "max-dominates-current" else IMPL(NOT(fin0), f), tags=("C01", "C03"))
        final = ite(A(b) >= cl + dist(locs, b, prev, ab) + dist(locs, b, ab, 0), A(b), cl + dist(locs, b, prev, ab) + dist(locs, b, ab, 0))
        u.prove("step.objective.final", IMPL(AND(NOT(fin0), fin1), AND(out["max_subtour_length"].at(b) == final,
                                                                    out["reward"].at(b) == -final)), tags=("C03",))
        same_tensor(u, "step.reward.shape", out["reward"], (B,), lambda bb: -out["max_subtour_length"].at(bb), tags=("C03", "C04"))
        unchanged(u, "step", pre, out, ["locs", "num_agents"], tags=("C04",))
        u.canary("step.depot-always", out["action_mask"].at(b, 0))
    else:
        # finished rows stepped with the (only) padding action: nothing objective-relevant may change
        u.prove("pad.action-is-depot", ab == 0, tags=("C02", "C04"))
        u.prove("pad.done-stable", out["done"].at(b), tags=("C02",))
        u.prove("pad.depot-stays-open", out["action_mask"].at(b, 0), tags=("C02",))
        u.prove("pad.objective-unchanged", AND(out["max_subtour_length"].at(b) == mx, out["reward"].at(b) == -mx), tags=("C03", "C04"))


@unit("mtsp.step", file=F, func="MTSPEnv._step", props=("C01", "C02", "C03", "C04", "C05"))
def _(u):
    _step(u, False)


@unit("mtsp.step.padding", file=F, func="MTSPEnv._step", props=("C02", "C03", "C04"),
      note="finished rows stepped with the padding action")
def _(u):
    _step(u, True)


@unit("mtsp.reset", file=F, func="MTSPEnv._reset", props=("C01", "C02", "C05"))
def _(u):
    B, N = u.dims("B N")
    u.requires(N >= 2)
    td = u.td(B, locs=((B, N, 2), "f"), num_agents=((B,), "i"))
    u.requires(u.forall((B,), lambda b: td["num_agents"].at(b) >= 1))
    pre = u.snapshot(td)
    env = u.obj(F, "MTSPEnv", generator=u.ns(num_loc=N))
    out = u.run(F, "MTSPEnv._reset", td, [B], selfobj=env)
    same_tensor(u, "reset.action_mask", out["action_mask"], (B, N), lambda b, j: zint(j) != 0, tags=("C01", "C05"), dtype="b")
    for k in ("agent_idx", "current_node", "i", "first_node"):
        same_tensor(u, f"reset.{k}", out[k], (B,), lambda b: 0, tags=("C01",), dtype="i")
    for k in ("max_subtour_length", "current_length"):
        same_tensor(u, f"reset.{k}", out[k], (B,), lambda b: 0, tags=("C03",))
    u.prove("reset.inv", state_ok(u, out, B, N, lambda b: zreal(0)), tags=("C01", "C02", "C03"))


@unit("mtsp.reward.minmax", file=F, func="MTSPEnv._get_reward", props=("C03", "C04"))
def _(u):
    B, T = u.dims("B T")
    td = u.td(B, reward=((B,), "f"))
    act = u.tensor("actions", (B, T), "i")
    env = u.obj(F, "MTSPEnv", cost_type="minmax")
    r = u.run(F, "MTSPEnv._get_reward", td, act, selfobj=env)
    # the stored running objective is returned, one value per instance (shape [B] for every B >= 1)
    same_tensor(u, "reward.minmax", r, (B,), lambda b: td["reward"].at(b))


@unit("mtsp.reward.sum", file=F, func="MTSPEnv._get_reward", props=("C03",))
def _(u):
    B, N, T = u.dims("B N T")
    u.requires(AND(N >= 2, T >= 2))
    td = u.td(B, locs=((B, N, 2), "f"), reward=((B,), "f"))
    act = u.tensor("actions", (B, T), "i")
    u.requires(u.forall((B, T), lambda b, t: AND(act.at(b, t) >= 0, act.at(b, t) < N)))
    env = u.obj(F, "MTSPEnv", cost_type="sum")
    r = u.run(F, "MTSPEnv._get_reward", td, act, selfobj=env)
    locs = td["locs"]

    # total length of depot -> a_0 ... a_{T-1} -> depot (every return to the depot closes a sub-tour)
    def node(b, k):
        return ite(zint(k) == 0, 0, act.at(b, zint(k) - 1))

    def leg(b, k):
        k2 = ite(zint(k) + 1 < zint(T) + 1, zint(k) + 1, 0)
        return dist(locs, b, node(b, k), node(b, k2))

    total = ops.reduce("sum", mk((B, T + 1), "f", lambda I: leg(I[0], I[1])), -1, label="total")
    same_tensor(u, "reward.sum", r, (B,), lambda b: -total.at(b))


@unit("mtsp.rowlocal.step", file=F, func="MTSPEnv._step", props=("C04", "C14"))
def _(u):
    # 2-run non-interference: a row's successor state, mask, done flag and reward depend on that row only (in particular on
    # ITS fleet size). The step counter i is a per-batch quantity by construction (every row is stepped together).
    N = u.dim("N")
    u.requires(N >= 2)

    def req(u, td, B):
        a, cn, i = td["action"], td["current_node"], td["i"]
        return u.forall((B,), lambda b: AND(a.at(b) >= 0, a.at(b) < N, cn.at(b) >= 0, cn.at(b) < N, i.at(b) == i.at(0), i.at(b) >= 0))

    u.inline((UT, "batch_to_scalar"))
    rowlocal(u, "step", lambda u, B: state(u, B, N), lambda u, td: u.run(F, "MTSPEnv._step", td), requires=req)


def _rowlocal_reward(u, cost_type):
    N, T = u.dims("N T")
    u.requires(AND(N >= 2, T >= 2))
    env = u.obj(F, "MTSPEnv", cost_type=cost_type)

    def mk_in(u, B):
        return {"td": u.td(B, locs=((B, N, 2), "f"), reward=((B,), "f")), "actions": u.tensor("actions", (B, T), "i")}

    def req(u, ins, B):
        a = ins["actions"]
        return u.forall((B, T), lambda b, t: AND(a.at(b, t) >= 0, a.at(b, t) < N))

    rowlocal(u, "reward", mk_in, lambda u, ins: u.run(F, "MTSPEnv._get_reward", ins["td"], ins["actions"], selfobj=env), requires=req)


@unit("mtsp.rowlocal.reward.sum", file=F, func="MTSPEnv._get_reward", props=("C04", "C14"))
def _(u):
    _rowlocal_reward(u, "sum")


@unit("mtsp.rowlocal.reward.minmax", file=F, func="MTSPEnv._get_reward", props=("C04", "C14"))
def _(u):
    _rowlocal_reward(u, "minmax")
