"""FLP (facility location): problem definition and contracts of FLPEnv."""
import z3

from tvc import ops
from tvc.core import AND, IMPL, NOT, OR, cur, ite, mk, zint, zreal
from tvc.unit import spec, unit

from .envlib import B_, rowlocal, same_tensor, unchanged

F = "rl4co/envs/graph/flp/env.py"

# Problem definition: choose exactly k = to_choose distinct locations as facilities; objective = sum over all
# locations of the distance to the nearest chosen facility (reward = minus that). State shown to the policy:
# `distances[j]` = distance from j to its nearest chosen facility, `chosen`, mask = not yet chosen.

_N = [0]


def nearest(u, chosen, orig, B, N):
    """Spec function: D[b,j] = min over chosen facilities i of orig[b,i,j], given by its characterisation
    (a lower bound that is attained by a chosen facility; unique when some facility is chosen)."""
    _N[0] += 1
    D = z3.Function(f"nearest{_N[0]}", z3.IntSort(), z3.IntSort(), z3.RealSort())
    W = z3.Function(f"nearest_arg{_N[0]}", z3.IntSort(), z3.IntSort(), z3.IntSort())
    b, i, j = z3.Ints("fb fi fj")
    rng = z3.And(b >= 0, b < zint(B), j >= 0, j < zint(N))
    u.requires(z3.ForAll([b, i, j], z3.Implies(z3.And(rng, i >= 0, i < zint(N), chosen.at(b, i)), D(b, j) <= orig.at(b, i, j))))
    u.requires(z3.ForAll([b, j], z3.Implies(rng, z3.And(W(b, j) >= 0, W(b, j) < zint(N), chosen.at(b, W(b, j)), D(b, j) == orig.at(b, W(b, j), j))),
                         patterns=[D(b, j)]))
    return mk((B, N), "f", lambda I: D(zint(I[0]), zint(I[1])))


def state(u, B, N):
    return u.td(B, locs=((B, N, 2), "f"), orig_distances=((B, N, N), "f"), distances=((B, N), "f"), chosen=((B, N), "b"),
                to_choose=((B,), "i"), i=((B,), "i"), action_mask=((B, N), "b"), action=((B,), "i"))


def count_chosen(td):
    return ops.reduce("sum", ops.to_dtype(td["chosen"], "i"), -1, label="nchosen")


def state_parts(u, td, B, N):
    ch, am, i, k = td["chosen"], td["action_mask"], td["i"], td["to_choose"]
    cnt = count_chosen(td)
    return [
        ("mask-is-unchosen", u.forall((B, N), lambda b, j: am.at(b, j) == NOT(ch.at(b, j)))),
        # rows are stepped together: every row has made i choices (finished rows keep being stepped)
        ("counter", u.forall((B,), lambda b: AND(i.at(b) == i.at(0), i.at(b) >= 0, cnt.at(b) == i.at(b)))),
        ("quota", u.forall((B,), lambda b: AND(k.at(b) >= 1, k.at(b) <= N))),
    ]


def state_ok(u, td, B, N):
    return AND(*[f for _, f in state_parts(u, td, B, N)])


@unit("flp.step", file=F, func="FLPEnv._step", props=("C08", "C02", "C03", "C04"))
def _(u):
    from tvc.unit import sum_point_update

    B, N = u.dims("B N")
    td = state(u, B, N)
    u.requires(state_ok(u, td, B, N))
    a, am = td["action"], td["action_mask"]
    u.requires(u.forall((B,), lambda b: AND(a.at(b) >= 0, a.at(b) < N, am.at(b, a.at(b)))))
    pre = u.snapshot(td)
    env = u.obj(F, "FLPEnv")
    # the number of chosen facilities grows by one in every row (lemma sum.point, attached to the count that the
    # nonzero-enumeration rule forms inside the body)
    from tvc.unit import on_reduction, sum_point_update_rows

    c_pre0 = count_chosen(td)
    a_snap = td["action"].snap()
    on_reduction(u, "nzcount", lambda red: sum_point_update_rows(u, red, c_pre0, lambda r: a_snap((r,)), B))
    rv = z3.Int("step.count.g0")
    out = u.run(F, "FLPEnv._step", td, selfobj=env)
    b = u.idx((B,), "b")
    j = u.idx((N,), "j")
    ab = pre["action"].at(b)
    u.prove("step.action-allowed", NOT(pre["chosen"].at(b, ab)), tags=("C08",))
    same_tensor(u, "step.chosen", out["chosen"], (B, N), lambda bb, jj: OR(pre["chosen"].at(bb, jj), zint(jj) == pre["action"].at(bb)), tags=("C08",))
    same_tensor(u, "step.mask", out["action_mask"], (B, N), lambda bb, jj: NOT(out["chosen"].at(bb, jj)), tags=("C08", "C05"))
    same_tensor(u, "step.i", out["i"], (B,), lambda bb: pre["i"].at(bb) + 1, tags=("C08",))
    # done exactly when the quota is reached
    same_tensor(u, "step.done", out["done"], (B,), lambda bb: pre["i"].at(bb) + 1 >= pre["to_choose"].at(bb), tags=("C08", "C02"))
    # bookkeeping: distances = distance to the nearest chosen facility (C08), recomputed from the original matrix
    D = nearest(u, out["chosen"], pre["orig_distances"], B, N)
    same_tensor(u, "step.distances.shape", out["distances"], (B, N), lambda bb, jj: out["distances"].at(bb, jj), tags=("C08",))
    u.prove("step.distances.nearest-chosen", out["distances"].at(b, j) == D.at(b, j), tags=("C08", "C03"))
    c_pre, c_out = count_chosen(pre), count_chosen(out)
    sum_point_update(u, c_out, (rv,), c_pre, (rv,), pre["action"].at(rv))
    u.prove_forall("step.count", (B,), lambda r: c_out.at(r) == c_pre.at(r) + 1, tags=("C08",))
    for lbl, f in state_parts(u, out, B, N):
        u.prove(f"step.inv.{lbl}", f, tags=("C08", "C02"))
    unchanged(u, "step", pre, out, ["locs", "orig_distances", "to_choose"], tags=("C04",))
    u.prove("step.live", IMPL(c_out.at(b) < N, u.exists((N,), lambda k: out["action_mask"].at(b, k))), tags=("C02",))
    u.canary("step.done-late", out["done"].at(b) == (pre["i"].at(b) >= pre["to_choose"].at(b)))


@unit("flp.reset", file=F, func="FLPEnv._reset", props=("C08", "C02"))
def _(u):
    B, N = u.dims("B N")
    td = u.td(B, locs=((B, N, 2), "f"), orig_distances=((B, N, N), "f"), distances=((B, N), "f"), chosen=((B, N), "b"), to_choose=((B,), "i"))
    u.requires(u.forall((B,), lambda b: AND(td["to_choose"].at(b) >= 1, td["to_choose"].at(b) <= N)))
    pre = u.snapshot(td)
    env = u.obj(F, "FLPEnv", to=lambda dev: None)
    out = u.run(F, "FLPEnv._reset", td, [B], selfobj=env)
    same_tensor(u, "reset.chosen", out["chosen"], (B, N), lambda b, j: False, tags=("C08",), dtype="b")
    same_tensor(u, "reset.mask", out["action_mask"], (B, N), lambda b, j: True, tags=("C08",), dtype="b")
    same_tensor(u, "reset.i", out["i"], (B,), lambda b: 0, tags=("C08",), dtype="i")
    same_tensor(u, "reset.orig", out["orig_distances"], (B, N, N), lambda b, i, j: pre["orig_distances"].at(b, i, j), tags=("C08",))
    for lbl, f in state_parts(u, out, B, N):
        u.prove(f"reset.inv.{lbl}", f, tags=("C08", "C02"))


@unit("flp.reward", file=F, func="FLPEnv._get_reward", props=("C03", "C08"))
def _(u):
    B, N, T = u.dims("B N T")
    td = u.td(B, orig_distances=((B, N, N), "f"), distances=((B, N), "f"), chosen=((B, N), "b"))
    cnt = count_chosen(td)
    u.requires(u.forall((B,), lambda b: AND(cnt.at(b) == cnt.at(0), cnt.at(b) >= 1)))
    act = u.tensor("actions", (B, T), "i")
    env = u.obj(F, "FLPEnv", check_solution=False)
    r = u.run(F, "FLPEnv._get_reward", td, act, selfobj=env)
    D = nearest(u, td["chosen"], td["orig_distances"], B, N)
    want = ops.reduce("sum", D, -1, label="objective")
    same_tensor(u, "reward.eq", r, (B,), lambda b: -want.at(b), tags=("C03",))
    b = u.idx((B,), "cb")
    u.canary("reward.sign", r.at(b) == want.at(b))
