"""FJSP / JSSP: contracts of the loop-free building blocks of FJSPEnv (JSSPEnv inherits them).

_step itself combines them through a data-dependent row selection (masked_select) and a `while` loop; that
composition is covered by the bounded stand-in sched_episodes. Proved here, for all sizes: the clock transition,
the scheduling of one operation, the availability mask, the action translation and the reward.
"""
import z3

from tvc import ops
from tvc.core import AND, IMPL, NOT, OR, cur, ite, mk, zint, zreal
from tvc.unit import spec, unit

from .envlib import B_, rowlocal, same_tensor, unchanged

F = "rl4co/envs/scheduling/fjsp/env.py"


def state(u, B, J, M, O):
    return u.td(B, busy_until=((B, M), "f"), end_op_per_job=((B, J), "i"), start_op_per_job=((B, J), "i"), time=((B,), "f"),
                finish_times=((B, O), "f"), start_times=((B, O), "f"), next_op=((B, J), "i"), job_in_process=((B, J), "b"),
                job_done=((B, J), "b"), done=((B, 1), "b"), proc_times=((B, M, O), "f"), op_scheduled=((B, O), "b"),
                ma_assignment=((B, M, O), "f"), pad_mask=((B, O), "b"))


def ranges(u, td, B, J, O):
    no = td["next_op"]
    return u.forall((B, J), lambda b, j: AND(no.at(b, j) >= 0, no.at(b, j) < O))


@unit("fjsp.transit_to_next_time", file=F, func="FJSPEnv._transit_to_next_time", props=("C07", "C02", "C04"))
def _(u):
    B, J, M, O = u.dims("B J M O")
    td = state(u, B, J, M, O)
    sc = u.tensor("step_complete", (B,), "b")
    u.requires(ranges(u, td, B, J, O))
    bu, tm = td["busy_until"], td["time"]
    # a transition is only requested for rows where some machine is still busy (established by the caller: nothing
    # can be scheduled and the row is unfinished, so a running operation exists)
    u.requires(u.forall((B,), lambda b: IMPL(sc.at(b), u.exists((M,), lambda m: bu.at(b, m) > tm.at(b)))))
    pre = u.snapshot(td)
    env = u.obj(F, "FJSPEnv")
    out, dones = u.run(F, "FJSPEnv._transit_to_next_time", sc, td, selfobj=env)
    b = u.idx((B,), "b")
    j = u.idx((J,), "j")
    m = u.idx((M,), "m")
    t1 = out["time"].at(b)
    # the clock of a transiting row jumps to the earliest completion time of a busy machine; other rows keep their clock
    u.prove("transit.clock.other-rows-untouched", IMPL(NOT(sc.at(b)), t1 == pre["time"].at(b)), tags=("C04", "C07"))
    u.prove("transit.clock.is-a-completion-time", IMPL(sc.at(b), u.exists((M,), lambda k: AND(pre["busy_until"].at(b, k) > pre["time"].at(b), t1 == pre["busy_until"].at(b, k)))), tags=("C07",))
    u.prove("transit.clock.is-the-earliest", IMPL(AND(sc.at(b), pre["busy_until"].at(b, m) > pre["time"].at(b)), t1 <= pre["busy_until"].at(b, m)), tags=("C07",))
    u.prove("transit.clock.advances", IMPL(sc.at(b), t1 > pre["time"].at(b)), tags=("C02",))
    # a job is released exactly when it is in process and its current operation has completed by the new clock
    nxt = pre["next_op"].at(b, j)
    fin = AND(pre["job_in_process"].at(b, j), pre["finish_times"].at(b, nxt) <= t1)
    last = nxt == pre["end_op_per_job"].at(b, j)
    u.prove("transit.next_op", out["next_op"].at(b, j) == ite(AND(fin, NOT(last)), nxt + 1, nxt), tags=("C07",))
    u.prove("transit.job_in_process", out["job_in_process"].at(b, j) == AND(pre["job_in_process"].at(b, j), NOT(fin)), tags=("C07",))
    u.prove("transit.job_done", out["job_done"].at(b, j) == OR(pre["job_done"].at(b, j), AND(fin, last)), tags=("C07", "C02"))
    u.prove("transit.idle-jobs-untouched", IMPL(NOT(pre["job_in_process"].at(b, j)), AND(out["next_op"].at(b, j) == nxt, out["job_done"].at(b, j) == pre["job_done"].at(b, j))), tags=("C07",))
    u.prove("transit.done.iff-all-jobs-done", out["done"].at(b, 0) == u.forall((J,), lambda k: out["job_done"].at(b, k)), tags=("C02", "C07"))
    same_tensor(u, "transit.dones", dones, (B,), lambda bb: out["done"].at(bb, 0), tags=("C02",))
    unchanged(u, "transit", pre, out, ["busy_until", "finish_times", "start_times", "proc_times", "op_scheduled", "ma_assignment", "end_op_per_job"], tags=("C04",))
    u.canary("transit.releases-idle-jobs", out["job_done"].at(b, j) == OR(pre["job_done"].at(b, j), AND(pre["finish_times"].at(b, nxt) <= t1, last)))


@unit("fjsp.rowlocal.transit", file=F, func="FJSPEnv._transit_to_next_time", props=("C04", "C14"))
def _(u):
    J, M, O = u.dims("J M O")
    env = u.obj(F, "FJSPEnv")

    def mk_in(u, B):
        return {"sc": u.tensor("step_complete", (B,), "b"), "td": state(u, B, J, M, O)}

    def req(u, ins, B):
        td, sc = ins["td"], ins["sc"]
        return AND(ranges(u, td, B, J, O), u.forall((B,), lambda b: IMPL(sc.at(b), u.exists((M,), lambda m: td["busy_until"].at(b, m) > td["time"].at(b)))))

    rowlocal(u, "transit", mk_in, lambda u, ins: u.run(F, "FJSPEnv._transit_to_next_time", ins["sc"], ins["td"], selfobj=env)[0], requires=req)


def mask_state(u, B, J, M, O):
    return u.td(B, busy_until=((B, M), "f"), time=((B,), "f"), next_op=((B, J), "i"), job_in_process=((B, J), "b"),
                job_done=((B, J), "b"), done=((B, 1), "b"), proc_times=((B, M, O), "f"))


def can_start(td, b, j, m):
    """job j may start its next operation on machine m now (problem definition)."""
    nxt = td["next_op"].at(b, j)
    return AND(NOT(td["job_done"].at(b, j)), NOT(td["job_in_process"].at(b, j)),
               NOT(td["busy_until"].at(b, m) > td["time"].at(b)), td["proc_times"].at(b, m, nxt) != 0)


@unit("fjsp.get_action_mask", file=F, func="FJSPEnv.get_action_mask", props=("C07", "C05", "C02", "C04"))
def _(u):
    B, J, M, O = u.dims("B J M O")
    for mode in (True, False):
        td = mask_state(u, B, J, M, O)
        u.requires(u.forall((B, J), lambda b, j: AND(td["next_op"].at(b, j) >= 0, td["next_op"].at(b, j) < O)))
        pre = u.snapshot(td)
        env = u.obj(F, "FJSPEnv", mask_no_ops=mode, _num_jobs=J, _num_mas=M)
        u.inline((F, "FJSPEnv._get_job_machine_availability"))
        m_ = u.run(F, "FJSPEnv.get_action_mask", td, selfobj=env, record=(mode is True))
        tag = "no-wait" if mode else "wait"
        same_tensor(u, f"mask.{tag}.shape", m_, (B, 1 + J * M), lambda bb, aa: m_.at(bb, aa), tags=("C04",))
        b = u.idx((B,), f"b_{tag}")
        j, m = u.idx((J, M), f"j_{tag} m_{tag}")
        # action 1 + j*M + m  <=>  job j can start its next operation on machine m (eligible, idle machine, job waiting)
        u.prove(f"mask.{tag}.job-machine.iff", m_.at(b, 1 + j * M + m) == can_start(pre, b, j, m), tags=("C07", "C05"))
        if mode:
            u.prove(f"mask.{tag}.noop.iff-done", m_.at(b, 0) == pre["done"].at(b, 0), tags=("C07", "C02"))
        else:
            some_running = u.exists((J,), lambda k: pre["job_in_process"].at(b, k))
            u.prove(f"mask.{tag}.noop.iff", m_.at(b, 0) == OR(pre["done"].at(b, 0), some_running), tags=("C07", "C02"))
        u.canary(f"mask.{tag}.ignores-busy-machine", m_.at(b, 1 + j * M + m) == AND(NOT(pre["job_done"].at(b, j)), NOT(pre["job_in_process"].at(b, j)), pre["proc_times"].at(b, m, pre["next_op"].at(b, j)) != 0))


@unit("fjsp.translate_action", file=F, func="FJSPEnv._translate_action", props=("C07",))
def _(u):
    B, J, M, O = u.dims("B J M O")
    td = u.td(B, action=((B,), "i"), next_op=((B, J), "i"))
    a = td["action"]
    u.requires(u.forall((B,), lambda b: AND(a.at(b) >= 0, a.at(b) < J * M)))
    env = u.obj(F, "FJSPEnv", _num_mas=M)
    job, op, ma = u.run(F, "FJSPEnv._translate_action", td, selfobj=env)
    b = u.idx((B,), "b")
    j, m = u.idx((J, M), "j m")
    # inverse of the mask layout: action j*M + m means (job j, machine m), the operation is job j's next one
    u.prove("translate.inverse-of-layout", IMPL(a.at(b) == j * M + m, AND(job.at(b) == j, ma.at(b) == m, op.at(b) == td["next_op"].at(b, j))))
    u.prove("translate.in-range", AND(job.at(b) >= 0, job.at(b) < J, ma.at(b) >= 0, ma.at(b) < M))


@unit("fjsp.make_step", file=F, func="FJSPEnv._make_step", props=("C07", "C03", "C04"))
def _(u):
    B, J, M, O = u.dims("B J M O")
    td = u.td(B, action=((B,), "i"), busy_until=((B, M), "f"), time=((B,), "f"), next_op=((B, J), "i"), job_in_process=((B, J), "b"),
              proc_times=((B, M, O), "f"), op_scheduled=((B, O), "b"), start_times=((B, O), "f"), finish_times=((B, O), "f"),
              ma_assignment=((B, M, O), "f"), ops_ma_adj=((B, M, O), "f"), num_eligible=((B, O), "f"),
              ops_sequence_order=((B, O), "f"), job_ops_adj=((B, J, O), "f"))
    a = td["action"]
    u.requires(u.forall((B, J), lambda b, j: AND(td["next_op"].at(b, j) >= 0, td["next_op"].at(b, j) < O)))
    # mask-confined: the (shifted) action encodes a job that can start its next operation on an idle, eligible machine
    sel = lambda b: (a.at(b) / zint(M), a.at(b) % zint(M))
    u.requires(u.forall((B,), lambda b: AND(a.at(b) >= 0, a.at(b) < J * M,
                                             NOT(td["busy_until"].at(b, a.at(b) % zint(M)) > td["time"].at(b)),
                                             td["proc_times"].at(b, a.at(b) % zint(M), td["next_op"].at(b, a.at(b) / zint(M))) > 0)))
    pre = u.snapshot(td)
    env = u.obj(F, "FJSPEnv", _num_mas=M)
    u.inline((F, "FJSPEnv._translate_action"))
    out = u.run(F, "FJSPEnv._make_step", td, selfobj=env)
    b = u.idx((B,), "b")
    o = u.idx((O,), "o")
    m = u.idx((M,), "m")
    jb, mb = sel(b)
    op = pre["next_op"].at(b, jb)
    p = pre["proc_times"].at(b, mb, op)
    # the operation starts now on the chosen machine and runs for exactly its processing time there
    u.prove("make_step.start", out["start_times"].at(b, o) == ite(o == op, pre["time"].at(b), pre["start_times"].at(b, o)), tags=("C07",))
    u.prove("make_step.finish", out["finish_times"].at(b, o) == ite(o == op, pre["time"].at(b) + p, pre["finish_times"].at(b, o)), tags=("C07", "C03"))
    u.prove("make_step.machine-busy-until-finish", out["busy_until"].at(b, m) == ite(m == mb, pre["time"].at(b) + p, pre["busy_until"].at(b, m)), tags=("C07",))
    u.prove("make_step.assignment", out["ma_assignment"].at(b, m, o) == ite(AND(m == mb, o == op), 1, pre["ma_assignment"].at(b, m, o)), tags=("C07",))
    u.prove("make_step.scheduled-once", out["op_scheduled"].at(b, o) == OR(o == op, pre["op_scheduled"].at(b, o)), tags=("C07",))
    j = u.idx((J,), "j")
    u.prove("make_step.job-in-process", out["job_in_process"].at(b, j) == OR(j == jb, pre["job_in_process"].at(b, j)), tags=("C07",))
    # a scheduled operation can never be offered again: its processing times are cleared on every machine
    u.prove("make_step.op-no-longer-eligible", out["proc_times"].at(b, m, o) == ite(o == op, 0, pre["proc_times"].at(b, m, o)), tags=("C07", "C05"))
    u.canary("make_step.finish-ignores-machine", out["finish_times"].at(b, op) == pre["time"].at(b) + pre["proc_times"].at(b, 0, op))


@unit("fjsp.reward", file=F, func="FJSPEnv._get_reward", props=("C03", "C07"))
def _(u):
    B, O = u.dims("B O")
    td = u.td(B, finish_times=((B, O), "f"), pad_mask=((B, O), "b"), done=((B, 1), "b"))
    u.requires(u.forall((B,), lambda b: AND(td["done"].at(b, 0), u.exists((O,), lambda k: NOT(td["pad_mask"].at(b, k))))))
    env = u.obj(F, "FJSPEnv", stepwise_reward=False)
    r = u.run(F, "FJSPEnv._get_reward", td, None, selfobj=env)
    b = u.idx((B,), "b")
    o = u.idx((O,), "o")
    same_tensor(u, "reward.shape", r, (B,), lambda bb: r.at(bb), tags=("C03",))
    # reward = -(latest completion time over the real, un-padded operations)
    u.prove("reward.upper-bound", IMPL(NOT(td["pad_mask"].at(b, o)), -r.at(b) >= td["finish_times"].at(b, o)), tags=("C03", "C07"))
    u.prove("reward.attained", u.exists((O,), lambda k: AND(NOT(td["pad_mask"].at(b, k)), -r.at(b) == td["finish_times"].at(b, k))), tags=("C03", "C07"))


JS = "rl4co/envs/scheduling/jssp/env.py"


@unit("jssp.get_action_mask", file=JS, func="JSSPEnv.get_action_mask", props=("C07", "C05", "C02", "C04"))
def _(u):
    # JSSP actions are jobs (0 = wait): job j is offered iff its next operation can start on SOME machine now
    # (in JSSP exactly one machine is eligible per operation; the mask reduces the job x machine availability over machines)
    B, J, M, O = u.dims("B J M O")
    for mode in (True, False):
        td = mask_state(u, B, J, M, O)
        u.requires(u.forall((B, J), lambda b, j: AND(td["next_op"].at(b, j) >= 0, td["next_op"].at(b, j) < O)))
        pre = u.snapshot(td)
        env = u.obj(JS, "JSSPEnv", mask_no_ops=mode, _num_jobs=J, _num_mas=M)
        u.inline((F, "FJSPEnv._get_job_machine_availability"))
        m_ = u.run(JS, "JSSPEnv.get_action_mask", td, selfobj=env, record=(mode is True))
        tag = "no-wait" if mode else "wait"
        same_tensor(u, f"jmask.{tag}.shape", m_, (B, 1 + J), lambda bb, aa: m_.at(bb, aa), tags=("C04",))
        b = u.idx((B,), f"jb_{tag}")
        j = u.idx((J,), f"jj_{tag}")
        u.prove(f"jmask.{tag}.job.iff", m_.at(b, 1 + j) == u.exists((M,), lambda m: can_start(pre, b, j, m)), tags=("C07", "C05"))
        if mode:
            u.prove(f"jmask.{tag}.noop.iff-done", m_.at(b, 0) == pre["done"].at(b, 0), tags=("C07", "C02"))
        else:
            some_running = u.exists((J,), lambda k: pre["job_in_process"].at(b, k))
            u.prove(f"jmask.{tag}.noop.iff", m_.at(b, 0) == OR(pre["done"].at(b, 0), some_running), tags=("C07", "C02"))
        u.canary(f"jmask.{tag}.needs-all-machines", m_.at(b, 1 + j) == u.forall((M,), lambda m: can_start(pre, b, j, m)))


@spec("rl4co/envs/common/base.py", "RL4COEnvBase.__init__")
def env_base_init_spec(u, selfobj, *args, **kwargs):
    """TorchRL EnvBase construction (devices, specs, seeds): outside the properties; keeps the keyword options as attributes."""
    for k, v in kwargs.items():
        selfobj._attrs[k] = v
    return None


@unit("jssp.init.configuration", file=JS, func="JSSPEnv.__init__", props=("C05", "C07", "C02"))
def _(u):
    # configuration plumbing: the `mask_no_ops` / `check_mask` / `stepwise_reward` a user passes to JSSPEnv / FJSPEnv is the one
    # the mask and the step use (JSSPEnv forwards to FJSPEnv.__init__; a swapped parameter would silently fall back to the default
    # and e.g. never offer waiting, hiding every schedule that needs an idle machine)
    gen = u.ns(num_mas=3, num_jobs=4, max_ops_per_job=3)
    base_init = {}
    u.stub(JSSPGenerator=lambda **kw: gen, JSSPFileGenerator=lambda **kw: gen, FJSPGenerator=lambda **kw: gen, FJSPFileGenerator=lambda **kw: gen)
    u.inline((F, "FJSPEnv.__init__"))
    from tvc.unit import spec as _spec  # noqa: F401
    for cls, file in (("JSSPEnv", JS), ("FJSPEnv", F)):
        for mno in (True, False):
            env = u.obj(file, cls, _make_spec=lambda g: None)
            u.run(file, f"{cls}.__init__", gen, {}, selfobj=env, record=False, mask_no_ops=mno)
            u.prove(f"{cls}.mask_no_ops={mno}.keyword", env._attrs.get("mask_no_ops") is mno and env._attrs.get("check_mask") is False and env._attrs.get("stepwise_reward") is False)
        env = u.obj(file, cls, _make_spec=lambda g: None)
        u.run(file, f"{cls}.__init__", gen, {}, False, selfobj=env, record=False)
        u.prove(f"{cls}.mask_no_ops.third-positional", env._attrs.get("mask_no_ops") is False and env._attrs.get("check_mask") is False)
    env = u.obj(F, "FJSPEnv", _make_spec=lambda g: None)
    u.run(F, "FJSPEnv.__init__", gen, {}, selfobj=env, record=False, check_mask=True, stepwise_reward=True)
    u.prove("FJSPEnv.other-flags", env._attrs.get("mask_no_ops") is True and env._attrs.get("check_mask") is True and env._attrs.get("stepwise_reward") is True
            and env._attrs.get("_num_mas") == 3 and env._attrs.get("_num_jobs") == 4 and env._attrs.get("_n_ops_max") == 12)
