"""PDP (pickup and delivery): problem definition and contracts of PDPEnv."""
import z3

from tvc import ops
from tvc.core import AND, IMPL, NOT, OR, cur, ite, mk, zint, zreal
from tvc.unit import spec, unit, sum_point_update

from .envlib import B_, rowlocal, same_tensor, unchanged, depot_tour_reward_unit, depot_tour_reward_rowlocal

F = "rl4co/envs/routing/pdp/env.py"

# Problem definition: nodes 1..H are pickups, H+1..2H deliveries; delivery H+p belongs to pickup p.
# Every node is visited exactly once; a delivery only after its pickup. enabled(j): j unvisited and
# (j is a pickup, or the pickup j-H has been visited). The tour starts (and ends) at the depot.


def state(u, B, H):
    N = 2 * H
    return u.td(B, locs=((B, N + 1, 2), "f"), current_node=((B, 1), "i"), to_deliver=((B, N + 1), "b"),
                available=((B, N + 1), "b"), i=((B, 1), "i"), action_mask=((B, N + 1), "b"))


def enabled(td, b, j, H):
    """node j >= 1."""
    picked = NOT(td["available"].at(b, zint(j) - zint(H)))
    return AND(td["available"].at(b, j), OR(zint(j) <= zint(H), picked))


def state_ok(u, td, B, H):
    N = 2 * H
    av, tdl, am = td["available"], td["to_deliver"], td["action_mask"]
    return AND(
        u.forall((B, (0, H + 1)), lambda b, p: tdl.at(b, p)),
        # a delivery is released exactly when its pickup has been visited
        u.forall((B, (H + 1, N + 1)), lambda b, q: tdl.at(b, q) == NOT(av.at(b, zint(q) - zint(H)))),
        # the advertised mask only contains unvisited, released nodes
        u.forall((B, N + 1), lambda b, j: IMPL(am.at(b, j), AND(av.at(b, j), tdl.at(b, j)))),
    )


@unit("pdp.step", file=F, func="PDPEnv._step", props=("C01", "C02", "C04", "C05"))
def _(u):
    B, H = u.dims("B H")
    N = 2 * H
    td = state(u, B, H)
    td.set("action", u.tensor("action", (B,), "i"))
    u.requires(state_ok(u, td, B, H))
    a, am = td["action"], td["action_mask"]
    u.requires(u.forall((B,), lambda b: AND(a.at(b) >= 0, a.at(b) <= N, am.at(b, a.at(b)))))
    pre = u.snapshot(td)
    out = u.run(F, "PDPEnv._step", td)
    b = u.idx((B,), "b")
    j = u.idx(((1, N + 1),), "j")
    ab = pre["action"].at(b)
    # C01: the admitted action is unvisited and, for a delivery, its pickup has been visited
    u.prove("step.action-enabled", IMPL(ab != 0, enabled(pre, b, ab, H)), tags=("C01",))
    same_tensor(u, "step.available", out["available"], (B, N + 1),
                lambda bb, jj: AND(pre["available"].at(bb, jj), zint(jj) != pre["action"].at(bb)), tags=("C01",))
    same_tensor(u, "step.current_node", out["current_node"], (B, 1), lambda bb, _: pre["action"].at(bb), tags=("C01",))
    # the new mask is exactly the enabled set of the problem definition (C01 soundness, C05 completeness)
    u.prove("step.mask.iff", out["action_mask"].at(b, j) == enabled(out, b, j, H), tags=("C01", "C05"))
    u.prove("step.mask.depot", out["action_mask"].at(b, 0) == out["available"].at(b, 0), tags=("C01", "C05"))
    none_left = NOT(u.exists((N + 1,), lambda k: out["available"].at(b, k)))
    same_tensor(u, "step.done.shape", out["done"], (B,), lambda bb: out["done"].at(bb), tags=("C02",))
    u.prove("step.done.iff", out["done"].at(b) == none_left, tags=("C01", "C02"))
    u.prove("step.inv", state_ok(u, out, B, H), tags=("C01", "C02"))
    # C02: while unfinished some node is advertised
    u.prove("step.live", IMPL(NOT(out["done"].at(b)), u.exists((N + 1,), lambda k: out["action_mask"].at(b, k))), tags=("C02",))
    cnt_pre = ops.reduce("sum", ops.to_dtype(pre["available"], "i"), -1, label="unvisited_pre")
    cnt_out = ops.reduce("sum", ops.to_dtype(out["available"], "i"), -1, label="unvisited_post")
    sum_point_update(u, cnt_out, (b,), cnt_pre, (b,), ab)
    u.prove("step.variant", cnt_out.at(b) == cnt_pre.at(b) - 1, tags=("C02",))
    same_tensor(u, "step.i", out["i"], (B, 1), lambda bb, _: pre["i"].at(bb, 0) + 1, tags=("C02",))
    unchanged(u, "step", pre, out, ["locs"], tags=("C04",))
    u.canary("step.delivery-before-pickup", IMPL(j > H, out["action_mask"].at(b, j) == out["available"].at(b, j)))


def _reset(u, force):
    B, H = u.dims("B H")
    N = 2 * H
    td = u.td(B, depot=((B, 2), "f"), locs=((B, N, 2), "f"))
    pre = u.snapshot(td)
    env = u.obj(F, "PDPEnv", generator=u.ns(num_loc=N), force_start_at_depot=force)
    out = u.run(F, "PDPEnv._reset", td, [B], selfobj=env)
    same_tensor(u, "reset.locs", out["locs"], (B, N + 1, 2), lambda b, j, c: ite(zint(j) == 0, pre["depot"].at(b, c), pre["locs"].at(b, zint(j) - 1, c)), tags=("C01",))
    same_tensor(u, "reset.to_deliver", out["to_deliver"], (B, N + 1), lambda b, j: zint(j) <= zint(H), tags=("C01",), dtype="b")
    if force:
        same_tensor(u, "reset.available", out["available"], (B, N + 1), lambda b, j: True, tags=("C01",), dtype="b")
        same_tensor(u, "reset.action_mask", out["action_mask"], (B, N + 1), lambda b, j: zint(j) == 0, tags=("C01", "C05"), dtype="b")
    else:
        same_tensor(u, "reset.available", out["available"], (B, N + 1), lambda b, j: zint(j) != 0, tags=("C01",), dtype="b")
        same_tensor(u, "reset.action_mask", out["action_mask"], (B, N + 1), lambda b, j: AND(zint(j) >= 1, zint(j) <= zint(H)), tags=("C01", "C05"), dtype="b")
    same_tensor(u, "reset.current_node", out["current_node"], (B, 1), lambda b, _: 0, tags=("C01",), dtype="i")
    same_tensor(u, "reset.i", out["i"], (B, 1), lambda b, _: 0, tags=("C02",), dtype="i")
    u.prove("reset.inv", state_ok(u, out, B, H), tags=("C01", "C02"))
    b = u.idx((B,), "b")
    u.prove("reset.live", u.exists((N + 1,), lambda k: out["action_mask"].at(b, k)), tags=("C02",))


@unit("pdp.reset.force-depot", file=F, func="PDPEnv._reset", props=("C01", "C02", "C05"))
def _(u):
    _reset(u, True)


@unit("pdp.reset.free-start", file=F, func="PDPEnv._reset", props=("C01", "C02", "C05"))
def _(u):
    _reset(u, False)


def _whole_state(u, B, N):
    """the state TensorDict with arbitrary bookkeeping fields (the reward depends on the coordinates and the actions only)"""
    return u.td(B, locs=((B, N + 1, 2), "f"), current_node=((B, 1), "i"), to_deliver=((B, N + 1), "b"),
                available=((B, N + 1), "b"), i=((B, 1), "i"), action_mask=((B, N + 1), "b"))


@unit("pdp.reward", file=F, func="PDPEnv._get_reward", props=("C03",))
def _(u):
    depot_tour_reward_unit(u, F, "PDPEnv._get_reward", "PDPEnv", static=True, make_td=_whole_state)


@unit("pdp.rowlocal.reward", file=F, func="PDPEnv._get_reward", props=("C04", "C14"))
def _(u):
    depot_tour_reward_rowlocal(u, F, "PDPEnv._get_reward", "PDPEnv", static=True, make_td=_whole_state)


@unit("pdp.rowlocal.step", file=F, func="PDPEnv._step", props=("C04", "C14"))
def _(u):
    H = u.dim("H")
    N = 2 * H

    def mk_in(u, B):
        td = state(u, B, H)
        td.set("action", u.tensor("action", (B,), "i"))
        return td

    def req(u, td, B):
        a = td["action"]
        return AND(state_ok(u, td, B, H), u.forall((B,), lambda b: AND(a.at(b) >= 0, a.at(b) <= N)))

    rowlocal(u, "step", mk_in, lambda u, td: u.run(F, "PDPEnv._step", td), requires=req)


@unit("pdp.reward.padding", file=F, func="PDPEnv._get_reward", props=("C04", "C03"))
def _(u):
    from .envlib import reward_pad_invariant

    H = u.dim("H")
    reward_pad_invariant(u, F, "PDPEnv._get_reward", "PDPEnv", lambda u, B: u.td(B, locs=((B, 2 * H + 1, 2), "f")), 2 * H + 1, static=True)
