"""PCTSP / SPCTSP: problem definition and contracts (SPCTSPEnv inherits every method)."""
import z3

from tvc import ops
from tvc.core import AND, IMPL, NOT, OR, cur, ite, mk, zint, zreal
from tvc.unit import spec, unit

from .envlib import B_, rowlocal, same_tensor, unchanged

F = "rl4co/envs/routing/pctsp/env.py"
FS = "rl4co/envs/routing/spctsp/env.py"

# Problem definition: start at the depot, visit customers (each at most once), return to the
# depot; the return is allowed only once the collected prize reaches the requirement (prizes are
# normalised so that the requirement is 1) or every customer has been visited. Objective:
# tour length + penalties of the customers not visited.


def state(u, B, N):
    return u.td(B, locs=((B, N + 1, 2), "f"), current_node=((B,), "i"), expected_prize=((B, N), "f"),
                real_prize=((B, N + 1), "f"), penalty=((B, N + 1), "f"), cur_total_prize=((B,), "f"),
                cur_total_penalty=((B,), "f"), visited=((B, N + 1), "b"), prize_required=((B,), "f"),
                i=((B,), "i"), action_mask=((B, N + 1), "b"))


def all_customers_visited(u, td, b, N):
    return u.forall(((1, N + 1),), lambda k: td["visited"].at(b, k))


def depot_enabled(u, td, b, N):
    return OR(td["cur_total_prize"].at(b) >= td["prize_required"].at(b), all_customers_visited(u, td, b, N))


def customer_enabled(td, b, j):
    return AND(NOT(td["visited"].at(b, j)), NOT(td["visited"].at(b, 0)))


def state_ok(u, td, B, N):
    cn, v, i = td["current_node"], td["visited"], td["i"]
    return AND(
        u.forall((B,), lambda b: AND(cn.at(b) >= 0, cn.at(b) <= N, i.at(b) >= 0, td["prize_required"].at(b) == 1,
                                     td["real_prize"].at(b, 0) == 0, td["penalty"].at(b, 0) == 0)),
        u.forall((B, N + 1), lambda b, j: td["real_prize"].at(b, j) >= 0),
        u.forall((B,), lambda b: IMPL(v.at(b, 0), AND(cn.at(b) == 0, i.at(b) >= 1, depot_enabled(u, td, b, N)))),
        u.forall((B,), lambda b: IMPL(cn.at(b) != 0, v.at(b, cn.at(b)))),
        u.forall((B,), lambda b: IMPL(i.at(b) == 0, AND(cn.at(b) == 0, NOT(v.at(b, 0))))),
    )


def mask_spec(u, td, N):
    B = td["visited"].shape[0]
    v = td["visited"]
    cnt = ops.reduce("sum", ops.to_dtype(ops.getitem(v, (Ellipsis, slice(1, None))), "i"), -1, label="nvisited")

    def elem(I):
        b, j = I
        dep = NOT(AND(td["cur_total_prize"].at(b) < 1, cnt.at(b) < zint(N)))
        cus = lambda jj: AND(NOT(v.at(b, jj)), NOT(v.at(b, 0)))
        if isinstance(j, int):
            return B_(dep) if j == 0 else B_(cus(j))
        return ite(zint(j) == 0, B_(dep), B_(cus(j)))

    return mk((B, N + 1), "b", elem)


@spec(F, "PCTSPEnv.get_action_mask")
def get_action_mask_spec(u, selfobj, td):
    return mask_spec(u, td, td["visited"].shape[1] - 1)


@unit("pctsp.get_action_mask", file=F, func="PCTSPEnv.get_action_mask", props=("C01", "C02", "C05", "C04"))
def _(u):
    B, N = u.dims("B N")
    td = state(u, B, N)
    u.requires(state_ok(u, td, B, N))
    pre = u.snapshot(td)
    m = u.run(F, "PCTSPEnv.get_action_mask", td)
    b = u.idx((B,), "b")
    j = u.idx(((1, N + 1),), "j")
    u.prove("mask.customer.iff", m.at(b, j) == customer_enabled(pre, b, j), tags=("C01", "C05"))
    u.prove("mask.depot.sound", IMPL(m.at(b, 0), depot_enabled(u, pre, b, N)), tags=("C01",))
    # C05: collected prize exactly reaching the requirement opens the depot
    u.prove("mask.depot.complete", IMPL(depot_enabled(u, pre, b, N), m.at(b, 0)), tags=("C05",))
    u.prove("mask.depot.exact-prize", IMPL(pre["cur_total_prize"].at(b) == pre["prize_required"].at(b), m.at(b, 0)), tags=("C05",))
    ms = mask_spec(u, pre, N)
    same_tensor(u, "mask.eq-spec", m, (B, N + 1), lambda bb, jj: ms.at(bb, jj), tags=("C01", "C05"))
    u.prove("mask.live", u.exists((N + 1,), lambda k: m.at(b, k)), tags=("C02",))
    unchanged(u, "mask", pre, td, ["visited", "cur_total_prize", "real_prize", "penalty", "current_node", "i"], tags=("C04",))
    u.canary("mask.depot-strict", IMPL(m.at(b, 0), OR(pre["cur_total_prize"].at(b) > 1, all_customers_visited(u, pre, b, N))))
    u.canary("mask.depot-always", m.at(b, 0))


def _step(u, file, cls):
    B, N = u.dims("B N")
    td = state(u, B, N)
    td.set("action", u.tensor("action", (B,), "i"))
    u.requires(state_ok(u, td, B, N))
    a = td["action"]
    ms = mask_spec(u, td, N)
    am = td["action_mask"]
    u.requires(u.forall((B, N + 1), lambda b, j: am.at(b, j) == ms.at(b, j)))
    u.requires(u.forall((B,), lambda b: AND(a.at(b) >= 0, a.at(b) <= N, ms.at(b, a.at(b)))))
    pre = u.snapshot(td)
    env = u.obj(file, cls)
    out = u.run(F, "PCTSPEnv._step", td, selfobj=env)
    b = u.idx((B,), "b")
    ab = pre["action"].at(b)
    u.prove("step.action-enabled", ite(ab == 0, depot_enabled(u, pre, b, N), customer_enabled(pre, b, ab)), tags=("C01",))
    same_tensor(u, "step.prize", out["cur_total_prize"], (B,),
                lambda bb: pre["cur_total_prize"].at(bb) + pre["real_prize"].at(bb, pre["action"].at(bb)), tags=("C01", "C03"))
    same_tensor(u, "step.penalty", out["cur_total_penalty"], (B,),
                lambda bb: pre["cur_total_penalty"].at(bb) + pre["penalty"].at(bb, pre["action"].at(bb)), tags=("C03",))
    same_tensor(u, "step.visited", out["visited"], (B, N + 1),
                lambda bb, jj: OR(zint(jj) == pre["action"].at(bb), pre["visited"].at(bb, jj)), tags=("C01",))
    same_tensor(u, "step.current_node", out["current_node"], (B,), lambda bb: pre["action"].at(bb), tags=("C01",))
    same_tensor(u, "step.i", out["i"], (B,), lambda bb: pre["i"].at(bb) + 1, tags=("C02",))
    same_tensor(u, "step.done", out["done"], (B,), lambda bb: AND(pre["action"].at(bb) == 0, pre["i"].at(bb) > 0), tags=("C01", "C02"))
    # minimum prize collected whenever the tour is closed (C01)
    u.prove("step.done-implies-prize", IMPL(out["done"].at(b), depot_enabled(u, out, b, N)), tags=("C01",))
    u.prove("step.inv", state_ok(u, out, B, N), tags=("C01", "C02"))
    msn = mask_spec(u, out, N)
    same_tensor(u, "step.mask-consistent", out["action_mask"], (B, N + 1), lambda bb, jj: msn.at(bb, jj), tags=("C01", "C05"))
    unchanged(u, "step", pre, out, ["locs", "real_prize", "penalty", "expected_prize", "prize_required"], tags=("C04",))
    fin = AND(pre["visited"].at(b, 0), pre["i"].at(b) >= 2)
    u.prove("step.done-stable", IMPL(fin, AND(ab == 0, out["done"].at(b))), tags=("C02",))
    u.prove("step.pad-idem", IMPL(fin, AND(out["cur_total_prize"].at(b) == pre["cur_total_prize"].at(b),
                                          out["cur_total_penalty"].at(b) == pre["cur_total_penalty"].at(b))), tags=("C04",))
    u.canary("step.prize-not-accumulated", out["cur_total_prize"].at(b) == pre["cur_total_prize"].at(b))


@unit("pctsp.step", file=F, func="PCTSPEnv._step", props=("C01", "C02", "C03", "C04", "C05"))
def _(u):
    _step(u, F, "PCTSPEnv")


@unit("spctsp.step", file=F, func="PCTSPEnv._step", props=("C01", "C02", "C03", "C04", "C05"), note="SPCTSPEnv inherits PCTSPEnv._step")
def _(u):
    _step(u, FS, "SPCTSPEnv")


def _reset(u, file, cls, stochastic):
    B, N = u.dims("B N")
    td = u.td(B, depot=((B, 2), "f"), locs=((B, N, 2), "f"), deterministic_prize=((B, N), "f"),
              stochastic_prize=((B, N), "f"), penalty=((B, N), "f"))
    for k in ("deterministic_prize", "stochastic_prize"):
        u.requires(u.forall((B, N), lambda b, j, k=k: td[k].at(b, j) >= 0))
    pre = u.snapshot(td)
    env = u.obj(file, cls, generator=u.ns(num_loc=N, prize_required=1.0))
    out = u.run(F, "PCTSPEnv._reset", td, [B], selfobj=env)
    src = "stochastic_prize" if stochastic else "deterministic_prize"
    same_tensor(u, "reset.real_prize", out["real_prize"], (B, N + 1), lambda b, j: ite(zint(j) == 0, 0, pre[src].at(b, zint(j) - 1)), tags=("C01", "C03"))
    same_tensor(u, "reset.penalty", out["penalty"], (B, N + 1), lambda b, j: ite(zint(j) == 0, 0, pre["penalty"].at(b, zint(j) - 1)), tags=("C03",))
    same_tensor(u, "reset.expected_prize", out["expected_prize"], (B, N), lambda b, j: pre["deterministic_prize"].at(b, j), tags=("C03",))
    same_tensor(u, "reset.locs", out["locs"], (B, N + 1, 2), lambda b, j, c: ite(zint(j) == 0, pre["depot"].at(b, c), pre["locs"].at(b, zint(j) - 1, c)), tags=("C01",))
    same_tensor(u, "reset.visited", out["visited"], (B, N + 1), lambda b, j: False, tags=("C01",), dtype="b")
    same_tensor(u, "reset.cur_total_prize", out["cur_total_prize"], (B,), lambda b: 0, tags=("C01",))
    same_tensor(u, "reset.prize_required", out["prize_required"], (B,), lambda b: 1, tags=("C01",))
    same_tensor(u, "reset.i", out["i"], (B,), lambda b: 0, tags=("C02",), dtype="i")
    u.prove("reset.inv", state_ok(u, out, B, N), tags=("C01", "C02"))
    msn = mask_spec(u, out, N)
    same_tensor(u, "reset.mask-consistent", out["action_mask"], (B, N + 1), lambda bb, jj: msn.at(bb, jj), tags=("C01", "C05"))


@unit("pctsp.reset", file=F, func="PCTSPEnv._reset", props=("C01", "C02", "C03", "C05"))
def _(u):
    _reset(u, F, "PCTSPEnv", False)


@unit("spctsp.reset", file=F, func="PCTSPEnv._reset", props=("C01", "C02", "C03", "C05"), note="SPCTSPEnv: stochastic prizes are the real prizes")
def _(u):
    _reset(u, FS, "SPCTSPEnv", True)


@unit("pctsp.reward", file=F, func="PCTSPEnv._get_reward", props=("C03",))
def _(u):
    B, N, T = u.dims("B N T")
    u.requires(T >= 2)
    # the whole state TensorDict with ARBITRARY bookkeeping fields: the reward is a function of the instance (locs, penalty) and the
    # actions only - get_reward is also called on a freshly reset / re-batched state (evaluation, re-scoring of stored actions)
    td = state(u, B, N)
    act = u.tensor("actions", (B, T), "i")
    u.requires(u.forall((B, T), lambda b, t: AND(act.at(b, t) >= 0, act.at(b, t) <= N)))
    env = u.obj(F, "PCTSPEnv")
    r = u.run(F, "PCTSPEnv._get_reward", td, act, selfobj=env)
    locs, pen = td["locs"], td["penalty"]

    # tour: depot, a_0, ..., a_{T-1}, back to depot  (T+1 legs)
    def node(b, k):
        return ite(zint(k) == 0, 0, act.at(b, zint(k) - 1))

    def leg(b, k):
        k2 = ite(zint(k) + 1 < zint(T) + 1, zint(k) + 1, 0)
        p, q = node(b, k), node(b, k2)
        return ops.NORM2(locs.at(b, q, 0) - locs.at(b, p, 0), locs.at(b, q, 1) - locs.at(b, p, 1))

    length = ops.reduce("sum", mk((B, T + 1), "f", lambda I: leg(I[0], I[1])), -1, label="length")
    all_pen = ops.reduce("sum", mk((B, N), "f", lambda I: pen.at(I[0], zint(I[1]) + 1)), -1, label="allpen")
    saved = ops.reduce("sum", mk((B, T), "f", lambda I: pen.at(I[0], act.at(I[0], I[1]))), -1, label="saved")
    # objective = -(length + penalties of unvisited) with  sum_unvisited = sum_all - sum_{t} penalty[a_t]
    # (each customer occurs at most once in a mask-confined episode and penalty[depot] = 0)
    same_tensor(u, "reward.eq", r, (B,), lambda b: -(length.at(b) + all_pen.at(b) - saved.at(b)))
    b = u.idx((B,), "cb")
    u.canary("reward.no-penalty", r.at(b) == -length.at(b))


def _rl(u, what):
    N = u.dim("N")
    env = u.obj(F, "PCTSPEnv")
    if what == "step":
        def mk_in(u, B):
            td = state(u, B, N)
            td.set("action", u.tensor("action", (B,), "i"))
            return td

        def req(u, td, B):
            a = td["action"]
            return AND(state_ok(u, td, B, N), u.forall((B,), lambda b: AND(a.at(b) >= 0, a.at(b) <= N)))

        rowlocal(u, "step", mk_in, lambda u, td: u.run(F, "PCTSPEnv._step", td, selfobj=env), requires=req)
    elif what == "mask":
        rowlocal(u, "mask", lambda u, B: state(u, B, N), lambda u, td: u.run(F, "PCTSPEnv.get_action_mask", td),
                 requires=lambda u, td, B: state_ok(u, td, B, N))
    else:
        T = u.dim("T")
        u.requires(T >= 2)

        def mk_in(u, B):
            return {"td": state(u, B, N), "actions": u.tensor("actions", (B, T), "i")}

        def req(u, ins, B):
            a = ins["actions"]
            return u.forall((B, T), lambda b, t: AND(a.at(b, t) >= 0, a.at(b, t) <= N))

        rowlocal(u, "reward", mk_in, lambda u, ins: u.run(F, "PCTSPEnv._get_reward", ins["td"], ins["actions"], selfobj=env), requires=req)


@unit("pctsp.rowlocal.step", file=F, func="PCTSPEnv._step", props=("C04", "C14"))
def _(u):
    _rl(u, "step")


@unit("pctsp.rowlocal.mask", file=F, func="PCTSPEnv.get_action_mask", props=("C04", "C14"))
def _(u):
    _rl(u, "mask")


@unit("pctsp.rowlocal.reward", file=F, func="PCTSPEnv._get_reward", props=("C04", "C14"))
def _(u):
    _rl(u, "reward")


@unit("pctsp.reward.padding", file=F, func="PCTSPEnv._get_reward", props=("C04", "C03"))
def _(u):
    from .envlib import reward_pad_invariant

    N = u.dim("N")
    reward_pad_invariant(u, F, "PCTSPEnv._get_reward", "PCTSPEnv",
                         lambda u, B: state(u, B, N), N + 1,
                         extra_requires=lambda u, td, B: u.forall((B,), lambda b: td["penalty"].at(b, 0) == 0))


SPF = "rl4co/envs/routing/spctsp/env.py"


@unit("spctsp.init.stochastic", file=SPF, func="SPCTSPEnv.__init__", props=("C01",))
def _(u):
    # construction plumbing: an SPCTSPEnv built the normal way plays on the REVEALED (stochastic) prizes, a PCTSPEnv on the expected
    # ones - the class attribute `_stochastic` of the subclass must not be shadowed by anything the base constructor stores
    gen = u.ns(num_loc=5)
    u.stub(PCTSPGenerator=lambda **kw: gen)
    u.inline((F, "PCTSPEnv.__init__"))
    for cls, file, want in (("SPCTSPEnv", SPF, True), ("PCTSPEnv", F, False)):
        env = u.obj(file, cls, _make_spec=lambda g: None)
        u.run(file, f"{cls}.__init__", selfobj=env, record=False)
        got = u.interp.getattr(env, "stochastic", None)
        u.prove(f"{cls}.stochastic-is-{want}", got is want, note=f"got {got!r}")
