"""Shared helpers for environment contracts."""
import z3

from tvc import ops
from tvc.core import AND, IMPL, NOT, OR, SymTensor, cur, ite, mk, zint, zbool, is_z3
from tvc.td import SymTD


def B_(x):
    return ops.B_(x)


def same_tensor(u, name, got, want_shape, want_elem, tags=None, names=None, dtype=None):
    """Obligation: `got` has shape want_shape and got[I] == want_elem(I) for every I."""
    ctx = cur()
    if not isinstance(got, SymTensor):
        u.prove(name + ".is-tensor", False, tags)
        return
    if got.rank != len(want_shape):
        u.prove(name + ".rank", False, tags, note=f"got shape {got.shape}, want {want_shape}")
        return
    u.prove(name + ".shape", AND(*[zint(a) == zint(b) for a, b in zip(got.shape, want_shape)]), tags,
            note=f"got {got.shape} want {want_shape}")
    if dtype is not None and got.dtype != dtype:
        u.prove(name + ".dtype", False, tags, note=f"got {got.dtype} want {dtype}")
        return
    I, rng = [], []
    for d, n in enumerate(want_shape):
        if isinstance(n, int) and n == 1:
            I.append(0)
        else:
            nm = (names.split()[d] if names else f"e{d}")
            v = z3.Int(f"{ctx.prefix}{name}.{nm}")
            ctx.scalars[f"{ctx.prefix}{name}.{nm}"] = (v, "i")
            I.append(v)
            rng.append(z3.And(v >= 0, v < zint(n)))
    g = got.at(*I)
    w = want_elem(*I)
    if got.dtype == "b":
        eq = B_(g) == B_(w if not isinstance(w, bool) else z3.BoolVal(w))
    else:
        eq = g == w
    u.prove(name + ".elem", IMPL(AND(*rng), eq), tags)


def unchanged(u, name, td_before, td_after, keys, tags=None):
    """Frame: listed keys hold the same tensors (same shape, same elements)."""
    for k in keys:
        a, b = td_before[k], td_after[k]
        same_tensor(u, f"{name}.frame.{k}", b, a.shape, lambda *I, a=a: a.at(*I), tags)


def count_true(fn, n, label=""):
    """Spec-level count of indices k in [0,n) with fn(k): a 'sum' reduction of 0/1."""
    t = mk((n,), "i", lambda I: ite(fn(I[0]), 1, 0))
    return ops.reduce("sum", t, 0, label=label)
