"""Shared helpers for environment contracts."""
import z3

from tvc import ops
from tvc.core import AND, IMPL, NOT, OR, SymTensor, cur, ite, mk, zint, zbool, is_z3
from tvc.td import SymTD


def B_(x):
    return ops.B_(x)


def same_tensor(u, name, got, want_shape, want_elem, tags=None, names=None, dtype=None):
    """Obligation: `got` has shape want_shape and got[I] == want_elem(I) for every I."""
    ctx = cur()
    if not isinstance(got, SymTensor):
        u.prove(name + ".is-tensor", False, tags)
        return
    if got.rank != len(want_shape):
        u.prove(name + ".rank", False, tags, note=f"got shape {got.shape}, want {want_shape}")
        return
    u.prove(name + ".shape", AND(*[zint(a) == zint(b) for a, b in zip(got.shape, want_shape)]), tags,
            note=f"got {got.shape} want {want_shape}")
    if dtype is not None and got.dtype != dtype:
        u.prove(name + ".dtype", False, tags, note=f"got {got.dtype} want {dtype}")
        return
    I, rng = [], []
    for d, n in enumerate(want_shape):
        if isinstance(n, int) and n == 1:
            I.append(0)
        else:
            nm = (names.split()[d] if names else f"e{d}")
            v = z3.Int(f"{ctx.prefix}{name}.{nm}")
            ctx.scalars[f"{ctx.prefix}{name}.{nm}"] = (v, "i")
            I.append(v)
            rng.append(z3.And(v >= 0, v < zint(n)))
    g = got.at(*I)
    w = want_elem(*I)
    if got.dtype == "b":
        eq = B_(g) == B_(w if not isinstance(w, bool) else z3.BoolVal(w))
    else:
        eq = g == w
    u.prove(name + ".elem", IMPL(AND(*rng), eq), tags)


def unchanged(u, name, td_before, td_after, keys, tags=None):
    """Frame: listed keys hold the same tensors (same shape, same elements)."""
    for k in keys:
        a, b = td_before[k], td_after[k]
        same_tensor(u, f"{name}.frame.{k}", b, a.shape, lambda *I, a=a: a.at(*I), tags)


def count_true(fn, n, label=""):
    """Spec-level count of indices k in [0,n) with fn(k): a 'sum' reduction of 0/1."""
    t = mk((n,), "i", lambda I: ite(fn(I[0]), 1, 0))
    return ops.reduce("sum", t, 0, label=label)


# ---------------------------------------------------------------------------
# 2-run non-interference (C04): row b of run L and row b' of run R agree on
# every input  ==>  they agree on every output (values and per-row shapes).
# The two runs have independent batch sizes (incl. 1) and row positions.
# ---------------------------------------------------------------------------


def _flatten(prefix, v, out):
    if isinstance(v, SymTD):
        for k, x in v.data.items():
            _flatten(f"{prefix}{k}", x, out)
    elif isinstance(v, SymTensor):
        out[prefix.rstrip(".") or "result"] = v
    elif isinstance(v, dict):
        for k, x in v.items():
            _flatten(f"{prefix}{k}.", x, out)
    elif isinstance(v, (list, tuple)):
        for k, x in enumerate(v):
            _flatten(f"{prefix}{k}.", x, out)
    elif v is None:
        pass
    else:
        out[prefix.rstrip(".") or "result"] = v


def rowlocal(u, name, make_inputs, call, requires=None, tags=("C04",), skip_outputs=()):
    """make_inputs(u, B) -> dict/TD of batch-first inputs; call(u, inputs) -> outputs (TD/tensor/dict).

    Run L has batch size B_L, run R batch size B_R (independent, >= 1). Row rowR of R is *defined* to be
    row rowL of L (same terms; every other row of both batches is arbitrary), which is exactly the
    hypothesis "the two rows carry the same instance and state". Goal: all outputs of the two rows agree."""
    if tuple(tags) == ("C04",):
        tags = ("C04", "C14")    # per-instance environment dynamics are also a premise of per-instance inference (C14)
    ctx = cur()
    ctx.prefix = "L_"
    BL = u.dim("B")
    ctx.prefix = "R_"
    BR = u.dim("B")
    ctx.prefix = ""
    bL = z3.Int(f"{name}.rowL")
    bR = z3.Int(f"{name}.rowR")
    ctx.scalars[f"{name}.rowL"] = (bL, "i")
    ctx.scalars[f"{name}.rowR"] = (bR, "i")
    u.requires(AND(bL >= 0, bL < zint(BL), bR >= 0, bR < zint(BR)))
    sides = {}
    for side, Bs in (("L", BL), ("R", BR)):
        ctx.prefix = side + "_"
        if side == "R":
            ctx.row_alias = {"src": sides["L"][3], "row": bR, "src_row": bL}
        ins = make_inputs(u, Bs)
        ctx.row_alias = None
        named = {}
        _flatten_named("", u.snapshot(ins), named)
        if requires is not None:
            u.requires(requires(u, ins, Bs))
        pre = {}
        _flatten("", u.snapshot(ins), pre)
        outs_raw = call(u, ins)
        outs = {}
        _flatten("", outs_raw, outs)
        sides[side] = (Bs, pre, outs, named)
    ctx.prefix = ""
    outL, outR = sides["L"][2], sides["R"][2]
    for k, ol in outL.items():
        if k in skip_outputs:
            continue
        if k not in outR:
            u.prove(f"{name}.rowlocal.{k}.present", False, tags)
            continue
        orr = outR[k]
        if not isinstance(ol, SymTensor):
            if is_z3(ol) or is_z3(orr):
                u.prove(f"{name}.rowlocal.{k}.scalar", ol == orr, tags)
            continue
        if ol.rank != orr.rank or ol.rank == 0:
            u.prove(f"{name}.rowlocal.{k}.rank", False, tags, note=f"{ol.shape} vs {orr.shape}: output has no batch dimension or ranks differ")
            continue
        u.prove(f"{name}.rowlocal.{k}.batchdim", AND(zint(ol.shape[0]) == zint(BL), zint(orr.shape[0]) == zint(BR)), tags,
                note=f"{ol.shape} / {orr.shape}")
        u.prove(f"{name}.rowlocal.{k}.shape", AND(*[zint(a) == zint(b) for a, b in zip(ol.shape[1:], orr.shape[1:])]), tags)
        I, rng = [], []
        for d, n in enumerate(ol.shape[1:]):
            if isinstance(n, int) and n == 1:
                I.append(0)
            else:
                v = z3.Int(f"{name}.{k}.r{d}")
                ctx.scalars[f"{name}.{k}.r{d}"] = (v, "i")
                I.append(v)
                rng.append(z3.And(v >= 0, v < zint(n)))
        gl, gr = ol.at(bL, *I), orr.at(bR, *I)
        u.prove(f"{name}.rowlocal.{k}.elem", IMPL(AND(*rng), B_(gl) == B_(gr) if ol.dtype == "b" else gl == gr), tags)


def _flatten_named(prefix, v, out):
    """input tensors by their declared (unprefixed) names."""
    if isinstance(v, SymTD):
        for k, x in v.data.items():
            _flatten_named(prefix, x, out)
    elif isinstance(v, SymTensor):
        nm = v.name or ""
        if nm.startswith("L_"):
            out[nm[2:]] = v
    elif isinstance(v, dict):
        for k, x in v.items():
            _flatten_named(prefix, x, out)
    elif isinstance(v, (list, tuple)):
        for x in v:
            _flatten_named(prefix, x, out)


def depot_tour_reward_unit(u, file, qual, clsname, tags=("C03",), static=False, make_td=None):
    """reward = -(closed tour depot -> a_0 ... a_{T-1} -> depot) for `_get_reward` of CVRP-like envs.
    make_td(u, B, N): the whole state TensorDict with ARBITRARY bookkeeping fields (the reward is a function of the instance and
    the actions only: get_reward is also called on a fresh / re-batched state); default: the instance coordinates alone."""
    B, N, T = u.dims("B N T")
    u.requires(T >= 2)
    td = make_td(u, B, N) if make_td is not None else u.td(B, locs=((B, N + 1, 2), "f"))
    act = u.tensor("actions", (B, T), "i")
    u.requires(u.forall((B, T), lambda b, t: AND(act.at(b, t) >= 0, act.at(b, t) <= N)))
    env = u.obj(file, clsname)
    if static:
        r = u.run(file, qual, td, act)
    else:
        r = u.run(file, qual, td, act, selfobj=env)
    locs = td["locs"]

    def node(b, k):
        return ite(zint(k) == 0, 0, act.at(b, zint(k) - 1))

    def leg(b, k):
        k2 = ite(zint(k) + 1 < zint(T) + 1, zint(k) + 1, 0)
        p, q = node(b, k), node(b, k2)
        return ops.NORM2(locs.at(b, q, 0) - locs.at(b, p, 0), locs.at(b, q, 1) - locs.at(b, p, 1))

    length = ops.reduce("sum", mk((B, T + 1), "f", lambda I: leg(I[0], I[1])), -1, label="length")
    same_tensor(u, "reward.eq", r, (B,), lambda b: -length.at(b), tags=tags)
    # canary: the open path (no return to the depot) is a different objective
    def leg_open(b, k):
        return ite(zint(k) + 1 < zint(T) + 1, leg(b, k), 0)

    open_len = ops.reduce("sum", mk((B, T + 1), "f", lambda I: leg_open(I[0], I[1])), -1, label="openlength")
    b = u.idx((B,), "cb")
    u.canary("reward.open-path", r.at(b) == -open_len.at(b), tags=tags)


def depot_tour_reward_rowlocal(u, file, qual, clsname, static=False, make_td=None):
    N, T = u.dims("N T")
    u.requires(T >= 2)
    env = u.obj(file, clsname)

    def mk_in(u, B):
        return {"td": make_td(u, B, N) if make_td is not None else u.td(B, locs=((B, N + 1, 2), "f")), "actions": u.tensor("actions", (B, T), "i")}

    def req(u, ins, B):
        a = ins["actions"]
        return u.forall((B, T), lambda b, t: AND(a.at(b, t) >= 0, a.at(b, t) <= N))

    call = (lambda u, ins: u.run(file, qual, ins["td"], ins["actions"])) if static else (lambda u, ins: u.run(file, qual, ins["td"], ins["actions"], selfobj=env))
    rowlocal(u, "reward", mk_in, call, requires=req)


def reward_pad_invariant(u, file, qual, clsname, make_td, n_nodes, tags=("C04", "C03"), static=False, selfattrs=None, extra_requires=None):
    """Padding invariance of a reward that is one 'sum' over the action sequence: appending the depot padding
    action (0) to a finished row's actions does not change its reward.
    Run 1: actions A [B,T]; run 2: A' [B,T+1] with A'[:, :T] = A and A'[:, T] = 0 (same instance data)."""
    from tvc.unit import sum_split_last

    ctx = cur()
    B, T = u.dims("B T")
    u.requires(T >= 2)
    td1 = make_td(u, B)
    act = u.tensor("actions", (B, T), "i")
    u.requires(u.forall((B, T), lambda b, t: AND(act.at(b, t) >= 0, act.at(b, t) < n_nodes)))
    if extra_requires is not None:
        u.requires(extra_requires(u, td1, B))
    act2 = ops.cat([act, ops.const_tensor((B, 1), "i", 0)], 1)
    env = u.obj(file, clsname, **(selfattrs or {}))
    call = (lambda a: u.run(file, qual, td1, a)) if static else (lambda a: u.run(file, qual, td1, a, selfobj=env))
    m0 = len(ctx.reds)
    r1 = call(act)
    m1 = len(ctx.reds)
    r2 = call(act2)
    reds = list(ctx.reds.values())
    sums1 = [r for r in reds[m0:m1] if r.kind == "sum" and r.outer_rank == 1]
    sums2 = [r for r in reds[m1:] if r.kind == "sum" and r.outer_rank == 1]
    b = u.idx((B,), "b")
    for s1, s2 in zip(sums1, sums2):
        t1 = mk((B,), s1.dtype, lambda I, s1=s1: s1.app((I[0],)), prov=("red", s1))
        t2 = mk((B,), s2.dtype, lambda I, s2=s2: s2.app((I[0],)), prov=("red", s2))
        # prefix of the padded sum with the length of the unpadded one (spec-level), then lemma instances:
        # S2(n+1) = prefix(n) + last summand; prefix(n) = S1(n) by extensionality (summand-wise equal)
        pre_t = ops.reduce("sum", mk((B, s1.ns[0]), s2.dtype, lambda I, s2=s2: s2.body((I[0],), (I[1],))), -1, label="padprefix")
        sum_split_last(u, _at_row(t2, b), (), _at_row(pre_t, b), ())
        # each sum of the reward is unchanged by the padding step (proved one by one, then combined by pure algebra)
        u.prove(f"reward.pad.sum{len(sums1) - len(sums1[sums1.index(s1):])}-invariant", t2.at(b) == t1.at(b), tags=tags, assume=True)
    same_tensor(u, "reward.pad.shape", r2, tuple(r1.shape), lambda *I: r2.at(*I), tags=tags)
    u.prove("reward.pad-invariant", r2.at(b) == r1.at(b), tags=tags, algebra_only=bool(sums1))


def _at_row(t, b):
    red = t.prov[1]

    class _R:
        pass

    r2 = _R()
    r2.ns, r2.dtype = red.ns, red.dtype
    r2.body = lambda o, ks: red.body((b,), ks)
    r2.app = lambda o: red.app((b,))
    return mk((), red.dtype, lambda I: red.app((b,)), prov=("red", r2))
