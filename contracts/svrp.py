"""SVRP (skill VRP): problem definition and contracts of SVRPEnv."""
import z3

from tvc import ops
from tvc.core import AND, IMPL, NOT, OR, cur, ite, mk, zint, zreal
from tvc.unit import spec, unit

from .envlib import B_, rowlocal, same_tensor, unchanged

F = "rl4co/envs/routing/svrp/env.py"

# Problem definition: K technicians (skills sorted ascending) leave the depot one after the other; a
# customer must be served by a technician whose skill is >= the customer's requirement; every customer
# is served exactly once. A depot visit hands over to the next technician. enabled(customer j): j
# unvisited and skill_j <= skill of the current technician. The depot is hidden while the current
# technician stands at the depot (or is the last one) and can still serve somebody (documented pruning /
# the last technician must finish).


def state(u, B, N, K):
    return u.td(B, locs=((B, N + 1, 2), "f"), techs=((B, K, 1), "f"), skills=((B, N, 1), "f"),
                current_node=((B, 1), "i"), current_tech=((B, 1), "i"), visited=((B, N + 1, 1), "i"),
                action_mask=((B, N + 1), "b"))


def servable(td, b, j):
    """customer j (0-based)."""
    return AND(td["visited"].at(b, zint(j) + 1, 0) == 0,
               td["skills"].at(b, j, 0) <= td["techs"].at(b, td["current_tech"].at(b, 0), 0))


def valid_instance(u, td, B, N, K):
    techs, sk = td["techs"], td["skills"]
    return AND(
        u.forall((B, (0, K - 1)), lambda b, k: techs.at(b, k, 0) <= techs.at(b, zint(k) + 1, 0)),
        # the most skilled technician can serve everybody
        u.forall((B, N), lambda b, j: sk.at(b, j, 0) <= techs.at(b, K - 1, 0)),
    )


def state_ok(u, td, B, N, K):
    v, cn, ct = td["visited"], td["current_node"], td["current_tech"]
    return AND(
        valid_instance(u, td, B, N, K),
        u.forall((B, N + 1), lambda b, j: OR(v.at(b, j, 0) == 0, v.at(b, j, 0) == 1)),
        u.forall((B,), lambda b: AND(cn.at(b, 0) >= 0, cn.at(b, 0) <= N, ct.at(b, 0) >= 0, ct.at(b, 0) <= K - 1)),
    )


def mask_spec(td, K):
    B, N1 = td["visited"].shape[0], td["visited"].shape[1]
    N = N1 - 1
    en = mk((B, N), "b", lambda I: B_(servable(td, I[0], I[1])))
    anyen = ops.reduce("any", en, -1, label="svrp_any")

    def elem(I):
        b, j = I
        dep = NOT(AND(OR(td["current_node"].at(b, 0) == 0, td["current_tech"].at(b, 0) == zint(K) - 1), anyen.at(b)))
        if isinstance(j, int):
            return B_(dep) if j == 0 else B_(servable(td, b, j - 1))
        return ite(zint(j) == 0, B_(dep), B_(servable(td, b, zint(j) - 1)))

    return mk((B, N1), "b", elem)


@spec(F, "SVRPEnv.get_action_mask")
def get_action_mask_spec(u, selfobj, td):
    K = td["techs"].shape[1]
    ct = td["current_tech"].snap()
    B = td["current_tech"].shape[0]
    # precondition of the real function: the technician index addresses an existing technician
    ops.wf_forall((B,), lambda I: AND(zint(ct((I[0], 0))) >= 0, zint(ct((I[0], 0))) < zint(K)), "pre-get_action_mask-technician-index-range")
    return mask_spec(u.snapshot(td), K)


@unit("svrp.get_action_mask", file=F, func="SVRPEnv.get_action_mask", props=("C01", "C02", "C05", "C04"))
def _(u):
    B, N, K = u.dims("B N K")
    td = state(u, B, N, K)
    u.requires(state_ok(u, td, B, N, K))
    pre = u.snapshot(td)
    m = u.run(F, "SVRPEnv.get_action_mask", td)
    b = u.idx((B,), "b")
    j = u.idx((N,), "j")
    u.prove("mask.customer.iff", m.at(b, j + 1) == servable(pre, b, j), tags=("C01", "C05"))
    u.prove("mask.skill-met", IMPL(m.at(b, j + 1), pre["skills"].at(b, j, 0) <= pre["techs"].at(b, pre["current_tech"].at(b, 0), 0)), tags=("C01",))
    ms = mask_spec(pre, K)
    same_tensor(u, "mask.eq-spec", m, (B, N + 1), lambda bb, jj: ms.at(bb, jj), tags=("C01", "C05"))
    u.prove("mask.live", u.exists((N + 1,), lambda k: m.at(b, k)), tags=("C02",))
    unchanged(u, "mask", pre, td, ["techs", "skills", "visited", "current_node", "current_tech"], tags=("C04",))
    u.canary("mask.ignores-skill", IMPL(pre["visited"].at(b, j + 1, 0) == 0, m.at(b, j + 1)))


def _step(u, failure_class):
    B, N, K = u.dims("B N K")
    td = state(u, B, N, K)
    td.set("action", u.tensor("action", (B,), "i"))
    u.requires(state_ok(u, td, B, N, K))
    a = td["action"]
    ms = mask_spec(td, K)
    u.requires(u.forall((B,), lambda b: AND(a.at(b) >= 0, a.at(b) <= N, ms.at(b, a.at(b)))))
    last_depot = lambda b: AND(a.at(b) == 0, td["current_tech"].at(b, 0) == K - 1)
    if failure_class:
        b = u.idx((B,), "b")
        u.requires(last_depot(b))
    else:
        u.requires(u.forall((B,), lambda b: NOT(last_depot(b))))
        b = u.idx((B,), "b")
    pre = u.snapshot(td)
    env = u.obj(F, "SVRPEnv")
    out = u.run(F, "SVRPEnv._step", td, selfobj=env)
    ab = pre["action"].at(b)
    u.prove("step.action-enabled", IMPL(ab != 0, servable(pre, b, ab - 1)), tags=("C01",))
    same_tensor(u, "step.visited", out["visited"], (B, N + 1, 1),
                lambda bb, jj, _: ite(zint(jj) == pre["action"].at(bb), 1, pre["visited"].at(bb, jj, 0)), tags=("C01",))
    same_tensor(u, "step.current_node", out["current_node"], (B, 1), lambda bb, _: pre["action"].at(bb), tags=("C01",))
    # a depot visit hands over to the next technician; the last technician stays in charge (padding steps of a finished row)
    nxt = lambda bb: pre["current_tech"].at(bb, 0) + ite(pre["action"].at(bb) == 0, 1, 0)
    same_tensor(u, "step.current_tech", out["current_tech"], (B, 1), lambda bb, _: ite(nxt(bb) <= K - 1, nxt(bb), K - 1), tags=("C01",))
    allv = u.forall((N + 1,), lambda k: out["visited"].at(b, k, 0) == 1)
    u.prove("step.done.iff", out["done"].at(b, 0) == allv, tags=("C01", "C02"))
    u.prove("step.inv", state_ok(u, out, B, N, K), tags=("C01", "C02"))
    msn = mask_spec(out, K)
    same_tensor(u, "step.mask-consistent", out["action_mask"], (B, N + 1), lambda bb, jj: msn.at(bb, jj), tags=("C01", "C05"))
    unchanged(u, "step", pre, out, ["locs", "techs", "skills"], tags=("C04",))
    pre_done = u.forall((N + 1,), lambda k: pre["visited"].at(b, k, 0) == 1)
    u.prove("step.done-stable", IMPL(pre_done, AND(ab == 0, out["done"].at(b, 0))), tags=("C02",))


@unit("svrp.step", file=F, func="SVRPEnv._step", props=("C01", "C02", "C04", "C05"),
      note="all states except a depot visit of the last technician (see svrp.step.last-technician-depot)")
def _(u):
    _step(u, False)


@unit("svrp.step.last-technician-depot", file=F, func="SVRPEnv._step", props=("C02", "C04"),
      note="failure class: the last technician is sent to the depot (only possible once everything is served, e.g. as a padding step)")
def _(u):
    _step(u, True)


@unit("svrp.reset", file=F, func="SVRPEnv._reset", props=("C01", "C02"))
def _(u):
    B, N, K = u.dims("B N K")
    td = u.td(B, depot=((B, 2), "f"), locs=((B, N, 2), "f"), techs=((B, K, 1), "f"), skills=((B, N, 1), "f"))
    u.requires(valid_instance(u, td, B, N, K))
    pre = u.snapshot(td)
    env = u.obj(F, "SVRPEnv")
    out = u.run(F, "SVRPEnv._reset", td, [B], selfobj=env)
    same_tensor(u, "reset.locs", out["locs"], (B, N + 1, 2), lambda b, j, c: ite(zint(j) == 0, pre["depot"].at(b, c), pre["locs"].at(b, zint(j) - 1, c)), tags=("C01",))
    same_tensor(u, "reset.visited", out["visited"], (B, N + 1, 1), lambda b, j, _: 0, tags=("C01",), dtype="i")
    same_tensor(u, "reset.current_tech", out["current_tech"], (B, 1), lambda b, _: 0, tags=("C01",), dtype="i")
    same_tensor(u, "reset.current_node", out["current_node"], (B, 1), lambda b, _: 0, tags=("C01",), dtype="i")
    u.prove("reset.inv", state_ok(u, out, B, N, K), tags=("C01", "C02"))
    msn = mask_spec(out, K)
    same_tensor(u, "reset.mask-consistent", out["action_mask"], (B, N + 1), lambda bb, jj: msn.at(bb, jj), tags=("C01", "C05"))


@unit("svrp.rowlocal.step", file=F, func="SVRPEnv._step", props=("C04", "C14"))
def _(u):
    N, K = u.dims("N K")
    env = u.obj(F, "SVRPEnv")

    def mk_in(u, B):
        td = state(u, B, N, K)
        td.set("action", u.tensor("action", (B,), "i"))
        return td

    def req(u, td, B):
        a = td["action"]
        return AND(state_ok(u, td, B, N, K), u.forall((B,), lambda b: AND(a.at(b) >= 0, a.at(b) <= N,
                                                                            NOT(AND(a.at(b) == 0, td["current_tech"].at(b, 0) == K - 1)))))

    rowlocal(u, "step", mk_in, lambda u, td: u.run(F, "SVRPEnv._step", td, selfobj=env), requires=req)


@unit("svrp.rowlocal.mask", file=F, func="SVRPEnv.get_action_mask", props=("C04", "C14"))
def _(u):
    N, K = u.dims("N K")
    rowlocal(u, "mask", lambda u, B: state(u, B, N, K), lambda u, td: u.run(F, "SVRPEnv.get_action_mask", td),
             requires=lambda u, td, B: state_ok(u, td, B, N, K))
