"""C14 (proof part): the per-step glue between environment state and decoder is per-instance.

nn.Linear is modelled EXACTLY (over the reals, A1): y[..., e] = sum_d W[e, d] * x[..., d] (+ bias[e]) with arbitrary
weights shared by all rows. Row-locality is proved by row aliasing (contracts/envlib.rowlocal): two batches of
independent sizes, one row of each carries the same instance / state / embeddings, every other row is arbitrary;
the outputs of the two rows must agree.
"""
import z3

from tvc import ops
from tvc.core import AND, IMPL, NOT, OR, cur, ite, mk, zint, zreal, SymTensor
from tvc.td import SymTD
from tvc.unit import spec, unit

from .envlib import B_, rowlocal, same_tensor

CTX = "rl4co/models/nn/env_embeddings/context.py"


def linear(u, name, din, dout, bias=False):
    """An nn.Linear with arbitrary (symbolic) weights: callable on tensors whose last dim is din."""
    old = u.ctx.prefix
    u.ctx.prefix = ""
    W = u.tensor(f"{name}.weight", (dout, din), "f")
    b = u.tensor(f"{name}.bias", (dout,), "f") if bias else None
    u.ctx.prefix = old

    def call(x):
        if not u.ctx.same(x.shape[-1], din):
            u.ctx.wf(f"linear-in-features {name}: {x.shape[-1]} vs {din}", zint(x.shape[-1]) == zint(din))
        xs = x.snap()
        lead = tuple(x.shape[:-1])
        prod = mk(lead + (dout, din), "f", lambda I: W.at(I[-2], I[-1]) * xs(tuple(I[:-2]) + (I[-1],)))
        y = ops.reduce("sum", prod, -1, label=f"linear.{name}")
        if b is not None:
            ys = y.snap()
            y = mk(lead + (dout,), "f", lambda I: ys(I) + b.at(I[-1]))
        return y

    return call


def _ctx_unit(u, cls, state_keys, E_extra=0, node_key="current_node", squeeze_min2=False, extra_attrs=None, fwd=None):
    N = u.dim("N")
    E = u.dim("E", 2)    # embedding width >= 2 (a width of 1 would be dropped by the `.squeeze()` calls as well)
    attrs = dict(embed_dim=E)
    if isinstance(E_extra, int):
        attrs["project_context"] = linear(u, "project_context", E + E_extra, E)
    if extra_attrs:
        attrs.update(extra_attrs(u, E))
    obj = u.obj(CTX, cls, **attrs)

    def make_inputs(u, B):
        if squeeze_min2:
            u.requires(zint(B) >= 2)   # `.squeeze()` without dim also drops a batch dimension of size 1: covered by the stand-in
        d = {"embeddings": u.tensor("embeddings", (B, N, E), "f"), node_key: u.tensor(node_key, (B,), "i")}
        for k, (tail, dt) in state_keys.items():
            d[k] = u.tensor(k, (B,) + tuple(tail(N) if callable(tail) else tail), dt)
        return d

    def requires(u, ins, B):
        return u.forall((B,), lambda b: AND(ins[node_key].at(b) >= 0, ins[node_key].at(b) < N))

    def call(u, ins):
        td = SymTD({k: v for k, v in ins.items() if k != "embeddings"}, (ins["embeddings"].shape[0],))
        return {"context": u.run(CTX, fwd or "EnvContext.forward", ins["embeddings"], td, selfobj=obj, record=False)}

    rowlocal(u, cls, make_inputs, call, requires=requires, tags=("C14",))


@unit("context.vrp.rowlocal", file=CTX, func="EnvContext.forward", props=("C14",))
def _(u):
    u.inline((CTX, "EnvContext._cur_node_embedding"), (CTX, "VRPContext._state_embedding"))
    _ctx_unit(u, "VRPContext", {"vehicle_capacity": ((1,), "f"), "used_capacity": ((1,), "f")}, E_extra=1)


@unit("context.vrptw.rowlocal", file=CTX, func="EnvContext.forward", props=("C14",))
def _(u):
    u.inline((CTX, "EnvContext._cur_node_embedding"), (CTX, "VRPContext._state_embedding"), (CTX, "VRPTWContext._state_embedding"))
    _ctx_unit(u, "VRPTWContext", {"vehicle_capacity": ((1,), "f"), "used_capacity": ((1,), "f"), "current_time": ((1,), "f")}, E_extra=2)


@unit("context.pctsp.rowlocal", file=CTX, func="EnvContext.forward", props=("C14",))
def _(u):
    u.inline((CTX, "EnvContext._cur_node_embedding"), (CTX, "PCTSPContext._state_embedding"))
    _ctx_unit(u, "PCTSPContext", {"prize_required": ((), "f"), "cur_total_prize": ((), "f")}, E_extra=1)


@unit("context.op.rowlocal", file=CTX, func="EnvContext.forward", props=("C14",))
def _(u):
    u.inline((CTX, "EnvContext._cur_node_embedding"), (CTX, "OPContext._state_embedding"))
    _ctx_unit(u, "OPContext", {"max_length": (lambda N: (N,), "f"), "tour_length": ((), "f")}, E_extra=1)


@unit("context.smtwtp.rowlocal", file=CTX, func="EnvContext.forward", props=("C14",))
def _(u):
    u.inline((CTX, "SMTWTPContext._cur_node_embedding"), (CTX, "SMTWTPContext._state_embedding"))
    _ctx_unit(u, "SMTWTPContext", {"current_time": ((1,), "f")}, E_extra=1, node_key="current_job")


@unit("context.pdp.rowlocal", file=CTX, func="PDPContext.forward", props=("C14",))
def _(u):
    u.inline((CTX, "EnvContext._cur_node_embedding"))
    _ctx_unit(u, "PDPContext", {}, E_extra=0, squeeze_min2=True, fwd="PDPContext.forward")


@unit("context.svrp.rowlocal", file=CTX, func="SVRPContext.forward", props=("C14",))
def _(u):
    u.inline((CTX, "EnvContext._cur_node_embedding"))
    _ctx_unit(u, "SVRPContext", {}, E_extra=0, squeeze_min2=True, fwd="SVRPContext.forward")


@unit("context.mdcpdp.rowlocal", file=CTX, func="MDCPDPContext.forward", props=("C14",))
def _(u):
    u.inline((CTX, "EnvContext._cur_node_embedding"))
    _ctx_unit(u, "MDCPDPContext", {}, E_extra=0, squeeze_min2=True, fwd="MDCPDPContext.forward")


# ---------------------------------------------------------------------------------------------
# AttentionModelDecoder.forward: which rows of state / cache / mask meet in the pointer, and where its output rows go.
# The pointer attention itself is a stub that RECORDS its inputs and returns an opaque [lead..., N] tensor: that it
# treats every leading index independently is the assumed contract of torch.bmm / scaled_dot_product_attention /
# nn.Linear / einops it is made of; what is proved here is the glue around it (multi-start regrouping included).
# ---------------------------------------------------------------------------------------------
AMD = "rl4co/models/zoo/am/decoder.py"


def _decoder(u, dynamic, multistart):
    B, N = u.dims("B N")
    E = u.dim("E", 2)
    S = u.dim("S", 2) if multistart else 1
    R = S * B if multistart else B
    emb = u.tensor("node_embeddings", (B, N, E), "f")
    gctx = u.tensor("graph_context", (B, E), "f")
    gk, gv, lk = (u.tensor(n_, (B, N, E), "f") for n_ in ("glimpse_key", "glimpse_val", "logit_key"))
    cached = u.obj(AMD, "PrecomputedCache", node_embeddings=emb, graph_context=gctx, glimpse_key=gk, glimpse_val=gv, logit_key=lk,
                   fields=(emb, gctx, gk, gv, lk))
    td = SymTD({"action_mask": u.tensor("action_mask", (R, N), "b"), "current_node": u.tensor("current_node", (R,), "i"),
                "vehicle_capacity": u.tensor("vehicle_capacity", (R, 1), "f"), "used_capacity": u.tensor("used_capacity", (R, 1), "f"),
                "demand_state": u.tensor("demand_state", (R, N), "f")}, (R,))
    u.requires(u.forall((R,), lambda r: AND(td["current_node"].at(r) >= 0, td["current_node"].at(r) < N)))
    proj = linear(u, "project_context", E + 1, E)
    ctx = u.obj(CTX, "VRPContext", embed_dim=E, project_context=proj)
    u.inline((CTX, "EnvContext.forward"), (CTX, "EnvContext._cur_node_embedding"), (CTX, "VRPContext._state_embedding"),
             (AMD, "AttentionModelDecoder._compute_q"), (AMD, "AttentionModelDecoder._compute_kvl"), (AMD, "PrecomputedCache.batchify"))
    rec = {}

    def pointer(q, k, v, l, mask):
        rec.update(q=q, k=k, v=v, l=l, mask=mask)
        return u.tensor("pointer_logits", tuple(mask.shape), "f")

    if dynamic:
        # a dynamic embedding that depends on the CURRENT state row (SDVRP-like: remaining demand of every node), any per-row map
        wd = [linear(u, f"dyn{i}", 1, E) for i in range(3)]

        def dyn(td_):
            x = td_["demand_state"]
            xs = x.snap()
            col = mk(tuple(x.shape) + (1,), "f", lambda I: xs(tuple(I[:-1])))
            return wd[0](col), wd[1](col), wd[2](col)
    else:
        dyn = lambda td_: (0, 0, 0)
    dec = u.obj(AMD, "AttentionModelDecoder", context_embedding=lambda e_, td_: u.run(CTX, "EnvContext.forward", e_, td_, selfobj=ctx, record=False),
                dynamic_embedding=dyn, is_dynamic_embedding=dynamic, pointer=pointer, use_graph_context=True)
    logits, mask = u.run(AMD, "AttentionModelDecoder.forward", td, cached, S if multistart else 0, selfobj=dec, record=False)
    return dict(B=B, N=N, E=E, S=S, R=R, emb=emb, gctx=gctx, gk=gk, gv=gv, lk=lk, td=td, rec=rec, logits=logits, mask=mask, proj=proj)


def _expected_q(u, d, r, b, e):
    """context(row r of the state, embeddings of instance b) + graph context of instance b, at feature e."""
    td, emb, E = d["td"], d["emb"], d["E"]
    cur = td["current_node"].at(r)
    x = mk((E + 1,), "f", lambda I: ite(zint(I[0]) < zint(E), emb.at(b, cur, I[0]), td["vehicle_capacity"].at(r, 0) - td["used_capacity"].at(r, 0)))
    return d["proj"](x).at(e) + d["gctx"].at(b, e)


@unit("am.decoder.forward.static.multistart", file=AMD, func="AttentionModelDecoder.forward", props=("C14", "C12", "C11", "C13"))
def _(u):
    d = _decoder(u, dynamic=False, multistart=True)
    B, N, E, S, rec = d["B"], d["N"], d["E"], d["S"], d["rec"]
    b, s, n, e = u.idx((B,), "b"), u.idx((S,), "s"), u.idx((N,), "n"), u.idx((E,), "e")
    r = s * B + b   # replicated row of start s of instance b
    u.prove("dec.q.shape", AND(rec["q"].rank == 3, *[zint(x) == zint(y) for x, y in zip(rec["q"].shape, (B, S, E))]))
    u.prove("dec.q.own-state-row-own-instance", rec["q"].at(b, s, e) == _expected_q(u, d, r, b, e))
    u.prove("dec.kvl.own-instance", AND(rec["k"].at(b, n, e) == d["gk"].at(b, n, e), rec["v"].at(b, n, e) == d["gv"].at(b, n, e), rec["l"].at(b, n, e) == d["lk"].at(b, n, e)))
    u.prove("dec.mask-into-pointer.own-row", rec["mask"].at(b, s, n) == d["td"]["action_mask"].at(r, n))
    ptr = u.ctx.inputs["pointer_logits"][0]
    same_tensor(u, "dec.logits.shape", d["logits"], (S * B, N), lambda rr, nn: d["logits"].at(rr, nn))
    u.prove("dec.logits.row-goes-back-to-its-replicated-row", d["logits"].at(r, n) == ptr(zint(b), zint(s), zint(n)))
    u.prove("dec.mask-out.own-row", d["mask"].at(r, n) == d["td"]["action_mask"].at(r, n))
    u.canary("dec.logits.instance-major", d["logits"].at(b * S + s, n) == ptr(zint(b), zint(s), zint(n)))


@unit("am.decoder.forward.static.single", file=AMD, func="AttentionModelDecoder.forward", props=("C14", "C11"))
def _(u):
    d = _decoder(u, dynamic=False, multistart=False)
    B, N, E, rec = d["B"], d["N"], d["E"], d["rec"]
    b, n, e = u.idx((B,), "b"), u.idx((N,), "n"), u.idx((E,), "e")
    u.prove("dec.q.own-row", rec["q"].at(b, 0, e) == _expected_q(u, d, b, b, e))
    u.prove("dec.kvl.own-instance", AND(rec["k"].at(b, n, e) == d["gk"].at(b, n, e), rec["v"].at(b, n, e) == d["gv"].at(b, n, e), rec["l"].at(b, n, e) == d["lk"].at(b, n, e)))
    u.prove("dec.mask-into-pointer.own-row", rec["mask"].at(b, n) == d["td"]["action_mask"].at(b, n))
    ptr = u.ctx.inputs["pointer_logits"][0]
    u.prove("dec.logits.own-row", d["logits"].at(b, n) == ptr(zint(b), zint(n)))


@unit("am.decoder.forward.dynamic.multistart", file=AMD, func="AttentionModelDecoder.forward", props=("C14", "C12", "C11", "C13"))
def _(u):
    d = _decoder(u, dynamic=True, multistart=True)
    B, N, E, S, R, rec = d["B"], d["N"], d["E"], d["S"], d["R"], d["rec"]
    r, n, e = u.idx((R,), "r"), u.idx((N,), "n"), u.idx((E,), "e")
    # with a dynamic embedding the cache is replicated: replicated row r reads the cache of instance r mod B and ITS OWN state row
    u.prove("dec.q.own-state-row-own-instance", rec["q"].at(r, 0, e) == _expected_q(u, d, r, r % B, e))
    u.prove("dec.mask-into-pointer.own-row", rec["mask"].at(r, n) == d["td"]["action_mask"].at(r, n))
    wk = u.ctx.inputs["dyn0.weight"][0]
    u.prove("dec.key.static-of-own-instance-plus-dynamic-of-own-row", rec["k"].at(r, n, e) == d["gk"].at(r % B, n, e) + wk(zint(e), 0) * d["td"]["demand_state"].at(r, n))
    ptr = u.ctx.inputs["pointer_logits"][0]
    u.prove("dec.logits.own-row", d["logits"].at(r, n) == ptr(zint(r), zint(n)))
    u.canary("dec.key.instance-major", rec["k"].at(r, n, e) == d["gk"].at(r / S, n, e) + wk(zint(e), 0) * d["td"]["demand_state"].at(r, n))


@unit("context.mtvrp.rowlocal", file=CTX, func="EnvContext.forward", props=("C14",))
def _(u):
    u.inline((CTX, "EnvContext._cur_node_embedding"), (CTX, "MTVRPContext._state_embedding"))
    _ctx_unit(u, "MTVRPContext", {"vehicle_capacity": ((1,), "f"), "used_capacity_linehaul": ((1,), "f"), "used_capacity_backhaul": ((1,), "f"),
                                  "current_time": ((1,), "f"), "current_route_length": ((1,), "f"), "open_route": ((1,), "b")}, E_extra=5)


DYN = "rl4co/models/nn/env_embeddings/dynamic.py"


@unit("dynamic.sdvrp.rowlocal", file=DYN, func="SDVRPDynamicEmbedding.forward", props=("C14",))
def _(u):
    N = u.dim("N")
    E = u.dim("E", 1)
    proj = linear(u, "projection", 1, 3 * E)
    obj = u.obj(DYN, "SDVRPDynamicEmbedding", projection=proj)

    def call(u, ins):
        td = SymTD({"demand_with_depot": ins["demand_with_depot"]}, (ins["demand_with_depot"].shape[0],))
        k, v, l = u.run(DYN, "SDVRPDynamicEmbedding.forward", td, selfobj=obj, record=False)
        return {"glimpse_key": k, "glimpse_val": v, "logit_key": l}

    rowlocal(u, "SDVRPDynamicEmbedding", lambda u, B: {"demand_with_depot": u.tensor("demand_with_depot", (B, N + 1), "f")}, call, tags=("C14",))


@unit("am.decoder.precompute_cache.rowlocal", file=AMD, func="AttentionModelDecoder._precompute_cache", props=("C14",))
def _(u):
    N = u.dim("N")
    E = u.dim("E", 1)
    for use_gc in (True, False):
        dec = u.obj(AMD, "AttentionModelDecoder", project_node_embeddings=linear(u, f"project_node_embeddings.{use_gc}", E, 3 * E),
                    project_fixed_context=linear(u, f"project_fixed_context.{use_gc}", E, E), use_graph_context=use_gc)

        def call(u, ins, dec=dec):
            c = u.run(AMD, "AttentionModelDecoder._precompute_cache", ins["embeddings"], selfobj=dec, record=False)
            out = {k: c._attrs[k] for k in ("node_embeddings", "glimpse_key", "glimpse_val", "logit_key")}
            if isinstance(c._attrs["graph_context"], SymTensor):
                out["graph_context"] = c._attrs["graph_context"]
            return out

        rowlocal(u, f"precompute_cache.gc{int(use_gc)}", lambda u, B: {"embeddings": u.tensor("embeddings", (B, N, E), "f")}, call, tags=("C14",))


# ---------------------------------------------------------------------------------------------
# Initial (instance feature) embeddings: row-local, and node j of the output is built from node j's own features
# ---------------------------------------------------------------------------------------------
INI = "rl4co/models/nn/env_embeddings/init.py"


def _init_unit(u, cls, keys, linears, even=False):
    """keys: name -> (tail(N), dtype) with N = number of customers (nodes without depot); linears: attr -> in_features."""
    H = u.dim("H") if even else None
    N = 2 * H if even else u.dim("N")
    E = u.dim("E", 1)
    obj = u.obj(INI, cls, **{a: linear(u, a, din, E, bias=True) for a, din in linears.items()})

    def make_inputs(u, B):
        return {k: u.tensor(k, (B,) + tuple(tail(N)), dt) for k, (tail, dt) in keys.items()}

    def call(u, ins):
        B = next(iter(ins.values())).shape[0]
        return {"init_embedding": u.run(INI, f"{cls}.forward", SymTD(dict(ins), (B,)), selfobj=obj, record=False)}

    rowlocal(u, cls, make_inputs, call, tags=("C14",))


_LOCS = {"locs": (lambda N: (N + 1, 2), "f")}


@unit("init.tsp.rowlocal", file=INI, func="TSPInitEmbedding.forward", props=("C14",))
def _(u):
    _init_unit(u, "TSPInitEmbedding", {"locs": (lambda N: (N, 2), "f")}, {"init_embed": 2})


@unit("init.vrp.rowlocal", file=INI, func="VRPInitEmbedding.forward", props=("C14",))
def _(u):
    _init_unit(u, "VRPInitEmbedding", dict(_LOCS, demand=(lambda N: (N,), "f")), {"init_embed": 3, "init_embed_depot": 2})


@unit("init.vrptw.rowlocal", file=INI, func="VRPTWInitEmbedding.forward", props=("C14",))
def _(u):
    _init_unit(u, "VRPTWInitEmbedding", dict(_LOCS, demand=(lambda N: (N,), "f"), durations=(lambda N: (N + 1,), "f"), time_windows=(lambda N: (N + 1, 2), "f")),
               {"init_embed": 6, "init_embed_depot": 2})


@unit("init.pctsp.rowlocal", file=INI, func="PCTSPInitEmbedding.forward", props=("C14",))
def _(u):
    _init_unit(u, "PCTSPInitEmbedding", dict(_LOCS, expected_prize=(lambda N: (N,), "f"), penalty=(lambda N: (N + 1,), "f")), {"init_embed": 4, "init_embed_depot": 2})


@unit("init.op.rowlocal", file=INI, func="OPInitEmbedding.forward", props=("C14",))
def _(u):
    _init_unit(u, "OPInitEmbedding", dict(_LOCS, prize=(lambda N: (N + 1,), "f")), {"init_embed": 3, "init_embed_depot": 2})


@unit("init.pdp.rowlocal", file=INI, func="PDPInitEmbedding.forward", props=("C14",))
def _(u):
    _init_unit(u, "PDPInitEmbedding", dict(_LOCS), {"init_embed_depot": 2, "init_embed_pick": 4, "init_embed_delivery": 2}, even=True)


@unit("init.mtsp.rowlocal", file=INI, func="MTSPInitEmbedding.forward", props=("C14",))
def _(u):
    _init_unit(u, "MTSPInitEmbedding", dict(_LOCS), {"init_embed": 2, "init_embed_depot": 2})


@unit("init.smtwtp.rowlocal", file=INI, func="SMTWTPInitEmbedding.forward", props=("C14",))
def _(u):
    _init_unit(u, "SMTWTPInitEmbedding", {k: (lambda N: (N,), "f") for k in ("job_due_time", "job_weight", "job_process_time")}, {"init_embed": 3})


@unit("init.svrp.rowlocal", file=INI, func="SVRPInitEmbedding.forward", props=("C14",))
def _(u):
    _init_unit(u, "SVRPInitEmbedding", dict(_LOCS, skills=(lambda N: (N, 1), "f")), {"init_embed": 3, "init_embed_depot": 2})


# ---------------------------------------------------------------------------------------------
# ConstructivePolicy.forward: the decoding loop and the output dictionary (2-step episode, any batch size)
# ---------------------------------------------------------------------------------------------
BASEP = "rl4co/models/common/constructive/base.py"
DEC = "rl4co/utils/decoding.py"


class _Flag:
    """`done` of the stub environment: all rows finish together after a fixed number of steps (concrete truth value)."""

    def __init__(self, v):
        self.v = v

    def all(self):
        return self.v


def _policy_forward(u, mode, T=2):
    B, N = u.dims("B N")
    logits = [u.tensor(f"step_logits{t}", (B, N), "f") for t in range(T)]
    masks = [u.tensor(f"step_mask{t}", (B, N), "b") for t in range(T)]
    for t in range(T):
        u.requires(u.forall((B,), lambda b, t=t: u.exists((N,), lambda j: masks[t].at(b, j))))
    rew = u.tensor("env_reward", (B,), "f")
    given = u.tensor("given_actions", (B, T), "i")
    u.requires(u.forall((B, T), lambda b, t: AND(given.at(b, t) >= 0, given.at(b, t) < N)))
    td0 = SymTD({"locs": u.tensor("locs", (B, N, 2), "f"), "action_mask": masks[0], "done": _Flag(False)}, (B,))
    calls = {"dec": 0, "steps": [], "reward_actions": None}

    class Decoder:
        def pre_decoder_hook(self, td, env, hidden, num_starts):
            return td, env, hidden

        def __call__(self, td, hidden, num_starts):
            t = calls["dec"]
            calls["dec"] += 1
            return logits[t], masks[t]

    def env_step(td):
        calls["steps"].append(td["action"])
        k = len(calls["steps"])
        td.data["done"] = _Flag(k >= T)
        if k < T:
            td.data["action_mask"] = masks[k]
        return {"next": td}

    def get_reward(td, actions):
        calls["reward_actions"] = actions
        return rew

    env = u.ns(step=env_step, get_reward=get_reward, name="tsp")
    pol = u.obj(BASEP, "ConstructivePolicy", encoder=lambda td: ("hidden", "init"), decoder=Decoder(), env_name="tsp",
                temperature=1.0, tanh_clipping=0, mask_logits=True, train_decode_type="greedy", val_decode_type="greedy", test_decode_type="greedy")
    u.inline((DEC, "get_decoding_strategy"), (DEC, "DecodingStrategy.__init__"), (DEC, "DecodingStrategy.pre_decoder_hook"), (DEC, "DecodingStrategy.post_decoder_hook"),
             (DEC, "DecodingStrategy.step"), (DEC, "Greedy._step"), (DEC, "Evaluate._step"), (DEC, "DecodingStrategy.greedy"), (DEC, "get_log_likelihood"))
    kw = dict(actions=given) if mode == "evaluate" else {}
    # asserts are recorded, not proved: get_log_likelihood's `logprobs > -1000` sanity assert is a known finding of its own
    # (a feasible action may have a smaller log-prob); the feasibility assert of Greedy is re-stated as a clause below
    out = u.run(BASEP, "ConstructivePolicy.forward", td0, env, "train", selfobj=pol, record=False, asserts="record", **kw)
    return dict(B=B, N=N, T=T, logits=logits, masks=masks, rew=rew, given=given, calls=calls, out=out)


def _policy_unit(u, mode):
    from . import decoding as D

    m0 = D._K[0]
    d = _policy_forward(u, mode)
    B, N, T, out, calls = d["B"], d["N"], d["T"], d["out"], d["calls"]
    LP = [u.ctx.inputs[f"logprobs{m0 + 1 + t}"][0] for t in range(T)]   # the step distributions (process_logits contract), in call order
    b = u.idx((B,), "b")
    j = u.idx((N,), "j")
    acts = out["actions"]
    same_tensor(u, "policy.actions.shape", acts, (B, T), lambda bb, tt: acts.at(bb, tt))
    u.prove("policy.decoder-called-once-per-step", calls["dec"] == T and len(calls["steps"]) == T)
    tot = 0
    for t in range(T):
        a = acts.at(b, t)
        # the action returned for step t is the one the environment was stepped with at step t
        u.prove(f"policy.step{t}.returned-action-is-executed-action", calls["steps"][t].at(b) == a)
        if mode == "evaluate":
            u.prove(f"policy.step{t}.evaluates-given-action", a == d["given"].at(b, t))
        else:
            u.prove(f"policy.step{t}.greedy-feasible-maximiser", AND(d["masks"][t].at(b, a), LP[t](zint(b), a) >= LP[t](zint(b), zint(j))))
        tot = tot + LP[t](zint(b), a)
    u.prove("policy.log-likelihood-is-sum-of-step-logprobs-of-returned-actions", out["log_likelihood"].at(b) == tot)
    u.prove("policy.reward-of-returned-actions", AND(calls["reward_actions"] is acts, out["reward"].at(b) == d["rew"].at(b)))
    u.canary("policy.log-likelihood-first-step-only", out["log_likelihood"].at(b) == LP[0](zint(b), acts.at(b, 0)))


@unit("policy.forward.greedy", file=BASEP, func="ConstructivePolicy.forward", props=("C11", "C14"))
def _(u):
    _policy_unit(u, "greedy")


@unit("policy.forward.evaluate", file=BASEP, func="ConstructivePolicy.forward", props=("C11",))
def _(u):
    _policy_unit(u, "evaluate")


NNOPS = "rl4co/models/nn/ops.py"


@unit("nn.normalization.glue", file=NNOPS, func="Normalization.forward", props=("C14",))
def _(u):
    # 'batch' (in eval mode) and 'instance' call torch modules (assumed contract: eval-mode BatchNorm1d is a per-feature affine
    # map of each row of its [rows, E] input; InstanceNorm1d maps each (instance, feature) series over the nodes on its own);
    # what is proved is the view / permute glue around the module: every element goes through the module on its own
    # instance and comes back in place. (The hand-written 'layer' variant is left to the stand-in.)
    N = u.dim("N", 2)
    E = u.dim("E", 1)
    B = u.dim("B")
    g, h = u.tensor("bn.scale", (E,), "f"), u.tensor("bn.shift", (E,), "f")

    class _BN:
        _isinstance_of = ("BatchNorm1d",)

        def __call__(self, x2):   # [rows, E]
            xs = x2.snap()
            return mk(tuple(x2.shape), "f", lambda I: g.at(I[1]) * xs(I) + h.at(I[1]))

    class _IN:
        _isinstance_of = ("InstanceNorm1d",)

        def __call__(self, x3):   # [B, E, N]: an opaque per-(instance, feature) map; here an affine one whose coefficients depend on them
            xs = x3.snap()
            cf = u.tensor("in.coef", (x3.shape[0], x3.shape[1]), "f")
            return mk(tuple(x3.shape), "f", lambda I: cf.at(I[0], I[1]) * xs(I) + h.at(I[1]))

    x = u.tensor("xb", (B, N, E), "f")
    b, n, e = u.idx((B,), "b"), u.idx((N,), "n"), u.idx((E,), "e")
    y = u.run(NNOPS, "Normalization.forward", x, selfobj=u.obj(NNOPS, "Normalization", normalizer=_BN()), record=False)
    same_tensor(u, "norm.batch.shape", y, (B, N, E), lambda *I: y.at(*I))
    u.prove("norm.batch.every-element-through-the-module-in-place", y.at(b, n, e) == g.at(e) * x.at(b, n, e) + h.at(e))
    y2 = u.run(NNOPS, "Normalization.forward", x, selfobj=u.obj(NNOPS, "Normalization", normalizer=_IN()), record=False)
    cf = u.ctx.inputs["in.coef"][0]
    same_tensor(u, "norm.instance.shape", y2, (B, N, E), lambda *I: y2.at(*I))
    u.prove("norm.instance.own-instance-and-feature", y2.at(b, n, e) == cf(zint(b), zint(e)) * x.at(b, n, e) + h.at(e))
    u.canary("norm.instance.feature-node-swapped", y2.at(b, n, e) == cf(zint(b), zint(n)) * x.at(b, n, e) + h.at(e))


ATT = "rl4co/models/nn/attention.py"


@unit("nn.pointer_attention.glue", file=ATT, func="PointerAttention.forward", props=("C14", "C12"))
def _(u):
    # multi-start layout [B, S, E] queries against [B, N, E] keys: head split / merge, mask alignment and the final pointer
    # product. The inner scaled-dot-product attention is a stub recording its inputs (assumed contract of torch SDPA).
    B = u.dim("B")
    N = u.dim("N", 2)
    S = u.dim("S", 2)
    H, G = 2, u.dim("G", 1)       # two heads of width G (the head count is a Python constant of the model)
    E = H * G
    q = u.tensor("query", (B, S, E), "f")
    k = u.tensor("key", (B, N, E), "f")
    v = u.tensor("value", (B, N, E), "f")
    lk = u.tensor("logit_key", (B, N, E), "f")
    mask = u.tensor("attn_mask", (B, S, N), "b")
    rec = {}

    def sdpa(qh, kh, vh, attn_mask=None, **kw):
        rec.update(q=qh, k=kh, v=vh, mask=attn_mask)
        return u.tensor("sdpa_heads", tuple(qh.shape), "f")

    proj = linear(u, "project_out", E, E)
    att = u.obj(ATT, "PointerAttention", num_heads=H, mask_inner=True, project_out=proj, check_nan=False, sdpa_fn=sdpa)
    u.inline((ATT, "PointerAttention._inner_mha"), (ATT, "PointerAttention._make_heads"), (ATT, "PointerAttention._project_out"))
    logits = u.run(ATT, "PointerAttention.forward", q, k, v, lk, mask, selfobj=att, record=False)
    b, s, n = u.idx((B,), "b"), u.idx((S,), "s"), u.idx((N,), "n")
    h, g = u.idx((H,), "h"), u.idx((G,), "g")
    u.prove("ptr.heads.query", AND(rec["q"].rank == 4, rec["q"].at(b, h, s, g) == q.at(b, s, h * G + g)))
    u.canary("ptr.heads.interleaved", rec["q"].at(b, h, s, g) == q.at(b, s, g * H + h))
    u.prove("ptr.heads.key-value", AND(rec["k"].at(b, h, n, g) == k.at(b, n, h * G + g), rec["v"].at(b, h, n, g) == v.at(b, n, h * G + g)))
    u.prove("ptr.mask.own-row-all-heads", AND(rec["mask"].rank == 4, rec["mask"].at(b, 0, s, n) == mask.at(b, s, n)))
    same_tensor(u, "ptr.logits.shape", logits, (B, S, N), lambda *I: logits.at(*I))
    # logits[b, s, n] = <glimpse[b, s, :], logit_key[b, n, :]> / sqrt(E) with glimpse = project_out(merge of the heads of (b, s)):
    # characterised through the body's own reductions (each the sum of its summand over its range)
    sums = [r for r in u.ctx.reds.values() if r.kind == "sum"]
    if u.mode == "sym" and len(sums) == 2:
        r_proj, r_bmm = sums
        heads = u.ctx.inputs["sdpa_heads"][0]
        W = u.ctx.inputs["project_out.weight"][0]
        e, d = u.idx((E,), "e"), z3.Int("ptr.d")
        merged = lambda bb, ss, dd: heads(zint(bb), zint(dd) / zint(G), zint(ss), zint(dd) % zint(G))
        u.prove("ptr.glimpse.is-projection-of-own-merged-heads", AND(zint(r_proj.ns[0]) == zint(E),
                IMPL(AND(d >= 0, d < E), r_proj.body((b, s, e), (d,)) == W(zint(e), d) * merged(b, s, d))))
        u.prove("ptr.logits.inner-product-with-own-instance-keys", AND(zint(r_bmm.ns[0]) == zint(E),
                IMPL(AND(d >= 0, d < E), r_bmm.body((b, s, n), (d,)) == r_proj.app((b, s, d)) * lk.at(b, n, d))))
        u.prove("ptr.logits.scaled", logits.at(b, s, n) == r_bmm.app((b, s, n)) / ops.UF["sqrt"](z3.ToReal(zint(E))))


@unit("nn.multi_head_attention.glue", file=ATT, func="MultiHeadAttention.forward", props=("C14",))
def _(u):
    # encoder self-attention: the fused QKV projection is split (three, head, width) per instance, the inner attention (stub:
    # assumed contract of torch SDPA) sees instance b's own rows and mask, its heads are merged back in place and projected
    B = u.dim("B")
    N = u.dim("N", 2)
    H, G = 2, u.dim("G", 1)
    E = H * G
    x = u.tensor("x", (B, N, E), "f")
    mask = u.tensor("attn_mask", (B, N), "b")
    rec = {}

    def sdpa(qh, kh, vh, attn_mask=None, dropout_p=0.0, **kw):
        rec.update(q=qh, k=kh, v=vh, mask=attn_mask)
        return u.tensor("sdpa_out", tuple(qh.shape), "f")

    wqkv, wout = linear(u, "Wqkv", E, 3 * E), linear(u, "out_proj", E, E)
    mha = u.obj(ATT, "MultiHeadAttention", num_heads=H, Wqkv=wqkv, out_proj=wout, sdpa_fn=sdpa, attention_dropout=0.0)
    y = u.run(ATT, "MultiHeadAttention.forward", x, mask, selfobj=mha, record=False)
    b, n = u.idx((B,), "b"), u.idx((N,), "n")
    h, g = u.idx((H,), "h"), u.idx((G,), "g")
    W = u.ctx.inputs["Wqkv.weight"][0]
    sums = [r for r in u.ctx.reds.values() if r.kind == "sum"]
    same_tensor(u, "mha.out.shape", y, (B, N, E), lambda *I: y.at(*I))
    u.canary("mha.out.is-the-input", y.at(b, n, 0) == x.at(b, n, 0))
    u.prove("mha.mask.own-instance-all-heads-all-queries", AND(rec["mask"].rank == 4, rec["mask"].at(b, 0, 0, n) == mask.at(b, n)))
    if u.mode == "sym" and len(sums) == 2:
        r_qkv, r_out = sums
        d = z3.Int("mha.d")
        # the fused projection of row (b, n), column c, is sum_d W[c, d] x[b, n, d]; q / k / v of head h, width g read columns
        # (0 | 1 | 2) * E + h * G + g of the SAME row
        u.prove("mha.qkv.projection-of-own-row", AND(zint(r_qkv.ns[0]) == zint(E), IMPL(AND(d >= 0, d < E),
                r_qkv.body((b, n, h * G + g), (d,)) == W(zint(h * G + g), d) * x.at(b, n, d))))
        for name, off in (("q", 0), ("k", 1), ("v", 2)):
            u.prove(f"mha.{name}.split", rec[name].at(b, h, n, g) == r_qkv.app((b, n, off * E + h * G + g)))
        out = u.ctx.inputs["sdpa_out"][0]
        Wo = u.ctx.inputs["out_proj.weight"][0]
        e = u.idx((E,), "e")
        u.prove("mha.out.projection-of-own-merged-heads", AND(zint(r_out.ns[0]) == zint(E), IMPL(AND(d >= 0, d < E),
                r_out.body((b, n, e), (d,)) == Wo(zint(e), d) * out(zint(b), d / zint(G), zint(n), d % zint(G)))))
        u.prove("mha.out.value", y.at(b, n, e) == r_out.app((b, n, e)))


@unit("context.tsp.rowlocal", file=CTX, func="TSPContext.forward", props=("C14",))
def _(u):
    # after the first step: first and current node embeddings of the row's OWN instance; at the first step: a placeholder
    # that does not depend on any instance. (Which branch is taken is read from row 0's step counter: all rows of a TSP batch
    # are at the same step.)
    N = u.dim("N")
    E = u.dim("E", 2)
    proj = linear(u, "project_context", 2 * E, E)
    Wp = u.tensor("W_placeholder", (2 * E,), "f")
    obj = u.obj(CTX, "TSPContext", embed_dim=E, project_context=proj, W_placeholder=Wp)
    step = u.scalar("step", "i")
    u.requires(step >= 0)

    def make_inputs(u, B):
        return {"embeddings": u.tensor("embeddings", (B, N, E), "f"), "first_node": u.tensor("first_node", (B,), "i"),
                "current_node": u.tensor("current_node", (B,), "i")}

    def requires(u, ins, B):
        return u.forall((B,), lambda b: AND(ins["first_node"].at(b) >= 0, ins["first_node"].at(b) < N, ins["current_node"].at(b) >= 0, ins["current_node"].at(b) < N))

    def call(u, ins):
        B = ins["embeddings"].shape[0]
        td = SymTD({"first_node": ins["first_node"], "current_node": ins["current_node"], "i": ops.const_tensor((B, 1), "i", step)}, (B,))
        return {"context": u.run(CTX, "TSPContext.forward", ins["embeddings"], td, selfobj=obj, record=False)}

    rowlocal(u, "TSPContext", make_inputs, call, requires=requires, tags=("C14",))


@unit("context.mtsp.rowlocal", file=CTX, func="EnvContext.forward", props=("C14",))
def _(u):
    u.inline((CTX, "MTSPContext._cur_node_embedding"), (CTX, "MTSPContext._state_embedding"), (CTX, "MTSPContext._distance_from_depot"))
    _ctx_unit(u, "MTSPContext", {"num_agents": ((), "i"), "agent_idx": ((), "i"), "current_length": ((), "f"), "max_subtour_length": ((), "f"),
                                "locs": (lambda N: (N, 2), "f")}, E_extra=lambda: None, squeeze_min2=True,
              extra_attrs=lambda u, E: {"proj_dynamic_feats": linear(u, "proj_dynamic_feats", 4, E), "project_context": linear(u, "project_context2", 2 * E, E)})


@unit("decoding.rollout", file=DEC, func="rollout", props=("C02", "C03", "C11"))
def _(u):
    # the helper keeps stepping while ANY instance is unfinished, stacks the actions in execution order and asks the
    # environment for the reward of exactly those actions on the final state (3-step episode, any batch size)
    B = u.dim("B")
    T = 3
    acts = [u.tensor(f"action{t}", (B,), "i") for t in range(T)]
    rew = u.tensor("reward", (B,), "f")
    log = []
    td0 = SymTD({"done": _Flag(False), "obs": u.tensor("obs", (B, 2), "f")}, (B,))

    def policy(td):
        td.data["action"] = acts[len([x for x in log if x[0] == "step"])]
        log.append(("policy",))
        return td

    def step(td):
        log.append(("step", td["action"]))
        td.data["done"] = _Flag(len([x for x in log if x[0] == "step"]) >= T)
        return {"next": td}

    seen = {}
    env = u.ns(step=step, get_reward=lambda td, a: (seen.update(td=td, a=a), rew)[1])
    r, td_out, A = u.run(DEC, "rollout", env, td0, policy, record=False)
    b = u.idx((B,), "b")
    u.prove("rollout.alternates-policy-and-step", [x[0] for x in log] == ["policy", "step"] * T)
    same_tensor(u, "rollout.actions.shape", A, (B, T), lambda bb, tt: A.at(bb, tt))
    for t in range(T):
        u.prove(f"rollout.action{t}-in-execution-order", AND(A.at(b, t) == acts[t].at(b), log[2 * t + 1][1] is acts[t]))
    u.prove("rollout.reward-of-the-stacked-actions-on-the-final-state", AND(seen["td"] is td_out, r.at(b) == rew.at(b), tuple(seen["a"].shape) == tuple(A.shape),
                                                                            *[seen["a"].at(b, t) == acts[t].at(b) for t in range(T)]))
    # the safety cap: stop after max_steps + 1 steps even if the environment never finishes
    log.clear()
    td1 = SymTD({"done": _Flag(False), "obs": u.tensor("obs1", (B, 2), "f")}, (B,))

    def step_never(td):
        log.append(("step", td["action"]))
        return {"next": td}

    env2 = u.ns(step=step_never, get_reward=lambda td, a: rew)
    pol2 = lambda td: (td.data.__setitem__("action", acts[0]), td)[1]
    _, _, A2 = u.run(DEC, "rollout", env2, td1, pol2, 1, record=False)
    u.prove("rollout.max-steps-cap", len(log) == 2 and tuple(A2.shape)[1] == 2)
