"""FFSP (flexible flow shop): the loop-free parts of FFSPEnv - the mask / stage update and the bookkeeping of one step.

Problem definition used here: J jobs pass through S stages in order; job_location[b, j] = stage the job has to be processed in
next (S = finished); a job is *available* at the current decision point iff it sits in the current stage and is not waiting for
its previous operation to finish; column J of the mask is the waiting action. The machine walk `_move_to_next_machine` (a while
loop over data-dependent index sets) is NOT within reach: it enters the step unit through an assumed contract (stated below,
listed in the evidence) and is exercised by the bounded stand-in sched_episodes."""
import z3

from tvc import ops
from tvc.core import AND, IMPL, NOT, OR, cur, ite, mk, zint, zreal
from tvc.unit import unit

from .envlib import same_tensor

F = "rl4co/envs/scheduling/ffsp/env.py"


def _tables(u, S, M, MT, P, B):
    st = u.tensor("stage_table", (MT,), "i")
    mt = u.tensor("machine_table", (P, MT), "i")
    smt = u.tensor("stage_machine_table", (P, MT), "i")
    u.requires(u.forall((MT,), lambda s: AND(st.at(s) >= 0, st.at(s) < S)))
    u.requires(u.forall((P, MT), lambda p, s: AND(mt.at(p, s) >= 0, mt.at(p, s) < MT, smt.at(p, s) >= 0, smt.at(p, s) < MT)))
    from tvc.unit import div_below_hint
    if B is not None:
        div_below_hint(u, B)                                         # pomo index of a row below the batch size: idx // bs = 0
    return u.obj(F, "IndexTables", stage_table=st, machine_table=mt, stage_machine_table=smt, bs=B), st, mt, smt


def _state(u, B, J, MT):
    return u.td(B, job_location=((B, J + 1), "i"), job_wait_step=((B, J + 1), "i"), machine_wait_step=((B, MT), "i"), sub_time_idx=((B,), "i"),
                time_idx=((B,), "i"), machine_idx=((B,), "i"), stage_idx=((B,), "i"), stage_machine_idx=((B,), "i"), done=((B,), "b"),
                action_mask=((B, J + 1), "b"), schedule=((B, MT, J + 1), "i"), job_duration=((B, J + 1, MT), "i"), action=((B,), "i"))


def _state_ok(u, td, B, J, MT):
    return u.forall((B,), lambda b: AND(td["sub_time_idx"].at(b) >= 0, td["sub_time_idx"].at(b) < MT, td["machine_idx"].at(b) >= 0, td["machine_idx"].at(b) < MT))


def _mask_clauses(u, pre, out, st, B, J, S, p=""):
    b, j = u.idx((B,), "b"), u.idx((J,), "j")
    stage = st.at(pre["sub_time_idx"].at(b))
    loc, wait = pre["job_location"], pre["job_wait_step"]
    u.prove(p + "stage-is-the-tabulated-stage-of-the-sub-time", out["stage_idx"].at(b) == stage, tags=("C07",))
    # a job is offered exactly when it sits in the current stage and is not waiting for its previous operation
    u.prove(p + "mask.job-offered-iff-in-stage-and-not-waiting", out["action_mask"].at(b, j) == AND(loc.at(b, j) == stage, wait.at(b, j) == 0), tags=("C07", "C05"))
    # waiting (column J) is offered exactly when a job still has to pass an earlier stage, a job of this stage is still being processed, or the instance is done
    earlier = u.exists((J,), lambda q: loc.at(b, q) < stage)
    busy = u.exists((J,), lambda q: AND(loc.at(b, q) == stage, wait.at(b, q) > 0))
    u.prove(p + "mask.wait-offered-iff-blocked-or-done", out["action_mask"].at(b, J) == OR(earlier, busy, pre["done"].at(b)), tags=("C07",))


@unit("ffsp.update_step_state", file=F, func="FFSPEnv._update_step_state", props=("C07", "C05"))
def _(u):
    B, J, S, M, MT, P = u.dims("B J S M MT P")
    tables, st, mt, smt = _tables(u, S, M, MT, P, B)
    env = u.obj(F, "FFSPEnv", num_job=J, num_stage=S, num_machine=M, num_machine_total=MT, tables=tables)
    td = _state(u, B, J, MT)
    u.requires(_state_ok(u, td, B, J, MT))
    u.requires(P >= 1)
    pre = u.snapshot(td)
    u.inline((F, "IndexTables.get_stage_index"), (F, "IndexTables.get_stage_machine_index"))
    out = u.run(F, "FFSPEnv._update_step_state", td, selfobj=env, asserts="record")
    _mask_clauses(u, pre, out, st, B, J, S)
    b = u.idx((B,), "b")
    from tvc.unit import divmod_hint
    divmod_hint(u, b, 0, B, b)                                       # pomo index of row b: b // bs = 0 for b < bs
    same_tensor(u, "mask.shape", out["action_mask"], (B, J + 1), lambda bb, jj: out["action_mask"].at(bb, jj), tags=("C07",))
    u.prove("stage-machine-index", out["stage_machine_idx"].at(b) == smt.at(0, pre["sub_time_idx"].at(b)), tags=("C07",))
    for k in ("job_location", "job_wait_step", "machine_wait_step", "schedule"):
        shp = tuple(pre[k].shape[1:])
        I = u.idx(shp, " ".join(f"i{q}_{k}" for q in range(len(shp))))
        I = I if isinstance(I, tuple) else (I,)
        u.prove(f"untouched.{k}", out[k].at(b, *I) == pre[k].at(b, *I), tags=("C07",))
    u.canary("mask.every-job-offered", out["action_mask"].at(b, 0))


@unit("ffsp.step.bookkeeping", file=F, func="FFSPEnv._step", props=("C07", "C03"))
def _(u):
    # the bookkeeping of one scheduling decision. The two follow-up calls of _step - the machine walk _move_to_next_machine (a while
    # loop over data-dependent index sets: not within reach, exercised by the stand-in sched_episodes) and _update_step_state (unit
    # ffsp.update_step_state) - are replaced by the identity here, so the clauses below are about the fields they do not write
    B, J, S, M, MT, P = u.dims("B J S M MT P")
    u.requires(AND(S >= 1, J >= 1))
    ident = lambda td: td
    env = u.obj(F, "FFSPEnv", num_job=J, num_stage=S, num_machine=M, num_machine_total=MT, step_cnt=0, _move_to_next_machine=ident, _update_step_state=ident)
    u.assumptions.add("FFSPEnv._move_to_next_machine / _update_step_state are replaced by the identity in unit ffsp.step.bookkeeping (the walk is a while loop over data-dependent index sets; covered by unit ffsp.update_step_state and the bounded stand-in sched_episodes)")
    td = _state(u, B, J, MT)
    u.requires(_state_ok(u, td, B, J, MT))
    a = td["action"]
    u.requires(u.forall((B,), lambda b: AND(a.at(b) >= 0, a.at(b) <= J)))        # a job, or the waiting action (dummy job J)
    pre = u.snapshot(td)
    out = u.run(F, "FFSPEnv._step", td, selfobj=env)
    b, j, m = u.idx((B,), "b"), u.idx((J + 1,), "j"), u.idx((MT,), "m")
    jj = u.idx((J,), "jj")
    ab, mb = pre["action"].at(b), pre["machine_idx"].at(b)
    dur = pre["job_duration"].at(b, ab, mb)
    u.prove("step.job-advances-one-stage", out["job_location"].at(b, j) == pre["job_location"].at(b, j) + ite(zint(j) == ab, 1, 0))
    u.prove("step.start-time-recorded", out["schedule"].at(b, m, j) == ite(AND(zint(m) == mb, zint(j) == ab), pre["time_idx"].at(b), pre["schedule"].at(b, m, j)))
    u.prove("step.machine-and-job-blocked-for-the-duration",
            AND(out["machine_wait_step"].at(b, m) == ite(zint(m) == mb, dur, pre["machine_wait_step"].at(b, m)),
                out["job_wait_step"].at(b, j) == ite(zint(j) == ab, dur, pre["job_wait_step"].at(b, j))))
    # done <=> every real job passed every stage
    u.prove("step.done-only-if-every-job-passed-every-stage", IMPL(out["done"].at(b), out["job_location"].at(b, jj) == S))
    # (converse, quantifier-free: stated at the counter-witness of the code's own all()-reduction - if even that job passed every stage,
    # the instance is flagged done; with the reduction's axiom "not all => the witness fails" this is the implication from "every job")
    from tvc.vc import _skolem
    alls = [r for r in u.ctx.reds.values() if r.kind == "all" and r.outer_rank == 1]
    if alls:
        w = _skolem(alls[0], "w0")([zint(b)])
        u.prove("step.done-if-every-job-passed-every-stage", IMPL(IMPL(AND(w >= 0, w < J), out["job_location"].at(b, w) == S), out["done"].at(b)))
    else:
        u.prove("step.done-if-every-job-passed-every-stage", IMPL(u.forall((J,), lambda q: out["job_location"].at(b, q) == S), out["done"].at(b)))
    u.prove("step.durations-untouched", out["job_duration"].at(b, j, m) == pre["job_duration"].at(b, j, m))
    if "reward" in out.keys():
        # (path: the whole batch is finished) makespan = latest completion (start + duration) over all machines and real jobs
        r = out["reward"].at(b)
        u.prove("step.final.reward-is-minus-makespan.upper", -r >= out["schedule"].at(b, m, jj) + pre["job_duration"].at(b, jj, m))
        u.prove("step.final.reward-is-minus-makespan.attained", u.exists((MT, J), lambda m2, j2: -r == out["schedule"].at(b, m2, j2) + pre["job_duration"].at(b, j2, m2)))
    u.canary("step.nothing-advances", out["job_location"].at(b, j) == pre["job_location"].at(b, j))


@unit("ffsp.reset", file=F, func="FFSPEnv._reset", props=("C07", "C04"))
def _(u):
    B, J, S, M, MT, P = u.dims("B J S M MT P")
    B0 = u.dim("B0")                                                 # batch size of an EARLIER episode run on the same env object
    u.requires(AND(P >= 1, MT >= 1, J >= 1, zint(MT) == zint(M) * zint(S)))
    fresh, st, mt, smt = _tables(u, S, M, MT, P, None)
    ctx = cur()
    ctx.prefix = "stale."
    stale, _, _, _ = _tables(u, S, M, MT, P, B0)                     # what the env still holds from that episode
    ctx.prefix = ""
    from tvc.unit import div_below_hint
    div_below_hint(u, B)
    u.stub(IndexTables=lambda env: fresh)                            # the index tables (itertools.permutations): arbitrary tables in range
    env = u.obj(F, "FFSPEnv", num_job=J, num_stage=S, num_machine=M, num_machine_total=MT, device="cpu", tables=stale)
    td = u.td(B, run_time=((B, J, MT), "i"))
    rt = td["run_time"]
    u.inline((F, "IndexTables.get_stage_index"), (F, "IndexTables.get_stage_machine_index"), (F, "IndexTables.get_machine_index"), (F, "IndexTables.set_bs"))
    out = u.run(F, "FFSPEnv._reset", td, [B], selfobj=env, record=False)
    b, j, jj, m = u.idx((B,), "b"), u.idx((J + 1,), "j"), u.idx((J,), "jj"), u.idx((MT,), "m")
    u.prove("reset.clock-at-zero", AND(out["time_idx"].at(b) == 0, out["sub_time_idx"].at(b) == 0, out["stage_idx"].at(b) == st.at(0)), tags=("C07",))
    # every row of THIS batch starts on the un-permuted machine order (row 0 of the tables), whatever batch size an earlier
    # episode on the same env object had: the tables the env keeps are bound to the current batch size
    tb = env._attrs["tables"]
    u.prove("reset.tables-bound-to-this-batch", tb is not stale and (tb._attrs.get("bs") is B or (tb._attrs.get("bs") is not None and z3.simplify(zint(tb._attrs["bs"]) == zint(B)).eq(z3.BoolVal(True)))),
            note=f"bs = {tb._attrs.get('bs')!r}")
    u.prove("reset.every-row-on-the-unpermuted-machine-order", AND(out["machine_idx"].at(b) == mt.at(0, 0), out["stage_machine_idx"].at(b) == smt.at(0, 0)))
    u.prove("reset.every-job-at-the-first-stage-and-free", AND(out["job_location"].at(b, j) == 0, out["job_wait_step"].at(b, j) == 0, out["machine_wait_step"].at(b, m) == 0), tags=("C07",))
    u.prove("reset.durations-are-the-instance-run-times", AND(out["job_duration"].at(b, jj, m) == rt.at(b, jj, m), out["job_duration"].at(b, J, m) == 0), tags=("C07",))
    u.prove("reset.nothing-scheduled", out["schedule"].at(b, m, j) == -999999, tags=("C07",))
    u.prove("reset.mask-offers-every-job-and-no-waiting", AND(out["action_mask"].at(b, jj), NOT(out["action_mask"].at(b, J)), NOT(out["done"].at(b))), tags=("C07",))
    u.prove("reset.shapes", AND(*[zint(x) == zint(y) for x, y in zip(tuple(out["job_duration"].shape), (B, J + 1, MT))], tuple(out.batch_size) == (B,)), tags=("C07",))
    u.canary("reset.waiting-offered", out["action_mask"].at(b, J))
