"""C17 (proof part): dataset classes return exactly the stored rows; the extra key travels with its instance.

Python lists of per-instance dicts are unrolled, so the dataset length is a concrete constant here (n = 4, stated
bound); feature shapes, dtypes and contents are symbolic. The DataLoader itself (chunking, sampler, __getitems__
protocol) is the assumed contract A9.
"""
import z3

from tvc import ops
from tvc.core import AND, IMPL, NOT, OR, cur, ite, mk, zint, zreal, SymTensor
from tvc.td import SymTD
from tvc.unit import spec, unit

from .envlib import B_, same_tensor

DS = "rl4co/data/dataset.py"
NDATA = 4
CHUNKS = ([0, 1], [2, 3], [3, 0, 2], [1])   # index chunks a DataLoader may hand to the dataset (any order, partial last batch)


def _td(u, D):
    return SymTD({"locs": u.tensor("locs", (NDATA, D, 2), "f"), "demand": u.tensor("demand", (NDATA, D), "f"),
                  "flag": u.tensor("flag", (NDATA,), "i")}, (NDATA,))


def _check_batch(u, name, batch, td, chunk, D, extra=None, key="extra"):
    u.prove(f"{name}.batch_size", tuple(batch.batch_size) == (len(chunk),))
    d = u.idx((D,), f"{name}.d")
    for m, i in enumerate(chunk):
        u.prove(f"{name}.row{m}.locs", batch["locs"].at(m, d, 1) == td["locs"].at(i, d, 1))
        u.prove(f"{name}.row{m}.demand", batch["demand"].at(m, d) == td["demand"].at(i, d))
        u.prove(f"{name}.row{m}.flag", AND(batch["flag"].at(m) == td["flag"].at(i), batch["flag"].dtype == "i"))
        if extra is not None:
            u.prove(f"{name}.row{m}.extra-travels-with-instance", batch[key].at(m) == extra.at(i))
    u.prove(f"{name}.shapes", AND(tuple(batch["locs"].shape[1:]) == tuple(td["locs"].shape[1:]), batch["demand"].rank == 2, batch["locs"].dtype == "f"))


@unit("dataset.tensordict", file=DS, func="TensorDictDataset.collate_fn", props=("C17",))
def _(u):
    D = u.dim("D")
    td = _td(u, D)
    ds = u.obj(DS, "TensorDictDataset")
    u.run(DS, "TensorDictDataset.__init__", td, selfobj=ds, record=False)
    u.prove("len", u.run(DS, "TensorDictDataset.__len__", selfobj=ds, record=False) == NDATA)
    for c, chunk in enumerate(CHUNKS):
        items = [u.run(DS, "TensorDictDataset.__getitem__", i, selfobj=ds, record=False) for i in chunk]   # DataLoader: list of __getitem__
        batch = u.run(DS, "TensorDictDataset.collate_fn", items, record=False)
        _check_batch(u, f"chunk{c}", batch, td, chunk, D)


@unit("dataset.extrakey", file=DS, func="ExtraKeyDataset.__getitem__", props=("C17",))
def _(u):
    D = u.dim("D")
    td = _td(u, D)
    extra = u.tensor("extra", (NDATA,), "f")
    base = u.obj(DS, "TensorDictDataset")
    u.run(DS, "TensorDictDataset.__init__", td, selfobj=base, record=False)
    u.inline((DS, "TensorDictDataset.__len__"))
    ds = u.obj(DS, "ExtraKeyDataset")
    u.run(DS, "ExtraKeyDataset.__init__", base, extra, selfobj=ds, record=False)
    u.native("dataset.extrakey", chunks=[list(c) for c in CHUNKS])
    for c, chunk in enumerate(CHUNKS):
        items = [u.run(DS, "ExtraKeyDataset.__getitem__", i, selfobj=ds, record=False) for i in chunk]
        batch = u.run(DS, "TensorDictDataset.collate_fn", items, record=False)
        u.native_out(f"chunk{c}.extra", batch["extra"])
        _check_batch(u, f"chunk{c}", batch, td, chunk, D, extra=extra)
    # history: the SAME base dataset is wrapped again with new values (RolloutBaseline.wrap_dataset after a baseline
    # update) after items have already been read through the first wrapper: the new values must be the ones returned
    extra2 = u.tensor("extra_second_wrap", (NDATA,), "f")
    ds2 = u.obj(DS, "ExtraKeyDataset")
    u.run(DS, "ExtraKeyDataset.__init__", base, extra2, selfobj=ds2, record=False)
    for c, chunk in enumerate(CHUNKS[1:3]):
        items = [u.run(DS, "ExtraKeyDataset.__getitem__", i, selfobj=ds2, record=False) for i in chunk]
        batch = u.run(DS, "TensorDictDataset.collate_fn", items, record=False)
        u.native_out(f"rewrap.chunk{c}.extra", batch["extra"])
        _check_batch(u, f"rewrap.chunk{c}", batch, td, chunk, D, extra=extra2)
    # ... and wrapping the wrapper (nested) as well
    ds3 = u.obj(DS, "ExtraKeyDataset")
    extra3 = u.tensor("extra_nested_wrap", (NDATA,), "f")
    u.run(DS, "ExtraKeyDataset.__init__", ds2, extra3, selfobj=ds3, record=False)
    items = [u.run(DS, "ExtraKeyDataset.__getitem__", i, selfobj=ds3, record=False) for i in CHUNKS[2]]
    batch = u.run(DS, "TensorDictDataset.collate_fn", items, record=False)
    u.native_out("nested.chunk.extra", batch["extra"])
    _check_batch(u, "nested.chunk", batch, td, CHUNKS[2], D, extra=extra3)


@unit("dataset.fast", file=DS, func="FastTdDataset.__getitems__", props=("C17",))
def _(u):
    D = u.dim("D")
    td = _td(u, D)
    ds = u.obj(DS, "FastTdDataset")
    u.run(DS, "FastTdDataset.__init__", td, selfobj=ds, record=False)
    for c, chunk in enumerate(CHUNKS):
        got = u.run(DS, "FastTdDataset.__getitems__", list(chunk), selfobj=ds, record=False)   # DataLoader: one __getitems__ call
        batch = u.run(DS, "FastTdDataset.collate_fn", got, record=False)
        _check_batch(u, f"chunk{c}", batch, td, chunk, D)


@unit("dataset.fastgen", file=DS, func="TensorDictDatasetFastGeneration.__getitems__", props=("C17",))
def _(u):
    D = u.dim("D")
    td = _td(u, D)
    extra = u.tensor("extra", (NDATA,), "f")
    ds = u.obj(DS, "TensorDictDatasetFastGeneration")
    u.run(DS, "TensorDictDatasetFastGeneration.__init__", td, selfobj=ds, record=False)
    ds2 = u.run(DS, "TensorDictDatasetFastGeneration.add_key", "extra", extra, selfobj=ds, record=False)
    u.native("dataset.fastgen", chunks=[list(c) for c in CHUNKS])
    for c, chunk in enumerate(CHUNKS):
        got = u.run(DS, "TensorDictDatasetFastGeneration.__getitems__", list(chunk), selfobj=ds2, record=False)
        batch = u.run(DS, "TensorDictDatasetFastGeneration.collate_fn", got, record=False)
        u.native_out(f"chunk{c}.extra", batch["extra"])
        _check_batch(u, f"chunk{c}", batch, td, chunk, D, extra=extra)
    # history: the same dataset object gets the key again with new values (next epoch, baseline updated): the NEW values travel
    extra2 = u.tensor("extra_second_wrap", (NDATA,), "f")
    ds3 = u.run(DS, "TensorDictDatasetFastGeneration.add_key", "extra", extra2, selfobj=ds2, record=False)
    for c, chunk in enumerate(CHUNKS[1:3]):
        got = u.run(DS, "TensorDictDatasetFastGeneration.__getitems__", list(chunk), selfobj=ds3, record=False)
        batch = u.run(DS, "TensorDictDatasetFastGeneration.collate_fn", got, record=False)
        u.native_out(f"rewrap.chunk{c}.extra", batch["extra"])
        _check_batch(u, f"rewrap.chunk{c}", batch, td, chunk, D, extra=extra2)


# ---------------------------------------------------------------------------------------------
# C17: greedy-rollout baseline values are computed chunk by chunk and must land on their own instance
# ---------------------------------------------------------------------------------------------
BLF = "rl4co/models/rl/reinforce/baselines.py"
NROLL = 5
ROLL_CHUNKS = ([0, 1], [2, 3], [4])      # DataLoader(batch_size=2) over 5 instances: the last batch is partial (A9)


class _Policy:
    """stub policy: the reward of an instance is a fixed function of that instance (its first coordinate)"""

    def eval(self):
        return self

    def to(self, device):
        return self

    def __call__(self, batch, env, decode_type=None):
        x = batch["locs"]
        xs = x.snap()
        return {"reward": mk((x.shape[0],), "f", lambda I: xs((I[0], 0, 0)) * 2 + 1)}


@unit("rollout_baseline.rollout_and_wrap", file=BLF, func="RolloutBaseline.rollout", props=("C17",))
def _(u):
    D = u.dim("D")
    locs = u.tensor("locs", (NROLL, D, 2), "f")
    td = SymTD({"locs": locs}, (NROLL,))
    base = u.obj(DS, "TensorDictDataset")
    u.run(DS, "TensorDictDataset.__init__", td, selfobj=base, record=False)
    u.inline((DS, "TensorDictDataset.__len__"), (DS, "TensorDictDataset.add_key"), (DS, "ExtraKeyDataset.__init__"), (DS, "TensorDictDataset.collate_fn"))

    def loader(dataset, batch_size=None, collate_fn=None, **kw):
        # one batch per chunk, built the way a DataLoader does: collate_fn over the items of the chunk
        return [u.interp.apply(collate_fn, ([u.run(DS, "TensorDictDataset.__getitem__", i, selfobj=dataset, record=False) for i in chunk],), {}) for chunk in ROLL_CHUNKS]

    u.stub(DataLoader=loader)
    env = u.ns(reset=lambda batch: batch)
    bl = u.obj(BLF, "RolloutBaseline", policy=_Policy(), dataset=base)
    rewards = u.run(BLF, "RolloutBaseline.rollout", _Policy(), env, 2, "cpu", base, selfobj=bl, record=False)
    u.prove("rollout.length", tuple(rewards.shape) == (NROLL,))
    for i in range(NROLL):
        u.prove(f"rollout.value{i}-belongs-to-instance{i}", rewards.at(i) == locs.at(i, 0, 0) * 2 + 1)
    u.prove("rollout.no-gradient", not rewards.requires_grad)
    # wrap_dataset: the values travel as the extra key of THEIR instance
    u.inline((BLF, "RolloutBaseline.rollout"))
    wrapped = u.run(BLF, "RolloutBaseline.wrap_dataset", base, env, 2, "cpu", selfobj=bl, record=False)
    for i in (0, 3, 4):
        item = u.run(DS, "ExtraKeyDataset.__getitem__", i, selfobj=wrapped, record=False)
        d = u.idx((D,), f"d{i}")
        u.prove(f"wrap.item{i}.extra-is-own-baseline-value", AND(item["extra"].at() == locs.at(i, 0, 0) * 2 + 1, item["locs"].at(d, 1) == locs.at(i, d, 1)))
    u.canary("rollout.all-equal", rewards.at(4) == rewards.at(0))


LIT = "rl4co/models/rl/common/base.py"


@unit("litmodule.dataloader", file=LIT, func="RL4COLitModule._dataloader_single", props=("C17",))
def _(u):
    # the trainer's loaders are built over the dataset it is given, with THAT dataset's collate_fn, the requested batch
    # size and shuffle flag; a dict of datasets gives one loader per dataset, in order, each with its own batch size
    made = []

    def loader(dataset, batch_size=None, shuffle=None, num_workers=None, collate_fn=None, **kw):
        made.append(dict(dataset=dataset, batch_size=batch_size, shuffle=shuffle, collate_fn=collate_fn, drop_last=bool(kw.get("drop_last", False)),
                         custom_order=kw.get("sampler") is not None or kw.get("batch_sampler") is not None))
        return made[-1]

    u.stub(DataLoader=loader)
    d1, d2 = u.ns(collate_fn="collate-1"), u.ns(collate_fn="collate-2")
    mod = u.obj(LIT, "RL4COLitModule", dataloader_num_workers=0)
    u.inline((LIT, "RL4COLitModule._dataloader_single"))
    r = u.run(LIT, "RL4COLitModule._dataloader", d1, 7, True, selfobj=mod, record=False)
    u.prove("loader.single", r is made[0] and made[0]["dataset"] is d1 and made[0]["collate_fn"] == "collate-1" and made[0]["batch_size"] == 7 and made[0]["shuffle"] is True)
    # every instance comes out once per epoch: no partial batch is dropped, no sampler replaces the dataset order
    u.prove("loader.single.keeps-the-partial-last-batch", made[0]["drop_last"] is False and made[0]["custom_order"] is False)
    made.clear()
    r = u.run(LIT, "RL4COLitModule._dataloader", {"a": d1, "b": d2}, [3, 5], False, selfobj=mod, record=False)
    u.prove("loader.dict", len(r) == 2 and made[0]["dataset"] is d1 and made[1]["dataset"] is d2 and made[0]["batch_size"] == 3 and made[1]["batch_size"] == 5
            and made[1]["collate_fn"] == "collate-2" and made[0]["shuffle"] is False and mod._attrs["dataloader_names"] == ["a", "b"])
    made.clear()
    r = u.run(LIT, "RL4COLitModule._dataloader", {"a": d1, "b": d2}, 4, False, selfobj=mod, record=False)
    u.prove("loader.dict.int-batch-size", len(r) == 2 and made[0]["batch_size"] == 4 and made[1]["batch_size"] == 4)


RFM = "rl4co/models/rl/reinforce/reinforce.py"


@unit("reinforce.dataset_lifecycle", file=RFM, func="REINFORCE.on_train_epoch_end", props=("C17",))
def _(u):
    # history: at the end of an epoch the baseline is updated FIRST (epoch callback), then a fresh training set is drawn and
    # wrapped by the (updated) baseline, so the extra values of the next epoch are those of the baseline used in that epoch;
    # the loaders hand the wrapped training set out with the training batch size / shuffle flag, validation and test unshuffled
    log = []
    fresh = u.ns(tag="fresh-train-set")

    def wrap(dataset, env, batch_size=None, device=None, **kw):
        log.append(("wrap", dataset, batch_size))
        return u.ns(wrapped=dataset, batch_size=batch_size, collate_fn="c")

    def callback(policy, env=None, batch_size=None, device=None, epoch=None, dataset_size=None):
        log.append(("callback", epoch, batch_size, dataset_size))

    env = u.ns(dataset=lambda size, phase=None: (log.append(("dataset", size, phase)), fresh)[1])
    made = []
    u.stub(DataLoader=lambda dataset, batch_size=None, shuffle=None, num_workers=None, collate_fn=None, **kw: (made.append((dataset, batch_size, shuffle)), made[-1])[1],
           get_lightning_device=lambda m: "cpu")
    mod = u.obj(RFM, "REINFORCE", env=env, policy="policy", baseline=u.ns(wrap_dataset=wrap, epoch_callback=callback), val_batch_size=64, train_batch_size=32,
                test_batch_size=16, data_cfg={"train_data_size": 1000, "val_data_size": 100}, current_epoch=0, trainer=u.ns(max_epochs=3),
                shuffle_train_dataloader=True, dataloader_num_workers=0, train_dataset=u.ns(collate_fn="c0"), val_dataset=u.ns(collate_fn="c1"), test_dataset=u.ns(collate_fn="c2"))
    u.inline((LIT, "RL4COLitModule.on_train_epoch_end"), (RFM, "REINFORCE.wrap_dataset"), (LIT, "RL4COLitModule._dataloader"), (LIT, "RL4COLitModule._dataloader_single"))
    u.run(RFM, "REINFORCE.on_train_epoch_end", selfobj=mod, record=False)
    kinds = [x[0] for x in log]
    u.prove("epoch-end.order", kinds == ["callback", "dataset", "wrap"])
    u.prove("epoch-end.callback-args", log[0][1:] == (0, 64, 100))
    u.prove("epoch-end.fresh-train-set-of-configured-size", log[1][1:] == (1000, "train"))
    u.prove("epoch-end.wraps-the-fresh-set", log[2][1] is fresh and log[2][2] == 64 and mod._attrs["train_dataset"].wrapped is fresh)
    tl = u.run(LIT, "RL4COLitModule.train_dataloader", selfobj=mod, record=False)
    vl = u.run(LIT, "RL4COLitModule.val_dataloader", selfobj=mod, record=False)
    te = u.run(LIT, "RL4COLitModule.test_dataloader", selfobj=mod, record=False)
    u.prove("loaders.train", tl[0] is mod._attrs["train_dataset"] and tl[1] == 32 and tl[2] is True)
    u.prove("loaders.val-test-unshuffled", vl[0] is mod._attrs["val_dataset"] and vl[1] == 64 and vl[2] is False and te[0] is mod._attrs["test_dataset"] and te[1] == 16 and te[2] is False)
    # last epoch: nothing is regenerated
    log.clear()
    mod._attrs["current_epoch"] = 2
    u.run(RFM, "REINFORCE.on_train_epoch_end", selfobj=mod, record=False)
    u.prove("epoch-end.last-epoch-no-new-dataset", [x[0] for x in log] == ["callback"])


@unit("rollout_baseline.update_policy", file=BLF, func="RolloutBaseline._update_policy", props=("C16", "C17", "C20"))
def _(u):
    # the baseline policy is a DEEP copy of the actor taken at update time (it must not follow the actor's later training
    # steps), moved to the evaluation device; its values are its own greedy roll-out on the baseline's evaluation set
    log = []

    class _Copied:
        def __init__(self, how, src):
            self.how, self.src, self.device = how, src, None

        def to(self, device):
            self.device = device
            return self

    u.stub(copy=u.ns(deepcopy=lambda x: _Copied("deep", x), copy=lambda x: _Copied("shallow", x)))
    actor = u.ns(name="actor")
    evalset = u.ns(name="evaluation-set")
    vals = u.ns(mean=lambda: 1.5)
    rolled = {}

    def rollout(policy, env, batch_size, device, dataset):
        rolled.update(policy=policy, dataset=dataset, batch_size=batch_size)
        return u.ns(cpu=lambda: u.ns(numpy=lambda: vals))

    env = u.ns(dataset=lambda batch_size=None: (log.append(("dataset", batch_size)), evalset)[1])
    bl = u.obj(BLF, "RolloutBaseline", rollout=rollout, bl_alpha=0.05)
    u.run(BLF, "RolloutBaseline._update_policy", actor, env, 32, "cuda:0", 1000, selfobj=bl, record=False)
    pol = bl._attrs["policy"]
    u.prove("update.baseline-is-a-deep-copy-of-the-actor", isinstance(pol, _Copied) and pol.how == "deep" and pol.src is actor and pol.device == "cuda:0")
    u.prove("update.values-are-the-copy's-own-rollout-on-the-evaluation-set", rolled.get("policy") is pol and rolled.get("dataset") is evalset and rolled.get("batch_size") == 32
            and bl._attrs["bl_vals"] is vals and bl._attrs["mean"] == 1.5 and log == [("dataset", [1000])])
