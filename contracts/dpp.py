"""C08 / C02 / C04 (proof part): decap placement environments DPPEnv / MDPPEnv — reset, step, quota, forbidden cells.

State invariant: action_mask = allowed0 & ~placed, where allowed0 = not keep-out (and not a probing port for MDPP);
i = number of placed decaps; done iff the quota max_decaps is reached. The reward (file-backed PDN model) is out of scope.
"""
import z3

from tvc import ops
from tvc.core import AND, IMPL, NOT, OR, cur, ite, mk, zint, zreal
from tvc.td import SymTD
from tvc.unit import spec, unit

from .envlib import B_, rowlocal, same_tensor

D = "rl4co/envs/eda/dpp/env.py"
MD = "rl4co/envs/eda/mdpp/env.py"


@unit("dpp.reset", file=D, func="DPPEnv._reset", props=("C08", "C02"))
def _(u):
    B, N = u.dims("B N")
    inst = SymTD({"locs": u.tensor("locs", (B, N, 2), "f"), "probe": u.tensor("probe", (B, 1), "i"), "action_mask": u.tensor("action_mask", (B, N), "b")}, (B,))
    pre = u.snapshot(inst)
    env = u.obj(D, "DPPEnv")
    td = u.run(D, "DPPEnv._reset", inst, [B], selfobj=env)
    b, n = u.idx((B,), "b"), u.idx((N,), "n")
    u.prove("reset.nothing-placed", AND(tuple(td["i"].shape) == (B, 1), td["i"].at(b, 0) == 0))
    u.prove("reset.mask-is-allowed-cells", td["action_mask"].at(b, n) == pre["action_mask"].at(b, n))
    u.prove("reset.keepout-is-complement", td["keepout"].at(b, n) == NOT(pre["action_mask"].at(b, n)))
    u.canary("reset.everything-allowed", td["action_mask"].at(b, n))


@unit("mdpp.reset", file=MD, func="MDPPEnv._reset", props=("C08", "C02"))
def _(u):
    B, N = u.dims("B N")
    inst = SymTD({"locs": u.tensor("locs", (B, N, 2), "f"), "probe": u.tensor("probe", (B, N), "b"), "action_mask": u.tensor("action_mask", (B, N), "b")}, (B,))
    pre = u.snapshot(inst)
    env = u.obj(MD, "MDPPEnv")
    u.inline((D, "DPPEnv._reset"))
    td = u.run(MD, "MDPPEnv._reset", inst, [B], selfobj=env)
    b, n = u.idx((B,), "b"), u.idx((N,), "n")
    u.prove("reset.mask-excludes-keepout-and-probing-ports", td["action_mask"].at(b, n) == AND(pre["action_mask"].at(b, n), NOT(pre["probe"].at(b, n))))
    u.prove("reset.keepout-is-complement-of-given-mask", td["keepout"].at(b, n) == NOT(pre["action_mask"].at(b, n)))
    u.prove("reset.nothing-placed", td["i"].at(b, 0) == 0)
    u.canary("reset.probes-allowed", td["action_mask"].at(b, n) == pre["action_mask"].at(b, n))


def _step_state(u, B, N):
    return {"action_mask": u.tensor("action_mask", (B, N), "b"), "i": u.tensor("i", (B, 1), "i"), "action": u.tensor("action", (B,), "i"),
            "keepout": u.tensor("keepout", (B, N), "b")}


@unit("dpp.step", file=D, func="DPPEnv._step", props=("C08", "C02", "C04"))
def _(u):
    B, N = u.dims("B N")
    Q = u.scalar("max_decaps", "i")
    u.requires(Q >= 1)
    ins = _step_state(u, B, N)
    td = SymTD(dict(ins), (B,))
    u.requires(u.forall((B,), lambda b: AND(td["action"].at(b) >= 0, td["action"].at(b) < N, td["i"].at(b, 0) >= 0)))
    pre = u.snapshot(td)
    given_mask = ins["action_mask"]           # the tensor object the state was given (an instance's storage after reset)
    env = u.obj(D, "DPPEnv", max_decaps=Q)
    out = u.run(D, "DPPEnv._step", td, selfobj=env)
    b, n = u.idx((B,), "b"), u.idx((N,), "n")
    a = pre["action"].at(b)
    u.prove("step.mask.only-the-placed-cell-is-removed", out["action_mask"].at(b, n) == AND(pre["action_mask"].at(b, n), zint(n) != a))
    u.prove("step.count-incremented", out["i"].at(b, 0) == pre["i"].at(b, 0) + 1)
    u.prove("step.done-iff-quota-reached", out["done"].at(b, 0) == (out["i"].at(b, 0) >= Q))
    u.prove("step.keepout-untouched", out["keepout"].at(b, n) == pre["keepout"].at(b, n))
    # frame: the mask tensor that was handed in (storage shared with the instance after reset) is not written to
    u.prove("step.no-in-place-write-into-the-given-mask", given_mask.at(b, n) == pre["action_mask"].at(b, n))
    u.canary("step.mask-unchanged", out["action_mask"].at(b, n) == pre["action_mask"].at(b, n))


@unit("dpp.rowlocal.step", file=D, func="DPPEnv._step", props=("C04", "C14"))
def _(u):
    N = u.dim("N")
    Q = u.scalar("max_decaps", "i")
    env = u.obj(D, "DPPEnv", max_decaps=Q)
    rowlocal(u, "dpp.step", lambda u, B: _step_state(u, B, N),
             lambda u, ins: u.run(D, "DPPEnv._step", SymTD(dict(ins), (ins["i"].shape[0],)), selfobj=env, record=False),
             requires=lambda u, ins, B: u.forall((B,), lambda b: AND(ins["action"].at(b) >= 0, ins["action"].at(b) < N)), tags=("C04",))


MCPF = "rl4co/envs/graph/mcp/env.py"


@unit("mcp.reset", file=MCPF, func="MCPEnv._reset", props=("C08",))
def _(u):
    B, K, Z, I = u.dims("B K Z I")                                   # sets, max set size, items
    td = u.td(B, membership=((B, K, Z), "f"), weights=((B, I), "f"), n_sets_to_choose=((B, 1), "f"))
    pre = u.snapshot(td)
    env = u.obj(MCPF, "MCPEnv", to=lambda d: None)
    out = u.run(MCPF, "MCPEnv._reset", td, [B], selfobj=env, record=False)
    b, k, z, i = u.idx((B,), "b"), u.idx((K,), "k"), u.idx((Z,), "z"), u.idx((I,), "i")
    u.prove("reset.nothing-chosen-every-set-offered", AND(NOT(out["chosen"].at(b, k)), out["action_mask"].at(b, k), out["i"].at(b) == 0))
    u.prove("reset.instance-kept", AND(out["orig_membership"].at(b, k, z) == pre["membership"].at(b, k, z), out["membership"].at(b, k, z) == pre["membership"].at(b, k, z),
                                       out["orig_weights"].at(b, i) == pre["weights"].at(b, i), out["weights"].at(b, i) == pre["weights"].at(b, i),
                                       out["n_sets_to_choose"].at(b, 0) == pre["n_sets_to_choose"].at(b, 0)))
    u.prove("reset.shapes", AND(*[zint(x) == zint(y) for x, y in zip(tuple(out["chosen"].shape), (B, K))], out["chosen"].dtype == "b", out["i"].dtype == "i", tuple(out.batch_size) == (B,)))
    u.canary("reset.something-chosen", out["chosen"].at(b, k))
