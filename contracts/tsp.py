"""TSP and ATSP: problem definition and contracts."""
import z3

from tvc import ops
from tvc.core import AND, IMPL, NOT, OR, cur, ite, mk, zint
from tvc.unit import spec, unit, sum_point_update

from .envlib import B_, rowlocal, same_tensor, unchanged
from .ops_helpers import tour_length_tensor

FT = "rl4co/envs/routing/tsp/env.py"
FA = "rl4co/envs/routing/atsp/env.py"
UT = "rl4co/envs/common/utils.py"

# Problem definition: a tour visits every node exactly once and returns to the
# first node. abstract state: set of unvisited nodes (= the advertised mask).
# enabled(j) <=> j unvisited; next: remove j; complete <=> nothing unvisited.
# objective: minus the closed tour length (Euclidean / cost-matrix).


def tsp_state(u, B, N, atsp=False):
    keys = dict(current_node=((B, 1) if atsp else (B,), "i"), first_node=((B,), "i"),
                i=((B, 1), "i"), action_mask=((B, N), "b"), action=((B,), "i"))
    if atsp:
        keys["cost_matrix"] = ((B, N, N), "f")
    else:
        keys["locs"] = ((B, N, 2), "f")
        keys["reward"] = ((B, 1), "f")
    return u.td(B, **keys)


def tsp_state_ok(u, td, B, N):
    i = td["i"]
    return AND(
        # batch-level invariant established by _reset and preserved by _step: one shared step counter
        u.forall((B,), lambda b: AND(i.at(b, 0) == i.at(0, 0), i.at(b, 0) >= 0)),
    )


def admitted(u, td, B, N):
    a, m = td["action"], td["action_mask"]
    return u.forall((B,), lambda b: AND(a.at(b) >= 0, a.at(b) < N, m.at(b, a.at(b))))


def _step_unit(u, file, cls, atsp):
    B, N = u.dims("B N")
    td = tsp_state(u, B, N, atsp)
    u.requires(tsp_state_ok(u, td, B, N))
    u.requires(admitted(u, td, B, N))
    pre = u.snapshot(td)
    u.inline((UT, "batch_to_scalar"))
    out = u.run(file, f"{cls}._step", td)
    b = u.idx((B,), "b")
    ab = pre["action"].at(b)
    # C01: the admitted action is an unvisited node; the successor marks exactly it as visited
    u.prove("step.action-enabled", pre["action_mask"].at(b, ab), tags=("C01",))
    same_tensor(u, "step.action_mask", out["action_mask"], (B, N),
                lambda bb, j: AND(pre["action_mask"].at(bb, j), zint(j) != pre["action"].at(bb)), tags=("C01", "C05"))
    same_tensor(u, "step.current_node", out["current_node"], (B,), lambda bb: pre["action"].at(bb), tags=("C01",))
    same_tensor(u, "step.i", out["i"], (B, 1), lambda bb, _: pre["i"].at(bb, 0) + 1, tags=("C02",))
    # (ATSP: _reset stores first_node as [B,1]; it is overwritten by the [B] action at step 0 and only read afterwards)
    fn_pre = lambda bb: pre["first_node"].at(bb)
    same_tensor(u, "step.first_node", out["first_node"], (B,),
                lambda bb: ite(pre["i"].at(bb, 0) == 0, pre["action"].at(bb), fn_pre(bb)), tags=("C04",))
    none_left = NOT(u.exists((N,), lambda k: out["action_mask"].at(b, k)))
    same_tensor(u, "step.done.shape", out["done"], (B,), lambda bb: out["done"].at(bb), tags=("C02",))
    u.prove("step.done.iff", out["done"].at(b) == none_left, tags=("C01", "C02"))
    u.prove("step.inv", tsp_state_ok(u, out, B, N), tags=("C01", "C02", "C04"))
    # C02 variant: the number of unvisited nodes drops by exactly one per step (=> exactly N steps)
    cnt_pre = ops.reduce("sum", ops.to_dtype(pre["action_mask"], "i"), -1, label="unvisited_pre")
    cnt_out = ops.reduce("sum", ops.to_dtype(out["action_mask"], "i"), -1, label="unvisited_post")
    sum_point_update(u, cnt_out, (b,), cnt_pre, (b,), ab)
    u.prove("step.variant", cnt_out.at(b) == cnt_pre.at(b) - 1, tags=("C02",))
    u.prove("step.done-iff-count-zero", out["done"].at(b) == (cnt_out.at(b) == 0), tags=("C02",))
    unchanged(u, "step", pre, out, ["cost_matrix"] if atsp else ["locs"], tags=("C04",))
    u.canary("step.keeps-visited-open", out["action_mask"].at(b, ab))


@unit("tsp.step", file=FT, func="TSPEnv._step", props=("C01", "C02", "C04", "C05"))
def _(u):
    _step_unit(u, FT, "TSPEnv", False)


@unit("atsp.step", file=FA, func="ATSPEnv._step", props=("C01", "C02", "C04", "C05"))
def _(u):
    _step_unit(u, FA, "ATSPEnv", True)


@unit("tsp.reset", file=FT, func="TSPEnv._reset", props=("C01", "C02", "C05"))
def _(u):
    B, N = u.dims("B N")
    td = u.td(B, locs=((B, N, 2), "f"))
    pre = u.snapshot(td)
    env = u.obj(FT, "TSPEnv")
    out = u.run(FT, "TSPEnv._reset", td, [B], selfobj=env)
    same_tensor(u, "reset.locs", out["locs"], (B, N, 2), lambda b, j, c: pre["locs"].at(b, j, c), tags=("C01",))
    same_tensor(u, "reset.action_mask", out["action_mask"], (B, N), lambda b, j: True, tags=("C01", "C05"), dtype="b")
    same_tensor(u, "reset.i", out["i"], (B, 1), lambda b, _: 0, tags=("C02",), dtype="i")
    same_tensor(u, "reset.current_node", out["current_node"], (B,), lambda b: 0, tags=("C01",), dtype="i")
    u.prove("reset.inv", tsp_state_ok(u, out, B, N), tags=("C01", "C02"))
    cnt = ops.reduce("sum", ops.to_dtype(out["action_mask"], "i"), -1, label="unvisited0")
    b = u.idx((B,), "b")
    u.prove("reset.variant-bound", cnt.at(b) == N, tags=("C02",))


@unit("atsp.reset", file=FA, func="ATSPEnv._reset", props=("C01", "C02", "C05"))
def _(u):
    B, N = u.dims("B N")
    td = u.td(B, cost_matrix=((B, N, N), "f"))
    pre = u.snapshot(td)
    env = u.obj(FA, "ATSPEnv", generator=u.ns(num_loc=N))
    out = u.run(FA, "ATSPEnv._reset", td, [B], selfobj=env)
    same_tensor(u, "reset.cost_matrix", out["cost_matrix"], (B, N, N), lambda b, j, c: pre["cost_matrix"].at(b, j, c), tags=("C01",))
    same_tensor(u, "reset.action_mask", out["action_mask"], (B, N), lambda b, j: True, tags=("C01", "C05"), dtype="b")
    same_tensor(u, "reset.i", out["i"], (B, 1), lambda b, _: 0, tags=("C02",), dtype="i")
    u.prove("reset.inv", tsp_state_ok(u, out, B, N), tags=("C01", "C02"))


# ---- rewards (C03): minus closed tour length along the executed actions


@unit("tsp.reward", file=FT, func="TSPEnv._get_reward", props=("C03",))
def _(u):
    B, N, T = u.dims("B N T")
    u.requires(T >= 2)
    td = tsp_state(u, B, N)      # the whole state with arbitrary bookkeeping fields: the reward depends on the coordinates and the actions only
    act = u.tensor("actions", (B, T), "i")
    u.requires(u.forall((B, T), lambda b, t: AND(act.at(b, t) >= 0, act.at(b, t) < N)))
    env = u.obj(FT, "TSPEnv", check_solution=False)
    r = u.run(FT, "TSPEnv._get_reward", td, act, selfobj=env)
    locs = td["locs"]

    def leg(b, t):
        t2 = ite(zint(t) + 1 < zint(T), zint(t) + 1, 0)
        p, q = act.at(b, t), act.at(b, t2)
        return ops.NORM2(locs.at(b, q, 0) - locs.at(b, p, 0), locs.at(b, q, 1) - locs.at(b, p, 1))

    want = ops.reduce("sum", mk((B, T), "f", lambda I: leg(I[0], I[1])), -1, label="objective")
    same_tensor(u, "reward.eq", r, (B,), lambda b: -want.at(b))
    b = u.idx((B,), "cb")
    u.canary("reward.sign", r.at(b) == want.at(b))


@unit("atsp.reward", file=FA, func="ATSPEnv._get_reward", props=("C03",))
def _(u):
    B, N, T = u.dims("B N T")
    td = tsp_state(u, B, N, atsp=True)      # whole state, arbitrary bookkeeping fields
    act = u.tensor("actions", (B, T), "i")
    u.requires(u.forall((B, T), lambda b, t: AND(act.at(b, t) >= 0, act.at(b, t) < N)))
    env = u.obj(FA, "ATSPEnv", check_solution=False)
    r = u.run(FA, "ATSPEnv._get_reward", td, act, selfobj=env)
    cm = td["cost_matrix"]

    def leg(b, t):
        t2 = ite(zint(t) + 1 < zint(T), zint(t) + 1, 0)
        return cm.at(b, act.at(b, t), act.at(b, t2))

    want = ops.reduce("sum", mk((B, T), "f", lambda I: leg(I[0], I[1])), -1, label="objective")
    same_tensor(u, "reward.eq", r, (B,), lambda b: -want.at(b))
    # canary: the transposed matrix (direction of travel reversed) is a different objective
    wrong = ops.reduce("sum", mk((B, T), "f", lambda I: cm.at(I[0], act.at(I[0], ite(zint(I[1]) + 1 < zint(T), zint(I[1]) + 1, 0)), act.at(I[0], I[1]))), -1, label="reversed")
    b = u.idx((B,), "cb")
    u.canary("reward.direction", r.at(b) == -wrong.at(b))


# ---- row locality (C04)


def _rowlocal_step(u, file, cls, atsp):
    N = u.dim("N")
    u.inline((UT, "batch_to_scalar"))

    def req(u, td, B):
        a = td["action"]
        return AND(tsp_state_ok(u, td, B, N), u.forall((B,), lambda b: AND(a.at(b) >= 0, a.at(b) < N)))

    rowlocal(u, "step", lambda u, B: tsp_state(u, B, N, atsp), lambda u, td: u.run(file, f"{cls}._step", td), requires=req)


@unit("tsp.rowlocal.step", file=FT, func="TSPEnv._step", props=("C04", "C14"))
def _(u):
    _rowlocal_step(u, FT, "TSPEnv", False)


@unit("atsp.rowlocal.step", file=FA, func="ATSPEnv._step", props=("C04", "C14"))
def _(u):
    _rowlocal_step(u, FA, "ATSPEnv", True)


@unit("tsp.rowlocal.reward", file=FT, func="TSPEnv._get_reward", props=("C04", "C14"))
def _(u):
    N, T = u.dims("N T")
    u.requires(T >= 2)
    env = u.obj(FT, "TSPEnv", check_solution=False)

    def mk_in(u, B):
        return {"td": u.td(B, locs=((B, N, 2), "f")), "actions": u.tensor("actions", (B, T), "i")}

    def req(u, ins, B):
        a = ins["actions"]
        return u.forall((B, T), lambda b, t: AND(a.at(b, t) >= 0, a.at(b, t) < N))

    rowlocal(u, "reward", mk_in, lambda u, ins: u.run(FT, "TSPEnv._get_reward", ins["td"], ins["actions"], selfobj=env), requires=req)


@unit("atsp.rowlocal.reward", file=FA, func="ATSPEnv._get_reward", props=("C04", "C14"))
def _(u):
    N, T = u.dims("N T")
    env = u.obj(FA, "ATSPEnv", check_solution=False)

    def mk_in(u, B):
        return {"td": u.td(B, cost_matrix=((B, N, N), "f")), "actions": u.tensor("actions", (B, T), "i")}

    def req(u, ins, B):
        a = ins["actions"]
        return u.forall((B, T), lambda b, t: AND(a.at(b, t) >= 0, a.at(b, t) < N))

    rowlocal(u, "reward", mk_in, lambda u, ins: u.run(FA, "ATSPEnv._get_reward", ins["td"], ins["actions"], selfobj=env), requires=req)
