"""SMTWTP (single machine total weighted tardiness): contracts of SMTWTPEnv."""
import z3

from tvc import ops
from tvc.core import AND, IMPL, NOT, OR, cur, ite, mk, zint, zreal
from tvc.methods import TM
from tvc.unit import spec, unit, sum_point_update

from .envlib import B_, rowlocal, same_tensor, unchanged

F = "rl4co/envs/scheduling/smtwtp/env.py"

# Problem definition: n jobs (nodes 1..n; node 0 is a dummy start) are sequenced on one machine without idle time;
# job j has processing time p_j, due time d_j, weight w_j; completion C_t = sum_{k<=t} p_{a_k};
# objective = sum_t w_{a_t} * max(0, C_t - d_{a_t}). A solution is a permutation of jobs 1..n.


def state(u, B, J):
    return u.td(B, job_due_time=((B, J + 1), "f"), job_weight=((B, J + 1), "f"), job_process_time=((B, J + 1), "f"),
                current_job=((B, 1), "i"), current_time=((B, 1), "f"), action_mask=((B, J + 1), "b"), action=((B,), "i"))


@unit("smtwtp.step", file=F, func="SMTWTPEnv._step", props=("C07", "C02", "C04", "C05"))
def _(u):
    B, J = u.dims("B J")
    td = state(u, B, J)
    a, am = td["action"], td["action_mask"]
    u.requires(u.forall((B,), lambda b: AND(a.at(b) >= 0, a.at(b) <= J, am.at(b, a.at(b)), NOT(am.at(b, 0)))))
    pre = u.snapshot(td)
    out = u.run(F, "SMTWTPEnv._step", td)
    b = u.idx((B,), "b")
    ab = pre["action"].at(b)
    u.prove("step.never-the-dummy", ab != 0, tags=("C07",))
    same_tensor(u, "step.mask", out["action_mask"], (B, J + 1), lambda bb, j: AND(pre["action_mask"].at(bb, j), zint(j) != pre["action"].at(bb)), tags=("C07", "C05"))
    same_tensor(u, "step.current_time", out["current_time"], (B, 1), lambda bb, _: pre["current_time"].at(bb, 0) + pre["job_process_time"].at(bb, pre["action"].at(bb)), tags=("C07", "C03"))
    same_tensor(u, "step.current_job", out["current_job"], (B,), lambda bb: pre["action"].at(bb), tags=("C07",))
    none_left = NOT(u.exists((J + 1,), lambda k: out["action_mask"].at(b, k)))
    same_tensor(u, "step.done.shape", out["done"], (B,), lambda bb: out["done"].at(bb), tags=("C02",))
    u.prove("step.done.iff", out["done"].at(b) == none_left, tags=("C07", "C02"))
    u.prove("step.dummy-stays-masked", NOT(out["action_mask"].at(b, 0)), tags=("C07",))
    cnt_pre = ops.reduce("sum", ops.to_dtype(pre["action_mask"], "i"), -1, label="unscheduled_pre")
    cnt_out = ops.reduce("sum", ops.to_dtype(out["action_mask"], "i"), -1, label="unscheduled_post")
    sum_point_update(u, cnt_out, (b,), cnt_pre, (b,), ab)
    u.prove("step.variant", cnt_out.at(b) == cnt_pre.at(b) - 1, tags=("C02",))
    unchanged(u, "step", pre, out, ["job_due_time", "job_weight", "job_process_time"], tags=("C04",))
    u.canary("step.keeps-job-available", out["action_mask"].at(b, ab))


@unit("smtwtp.reset", file=F, func="SMTWTPEnv._reset", props=("C07", "C02", "C05"))
def _(u):
    B, J = u.dims("B J")
    td = u.td(B, job_due_time=((B, J + 1), "f"), job_weight=((B, J + 1), "f"), job_process_time=((B, J + 1), "f"))
    pre = u.snapshot(td)
    env = u.obj(F, "SMTWTPEnv", generator=u.ns(num_job=J))
    out = u.run(F, "SMTWTPEnv._reset", td, [B], selfobj=env)
    same_tensor(u, "reset.mask", out["action_mask"], (B, J + 1), lambda b, j: zint(j) != 0, tags=("C07", "C05"), dtype="b")
    same_tensor(u, "reset.current_time", out["current_time"], (B, 1), lambda b, _: 0, tags=("C07",))
    for k in ("job_due_time", "job_weight", "job_process_time"):
        same_tensor(u, f"reset.{k}", out[k], (B, J + 1), lambda b, j, k=k: pre[k].at(b, j), tags=("C07",))


def _objective(td, act, B, T):
    p = mk((B, T), "f", lambda I: td["job_process_time"].at(I[0], act.at(I[0], I[1])))
    C = TM["cumsum"](p, 1)
    tard = mk((B, T), "f", lambda I: td["job_weight"].at(I[0], act.at(I[0], I[1])) *
              ite(C.at(I[0], I[1]) - td["job_due_time"].at(I[0], act.at(I[0], I[1])) >= 0,
                  C.at(I[0], I[1]) - td["job_due_time"].at(I[0], act.at(I[0], I[1])), zreal(0)))
    return ops.reduce("sum", tard, -1, label="weighted_tardiness")


@unit("smtwtp.reward", file=F, func="SMTWTPEnv._get_reward", props=("C03", "C07"))
def _(u):
    B, J, T = u.dims("B J T")
    td = u.td(B, job_due_time=((B, J + 1), "f"), job_weight=((B, J + 1), "f"), job_process_time=((B, J + 1), "f"))
    act = u.tensor("actions", (B, T), "i")
    u.requires(u.forall((B, T), lambda b, t: AND(act.at(b, t) >= 0, act.at(b, t) <= J)))
    env = u.obj(F, "SMTWTPEnv")
    r = u.run(F, "SMTWTPEnv._get_reward", td, act, selfobj=env)
    want = _objective(td, act, B, T)
    same_tensor(u, "reward.eq", r, (B,), lambda b: -want.at(b), tags=("C03",))
    b = u.idx((B,), "cb")
    u.canary("reward.sign", r.at(b) == want.at(b))


@unit("smtwtp.rowlocal.step", file=F, func="SMTWTPEnv._step", props=("C04", "C14"))
def _(u):
    J = u.dim("J")

    def req(u, td, B):
        a = td["action"]
        return u.forall((B,), lambda b: AND(a.at(b) >= 0, a.at(b) <= J))

    rowlocal(u, "step", lambda u, B: state(u, B, J), lambda u, td: u.run(F, "SMTWTPEnv._step", td), requires=req)


@unit("smtwtp.rowlocal.reward", file=F, func="SMTWTPEnv._get_reward", props=("C04", "C14"))
def _(u):
    J, T = u.dims("J T")
    env = u.obj(F, "SMTWTPEnv")

    def mk_in(u, B):
        return {"td": u.td(B, job_due_time=((B, J + 1), "f"), job_weight=((B, J + 1), "f"), job_process_time=((B, J + 1), "f")),
                "actions": u.tensor("actions", (B, T), "i")}

    def req(u, ins, B):
        a = ins["actions"]
        return u.forall((B, T), lambda b, t: AND(a.at(b, t) >= 0, a.at(b, t) <= J))

    rowlocal(u, "reward", mk_in, lambda u, ins: u.run(F, "SMTWTPEnv._get_reward", ins["td"], ins["actions"], selfobj=env), requires=req)
