"""C12: replication layout (batchify / unbatchify / gather / start nodes / best-of-k selection)."""
import z3

from tvc import ops
from tvc.core import AND, IMPL, NOT, OR, cur, ite, mk, zint, zreal
from tvc.td import SymTD
from tvc.unit import spec, unit

from .envlib import B_, same_tensor

OPS = "rl4co/utils/ops.py"


def _row(u, parts):
    """row index sum_k idx_k * stride_k for nested factors; parts = [(idx, size), ...] outermost first."""
    r = 0
    for i, n in parts:
        r = r * zint(n) + zint(i) if not isinstance(r, int) or r != 0 else zint(i)
    return r


# ---- spec functions used by callers -----------------------------------------------------------


def batchify_tensor_spec(x, factors):
    """rows ordered (f_1, ..., f_m, b): out[r] = x[r mod B]."""
    B = x.shape[0]
    tot = B
    for f in factors:
        tot = ops.simp_int(ops.scalar_binop("mul", f, tot, wf=False))
    xs = x.snap()
    return mk((tot,) + tuple(x.shape[1:]), x.dtype, lambda I: xs((ops.simp_int(ops.scalar_binop("mod", I[0], B, wf=False)),) + tuple(I[1:])))


@spec(OPS, "batchify")
def batchify_spec(u, selfobj, x, shape):
    factors = [shape] if not isinstance(shape, (list, tuple)) else list(shape)
    factors = [f for f in factors if not (isinstance(f, int) and f <= 0)]
    if isinstance(x, SymTD):
        out = {k: batchify_tensor_spec(v, factors) for k, v in x.data.items()}
        probe = batchify_tensor_spec(ops.const_tensor(x.batch_size, "b", False), factors)
        return SymTD(out, probe.shape)
    return batchify_tensor_spec(x, factors)


def unbatchify_tensor_spec(y, factors):
    """y rows (f_m major ... f_1, b) -> out[b, i_1, ..., i_m] = y[(i_m * f_{m-1} ... ) ...]: see unit for the formula.
    Single factor k: out[b, j] = y[j * B + b] with B = rows // k."""
    if len(factors) == 2:
        # proved against the body by ops.unbatchify.a_s: out[b, i, j] = y[(j * a + i) * B + b]  (LAST factor outermost in the rows)
        a, k2 = factors
        R = y.shape[0]
        Bn = ops.simp_int(ops.scalar_binop("floordiv", R, ops.simp_int(ops.scalar_binop("mul", a, k2, wf=False)), wf=False))
        ys = y.snap()
        mul = lambda p, q: ops.simp_int(ops.scalar_binop("mul", p, q, wf=False))
        return mk((Bn, a, k2) + tuple(y.shape[1:]), y.dtype,
                  lambda I: ys((ops.simp_add(mul(ops.simp_add(mul(I[2], a), I[1]), Bn), I[0]),) + tuple(I[3:])))
    if len(factors) != 1:
        raise ops.Unsupported("unbatchify spec with more than two nested factors at a call site")
    k = factors[0]
    R = y.shape[0]
    Bn = ops.simp_int(ops.scalar_binop("floordiv", R, k, wf=False))
    ys = y.snap()
    return mk((Bn, k) + tuple(y.shape[1:]), y.dtype, lambda I: ys((ops.simp_add(ops.simp_int(ops.scalar_binop("mul", I[1], Bn, wf=False)), I[0]),) + tuple(I[2:])))


@spec(OPS, "unbatchify")
def unbatchify_spec(u, selfobj, x, shape):
    factors = [shape] if not isinstance(shape, (list, tuple)) else list(shape)
    factors = [f for f in factors if not (isinstance(f, int) and f <= 0)]
    if not factors:
        return x
    if isinstance(x, SymTD):
        out = {k: unbatchify_tensor_spec(v, factors) for k, v in x.data.items()}
        probe = unbatchify_tensor_spec(ops.const_tensor(x.batch_size, "b", False), factors)
        return SymTD(out, probe.shape)
    return unbatchify_tensor_spec(x, factors)


# ---- units ---------------------------------------------------------------------------------------


@unit("ops.batchify.single", file=OPS, func="_batchify_single", props=("C12",))
def _(u):
    B, K, D = u.dims("B K D")
    x = u.tensor("x", (B, D, 2), "f")
    y = u.run(OPS, "_batchify_single", x, K)
    b, j = u.idx((B, K), "b j")
    d = u.idx((D,), "d")
    same_tensor(u, "batchify1.shape", y, (K * B, D, 2), lambda r, dd, c: y.at(r, dd, c))
    u.prove("batchify1.layout", y.at(j * B + b, d, 0) == x.at(b, d, 0))
    r = u.idx((K * B,), "r")
    u.prove("batchify1.row-mod-B", y.at(r, d, 1) == x.at(r % B, d, 1))
    u.canary("batchify1.interleaved", y.at(b * K + j, d, 0) == x.at(b, d, 0))


@unit("ops.unbatchify.single", file=OPS, func="_unbatchify_single", props=("C12",))
def _(u):
    B, K, D = u.dims("B K D")
    y = u.tensor("y", (K * B, D), "f")
    x = u.run(OPS, "_unbatchify_single", y, K)
    b, j = u.idx((B, K), "b j")
    d = u.idx((D,), "d")
    same_tensor(u, "unbatchify1.shape", x, (B, K, D), lambda bb, jj, dd: x.at(bb, jj, dd))
    u.prove("unbatchify1.layout", x.at(b, j, d) == y.at(j * B + b, d))
    u.canary("unbatchify1.interleaved", x.at(b, j, d) == y.at(b * K + j, d))


def _nest(u, nf, td_mode, roundtrip=True):
    from tvc.unit import divmod_hint

    B, D = u.dims("B D")
    fs = [u.dim(f"F{k}") for k in range(nf)]
    x = u.tensor("x", (B, D), "f")
    arg = fs[0] if nf == 1 else tuple(fs)
    u.inline((OPS, "_batchify_single"), (OPS, "_unbatchify_single"))
    if td_mode:
        xt = SymTD({"a": x, "m": u.tensor("m", (B,), "i")}, (B,))
        yt = u.run(OPS, "batchify", xt, arg)
        y = yt["a"]
    else:
        y = u.run(OPS, "batchify", x, arg)
    # suffix products: P_0 = B, P_1 = F_last*B, ...
    prods = [B]
    for f in reversed(fs):
        prods.append(f * prods[-1])
    tot = prods[-1]
    b = u.idx((B,), "b")
    d = u.idx((D,), "d")
    idx = [u.idx((f,), f"i{k}") for k, f in enumerate(fs)]
    same_tensor(u, "batchify.shape", y, (tot, D), lambda r, dd: y.at(r, dd))

    def mod_chain_hints(r):
        # (r mod P_{k+1}) mod P_k = r mod P_k  because P_k divides P_{k+1}: instance of divmod.row with
        # r_k+1 = r mod P_{k+1} = (r_{k+1} div P_k) * P_k + (r_{k+1} mod P_k)
        cur_r = r
        for k in range(len(prods) - 1, 0, -1):
            cur_r = cur_r % prods[k] if k < len(prods) - 1 else cur_r
        # relate r mod B to the chained mods level by level
        t = r
        for k in range(len(prods) - 2, -1, -1):
            Pk1, Pk = prods[k + 1], prods[k]
            tk1 = t % Pk1 if k + 1 < len(prods) - 1 else t
            q = (r / Pk1) * (Pk1 / Pk) if False else None
            # r = (r div Pk1) * (Pk1/Pk) * Pk + (tk1 div Pk) * Pk + tk1 mod Pk
            fk = fs[len(fs) - 1 - k]
            divmod_hint(u, r, (r / Pk1) * fk + (tk1 / Pk) if k + 1 < len(prods) - 1 else (tk1 / Pk), Pk, tk1 % Pk)
            t = tk1

    # C12: row r of the replicated batch belongs to instance r mod B (proved for an arbitrary row, then used as a lemma)
    rv = z3.Int("batchify.row-mod-B.g0")
    mod_chain_hints(rv)
    u.prove_forall("batchify.row-mod-B", (tot,), lambda r: y.at(r, d) == x.at(r % B, d))
    # from here on the replicated tensor is opaque: only the proved fact "row r belongs to instance r mod B" is used
    ya = u.abstract(y, "y_abs")
    u.requires(u.forall((tot, D), lambda r, dd: ya.at(r, dd) == x.at(zint(r) % B, dd)))
    # layout: factors outermost-first, instance index innermost
    r = 0
    for i, f in zip(idx, fs):
        r = r * f + i
    r = r * B + b
    u.prove("batchify.layout", ya.at(r, d) == x.at(b, d))
    if td_mode:
        u.prove("batchify.td.batch_size", AND(*[zint(p) == zint(q) for p, q in zip(yt.batch_size, (tot,))]))
        rm = z3.Int("batchify.td.other-key.g0")
        mod_chain_hints(rm)
        u.prove_forall("batchify.td.other-key", (tot,), lambda rr: yt["m"].at(rr) == xt["m"].at(rr % B))
        ma = u.abstract(yt["m"], "m_abs")
        u.requires(u.forall((tot,), lambda r: ma.at(r) == xt["m"].at(zint(r) % B)))
        z = u.run(OPS, "unbatchify", SymTD({"a": ya, "m": ma}, (tot,)), arg)["a"]
    else:
        z = u.run(OPS, "unbatchify", ya, arg) if roundtrip else None
    if not roundtrip:
        return
    same_tensor(u, "roundtrip.shape", z, (B,) + tuple(fs) + (D,), lambda *I: z.at(*I))
    u.prove("roundtrip.identity", z.at(b, *idx, d) == x.at(b, d))


@unit("ops.unbatchify.a_s", file=OPS, func="unbatchify", props=("C12",))
def _(u):
    # arbitrary (not replicated) rows: the nested inverse regroups rows ordered (start j, augmentation i, instance b)
    B, A, S, D = u.dims("B A S D")
    y = u.tensor("y", (S * (A * B), D), "f")
    u.inline((OPS, "_unbatchify_single"))
    z = u.run(OPS, "unbatchify", y, (A, S))
    b, i, j, d = u.idx((B,), "b"), u.idx((A,), "i"), u.idx((S,), "j"), u.idx((D,), "d")
    same_tensor(u, "unbatchify2.shape", z, (B, A, S, D), lambda *I: z.at(*I))
    u.prove("unbatchify2.layout", z.at(b, i, j, d) == y.at((j * A + i) * B + b, d))
    u.canary("unbatchify2.aug-outermost", z.at(b, i, j, d) == y.at((i * S + j) * B + b, d))


@unit("ops.batchify.k", file=OPS, func="batchify", props=("C12",))
def _(u):
    _nest(u, 1, False)


@unit("ops.batchify.a_s", file=OPS, func="batchify", props=("C12",))
def _(u):
    _nest(u, 2, False)


@unit("ops.batchify.td.k", file=OPS, func="batchify", props=("C12",))
def _(u):
    _nest(u, 1, True)


@unit("ops.batchify.td.a_s", file=OPS, func="batchify", props=("C12",))
def _(u):
    # TensorDicts, nesting depth 2: layout (row mod B); the inverse is proved for tensors (depth <= 2) and TensorDicts (depth 1)
    _nest(u, 2, True, roundtrip=False)


DEC = "rl4co/utils/decoding.py"


@unit("ops.unbatchify_and_gather", file=OPS, func="unbatchify_and_gather", props=("C12", "C15"))
def _(u):
    B, K, T = u.dims("B K T")
    x = u.tensor("x", (K * B, T), "f")
    idx = u.tensor("idx", (B,), "i")
    u.requires(u.forall((B,), lambda b: AND(idx.at(b) >= 0, idx.at(b) < K)))
    out = u.run(OPS, "unbatchify_and_gather", x, idx, K)
    b = u.idx((B,), "b")
    t = u.idx((T,), "t")
    same_tensor(u, "ug.shape", out, (B, T), lambda bb, tt: out.at(bb, tt))
    # rollout idx[b] of instance b sits at row idx[b]*B + b of the replicated batch
    u.prove("ug.row", out.at(b, t) == x.at(idx.at(b) * B + b, t))
    u.canary("ug.interleaved", out.at(b, t) == x.at(b * K + idx.at(b), t))


@unit("decoding.select_best", file=DEC, func="DecodingStrategy._select_best", props=("C12", "C15"))
def _(u):
    B, K, T = u.dims("B K T")
    logp = u.tensor("logprobs", (K * B, T), "f")
    act = u.tensor("actions", (K * B, T), "i")
    rew = u.tensor("rewards", (K * B,), "f")
    td = SymTD({"reward_key": u.tensor("tdval", (K * B, 3), "f")}, (K * B,))
    env = u.ns(get_reward=lambda td_, a_: rew)  # env.get_reward abstracted: one reward per replicated row
    strat = u.obj(DEC, "Greedy", num_starts=K)
    from tvc.unit import on_reduction

    captured = []
    on_reduction(u, "", captured.append)
    lo, ao, tdo, _ = u.run(DEC, "DecodingStrategy._select_best", logp, act, td, env, selfobj=strat, record=False)
    u.native("decoding.select_best")   # the env is a stub: replay natively with an env whose get_reward returns the witness rewards
    u.native_out("logprobs", lo)
    u.native_out("actions", ao)
    u.native_out("td.reward_key", tdo["reward_key"])
    b = u.idx((B,), "b")
    t = u.idx((T,), "t")
    j = u.idx((K,), "j")
    same_tensor(u, "best.actions.shape", ao, (B, T), lambda bb, tt: ao.at(bb, tt))
    same_tensor(u, "best.logprobs.shape", lo, (B, T), lambda bb, tt: lo.at(bb, tt))
    # there is one rollout index j* of instance b, maximal in reward among its own K rollouts, and actions,
    # log-probs and state rows returned for b are exactly those of rollout j*
    # witness: the argmax over the K rollouts of instance b that the body itself computes (torch.max contract)
    am = [r_ for r_ in captured if r_.kind == "argmax" and r_.outer_rank == 1]
    js = am[0].app((b,))
    u.prove("best.witness-in-range", AND(js >= 0, js < K))
    u.prove("best.same-rollout.actions", ao.at(b, t) == act.at(js * B + b, t))
    u.prove("best.same-rollout.logprobs", lo.at(b, t) == logp.at(js * B + b, t))
    u.prove("best.same-rollout.state", tdo["reward_key"].at(b, 1) == td["reward_key"].at(js * B + b, 1))
    u.prove("best.maximal-among-own-rollouts", rew.at(js * B + b) >= rew.at(j * B + b))
    u.canary("best.first-rollout", ao.at(b, t) == act.at(b, t))


@spec(OPS, "unbatchify_and_gather")
def unbatchify_and_gather_spec(u, selfobj, x, idx, n):
    """out[b, ...] = x[idx[b] * B + b, ...] with B = rows // n  (proved against the body by ops.unbatchify_and_gather)."""
    if idx.rank != 1:
        raise ops.Unsupported("unbatchify_and_gather spec: idx rank != 1")
    isn = idx.snap()
    ops.wf_forall(idx.shape, lambda I: AND(zint(isn(I)) >= 0, zint(isn(I)) < zint(n)), "pre-unbatchify_and_gather-index-range")

    def one(t):
        R = t.shape[0]
        Bn = ops.simp_int(ops.scalar_binop("floordiv", R, n, wf=False))
        ts = t.snap()
        return mk((Bn,) + tuple(t.shape[1:]), t.dtype, lambda I: ts((ops.simp_add(ops.simp_int(ops.scalar_binop("mul", isn((I[0],)), Bn, wf=False)), I[0]),) + tuple(I[1:])))

    if isinstance(x, SymTD):
        out = {k: one(v) for k, v in x.data.items()}
        probe = one(ops.const_tensor(x.batch_size, "b", False))
        return SymTD(out, probe.shape)
    return one(x)


_JST = {}


def _jst(u, rew, B, K, b):
    """spec-level arg-max over the K rollouts {j*B+b} of instance b (any maximiser)."""
    key = id(u)
    if key not in _JST:
        t = mk((B, K), "f", lambda I: rew.at(zint(I[1]) * B + zint(I[0])))
        _JST.clear()
        _JST[key] = ops.reduce("argmax", t, -1, label="jstar")
    return _JST[key].at(b)


# ---- forced start nodes (multi-start) --------------------------------------------------------------


def _start_nodes(u, envname, depot):
    B, K, N = u.dims("B K N")
    td = SymTD({"action_mask": u.tensor("action_mask", (B, N + (1 if depot else 0)), "b")}, (B,))
    env = u.ns(name=envname, generator=u.ns(num_loc=N))
    sel = u.run(OPS, "select_start_nodes", td, env, K)
    b = u.idx((B,), "b")
    j, j2 = u.idx((K, K), "j j2")
    off = 1 if depot else 0
    same_tensor(u, "start.shape", sel, (K * B,), lambda r: sel.at(r))
    # copy j of instance b sits at row j*B+b and is forced to node (j mod N) (+1 with a depot)
    u.prove("start.formula", sel.at(j * B + b) == j % N + off)
    # C10: the forced first action bypasses the masked distribution, so it must itself be a node the reset mask admits:
    # a customer index, never the depot, for ANY number of starts (also more starts than nodes: wrap-around)
    u.prove("start.in-range", AND(sel.at(j * B + b) >= off, sel.at(j * B + b) < N + off))
    u.prove("start.distinct-per-instance", IMPL(AND(K <= N, j != j2), sel.at(j * B + b) != sel.at(j2 * B + b)))
    u.canary("start.depot-selected", sel.at(j * B + b) == j % N)  if depot else u.canary("start.shifted", sel.at(j * B + b) == j % N + 1)


@unit("ops.select_start_nodes.tsp", file=OPS, func="select_start_nodes", props=("C12", "C10", "C13"))
def _(u):
    _start_nodes(u, "tsp", False)


@unit("ops.select_start_nodes.cvrp", file=OPS, func="select_start_nodes", props=("C12", "C10", "C13"))
def _(u):
    _start_nodes(u, "cvrp", True)


@unit("pdp.select_start_nodes", file="rl4co/envs/routing/pdp/env.py", func="PDPEnv.select_start_nodes", props=("C12", "C10", "C13"))
def _(u):
    B, K, H = u.dims("B K H")
    N = 2 * H
    td = SymTD({"locs": u.tensor("locs", (B, N + 1, 2), "f")}, (B,))
    env = u.obj("rl4co/envs/routing/pdp/env.py", "PDPEnv")
    sel = u.run("rl4co/envs/routing/pdp/env.py", "PDPEnv.select_start_nodes", td, K, selfobj=env)
    b = u.idx((B,), "b")
    j, j2 = u.idx((K, K), "j j2")
    same_tensor(u, "start.shape", sel, (K * B,), lambda r: sel.at(r))
    # only pickups (nodes 1..H) are feasible first moves of a free-start PDP episode
    u.prove("start.is-pickup", AND(sel.at(j * B + b) >= 1, sel.at(j * B + b) <= H))
    u.prove("start.formula", sel.at(j * B + b) == j % H + 1)
    u.prove("start.distinct-per-instance", IMPL(AND(K <= H, j != j2), sel.at(j * B + b) != sel.at(j2 * B + b)))


@unit("mtvrp.select_start_nodes", file="rl4co/envs/routing/mtvrp/env.py", func="MTVRPEnv.select_start_nodes", props=("C12", "C10", "C13"))
def _(u):
    B, K, N = u.dims("B K N")
    td = SymTD({"locs": u.tensor("locs", (B, N + 1, 2), "f")}, (B,))
    env = u.obj("rl4co/envs/routing/mtvrp/env.py", "MTVRPEnv")
    sel = u.run("rl4co/envs/routing/mtvrp/env.py", "MTVRPEnv.select_start_nodes", td, K, selfobj=env)
    b = u.idx((B,), "b")
    j, j2 = u.idx((K, K), "j j2")
    u.prove("start.is-customer", AND(sel.at(j * B + b) >= 1, sel.at(j * B + b) <= N))
    u.prove("start.distinct-per-instance", IMPL(AND(K <= N, j != j2), sel.at(j * B + b) != sel.at(j2 * B + b)))


@unit("ops.get_num_starts", file=OPS, func="get_num_starts", props=("C12",))
def _(u):
    B, N = u.dims("B N")
    td = SymTD({"action_mask": u.tensor("action_mask", (B, N + 1), "b")}, (B,))
    for name, want in (("tsp", N + 1), ("cvrp", N), ("op", N), ("pctsp", N), ("sdvrp", N), ("cvrptw", N), ("mtsp", N)):
        got = u.run(OPS, "get_num_starts", td, name, record=False)
        u.prove(f"num_starts.{name}", zint(got) == zint(want))
    got = u.run(OPS, "get_num_starts", td, "pdp", record=False)
    u.prove("num_starts.pdp", zint(got) == (N // 2 if isinstance(N, int) else N / 2))   # integer division (z3 `/` on Ints; `//` on the concrete pass)


AMD = "rl4co/models/zoo/am/decoder.py"


@unit("am.decoder.cache.batchify", file=AMD, func="PrecomputedCache.batchify", props=("C12", "C14", "C11", "C13"))
def _(u):
    B, K, N, E = u.dims("B K N E")
    ne = u.tensor("node_embeddings", (B, N, E), "f")
    gc = u.tensor("graph_context", (B, 1, E), "f")
    gk = u.tensor("glimpse_key", (B, N, E), "f")
    gv = u.tensor("glimpse_val", (B, N, E), "f")
    lk = u.tensor("logit_key", (B, N, E), "f")
    obj = u.obj(AMD, "PrecomputedCache", node_embeddings=ne, graph_context=gc, glimpse_key=gk, glimpse_val=gv, logit_key=lk,
                fields=(ne, gc, gk, gv, lk))
    out = u.run(AMD, "PrecomputedCache.batchify", K, selfobj=obj, record=False)
    u.native("am.decoder.cache.batchify")
    for name_ in ("node_embeddings", "graph_context", "glimpse_key", "glimpse_val", "logit_key"):
        u.native_out(name_, out._attrs[name_])
    r = u.idx((K * B,), "r")
    n, e = u.idx((N, E), "n e")
    # every cached tensor of replicated row r belongs to instance r mod B (same layout as the replicated TensorDict)
    for name, src, idx in (("node_embeddings", ne, (n, e)), ("graph_context", gc, (0, e)), ("glimpse_key", gk, (n, e)),
                           ("glimpse_val", gv, (n, e)), ("logit_key", lk, (n, e))):
        t = out._attrs[name]
        u.prove(f"cache.{name}.rows", AND(zint(t.shape[0]) == K * B, t.rank == src.rank))
        u.prove(f"cache.{name}.row-mod-B", t.at(r, *idx) == src.at(r % B, *idx))
    # a non-tensor graph context (no graph context: 0.0) is passed through
    obj2 = u.obj(AMD, "PrecomputedCache", fields=(ne, 0.0, gk, gv, lk))
    out2 = u.run(AMD, "PrecomputedCache.batchify", K, selfobj=obj2, record=False)
    u.prove("cache.scalar-graph-context-kept", out2._attrs["graph_context"] == 0.0)


# ---- non-autoregressive (heatmap) decoder under multistart: replicated row r reads the heatmap of instance r mod B -------
NAR = "rl4co/models/common/constructive/nonautoregressive/decoder.py"


@unit("nar.decoder.heatmap_to_logits", file=NAR, func="NonAutoregressiveDecoder.heatmap_to_logits", props=("C12", "C11", "C14"))
def _(u):
    B, N = u.dims("B N")
    K = u.dim("K", 2)
    heat = u.tensor("heatmaps_logits", (B, N, N), "f")
    act = u.tensor("action", (K * B,), "i")
    u.requires(u.forall((K * B,), lambda r: AND(act.at(r) >= 0, act.at(r) < N)))
    mask = u.tensor("action_mask", (K * B, N), "b")
    td = SymTD({"action": act, "action_mask": mask}, (K * B,))
    u.inline((NAR, "_multistart_batched_index"))
    logits, m = u.run(NAR, "NonAutoregressiveDecoder.heatmap_to_logits", td, heat, K)
    r = u.idx((K * B,), "r")
    n = u.idx((N,), "n")
    same_tensor(u, "nar.logits.shape", logits, (K * B, N), lambda rr, nn: logits.at(rr, nn))
    # row r of the multistart batch belongs to instance r mod B: it must read THAT instance's heatmap row of its own current node
    u.prove("nar.logits.own-instance-row", logits.at(r, n) == heat.at(r % B, act.at(r), n))
    u.prove("nar.mask.passed-through", m.at(r, n) == mask.at(r, n))
    u.canary("nar.logits.instance-major", logits.at(r, n) == heat.at(r / K, act.at(r), n))
    # single start: identity indexer
    act1 = u.tensor("action1", (B,), "i")
    u.requires(u.forall((B,), lambda b: AND(act1.at(b) >= 0, act1.at(b) < N)))
    td1 = SymTD({"action": act1, "action_mask": u.tensor("action_mask1", (B, N), "b")}, (B,))
    l1, _ = u.run(NAR, "NonAutoregressiveDecoder.heatmap_to_logits", td1, heat, 1, record=False)
    b = u.idx((B,), "b")
    u.prove("nar.logits.single-start", l1.at(b, n) == heat.at(b, act1.at(b), n))
    # first step (no current action): the mean over the last axis of the heatmap
    td0 = SymTD({"action_mask": u.tensor("action_mask0", (B, N), "b")}, (B,))
    l0, _ = u.run(NAR, "NonAutoregressiveDecoder.heatmap_to_logits", td0, heat, K, record=False)
    u.prove("nar.logits.first-step.shape", tuple(l0.shape) == (B, N))


# ---- pre-decoder hooks: replication of the state and the forced first move ------------------------------------------------
def _is_zero(t, *I):
    v = t.at(*I)
    return NOT(v) if t.dtype == "b" else v == 0


def _hook_env(u, K, B, N, starts):
    seen = {}

    def step(td):
        seen["stepped"] = td
        return {"next": td}

    return u.ns(select_start_nodes=lambda td, num_starts=None: starts, get_num_starts=lambda td: K, step=step), seen


@unit("decoding.pre_decoder_hook.multistart", file=DEC, func="DecodingStrategy.pre_decoder_hook", props=("C12", "C11", "C14"))
def _(u):
    B, N = u.dims("B N")
    K = u.dim("K", 2)
    for store_all in (False, True):
        tag = "all-logp" if store_all else "sel-logp"
        td = SymTD({"locs": u.tensor(f"locs.{tag}", (B, N, 2), "f"), "action_mask": u.tensor(f"action_mask.{tag}", (B, N), "b")}, (B,))
        starts = u.tensor(f"start_nodes.{tag}", (K * B,), "i")
        env, seen = _hook_env(u, K, B, N, starts)
        strat = u.obj(DEC, "Greedy", multistart=True, multisample=False, num_starts=K, select_start_nodes_fn=None, store_all_logp=store_all,
                      logprobs=[], actions=[], name="greedy")
        td2, _, ns = u.run(DEC, "DecodingStrategy.pre_decoder_hook", td, env, selfobj=strat, record=False)
        r = u.idx((K * B,), f"r.{tag}")
        n = u.idx((N,), f"n.{tag}")
        u.prove(f"hook.{tag}.num-starts", ns == K)
        u.prove(f"hook.{tag}.state-replicated-start-major", AND(len(td2.batch_size) == 1, zint(td2.batch_size[0]) == K * B, td2["locs"].at(r, n, 1) == td["locs"].at(r % B, n, 1)))
        u.prove(f"hook.{tag}.forced-action-is-the-start-node", AND(seen["stepped"]["action"].at(r) == starts.at(r), len(strat._attrs["actions"]) == 1,
                                                                   strat._attrs["actions"][0].at(r) == starts.at(r)))
        lp0 = strat._attrs["logprobs"][0]
        # (zeros_like of the boolean mask is a boolean tensor of False: it counts as 0 once stacked with the float log-probs)
        u.prove(f"hook.{tag}.forced-move-has-logprob-zero", _is_zero(lp0, r, n) if store_all else _is_zero(lp0, r))
        u.canary(f"hook.{tag}.instance-major", td2["locs"].at(r, n, 1) == td["locs"].at(r / K, n, 1))


@unit("decoding.pre_decoder_hook.beam", file=DEC, func="BeamSearch.pre_decoder_hook", props=("C13", "C12"))
def _(u):
    B, N = u.dims("B N")
    K = u.dim("W", 2)
    td = SymTD({"locs": u.tensor("locs", (B, N, 2), "f"), "action_mask": u.tensor("action_mask", (B, N), "b")}, (B,))
    starts = u.tensor("start_nodes", (K * B,), "i")
    u.requires(u.forall((K * B,), lambda r: AND(starts.at(r) >= 0, starts.at(r) < N)))
    env, seen = _hook_env(u, K, B, N, starts)
    strat = u.obj(DEC, "BeamSearch", beam_width=K, select_start_nodes_fn=None, logprobs=[], actions=[], beam_path=[], parent_beam_logprobs=None)
    td2, _, ns = u.run(DEC, "BeamSearch.pre_decoder_hook", td, env, selfobj=strat, record=False)
    r = u.idx((K * B,), "r")
    n = u.idx((N,), "n")
    u.prove("beamhook.width", ns == K)
    u.prove("beamhook.state-replicated-beam-major", AND(len(td2.batch_size) == 1, zint(td2.batch_size[0]) == K * B, td2["locs"].at(r, n, 1) == td["locs"].at(r % B, n, 1)))
    u.prove("beamhook.forced-action", AND(seen["stepped"]["action"].at(r) == starts.at(r), strat._attrs["actions"][0].at(r) == starts.at(r)))
    u.prove("beamhook.initial-scores-zero", AND(_is_zero(strat._attrs["parent_beam_logprobs"], r, 0), _is_zero(strat._attrs["logprobs"][0], r, n)))
    u.prove("beamhook.initial-parent-zero", AND(len(strat._attrs["beam_path"]) == 1, strat._attrs["beam_path"][0].at(r) == 0))


def _graph_start_nodes(u, relpath, cls):
    B, K, N = u.dims("B K N")
    td = SymTD({"action_mask": u.tensor("action_mask", (B, N), "b")}, (B,))
    sel = u.run(relpath, f"{cls}.select_start_nodes", td, K)
    b = u.idx((B,), "b")
    j, j2 = u.idx((K, K), "j j2")
    same_tensor(u, "start.shape", sel, (K * B,), lambda r: sel.at(r))
    u.prove("start.formula", sel.at(j * B + b) == j % N)
    u.prove("start.in-range", AND(sel.at(j * B + b) >= 0, sel.at(j * B + b) < N))
    u.prove("start.distinct-per-instance", IMPL(AND(K <= N, j != j2), sel.at(j * B + b) != sel.at(j2 * B + b)))
    u.canary("start.instance-major", sel.at(b * K + j) == j % N)


@unit("flp.select_start_nodes", file="rl4co/envs/graph/flp/env.py", func="FLPEnv.select_start_nodes", props=("C12", "C10"))
def _(u):
    _graph_start_nodes(u, "rl4co/envs/graph/flp/env.py", "FLPEnv")


@unit("mcp.select_start_nodes", file="rl4co/envs/graph/mcp/env.py", func="MCPEnv.select_start_nodes", props=("C12", "C10"))
def _(u):
    _graph_start_nodes(u, "rl4co/envs/graph/mcp/env.py", "MCPEnv")


# ---------------------------------------------------------------------------------------------
# C10 / C12: random start actions (FJSP / JSSP multi-start) are drawn from the admitted actions only
# ---------------------------------------------------------------------------------------------
def _sample_n_random_actions(u, N, n):
    B = u.dim("B")
    mask = u.tensor("action_mask", (B, N), "b")
    ops.uses_inf()
    # every row admits some action (C02); column 0 is the waiting action
    u.requires(u.forall((B,), lambda b: u.exists((N,), lambda j: mask.at(b, j))))
    td = SymTD({"action_mask": mask}, (B,))
    sel = u.run(OPS, "sample_n_random_actions", td, n, record=False)       # the support-size obligation of torch.multinomial is discharged here
    b = u.idx((B,), "b")
    s = u.idx((n,), "s")
    same_tensor(u, "shape", sel, (n * B,), lambda r: sel.at(r), tags=("C10", "C12"))
    from tvc.unit import divmod_hint
    divmod_hint(u, zint(s) * B + b, s, B, b)
    # start-major layout: start s of instance b sits at row s*B + b, and is an action its own mask admits
    u.prove("start-is-admitted-by-own-mask", mask.at(b, sel.at(zint(s) * B + b)), tags=("C10", "C12"))
    u.prove("start-in-range", AND(sel.at(zint(s) * B + b) >= 0, sel.at(zint(s) * B + b) < N), tags=("C10",))
    u.canary("start-is-never-waiting", sel.at(zint(s) * B + b) != 0)


for _N, _n in ((4, 2), (4, 3), (5, 2)):
    unit(f"ops.sample_n_random_actions.N{_N}.n{_n}", file=OPS, func="sample_n_random_actions", props=("C10", "C12"))(lambda u, _N=_N, _n=_n: _sample_n_random_actions(u, _N, _n))
