"""C10 / C11 (proof part): greedy selection, DecodingStrategy.step bookkeeping, get_log_likelihood."""
import z3
from tvc.core import is_z3 as is_z3_

from tvc import ops
from tvc.core import AND, IMPL, NOT, OR, cur, ite, mk, zint, zreal, SymTensor
from tvc.td import SymTD
from tvc.unit import spec, unit

from .envlib import B_, same_tensor

DEC = "rl4co/utils/decoding.py"
_K = [0]


def proper_logprobs(u, lp, mask, B, N):
    """What process_logits guarantees (C10, checked by the decoding_dist stand-in): masked actions have log-prob
    -inf, feasible ones are finite, and every row has a feasible action."""
    ops.uses_inf()
    return AND(u.forall((B, N), lambda b, j: ite(mask.at(b, j), lp.at(b, j) > -ops.INF, lp.at(b, j) == -ops.INF)),
               u.forall((B,), lambda b: u.exists((N,), lambda j: mask.at(b, j))))


PL_CALLS = []     # the arguments of every process_logits call of the running unit (the caller must hand on ITS configuration)


@spec(DEC, "process_logits")
def process_logits_spec(u, selfobj, logits, mask=None, temperature=1.0, top_p=0.0, top_k=0, tanh_clipping=0, mask_logits=True):
    """Contract used by callers: an opaque [B,N] tensor of log-probabilities, -inf exactly on the masked actions
    (proper distribution: see the bounded stand-in decoding_dist for the normalisation / top-k / top-p clauses)."""
    _K[0] += 1
    PL_CALLS.append(dict(logits=logits, mask=mask, temperature=temperature, top_p=top_p, top_k=top_k, tanh_clipping=tanh_clipping, mask_logits=mask_logits))
    lp = u.abstract(logits, f"logprobs{_K[0]}")
    if mask is not None and mask_logits:
        B, N = logits.shape
        u.requires(u.forall((B, N), lambda b, j: ite(mask.at(b, j), lp.at(b, j) > -ops.INF, lp.at(b, j) == -ops.INF)))
    return lp


@unit("decoding.greedy", file=DEC, func="DecodingStrategy.greedy", props=("C10", "C11"))
def _(u):
    B, N = u.dims("B N")
    lp = u.tensor("logprobs", (B, N), "f")
    mask = u.tensor("mask", (B, N), "b")
    u.requires(proper_logprobs(u, lp, mask, B, N))
    sel = u.run(DEC, "DecodingStrategy.greedy", lp, mask)   # its assert ("infeasible action selected") is an obligation
    b = u.idx((B,), "b")
    j = u.idx((N,), "j")
    same_tensor(u, "greedy.shape", sel, (B,), lambda bb: sel.at(bb))
    u.prove("greedy.in-range", AND(sel.at(b) >= 0, sel.at(b) < N))
    u.prove("greedy.is-a-maximiser", lp.at(b, sel.at(b)) >= lp.at(b, j))
    u.prove("greedy.never-masked", mask.at(b, sel.at(b)))
    u.canary("greedy.is-a-minimiser", lp.at(b, sel.at(b)) <= lp.at(b, j))


@unit("decoding.get_log_likelihood", file=DEC, func="get_log_likelihood", props=("C11",))
def _(u):
    B, T, N = u.dims("B T N")
    lp3 = u.tensor("logprobs3", (B, T, N), "f")
    lp2 = u.tensor("logprobs2", (B, T), "f")
    act = u.tensor("actions", (B, T), "i")
    msk = u.tensor("mask", (B, T), "b")
    u.requires(u.forall((B, T), lambda b, t: AND(act.at(b, t) >= 0, act.at(b, t) < N)))
    u.requires(u.forall((B, T), lambda b, t: AND(lp2.at(b, t) > -1000, lp3.at(b, t, act.at(b, t)) > -1000)))
    b = u.idx((B,), "b")
    t = u.idx((T,), "t")
    # (a) per-step log-probs of the taken actions out of the full table
    r = u.run(DEC, "get_log_likelihood", lp3, act, None, False, record=False)
    same_tensor(u, "ll.select", r, (B, T), lambda bb, tt: lp3.at(bb, tt, act.at(bb, tt)))
    # (b) sum over steps
    r = u.run(DEC, "get_log_likelihood", lp3, act, None, True, record=False)
    want = ops.reduce("sum", mk((B, T), "f", lambda I: lp3.at(I[0], I[1], act.at(I[0], I[1]))), 1, label="llsum")
    same_tensor(u, "ll.sum", r, (B,), lambda bb: want.at(bb))
    # (c) steps flagged as irrelevant contribute zero (the 2-D input is modified in place)
    pre = u.snapshot(lp2)
    r = u.run(DEC, "get_log_likelihood", lp2, None, msk, False, record=False)
    same_tensor(u, "ll.masked-steps-zero", r, (B, T), lambda bb, tt: ite(msk.at(bb, tt), pre.at(bb, tt), 0))
    u.canary("ll.mask-inverted", r.at(b, t) == ite(msk.at(b, t), 0, pre.at(b, t)))
    # (d) full table AND step flags (the path taken with return_entropy / store_all_logp / beam search): select, then zero the flagged steps
    lp3b = u.tensor("logprobs3_masked", (B, T, N), "f")
    u.requires(u.forall((B, T), lambda b, t: lp3b.at(b, t, act.at(b, t)) > -1000))
    r = u.run(DEC, "get_log_likelihood", lp3b, act, msk, False, record=False)
    same_tensor(u, "ll.full-table.masked-steps-zero", r, (B, T), lambda bb, tt: ite(msk.at(bb, tt), lp3b.at(bb, tt, act.at(bb, tt)), 0))
    r = u.run(DEC, "get_log_likelihood", lp3b, act, msk, True, record=False)
    want2 = ops.reduce("sum", mk((B, T), "f", lambda I: ite(msk.at(I[0], I[1]), lp3b.at(I[0], I[1], act.at(I[0], I[1])), 0)), 1, label="llsum-masked")
    same_tensor(u, "ll.full-table.masked-sum", r, (B,), lambda bb: want2.at(bb))


def _strategy(u, cls, **attrs):
    base = dict(temperature=1.0, top_p=0.0, top_k=0, mask_logits=True, tanh_clipping=0, improvement_method_mode=False,
                store_all_logp=False, actions=[], logprobs=[])
    base.update(attrs)
    return u.obj(DEC, cls, **base)


def _step_unit(u, cls, store_all):
    B, N = u.dims("B N")
    logits = u.tensor("logits", (B, N), "f")
    mask = u.tensor("mask", (B, N), "b")
    u.requires(u.forall((B,), lambda b: u.exists((N,), lambda j: mask.at(b, j))))
    given = u.tensor("given_action", (B,), "i")
    u.requires(u.forall((B,), lambda b: AND(given.at(b) >= 0, given.at(b) < N)))
    td = SymTD({"action_mask": mask}, (B,))
    prev_a, prev_l = u.tensor("prev_action", (B,), "i"), u.tensor("prev_logp", (B,), "f")
    # a non-default configuration (arbitrary temperature / top-p / clipping, top-k = 3): it has to reach process_logits unchanged
    strat = _strategy(u, cls, store_all_logp=store_all, actions=[prev_a], logprobs=[prev_l], temperature=u.scalar("temperature", "f"),
                      top_p=u.scalar("top_p", "f"), top_k=3, tanh_clipping=u.scalar("tanh_clipping", "f"))
    u.inline((DEC, f"{cls}._step"), (DEC, "DecodingStrategy.greedy"))
    m0 = _K[0]
    del PL_CALLS[:]
    out = u.run(DEC, "DecodingStrategy.step", logits, mask, td, given if cls == "Evaluate" else None, selfobj=strat, record=False)
    acts, lps = strat._attrs["actions"], strat._attrs["logprobs"]
    # the step distribution is built from THESE logits and THIS mask with the strategy's own temperature / top-p / top-k / tanh
    # clipping / masking switch - in every mode (sampling, greedy, and re-evaluation of given actions alike)
    cfg = strat._attrs
    same = lambda x, y: (x is y) or (not is_z3_(x) and not is_z3_(y) and x == y) or ((is_z3_(x) or is_z3_(y)) and x is not None and y is not None and z3.simplify(x == y).eq(z3.BoolVal(True)))
    u.prove("step.distribution-built-with-the-configured-filters",
            len(PL_CALLS) == 1 and PL_CALLS[0]["logits"] is logits and PL_CALLS[0]["mask"] is mask
            and all(same(PL_CALLS[0][k], cfg[k]) for k in ("temperature", "top_p", "top_k", "tanh_clipping", "mask_logits")),
            note=str({k: (PL_CALLS[0][k] if PL_CALLS else None) for k in ("temperature", "top_p", "top_k", "tanh_clipping", "mask_logits")}))
    b = u.idx((B,), "b")
    j = u.idx((N,), "j")
    u.prove("step.one-entry-appended", AND(len(acts) == 2, len(lps) == 2, acts[0] is prev_a, lps[0] is prev_l))
    sel = acts[-1]
    same_tensor(u, "step.action.shape", sel, (B,), lambda bb: sel.at(bb))
    u.prove("step.td-action-is-stored-action", out["action"].at(b) == sel.at(b))
    if cls == "Evaluate":
        u.prove("step.evaluate.uses-given-action", sel.at(b) == given.at(b))
    # the stored log-prob is the one the (masked, normalised) step distribution assigns to the stored action:
    # the distribution is the result of process_logits on these logits and this mask (opaque tensor of the contract)
    lp_name = f"logprobs{m0 + 1}"
    LP = u.ctx.inputs[lp_name][0]
    if store_all:
        same_tensor(u, "step.logprobs.full-row", lps[-1], (B, N), lambda bb, jj: LP(zint(bb), zint(jj)))
    else:
        same_tensor(u, "step.logprob-of-taken-action", lps[-1], (B,), lambda bb: LP(zint(bb), sel.at(bb)))
    if cls == "Greedy":
        u.prove("step.greedy.feasible", mask.at(b, sel.at(b)))
        u.prove("step.greedy.maximiser", LP(zint(b), sel.at(b)) >= LP(zint(b), zint(j)))


@unit("decoding.step.greedy", file=DEC, func="DecodingStrategy.step", props=("C11", "C10"))
def _(u):
    _step_unit(u, "Greedy", False)


@unit("decoding.step.greedy.store_all", file=DEC, func="DecodingStrategy.step", props=("C11",))
def _(u):
    _step_unit(u, "Greedy", True)


@unit("decoding.step.evaluate", file=DEC, func="DecodingStrategy.step", props=("C11",))
def _(u):
    _step_unit(u, "Evaluate", False)


# ---------------------------------------------------------------------------------------------
# C10: top-k filtering keeps, per row, exactly the entries that are >= that row's k-th largest value
# ---------------------------------------------------------------------------------------------
def _topk_filter(u, k):
    B = u.dim("B")
    N = u.dim("N", k)
    logits = u.tensor("logits", (B, N), "f")
    ops.uses_inf()
    u.requires(u.forall((B, N), lambda b, j: AND(logits.at(b, j) >= -ops.INF, logits.at(b, j) < ops.INF)))
    with capture_topk() as ct:
        out = u.run(DEC, "modify_logits_for_top_k_filtering", logits, k)
    info = ct.results[0][0].prov[1]
    V, P = info["V"], info["P"]
    b = u.idx((B,), "b")
    j = u.idx((N,), "j")
    same_tensor(u, "topk.shape", out, (B, N), lambda bb, jj: out.at(bb, jj))
    kth = V(zint(b), k - 1)
    # the threshold is the row's OWN k-th largest value: an entry survives unchanged iff it reaches it, otherwise it is -inf
    u.prove("topk.kept-iff-at-least-own-kth-largest", out.at(b, j) == ite(logits.at(b, j) >= kth, logits.at(b, j), -ops.INF))
    for i in range(k):
        u.prove(f"topk.top{i}-is-kept", out.at(b, P(zint(b), i)) == logits.at(b, P(zint(b), i)))
    # "no more than k, ties aside": an entry that is kept although it is not one of the k top positions ties with the k-th value
    not_top = AND(*[zint(j) != P(zint(b), i) for i in range(k)])
    u.prove("topk.extra-kept-only-on-ties", IMPL(AND(not_top, out.at(b, j) > -ops.INF), logits.at(b, j) == kth))
    u.canary("topk.removes-the-row-maximum", out.at(b, P(zint(b), 0)) == -ops.INF)


class capture_topk:
    def __init__(self):
        self.results = []

    def __enter__(self):
        from tvc.methods import TF, TM

        self.orig = (TM.get("topk"), TF.get("topk"))

        def wrapped(t, *a, **kw):
            r = self.orig[1](t, *a, **kw)
            self.results.append(r)
            return r

        TM["topk"] = TF["topk"] = wrapped
        return self

    def __exit__(self, *a):
        from tvc.methods import TF, TM

        TM["topk"], TF["topk"] = self.orig


@unit("decoding.top_k_filter.k2", file=DEC, func="modify_logits_for_top_k_filtering", props=("C10",))
def _(u):
    _topk_filter(u, 2)


@unit("decoding.top_k_filter.k3", file=DEC, func="modify_logits_for_top_k_filtering", props=("C10",))
def _(u):
    _topk_filter(u, 3)


def _process_logits_filtered(u, k):
    """process_logits up to (not including) the final log-softmax, which is replaced by the identity: the filtered logits."""
    B = u.dim("B")
    N = u.dim("N", k)
    logits = u.tensor("logits", (B, N), "f")
    mask = u.tensor("mask", (B, N), "b")
    temp = u.scalar("temperature", "f")
    ops.uses_inf()
    u.requires(AND(temp > 0, u.forall((B, N), lambda b, j: AND(logits.at(b, j) > -ops.INF, logits.at(b, j) < ops.INF,
                                                                 logits.at(b, j) / temp > -ops.INF, logits.at(b, j) / temp < ops.INF))))
    u.requires(u.forall((B,), lambda b: u.exists((N,), lambda j: mask.at(b, j))))
    pre = u.snapshot(logits)
    u.no_spec.add((DEC, "process_logits"))
    u.stub(F=u.ns(log_softmax=lambda x, dim=-1: x))
    u.inline((DEC, "process_logits"), (DEC, "modify_logits_for_top_k_filtering"))
    out = u.run(DEC, "process_logits", logits, mask, temp, 0.0, k, record=False)
    b = u.idx((B,), "b")
    j, j2 = u.idx((N, N), "j j2")
    same_tensor(u, "filtered.shape", out, (B, N), lambda bb, jj: out.at(bb, jj), tags=("C10",))
    # (A1b: -inf is the constant -INF; scaling it by the temperature gives -INF / T, which stands for -inf as well)
    u.prove("filtered.infeasible-actions-are-removed", IMPL(NOT(mask.at(b, j)), OR(out.at(b, j) == -ops.INF, out.at(b, j) == -ops.INF / temp)), tags=("C10",))
    # a most likely FEASIBLE action always survives the filters (so a row with a feasible action never becomes all -inf)
    best = AND(mask.at(b, j), u.forall((N,), lambda q: IMPL(mask.at(b, q), pre.at(b, q) <= pre.at(b, j))))
    u.prove("filtered.best-feasible-action-survives", IMPL(best, AND(out.at(b, j) > -ops.INF, out.at(b, j) == pre.at(b, j) / temp)), tags=("C10", "C02"))
    u.canary("filtered.everything-survives", out.at(b, j) > -ops.INF)


@unit("decoding.process_logits.filtered.k2", file=DEC, func="process_logits", props=("C10", "C02"))
def _(u):
    _process_logits_filtered(u, 2)


@unit("decoding.process_logits.filtered.k0", file=DEC, func="process_logits", props=("C10", "C02"))
def _(u):
    _process_logits_filtered(u, 0)


# ---------------------------------------------------------------------------------------------
# C10: top-p (nucleus) filtering removes a prefix of the ascending order, never the row maximum, and leaves the rest untouched
# ---------------------------------------------------------------------------------------------
class capture_sort_fn:
    def __init__(self):
        self.results = []

    def __enter__(self):
        from tvc.methods import TF, TM

        self.orig = (TM["sort"], TF["sort"])

        def wrapped(t, *a, **kw):
            r = self.orig[1](t, *a, **kw)
            self.results.append(r)
            return r

        TM["sort"] = TF["sort"] = wrapped
        return self

    def __exit__(self, *a):
        from tvc.methods import TF, TM

        TM["sort"], TF["sort"] = self.orig


@unit("decoding.top_p_filter", file=DEC, func="modify_logits_for_top_p_filtering", props=("C10",))
def _(u):
    from tvc.unit import prefix_sum_step

    B = u.dim("B")
    N = u.dim("N", 2)
    logits = u.tensor("logits", (B, N), "f")
    p = u.scalar("top_p", "f")
    u.requires(AND(p > 0, p < 1))
    ops.uses_inf()
    u.requires(u.forall((B, N), lambda b, j: AND(logits.at(b, j) >= -ops.INF, logits.at(b, j) < ops.INF)))
    # at least one entry per row is feasible (finite): process_logits is only ever applied to rows with an admissible action
    u.requires(u.forall((B,), lambda b: u.exists((N,), lambda j: logits.at(b, j) > -ops.INF)))
    with capture_sort_fn() as cs:
        out = u.run(DEC, "modify_logits_for_top_p_filtering", logits, p)
    info = cs.results[0][0].prov[1]
    S, P, Q = info["S"], info["P"], info["Q"]
    b, j = u.idx((B,), "b"), u.idx((N,), "j")
    s1, s2 = u.idx((N,), "s1"), u.idx((N,), "s2")
    same_tensor(u, "topp.shape", out, (B, N), lambda bb, jj: out.at(bb, jj))
    u.prove("topp.entries-kept-or-removed", OR(out.at(b, j) == logits.at(b, j), out.at(b, j) == -ops.INF))
    cums = [r for r in u.ctx.reds.values() if r.label == "cumsum"]
    for r in cums:
        prefix_sum_step(u, r, (b, s2), 1)
        prefix_sum_step(u, r, (b, zint(N) - 1), 1)
    removed = lambda s: out.at(b, P(zint(b), zint(s))) == -ops.INF           # the entry at ascending position s ends up at -inf
    from .checkers import sorted_pos_instances, sort_input_bridge
    sorted_pos_instances(u, cs.results[0], b, [s1, s2, zint(N) - 1], N)      # ground instances of the sort contract at the positions named below
    for n_, r in enumerate(cums):
        u.prove(f"lemma.softmax-weight-nonnegative{n_}", r.body((b, s2), (zint(s2),)) >= 0, assume=True)
    # (the softmax weights are non-negative, so the cumulative probabilities increase along the ascending order:)
    u.prove("topp.removed-positions-form-a-prefix", IMPL(AND(zint(s1) + 1 == zint(s2), removed(s2), S(zint(b), zint(s2)) > -ops.INF), removed(s1)))
    # the row maximum (last position of the ascending order) always survives: its cumulative probability is the whole mass 1
    from tvc.unit import sum_linear_hint
    from tvc.core import mk as _mk
    norms = [r for r in u.ctx.reds.values() if r.label == "softmax-norm"]
    for r, z in zip(cums, norms):
        H = _mk((B, N), "f", lambda I, r=r: r.app(I), prov=("red", r))
        Zt = _mk((B,), "f", lambda I, z=z: z.app(I), prov=("red", z))
        Z = z.app((b,))
        u.prove("lemma.softmax-norm-positive", Z > 0, assume=True)
        sum_linear_hint(u, H, (b, zint(N) - 1), [(1 / Z, Zt, (b,))], name="lemma.cumulative-summand-is-weight-over-norm")
        u.prove("lemma.total-mass-is-one", r.app((b, zint(N) - 1)) == 1, assume=True, algebra_only=True)
    jm = P(zint(b), zint(N) - 1)
    sort_input_bridge(u, cs.results[0], B, N)
    u.prove("topp.a-row-maximum-survives", AND(out.at(b, jm) == logits.at(b, jm), logits.at(b, jm) >= logits.at(b, j), out.at(b, jm) > -ops.INF))
    # what is removed is exactly the part of the ascending order whose cumulative probability stays within 1 - top_p
    # (cumulative probability: the code's own prefix-sum reduction on the symbolic pass; on the concrete pass, where sums are
    # unrolled, the specification softmax / cumsum of the sorted values)
    if cums:
        cum_at = lambda s: cums[0].app((b, s))
    else:
        from tvc.methods import TM
        spec = TM["cumsum"](TM["softmax"](cs.results[0][0], -1), -1)
        cum_at = lambda s: spec.at(b, s)
    u.prove("topp.removed-iff-cumulative-mass-within-one-minus-p", IMPL(S(zint(b), zint(s2)) > -ops.INF, removed(s2) == (cum_at(s2) <= 1 - p)))
    u.canary("topp.removes-the-smallest-entry", removed(0))


@unit("decoding.top_p_filter.disabled", file=DEC, func="modify_logits_for_top_p_filtering", props=("C10",))
def _(u):
    B, N = u.dims("B N")
    logits = u.tensor("logits", (B, N), "f")
    for nm, p in (("zero", 0.0), ("one", 1.0)):
        out = u.run(DEC, "modify_logits_for_top_p_filtering", logits, p)
        u.prove(f"topp.{nm}.identity", out is logits)
