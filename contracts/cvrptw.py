"""CVRPTW: problem definition and contracts (time windows on top of CVRP)."""
import z3

from tvc import ops
from tvc.core import AND, IMPL, NOT, OR, cur, ite, mk, zint, zreal
from tvc.unit import spec, unit

from . import cvrp
from .envlib import B_, rowlocal, same_tensor, unchanged

F = "rl4co/envs/routing/cvrptw/env.py"
FC = cvrp.F

# Problem definition (on top of CVRP): service at node j must START inside [e_j, l_j]; the vehicle
# may wait: start = max(arrival, e_j), departure = start + duration_j; a new route starts at the depot
# at time 0. enabled(j) additionally needs arrival = time + d(cur, j) <= l_j.
# valid instance: e_j >= 0, durations >= 0, every customer reachable from the depot in time
# (d(0,j) <= l_j) and returnable (l_j + dur_j + d(j,0) <= l_0).


def d(locs, b, p, q):
    """|loc[p] - loc[q]|, orientation of the environment's distance row: current minus target."""
    return ops.NORM2(locs.at(b, p, 0) - locs.at(b, q, 0), locs.at(b, p, 1) - locs.at(b, q, 1))


def state(u, B, N, with_cache=True):
    keys = dict(locs=((B, N + 1, 2), "f"), demand=((B, N), "f"), current_node=((B, 1), "i"), current_time=((B, 1), "f"),
                used_capacity=((B, 1), "f"), vehicle_capacity=((B, 1), "f"), visited=((B, N + 1), "i"),
                durations=((B, N + 1), "f"), time_windows=((B, N + 1, 2), "f"), action_mask=((B, N + 1), "b"))
    if with_cache:
        keys.update(current_loc=((B, 2), "f"), distances=((B, N + 1), "f"))
    return u.td(B, **keys)


def valid_tw(u, td, B, N):
    tw, dur, locs = td["time_windows"], td["durations"], td["locs"]
    return AND(
        u.forall((B, N + 1), lambda b, j: AND(tw.at(b, j, 0) >= 0, tw.at(b, j, 0) <= tw.at(b, j, 1), dur.at(b, j) >= 0)),
        u.forall((B,), lambda b: AND(tw.at(b, 0, 0) == 0, dur.at(b, 0) == 0)),
        u.forall((B, (1, N + 1)), lambda b, j: AND(d(locs, b, 0, j) <= tw.at(b, j, 1),
                                                   tw.at(b, j, 1) + dur.at(b, j) + d(locs, b, j, 0) <= tw.at(b, 0, 1))),
    )


def state_ok(u, td, B, N, cache=True):
    cn, t, tw, dur, locs = td["current_node"], td["current_time"], td["time_windows"], td["durations"], td["locs"]
    fs = [
        cvrp.state_ok(u, td, B, N, mask_consistent=False),
        valid_tw(u, td, B, N),
        u.forall((B,), lambda b: AND(t.at(b, 0) >= 0, IMPL(cn.at(b, 0) == 0, t.at(b, 0) == 0),
                                     IMPL(cn.at(b, 0) != 0, t.at(b, 0) <= tw.at(b, cn.at(b, 0), 1) + dur.at(b, cn.at(b, 0))))),
    ]
    if cache:
        fs.append(u.forall((B, N + 1), lambda b, j: td["distances"].at(b, j) == d(locs, b, cn.at(b, 0), j)))
    return AND(*fs)


def in_time(td, b, j):
    return td["current_time"].at(b, 0) + d(td["locs"], b, td["current_node"].at(b, 0), j) <= td["time_windows"].at(b, j, 1)


def mask_spec(td):
    base = cvrp.mask_spec(td, "tw_base")
    B, N1 = td["visited"].shape
    return mk((B, N1), "b", lambda I: B_(AND(base.at(I[0], I[1]), in_time(td, I[0], I[1]))))


@spec(F, "CVRPTWEnv.get_action_mask")
def get_action_mask_spec(u, selfobj, td):
    m = mask_spec(u.snapshot(td))
    locs, cn = td["locs"].snap(), td["current_node"].snap()
    B, N1 = td["visited"].shape
    snap = u.snapshot(td)
    td.update({
        "current_loc": mk((B, 2), "f", lambda I: locs((I[0], cn((I[0], 0)), I[1]))),
        "distances": mk((B, N1), "f", lambda I: d(snap["locs"], I[0], snap["current_node"].at(I[0], 0), I[1])),
    })
    return m


@unit("cvrptw.get_action_mask", file=F, func="CVRPTWEnv.get_action_mask", props=("C01", "C02", "C05", "C04"))
def _(u):
    B, N = u.dims("B N")
    td = state(u, B, N, with_cache=False)
    u.requires(state_ok(u, td, B, N, cache=False))
    pre = u.snapshot(td)
    m = u.run(F, "CVRPTWEnv.get_action_mask", td)
    b = u.idx((B,), "b")
    j = u.idx(((1, N + 1),), "j")
    en = AND(cvrp.enabled(pre, b, j - 1), in_time(pre, b, j))
    u.prove("mask.sound.customer", IMPL(m.at(b, j), en), tags=("C01",))
    u.prove("mask.complete.customer", IMPL(en, m.at(b, j)), tags=("C05",))
    u.prove("mask.complete.arrival-at-deadline",
            IMPL(AND(cvrp.enabled(pre, b, j - 1),
                     pre["current_time"].at(b, 0) + d(pre["locs"], b, pre["current_node"].at(b, 0), j) == pre["time_windows"].at(b, j, 1)),
                 m.at(b, j)), tags=("C05",))
    ms = mask_spec(pre)
    same_tensor(u, "mask.eq-spec", m, (B, N + 1), lambda bb, jj: ms.at(bb, jj), tags=("C01", "C05"))
    # C02: never a dead end (needs the valid-instance facts: reachable from the depot, returnable)
    u.prove("mask.live", u.exists((N + 1,), lambda k: m.at(b, k)), tags=("C02",))
    u.prove("mask.depot-open-away-from-depot", IMPL(pre["current_node"].at(b, 0) != 0, m.at(b, 0)), tags=("C02",))
    # side effect: cached current location and distance row
    same_tensor(u, "mask.cache.distances", td["distances"], (B, N + 1),
                lambda bb, jj: d(pre["locs"], bb, pre["current_node"].at(bb, 0), jj), tags=("C01", "C03"))
    same_tensor(u, "mask.cache.current_loc", td["current_loc"], (B, 2),
                lambda bb, c: pre["locs"].at(bb, pre["current_node"].at(bb, 0), c), tags=("C01",))
    unchanged(u, "mask", pre, td, ["demand", "used_capacity", "vehicle_capacity", "visited", "current_node", "locs", "current_time", "time_windows", "durations"], tags=("C04",))
    u.canary("mask.ignores-deadline", IMPL(cvrp.enabled(pre, b, j - 1), m.at(b, j)))
    u.canary("mask.strict-deadline", IMPL(m.at(b, j), pre["current_time"].at(b, 0) + d(pre["locs"], b, pre["current_node"].at(b, 0), j) < pre["time_windows"].at(b, j, 1)))


@unit("cvrptw.step", file=F, func="CVRPTWEnv._step", props=("C01", "C02", "C04"))
def _(u):
    B, N = u.dims("B N")
    td = state(u, B, N)
    td.set("action", u.tensor("action", (B,), "i"))
    u.requires(state_ok(u, td, B, N))
    a = td["action"]
    ms = mask_spec(td)
    u.requires(u.forall((B,), lambda b: AND(a.at(b) >= 0, a.at(b) <= N, ms.at(b, a.at(b)))))
    pre = u.snapshot(td)
    env = u.obj(F, "CVRPTWEnv")
    u.inline((FC, "CVRPEnv._step"))  # super()._step: executed (its get_action_mask call dispatches to CVRPTWEnv's contract)
    out = u.run(F, "CVRPTWEnv._step", td, selfobj=env)
    b = u.idx((B,), "b")
    ab = pre["action"].at(b)
    t0 = pre["current_time"].at(b, 0)
    tw, dur = pre["time_windows"], pre["durations"]
    arrival = t0 + d(pre["locs"], b, pre["current_node"].at(b, 0), ab)
    u.prove("step.arrival-before-deadline", IMPL(ab != 0, arrival <= tw.at(b, ab, 1)), tags=("C01",))
    start = ite(arrival >= tw.at(b, ab, 0), arrival, tw.at(b, ab, 0))
    u.prove("step.clock", out["current_time"].at(b, 0) == ite(ab == 0, 0, start + dur.at(b, ab)), tags=("C01",))
    u.prove("step.service-starts-in-window", IMPL(ab != 0, AND(start >= tw.at(b, ab, 0), start <= tw.at(b, ab, 1))), tags=("C01",))
    same_tensor(u, "step.current_time.shape", out["current_time"], (B, 1), lambda bb, _: out["current_time"].at(bb, 0), tags=("C04",))
    same_tensor(u, "step.used_capacity", out["used_capacity"], (B, 1),
                lambda bb, _: ite(pre["action"].at(bb) == 0, 0, pre["used_capacity"].at(bb, 0) + pre["demand"].at(bb, pre["action"].at(bb) - 1)), tags=("C01",))
    same_tensor(u, "step.visited", out["visited"], (B, N + 1),
                lambda bb, jj: ite(zint(jj) == pre["action"].at(bb), 1, pre["visited"].at(bb, jj)), tags=("C01",))
    same_tensor(u, "step.current_node", out["current_node"], (B, 1), lambda bb, _: pre["action"].at(bb), tags=("C01",))
    allv = u.forall((N + 1,), lambda k: out["visited"].at(b, k) == 1)
    u.prove("step.done.iff", out["done"].at(b) == allv, tags=("C01", "C02"))
    u.prove("step.inv", state_ok(u, out, B, N), tags=("C01", "C02"))
    msn = mask_spec(out)
    same_tensor(u, "step.mask-consistent", out["action_mask"], (B, N + 1), lambda bb, jj: msn.at(bb, jj), tags=("C01", "C05"))
    unchanged(u, "step", pre, out, ["locs", "demand", "vehicle_capacity", "time_windows", "durations"], tags=("C04",))
    pre_done = u.forall((N + 1,), lambda k: pre["visited"].at(b, k) == 1)
    u.prove("step.done-stable", IMPL(pre_done, AND(ab == 0, out["done"].at(b))), tags=("C02",))
    u.prove("step.pad-idem", IMPL(pre_done, AND(out["used_capacity"].at(b, 0) == 0, out["current_time"].at(b, 0) == 0)), tags=("C04",))
    u.canary("step.no-waiting", IMPL(ab != 0, out["current_time"].at(b, 0) == arrival + dur.at(b, ab)))


@unit("cvrptw.reset", file=F, func="CVRPTWEnv._reset", props=("C01", "C02"))
def _(u):
    B, N = u.dims("B N")
    td = u.td(B, depot=((B, 2), "f"), locs=((B, N, 2), "f"), demand=((B, N), "f"), durations=((B, N + 1), "f"),
              time_windows=((B, N + 1, 2), "f"))
    cap = u.scalar("capacity", "f")
    u.requires(cap > 0)
    dm = td["demand"]
    u.requires(u.forall((B, N), lambda b, j: AND(dm.at(b, j) >= 0, dm.at(b, j) <= cap)))
    # valid time windows, stated on the instance (depot is node 0 of durations/time_windows)
    locs_full = ops.cat([ops.unsqueeze(td["depot"], 1), td["locs"]], 1)
    inst = {"time_windows": td["time_windows"], "durations": td["durations"], "locs": locs_full}
    u.requires(valid_tw(u, inst, B, N))
    pre = u.snapshot(td)
    env = u.obj(F, "CVRPTWEnv", generator=u.ns(vehicle_capacity=cap))
    out = u.run(F, "CVRPTWEnv._reset", td, [B], selfobj=env)
    same_tensor(u, "reset.locs", out["locs"], (B, N + 1, 2), lambda b, j, c: ite(zint(j) == 0, pre["depot"].at(b, c), pre["locs"].at(b, zint(j) - 1, c)), tags=("C01",))
    same_tensor(u, "reset.current_time", out["current_time"], (B, 1), lambda b, _: 0, tags=("C01",))
    same_tensor(u, "reset.used_capacity", out["used_capacity"], (B, 1), lambda b, _: 0, tags=("C01",))
    same_tensor(u, "reset.visited", out["visited"], (B, N + 1), lambda b, j: 0, tags=("C01",), dtype="i")
    same_tensor(u, "reset.time_windows", out["time_windows"], (B, N + 1, 2), lambda b, j, c: pre["time_windows"].at(b, j, c), tags=("C01",))
    same_tensor(u, "reset.durations", out["durations"], (B, N + 1), lambda b, j: pre["durations"].at(b, j), tags=("C01",))
    u.prove("reset.inv", state_ok(u, out, B, N), tags=("C01", "C02"))
    msn = mask_spec(out)
    same_tensor(u, "reset.mask-consistent", out["action_mask"], (B, N + 1), lambda bb, jj: msn.at(bb, jj), tags=("C01", "C05"))


@unit("cvrptw.reward", file=F, func="CVRPTWEnv._get_reward", props=("C03",))
def _(u):
    from .envlib import depot_tour_reward_unit

    u.inline((FC, "CVRPEnv._get_reward"))
    depot_tour_reward_unit(u, F, "CVRPTWEnv._get_reward", "CVRPTWEnv", make_td=state)


@unit("cvrptw.rowlocal.step", file=F, func="CVRPTWEnv._step", props=("C04", "C14"))
def _(u):
    N = u.dim("N")
    env = u.obj(F, "CVRPTWEnv")
    u.inline((FC, "CVRPEnv._step"))

    def mk_in(u, B):
        td = state(u, B, N)
        td.set("action", u.tensor("action", (B,), "i"))
        return td

    def req(u, td, B):
        a = td["action"]
        return AND(state_ok(u, td, B, N), u.forall((B,), lambda b: AND(a.at(b) >= 0, a.at(b) <= N)))

    rowlocal(u, "step", mk_in, lambda u, td: u.run(F, "CVRPTWEnv._step", td, selfobj=env), requires=req)


@unit("cvrptw.rowlocal.mask", file=F, func="CVRPTWEnv.get_action_mask", props=("C04", "C14"))
def _(u):
    N = u.dim("N")

    def call(u, td):
        m = u.run(F, "CVRPTWEnv.get_action_mask", td)
        return {"mask": m, "distances": td["distances"], "current_loc": td["current_loc"]}

    rowlocal(u, "mask", lambda u, B: state(u, B, N, with_cache=False), call,
             requires=lambda u, td, B: state_ok(u, td, B, N, cache=False))
