"""C15: symmetric augmentations are distance preserving; the first copy is the original."""
import math

import z3

from tvc import ops
from tvc.core import AND, IMPL, NOT, OR, cur, ite, mk, zint, zreal
from tvc.td import SymTD
from tvc.unit import spec, unit

from .envlib import B_, same_tensor

TR = "rl4co/data/transforms.py"
COS, SIN = ops.UF["cos"], ops.UF["sin"]


def trig_axioms(u):
    """Assumed facts about the uninterpreted cos / sin (A1)."""
    t = z3.Real("trig_t")
    u.requires(z3.ForAll([t], COS(t) * COS(t) + SIN(t) * SIN(t) == 1, patterns=[COS(t)]))
    u.requires(AND(COS(zreal(0)) == 1, SIN(zreal(0)) == 0))
    u.assume_external("cos^2 + sin^2 = 1, cos 0 = 1, sin 0 = 0 (uninterpreted trigonometric functions)")


def sqdist(t, r, i, j):
    dx, dy = t.at(r, i, 0) - t.at(r, j, 0), t.at(r, i, 1) - t.at(r, j, 1)
    return dx * dx + dy * dy


@unit("transforms.dihedral8", file=TR, func="dihedral_8_augmentation", props=("C15",))
def _(u):
    B, N = u.dims("B N")
    xy = u.tensor("xy", (B, N, 2), "f")
    out = u.run(TR, "dihedral_8_augmentation", xy)
    same_tensor(u, "dihedral.shape", out, (8 * B, N, 2), lambda r, i, c: out.at(r, i, c))
    b = u.idx((B,), "b")
    i, j = u.idx((N, N), "i j")
    c = u.idx((2,), "c")
    u.prove("dihedral.first-copy-is-identity", out.at(b, i, c) == xy.at(b, i, c))
    for a in range(8):
        # copy a of instance b sits at row a*B+b and is an isometry of the original (squared distances equal)
        u.prove(f"dihedral.copy{a}.distance-preserving", sqdist(out, a * B + b, i, j) == sqdist(xy, b, i, j), algebra_only=False)
    u.canary("dihedral.copy1-is-identity", out.at(B + b, i, 0) == xy.at(b, i, 0))


@unit("transforms.dihedral8.wrapper", file=TR, func="dihedral_8_augmentation_wrapper", props=("C15",))
def _(u):
    B, N = u.dims("B N")
    xy = u.tensor("xy", (8 * B, N, 2), "f")
    u.inline((TR, "dihedral_8_augmentation"))
    out = u.run(TR, "dihedral_8_augmentation_wrapper", xy, 8)
    b = u.idx((B,), "b")
    i = u.idx((N,), "i")
    c = u.idx((2,), "c")
    same_tensor(u, "wrapper.shape", out, (8 * B, N, 2), lambda r, k, cc: out.at(r, k, cc))
    # only the first B rows of the replicated batch are read; copy 0 reproduces them
    u.prove("wrapper.first-copy-is-identity", out.at(b, i, c) == xy.at(b, i, c))


@unit("transforms.symmetric_transform", file=TR, func="symmetric_transform", props=("C15",))
def _(u):
    R, N = u.dims("R N")
    trig_axioms(u)
    x = u.tensor("x", (R, N, 1), "f")
    y = u.tensor("y", (R, N, 1), "f")
    phi = u.tensor("phi", (R, 1, 1), "f")
    out = u.run(TR, "symmetric_transform", x, y, phi)
    same_tensor(u, "sym.shape", out, (R, N, 2), lambda r, i, c: out.at(r, i, c))
    r = u.idx((R,), "r")
    i, j = u.idx((N, N), "i j")
    dx, dy = x.at(r, i, 0) - x.at(r, j, 0), y.at(r, i, 0) - y.at(r, j, 0)
    p = phi.at(r, 0, 0)
    u.ctx.assume(COS(p) * COS(p) + SIN(p) * SIN(p) == 1)  # ground instance of the trigonometric axiom
    two_pi = zreal(2 * math.pi)
    # case split on the reflection flag (phi > 2*pi) -- a rotation, resp. a rotation followed by swapping the axes
    u.prove("sym.distance-preserving.rotation", IMPL(NOT(p > two_pi), sqdist(out, r, i, j) == dx * dx + dy * dy), algebra_only=True)
    u.prove("sym.distance-preserving.reflection", IMPL(p > two_pi, sqdist(out, r, i, j) == dx * dx + dy * dy), algebra_only=True)
    u.prove("sym.phi0-is-identity", IMPL(phi.at(r, 0, 0) == 0, AND(out.at(r, i, 0) == x.at(r, i, 0), out.at(r, i, 1) == y.at(r, i, 0))))
    u.canary("sym.always-identity", out.at(r, i, 0) == x.at(r, i, 0))


_ABS = [0]


@spec(TR, "symmetric_transform")
def symmetric_transform_spec(u, selfobj, x, y, phi, offset=0.5):
    """Contract (proved by transforms.symmetric_transform): the result is an opaque [R,N,2] tensor whose rows are
    isometric images of the input rows, and rows with phi = 0 are unchanged."""
    R, N = x.shape[0], x.shape[1]
    _ABS[0] += 1
    o = u.abstract(ops.const_tensor((R, N, 2), "f", 0), f"symt{_ABS[0]}")
    xs, ys, ps = x.snap(), y.snap(), phi.snap()
    u.requires(u.forall((R, N, N), lambda r, i, j: sqdist(o, r, i, j) ==
                        (xs((r, i, 0)) - xs((r, j, 0))) * (xs((r, i, 0)) - xs((r, j, 0))) + (ys((r, i, 0)) - ys((r, j, 0))) * (ys((r, i, 0)) - ys((r, j, 0)))))
    u.requires(u.forall((R, N), lambda r, i: IMPL(ps((r, 0, 0)) == 0, AND(o.at(r, i, 0) == xs((r, i, 0)), o.at(r, i, 1) == ys((r, i, 0))))))
    return o


@unit("transforms.symmetric_augmentation", file=TR, func="symmetric_augmentation", props=("C15",))
def _(u):
    B, K, N = u.dims("B K N")
    trig_axioms(u)
    xy = u.tensor("xy", (K * B, N, 2), "f")
    out = u.run(TR, "symmetric_augmentation", xy, K)   # symmetric_transform is seen through its contract
    same_tensor(u, "symaug.shape", out, (K * B, N, 2), lambda r, i, c: out.at(r, i, c))
    b = u.idx((B,), "b")
    r = u.idx((K * B,), "r")
    i, j = u.idx((N, N), "i j")
    c = u.idx((2,), "c")
    u.prove("symaug.first-copy-is-identity", out.at(b, i, c) == xy.at(b, i, c))
    # ground instance of the trigonometric axiom at the angle of row r (whatever the sampler returned)
    ang = z3.Real("angle_r")
    u.ctx.assume(z3.ForAll([ang], COS(ang) * COS(ang) + SIN(ang) * SIN(ang) == 1))
    # the angle of row r is whatever the sampler returned (or 0 for the first copy): name it and use the ground instance
    two_pi = zreal(2 * math.pi)
    u.prove("symaug.distance-preserving", sqdist(out, r, i, j) == sqdist(xy, r, i, j))


@spec(TR, "dihedral_8_augmentation_wrapper")
def dihedral_wrapper_spec(u, selfobj, xy, reduce=True, *args, **kw):
    """Contract (proved by transforms.dihedral8 / .wrapper): reads the first 1/8 of the rows; result row a*B+b is an
    isometric image of input row b, copy 0 is the identity."""
    R, N = xy.shape[0], xy.shape[1]
    Bn = ops.simp_int(ops.scalar_binop("floordiv", R, 8, wf=False)) if reduce else R
    _ABS[0] += 1
    o = u.abstract(ops.const_tensor((ops.simp_int(ops.scalar_binop("mul", 8, Bn, wf=False)), N, 2), "f", 0), f"dih{_ABS[0]}")
    xs = xy.snap()
    src = mk(xy.shape, "f", xs)
    for a in range(8):
        # row r = a*B + b: stated with an explicit row variable so that instantiation is by matching o(r, i, .) and xy(b, i, .)
        u.requires(u.forall((8 * zint(Bn), Bn, N, N),
                            lambda r, b, i, j, a=a: IMPL(zint(r) == a * zint(Bn) + zint(b), sqdist(o, r, i, j) == sqdist(src, b, i, j)),
                            pats=lambda r, b, i, j: [z3.MultiPattern(o.at(r, i, 0), o.at(r, j, 0), src.at(b, i, 0))]))
    u.requires(u.forall((Bn, N, 2), lambda b, i, c: o.at(b, i, c) == xs((b, i, c))))
    u._dihedral_contract = (o, src, Bn)     # lets a caller's unit instantiate the contract at its own (row, nodes)
    return o


@unit("transforms.state_augmentation", file=TR, func="StateAugmentation.__call__", props=("C15", "C12"))
def _(u):
    B, N = u.dims("B N")
    K = 8
    td = SymTD({"locs": u.tensor("locs", (B, N, 2), "f"), "demand": u.tensor("demand", (B, N), "f")}, (B,))
    for nm, fn in (("dihedral8", "dihedral_8_augmentation_wrapper"),):
        obj = u.obj(TR, "StateAugmentation", augmentation=u.interp.func(TR, fn), feats=["locs"], num_augment=K, normalize=False, first_aug_identity=True)
        out = u.run(TR, "StateAugmentation.__call__", td, selfobj=obj)  # the augmentation function is seen through its contract
        b = u.idx((B,), "b")
        i, j = u.idx((N, N), "i j")
        c = u.idx((2,), "c")
        same_tensor(u, "aug.locs.shape", out["locs"], (K * B, N, 2), lambda r, k, cc: out["locs"].at(r, k, cc))
        u.prove("aug.first-copy-is-original", out["locs"].at(b, i, c) == td["locs"].at(b, i, c))
        o_, src_, Bn_ = u._dihedral_contract
        # two small links (each a one-step argument), then every copy follows from one ground instance of the contract
        u.prove("aug.input-of-the-augmentation.row-b-is-instance-b", AND(zint(Bn_) == B, *[src_.at(b, n_, c_) == td["locs"].at(b, n_, c_) for n_ in (i, j) for c_ in (0, 1)]), assume=True)
        for a in range(K):
            u.prove(f"aug.copy{a}.output-is-the-augmented-feature", AND(*[out["locs"].at(a * B + b, n_, c_) == o_.at(a * B + b, n_, c_) for n_ in (i, j) for c_ in (0, 1)]), assume=True)
        for a in range(K):
            # ground instance of the augmentation function's contract at the row / nodes the clause speaks about
            u.ctx.assume(sqdist(o_, a * zint(Bn_) + b, i, j) == sqdist(src_, b, i, j))
            u.prove(f"aug.copy{a}-of-same-instance", sqdist(out["locs"], a * B + b, i, j) == sqdist(td["locs"], b, i, j))
            # features that are not augmented are replicated: row a*B+b carries instance b
            u.prove(f"aug.copy{a}.other-keys-replicated", out["demand"].at(a * B + b, i) == td["demand"].at(b, i))


@unit("transforms.state_augmentation.symmetric", file=TR, func="StateAugmentation.__call__", props=("C15", "C12"))
def _(u):
    # the symmetric (SymNCO) family with ANY number of augmentations A >= 2 (not only the function's default 8): copy 0 of
    # every instance is the original, every copy is an isometric image of its own instance, other keys are replicated
    B, N = u.dims("B N")
    A = u.dim("A", 2)
    trig_axioms(u)
    td = SymTD({"locs": u.tensor("locs", (B, N, 2), "f"), "demand": u.tensor("demand", (B, N), "f")}, (B,))
    obj = u.obj(TR, "StateAugmentation", augmentation=u.interp.func(TR, "symmetric_augmentation"), feats=["locs"], num_augment=A,
                normalize=False, first_aug_identity=True)
    u.inline((TR, "symmetric_augmentation"))
    out = u.run(TR, "StateAugmentation.__call__", td, selfobj=obj, record=False)
    b = u.idx((B,), "b")
    a = u.idx((A,), "a")
    i, j = u.idx((N, N), "i j")
    c = u.idx((2,), "c")
    same_tensor(u, "symstate.locs.shape", out["locs"], (A * B, N, 2), lambda r, k, cc: out["locs"].at(r, k, cc))
    u.prove("symstate.first-copy-is-original", out["locs"].at(b, i, c) == td["locs"].at(b, i, c))
    u.prove("symstate.copy-of-same-instance", sqdist(out["locs"], a * B + b, i, j) == sqdist(td["locs"], b, i, j))
    u.prove("symstate.other-keys-replicated", out["demand"].at(a * B + b, i) == td["demand"].at(b, i))
    u.canary("symstate.every-copy-is-original", out["locs"].at(a * B + b, i, c) == td["locs"].at(b, i, c))


# ---------------------------------------------------------------------------------------------
# Evaluation: rewards are computed on the ORIGINAL instance of each row and the best of each instance's own
# candidates is returned together with the actions of that candidate.
# ---------------------------------------------------------------------------------------------
EV = "rl4co/tasks/eval.py"


def _eval_inner(u, cls, factors_kind):
    from tvc.unit import divmod_hint

    B, N, T = u.dims("B N T")
    if factors_kind == "aug":
        K = u.dim("K")
        total, fac = K, {"num_augment": K}
    elif factors_kind == "starts":
        K = u.dim("K")
        total, fac = K, {"num_starts": K}
    else:
        A_, S_ = u.dims("A S")
        total, fac = S_ * A_, {"num_augment": A_, "num_starts": S_}
    td = SymTD({"locs": u.tensor("locs", (B, N, 2), "f")}, (B,))
    acts = u.tensor("policy_actions", (total * B, T), "i")
    rew = u.tensor("env_rewards", (total * B,), "f")
    seen = {}

    def get_reward(td_arg, a_arg):
        seen["td"], seen["actions"] = td_arg, a_arg
        return rew

    aug_td = SymTD({"locs": u.tensor("aug_locs", ((fac.get("num_augment", 1)) * B, N, 2), "f")}, ((fac.get("num_augment", 1)) * B,))
    attrs = dict(env=u.ns(get_reward=get_reward))
    if "num_augment" in fac:
        attrs["augmentation"] = u.ns(num_augment=fac["num_augment"], __call__=None)
        aug_fn = lambda t: aug_td
        attrs["augmentation"] = _Callable(aug_fn, num_augment=fac["num_augment"])
    if "num_starts" in fac:
        attrs["num_starts"] = fac["num_starts"]
    obj = u.obj(EV, cls, **attrs)
    policy = lambda t, **kw: {"actions": acts, "reward": rew}
    from tvc.unit import on_reduction

    captured = []
    on_reduction(u, "", captured.append)
    a_out, r_out = u.run(EV, f"{cls}._inner", policy, td, selfobj=obj, record=False)
    b = u.idx((B,), "b")
    t = u.idx((T,), "t")
    i = u.idx((N,), "i")
    c = u.idx((2,), "c")
    r = u.idx((total * B,), "r")
    # (1) the objective is evaluated on the original (un-augmented) instance of every row
    u.prove("eval.rewards-on-original-instance", seen["td"]["locs"].at(r, i, c) == td["locs"].at(r % B, i, c), tags=("C15",))
    u.prove("eval.rewards-of-policy-actions", seen["actions"].at(r, t) == acts.at(r, t), tags=("C15",))
    # (2) per instance: best of its own candidates, with the actions of that very candidate
    js, j = z3.Int("jstar"), z3.Int("jany")
    same_tensor(u, "eval.actions.shape", a_out, (B, T), lambda bb, tt: a_out.at(bb, tt), tags=("C15",))
    same_tensor(u, "eval.rewards.shape", r_out, (B,), lambda bb: r_out.at(bb), tags=("C15",))
    am = [r_ for r_ in captured if r_.kind == "argmax" and r_.outer_rank == 1]
    if am:
        # witness: the argmax over the candidates of instance b that the body itself computes (torch.max contract)
        js = am[0].app((b,))
        jj = u.idx((total,), "jj")
        u.prove("eval.best.witness-in-range", AND(js >= 0, js < total), tags=("C15", "C12"))
        u.prove("eval.best.reward-of-own-candidate", r_out.at(b) == rew.at(js * B + b), tags=("C15", "C12"))
        u.prove("eval.best.actions-of-that-candidate", a_out.at(b, t) == acts.at(js * B + b, t), tags=("C15", "C12"))
        u.prove("eval.best.dominates-own-candidates", rew.at(jj * B + b) <= r_out.at(b), tags=("C15", "C12"))
    else:
        u.prove("eval.best-of-own-candidates", z3.Exists([js], AND(
            js >= 0, js < total, r_out.at(b) == rew.at(js * B + b), a_out.at(b, t) == acts.at(js * B + b, t),
            z3.ForAll([j], z3.Implies(z3.And(j >= 0, j < total), rew.at(j * B + b) <= r_out.at(b))))), tags=("C15", "C12"))
    u.canary("eval.first-candidate", r_out.at(b) == rew.at(b), tags=("C15",))


class _Callable:
    def __init__(self, fn, **attrs):
        self._fn = fn
        self.__dict__.update(attrs)

    def __call__(self, *a, **k):
        return self._fn(*a, **k)


@unit("eval.augmentation", file=EV, func="AugmentationEval._inner", props=("C15", "C12"))
def _(u):
    _eval_inner(u, "AugmentationEval", "aug")


@unit("eval.multistart", file=EV, func="GreedyMultiStartEval._inner", props=("C15", "C12"))
def _(u):
    _eval_inner(u, "GreedyMultiStartEval", "starts")


@unit("eval.multistart_augment", file=EV, func="GreedyMultiStartAugmentEval._inner", props=("C15", "C12"))
def _(u):
    _eval_inner(u, "GreedyMultiStartAugmentEval", "both")


@unit("eval.base.call", file=EV, func="EvalBase.__call__", props=("C15",))
def _(u):
    # two loader batches of different sizes whose action sequences have different lengths: rewards and actions are
    # concatenated in loader order, the shorter sequences padded with zeros at the END
    B1, B2, T1, T2 = u.dims("B1 B2 T1 T2")
    u.requires(T1 >= T2)          # (the symmetric case is the same code path with the roles swapped)
    a1, a2 = u.tensor("actions1", (B1, T1), "i"), u.tensor("actions2", (B2, T2), "i")
    r1, r2 = u.tensor("rewards1", (B1,), "f"), u.tensor("rewards2", (B2,), "f")
    td1 = SymTD({"locs": u.tensor("locs1", (B1, 3, 2), "f")}, (B1,))
    td2 = SymTD({"locs": u.tensor("locs2", (B2, 3, 2), "f")}, (B2,))
    seen = []

    def inner(policy, td, **kw):
        seen.append(td)
        return (a1, r1) if len(seen) == 1 else (a2, r2)

    class _Tqdm:
        def __call__(self, it, **kw):
            return it

        def write(self, s):
            return None

    policy = u.ns(parameters=lambda: iter([u.ns(device="dev")]))
    ev = u.obj(EV, "EvalBase", env=u.ns(reset=lambda td: td), progress=False, name="base", _inner=inner)
    u.stub(tqdm=_Tqdm(), time=u.ns(time=lambda: 0.0))
    out = u.run(EV, "EvalBase.__call__", policy, [td1, td2], selfobj=ev, record=False)
    b1, b2 = u.idx((B1,), "b1"), u.idx((B2,), "b2")
    t1, t2, tp = u.idx((T1,), "t1"), u.idx((T2,), "t2"), u.idx(((T2, T1),), "tp")
    u.prove("evalcall.batches-in-loader-order", len(seen) == 2 and seen[0] is td1 and seen[1] is td2)
    same_tensor(u, "evalcall.rewards.shape", out["rewards"], (B1 + B2,), lambda r: out["rewards"].at(r))
    u.prove("evalcall.rewards.concatenated", AND(out["rewards"].at(b1) == r1.at(b1), out["rewards"].at(B1 + b2) == r2.at(b2)))
    same_tensor(u, "evalcall.actions.shape", out["actions"], (B1 + B2, T1), lambda r, t: out["actions"].at(r, t))
    u.prove("evalcall.actions.first-batch", out["actions"].at(b1, t1) == a1.at(b1, t1))
    u.prove("evalcall.actions.second-batch", out["actions"].at(B1 + b2, t2) == a2.at(b2, t2))
    u.prove("evalcall.actions.padding-is-zero-at-the-end", out["actions"].at(B1 + b2, tp) == 0)
    u.canary("evalcall.rewards.reversed", out["rewards"].at(b2) == r2.at(b2))
