"""C13 (proof part): one beam step keeps, per instance, the top-W of its own W*N expansions and re-indexes by parent."""
import z3

from tvc import ops
from tvc.core import AND, IMPL, NOT, OR, cur, ite, mk, zint, zreal
from tvc.unit import spec, unit

from .envlib import B_, same_tensor

DEC = "rl4co/utils/decoding.py"


def _beam_step(u, W):
    B, N = u.dims("B N")
    lp = u.tensor("logprobs", (W * B, N), "f")
    par = u.tensor("parent_beam_logprobs", (W * B, 1), "f")
    strat = u.obj(DEC, "BeamSearch", beam_width=W, parent_beam_logprobs=par, beam_path=[])
    sel, bbi = u.run(DEC, "BeamSearch._make_beam_step", lp, selfobj=strat)
    b = u.idx((B,), "b")
    same_tensor(u, "beam.selected.shape", sel, (W * B,), lambda r: sel.at(r), tags=("C13",))
    same_tensor(u, "beam.parent_idx.shape", bbi, (W * B,), lambda r: bbi.at(r), tags=("C13",))
    newpar = strat._attrs["parent_beam_logprobs"]
    path = strat._attrs["beam_path"]
    u.prove("beam.path-extended", len(path) == 1, tags=("C13",))
    score = lambda row, node: lp.at(row, node) + par.at(row, 0)
    for w in range(W):
        r = w * B + b
        p = path[-1].at(r)
        # beam w of instance b continues a beam of the SAME instance (row parent*B + b) with a node in range
        u.prove(f"beam{w}.parent-in-range", AND(p >= 0, p < W), tags=("C13", "C12"))
        u.prove(f"beam{w}.same-instance", bbi.at(r) == p * B + b, tags=("C13", "C12"))
        u.prove(f"beam{w}.node-in-range", AND(sel.at(r) >= 0, sel.at(r) < N), tags=("C13",))
        # its score is the parent's score plus the step log-prob of the chosen node
        u.prove(f"beam{w}.score", newpar.at(r, 0) == score(bbi.at(r), sel.at(r)), tags=("C13",))
        # kept beams are pairwise distinct (parent, node) pairs, ordered by score
        for w2 in range(w + 1, W):
            r2 = w2 * B + b
            u.prove(f"beam{w}.distinct-from-{w2}", OR(bbi.at(r) != bbi.at(r2), sel.at(r) != sel.at(r2)), tags=("C13",))
            u.prove(f"beam{w}.not-worse-than-{w2}", newpar.at(r, 0) >= newpar.at(r2, 0), tags=("C13",))
    # every expansion (parent q, node m) of instance b that was not kept scores at most the worst kept beam
    q = u.idx((W,), "q")
    m = u.idx((N,), "m")
    worst = newpar.at((W - 1) * B + b, 0)
    kept = OR(*[AND(bbi.at(w * B + b) == q * B + b, sel.at(w * B + b) == m) for w in range(W)])
    # lemma instances: decoding of the flat expansion index (divmod.row) and cancellation of the row stride (mul.cancel)
    from tvc.unit import divmod_hint

    divmod_hint(u, q * N + m, q, N, m)
    for w in range(W):
        pw = path[-1].at(w * B + b)
        u.ctx.assume(z3.Implies(pw * B + b == q * B + b, pw == q))
    u.prove("beam.kept-are-the-top-W", IMPL(NOT(kept), score(q * B + b, m) <= worst), tags=("C13",))
    u.canary("beam.parent-of-other-instance", bbi.at(b) == path[-1].at(b) * B + (b + 1))


@unit("beam.make_beam_step.w2", file=DEC, func="BeamSearch._make_beam_step", props=("C13", "C12"))
def _(u):
    _beam_step(u, 2)


@unit("beam.make_beam_step.w3", file=DEC, func="BeamSearch._make_beam_step", props=("C13", "C12"))
def _(u):
    _beam_step(u, 3)
