"""C13 (proof part): one beam step keeps, per instance, the top-W of its own W*N expansions and re-indexes by parent."""
import z3

from tvc import ops
from tvc.core import AND, IMPL, NOT, OR, cur, ite, mk, zint, zreal
from tvc.unit import spec, unit

from .envlib import B_, same_tensor

DEC = "rl4co/utils/decoding.py"


def _beam_step(u, W):
    B, N = u.dims("B N")
    lp = u.tensor("logprobs", (W * B, N), "f")
    par = u.tensor("parent_beam_logprobs", (W * B, 1), "f")
    strat = u.obj(DEC, "BeamSearch", beam_width=W, parent_beam_logprobs=par, beam_path=[])
    sel, bbi = u.run(DEC, "BeamSearch._make_beam_step", lp, selfobj=strat)
    b = u.idx((B,), "b")
    same_tensor(u, "beam.selected.shape", sel, (W * B,), lambda r: sel.at(r), tags=("C13",))
    same_tensor(u, "beam.parent_idx.shape", bbi, (W * B,), lambda r: bbi.at(r), tags=("C13",))
    newpar = strat._attrs["parent_beam_logprobs"]
    path = strat._attrs["beam_path"]
    u.prove("beam.path-extended", len(path) == 1, tags=("C13",))
    score = lambda row, node: lp.at(row, node) + par.at(row, 0)
    for w in range(W):
        r = w * B + b
        p = path[-1].at(r)
        # beam w of instance b continues a beam of the SAME instance (row parent*B + b) with a node in range
        u.prove(f"beam{w}.parent-in-range", AND(p >= 0, p < W), tags=("C13", "C12"))
        u.prove(f"beam{w}.same-instance", bbi.at(r) == p * B + b, tags=("C13", "C12"))
        u.prove(f"beam{w}.node-in-range", AND(sel.at(r) >= 0, sel.at(r) < N), tags=("C13",))
        # its score is the parent's score plus the step log-prob of the chosen node
        u.prove(f"beam{w}.score", newpar.at(r, 0) == score(bbi.at(r), sel.at(r)), tags=("C13",))
        # kept beams are pairwise distinct (parent, node) pairs, ordered by score
        for w2 in range(w + 1, W):
            r2 = w2 * B + b
            u.prove(f"beam{w}.distinct-from-{w2}", OR(bbi.at(r) != bbi.at(r2), sel.at(r) != sel.at(r2)), tags=("C13",))
            u.prove(f"beam{w}.not-worse-than-{w2}", newpar.at(r, 0) >= newpar.at(r2, 0), tags=("C13",))
    # every expansion (parent q, node m) of instance b that was not kept scores at most the worst kept beam
    q = u.idx((W,), "q")
    m = u.idx((N,), "m")
    worst = newpar.at((W - 1) * B + b, 0)
    kept = OR(*[AND(bbi.at(w * B + b) == q * B + b, sel.at(w * B + b) == m) for w in range(W)])
    # lemma instances: decoding of the flat expansion index (divmod.row) and cancellation of the row stride (mul.cancel)
    from tvc.unit import divmod_hint

    divmod_hint(u, q * N + m, q, N, m)
    for w in range(W):
        pw = path[-1].at(w * B + b)
        u.ctx.assume(z3.Implies(pw * B + b == q * B + b, pw == q))
        # integer arithmetic, stated explicitly because the divisor N is symbolic: equal (parent, node) pairs give equal flat indices
        sw = sel.at(w * B + b)
        u.ctx.assume(AND(zint(sw) >= 0, zint(sw) < zint(N), z3.Implies(AND(zint(pw) == zint(q), zint(sw) == zint(m)), zint(pw) * zint(N) + zint(sw) == zint(q) * zint(N) + zint(m))))
    u.prove("beam.kept-are-the-top-W", IMPL(NOT(kept), score(q * B + b, m) <= worst), tags=("C13",))
    u.canary("beam.parent-of-other-instance", bbi.at(b) == path[-1].at(b) * B + (b + 1))


@unit("beam.make_beam_step.w2", file=DEC, func="BeamSearch._make_beam_step", props=("C13", "C12"))
def _(u):
    _beam_step(u, 2)


@unit("beam.make_beam_step.w3", file=DEC, func="BeamSearch._make_beam_step", props=("C13", "C12"))
def _(u):
    _beam_step(u, 3)


# ---------------------------------------------------------------------------------------------
# _backtrack: the sequence returned for a final beam is that beam's own history (parent chain), inside its instance
# ---------------------------------------------------------------------------------------------
def _backtrack(u, L):
    """L = number of decoding steps (a Python list length: concrete, stated bound); batch size and beam width symbolic."""
    B, W = u.dims("B W")
    R = W * B
    acts = [u.tensor(f"actions_step{k}", (R,), "i") for k in range(L)]
    lps = [u.tensor(f"logprobs_step{k}", (R,), "f") for k in range(L)]
    path = [u.tensor(f"beam_path_step{k}", (R,), "i") for k in range(L)]
    for k in range(L):
        u.requires(u.forall((R,), lambda r, k=k: AND(path[k].at(r) >= 0, path[k].at(r) < W)))   # established by _make_beam_step (beam.*.parent-in-range)
    strat = u.obj(DEC, "BeamSearch", beam_width=W, actions=acts, logprobs=lps, beam_path=path)
    a_out, l_out = u.run(DEC, "BeamSearch._backtrack", selfobj=strat)
    same_tensor(u, "backtrack.actions.shape", a_out, (R, L), lambda r, k: a_out.at(r, k), tags=("C13",))
    same_tensor(u, "backtrack.logprobs.shape", l_out, (R, L), lambda r, k: l_out.at(r, k), tags=("C13",))
    b = u.idx((B,), "b")
    w = u.idx((W,), "w")
    r = w * B + b
    # ancestor rows of final beam r: anc[L-1] = r; anc[k] = parent_{k+1}[anc[k+1]] * B + b  (the row that beam occupied at step k)
    anc = [None] * L
    anc[L - 1] = r
    for k in range(L - 2, -1, -1):
        anc[k] = path[k + 1].at(anc[k + 1]) * B + b
    for k in range(L):
        u.prove(f"backtrack.step{k}.ancestor-row-in-own-instance", AND(anc[k] >= 0, anc[k] < R, anc[k] % B == b), tags=("C13", "C12"))
        u.prove(f"backtrack.step{k}.action-of-ancestor", a_out.at(r, k) == acts[k].at(anc[k]), tags=("C13",))
        u.prove(f"backtrack.step{k}.logprob-of-ancestor", l_out.at(r, k) == lps[k].at(anc[k]), tags=("C13", "C11"))
    u.canary("backtrack.no-reindexing", a_out.at(r, 0) == acts[0].at(r))


@unit("beam.backtrack.L3", file=DEC, func="BeamSearch._backtrack", props=("C13", "C12"))
def _(u):
    _backtrack(u, 3)


@unit("beam.backtrack.L4", file=DEC, func="BeamSearch._backtrack", props=("C13", "C12"))
def _(u):
    _backtrack(u, 4)


def _select_best_beam(u, W):
    B, T = u.dims("B T")
    R = W * B
    lp = u.tensor("logprobs", (R, T), "f")
    act = u.tensor("actions", (R, T), "i")
    rew = u.tensor("rewards", (R,), "f")
    from tvc.td import SymTD

    td = SymTD({"key": u.tensor("tdval", (R, 2), "f")}, (R,))
    env = u.ns(get_reward=lambda td_, a_: rew)
    strat = u.obj(DEC, "BeamSearch", beam_width=W)
    lo, ao, tdo, _ = u.run(DEC, "BeamSearch._select_best_beam", lp, act, td, env, selfobj=strat, record=False)
    b = u.idx((B,), "b")
    t = u.idx((T,), "t")
    same_tensor(u, "bestbeam.actions.shape", ao, (B, T), lambda bb, tt: ao.at(bb, tt), tags=("C13",))
    # the returned beam is one of instance b's own W beams, maximal in reward among them; actions, log-probs and state rows are its
    cases = []
    for w in range(W):
        row = w * B + b
        cases.append(AND(ao.at(b, t) == act.at(row, t), lo.at(b, t) == lp.at(row, t), tdo["key"].at(b, 1) == td["key"].at(row, 1),
                         *[rew.at(row) >= rew.at(w2 * B + b) for w2 in range(W)]))
    u.prove("bestbeam.own-best-beam", OR(*cases), tags=("C13", "C12"))
    u.canary("bestbeam.first-beam", ao.at(b, t) == act.at(b, t))


@unit("beam.select_best_beam.w2", file=DEC, func="BeamSearch._select_best_beam", props=("C13", "C12"))
def _(u):
    _select_best_beam(u, 2)


@unit("beam.select_best_beam.w3", file=DEC, func="BeamSearch._select_best_beam", props=("C13", "C12"))
def _(u):
    _select_best_beam(u, 3)


@unit("beam.step.reindex.w2", file=DEC, func="BeamSearch._step", props=("C13", "C12"))
def _(u):
    # BeamSearch._step hands back, for kept beam r, the state / step log-probs / mask of ITS PARENT row (same instance)
    from tvc.td import SymTD

    W = 2
    B, N = u.dims("B N")
    R = W * B
    lp = u.tensor("logprobs", (R, N), "f")
    mask = u.tensor("mask", (R, N), "b")
    par = u.tensor("parent_beam_logprobs", (R, 1), "f")
    td = SymTD({"state": u.tensor("state", (R, 3), "f"), "action_mask": mask}, (R,))
    strat = u.obj(DEC, "BeamSearch", beam_width=W, parent_beam_logprobs=par, beam_path=[])
    u.inline((DEC, "BeamSearch._make_beam_step"))
    lo, sel, tdo = u.run(DEC, "BeamSearch._step", lp, mask, td, selfobj=strat, asserts="record", record=False)
    path = strat._attrs["beam_path"]
    b = u.idx((B,), "b")
    n = u.idx((N,), "n")
    for w in range(W):
        r = w * B + b
        prow = path[-1].at(r) * B + b
        u.prove(f"beamstep{w}.parent-row-in-own-instance", AND(path[-1].at(r) >= 0, path[-1].at(r) < W), tags=("C13", "C12"))
        u.prove(f"beamstep{w}.state-of-parent", tdo["state"].at(r, 1) == td["state"].at(prow, 1), tags=("C13", "C12"))
        u.prove(f"beamstep{w}.logprobs-of-parent", lo.at(r, n) == lp.at(prow, n), tags=("C13", "C11"))
        u.prove(f"beamstep{w}.mask-of-parent", tdo["action_mask"].at(r, n) == mask.at(prow, n), tags=("C13",))
        # the recorded assert: the chosen node is admitted by the parent's mask
        u.prove(f"beamstep{w}.selected-admitted-by-parent-mask", mask.at(prow, sel.at(r)), tags=("C13", "C10"))
    u.canary("beamstep.state-not-reindexed", tdo["state"].at(b, 1) == td["state"].at(b, 1))
