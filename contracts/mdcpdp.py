"""MDCPDP (multi-depot capacitated pickup and delivery): contracts of MDCPDPEnv._step / _reset / _get_reward."""
import z3

from tvc import ops
from tvc.core import AND, IMPL, NOT, OR, cur, ite, mk, zint, zreal
from tvc.unit import spec, unit

from .envlib import B_, rowlocal, same_tensor, unchanged

F = "rl4co/envs/routing/mdcpdp/env.py"

# Problem definition: D depots (one agent each, capacity cap_d = max number of orders carried at once),
# H orders; nodes [0,D) depots, [D, D+H) pickups, [D+H, D+2H) deliveries (delivery of pickup p is p+H).
# Every pickup/delivery is visited exactly once, a delivery after its pickup and by the same agent (an agent
# may only return to its depot when it carries nothing), carried orders <= capacity of the current agent.
# Objective: per-depot route lengths (minmax / minsum), optionally mixed with the delivery arrival times.


def state(u, B, D, H):
    M = D + 2 * H
    return u.td(B, locs=((B, M, 2), "f"), current_node=((B, 1), "i"), current_depot=((B, 1), "i"),
                current_carry=((B, 1), "i"), current_length=((B, D), "f"), arrivetime_record=((B, M), "f"),
                capacity=((B, D), "i"), lateness_weight=((B, 1), "f"), to_deliver=((B, M), "b"),
                available=((B, M), "b"), i=((B, 1), "i"), action_mask=((B, M), "b"), action=((B,), "i"))


def carried(td, D, H):
    av = td["available"]
    B = av.shape[0]
    t = mk((B, H), "i", lambda I: ite(AND(NOT(av.at(I[0], zint(D) + zint(I[1]))), av.at(I[0], zint(D) + zint(H) + zint(I[1]))), 1, 0))
    return ops.reduce("sum", t, -1, label="carried")


def state_parts(u, td, B, D, H):
    M = D + 2 * H
    av, tdl, am = td["available"], td["to_deliver"], td["action_mask"]
    cn, cd, cc, cap = td["current_node"], td["current_depot"], td["current_carry"], td["capacity"]
    return [
        ("ranges", u.forall((B,), lambda b: AND(cn.at(b, 0) >= 0, cn.at(b, 0) < M, cd.at(b, 0) >= 0, cd.at(b, 0) < D, cc.at(b, 0) >= 0))),
        ("capacity", u.forall((B, D), lambda b, d: cap.at(b, d) >= 1)),
        ("carry-within-capacity", u.forall((B,), lambda b: cc.at(b, 0) <= cap.at(b, cd.at(b, 0)))),
        ("released", u.forall((B, (0, D + H)), lambda b, p: tdl.at(b, p))),
        ("delivery-released-iff-picked", u.forall((B, (D + H, M)), lambda b, q: tdl.at(b, q) == NOT(av.at(b, zint(q) - zint(H))))),
        ("delivered-implies-picked", u.forall((B, (D + H, M)), lambda b, q: IMPL(NOT(av.at(b, q)), NOT(av.at(b, zint(q) - zint(H)))))),
        # carried orders = orders picked up and not yet delivered
        ("carry-count", u.forall((B,), lambda b: cc.at(b, 0) == carried(td, D, H).at(b))),
        ("mask-sound", u.forall((B, (D, M)), lambda b, j: IMPL(am.at(b, j), AND(av.at(b, j), tdl.at(b, j))))),
        ("mask-pickup-capacity", u.forall((B, (D, D + H)), lambda b, j: IMPL(am.at(b, j), cc.at(b, 0) < cap.at(b, cd.at(b, 0))))),
        ("mask-depot-empty-handed", u.forall((B, (0, D)), lambda b, d: IMPL(AND(am.at(b, d), u.exists((M,), lambda k: av.at(b, k))), cc.at(b, 0) == 0))),
    ]


def state_ok(u, td, B, D, H):
    return AND(*[f for _, f in state_parts(u, td, B, D, H)])


def _env(u, mode="close", dist="L2", reward="minsum"):
    return u.obj(F, "MDCPDPEnv", problem_mode=mode, dist_mode=dist, reward_mode=reward, start_mode="order")


def _step(u, mode, dist):
    B, D, H = u.dims("B D H")
    M = D + 2 * H
    td = state(u, B, D, H)
    u.requires(state_ok(u, td, B, D, H))
    a, am = td["action"], td["action_mask"]
    u.requires(u.forall((B,), lambda b: AND(a.at(b) >= 0, a.at(b) < M, am.at(b, a.at(b)))))
    pre = u.snapshot(td)
    env = _env(u, mode, dist)
    u.inline((F, "MDCPDPEnv.get_distance"))
    out = u.run(F, "MDCPDPEnv._step", td, selfobj=env)
    b = u.idx((B,), "b")
    j = u.idx(((D, M),), "j")
    ab = pre["action"].at(b)
    is_pick = AND(ab >= D, ab < D + H)
    is_del = ab >= D + H
    # C01: admitted order nodes are unvisited, deliveries released by their pickup, pickups only below capacity
    u.prove("step.action-enabled", IMPL(ab >= D, AND(pre["available"].at(b, ab), IMPL(is_del, NOT(pre["available"].at(b, ab - H))),
                                                     IMPL(is_pick, pre["current_carry"].at(b, 0) < pre["capacity"].at(b, pre["current_depot"].at(b, 0))))), tags=("C01",))
    same_tensor(u, "step.available", out["available"], (B, M), lambda bb, jj: AND(pre["available"].at(bb, jj), zint(jj) != pre["action"].at(bb)), tags=("C01",))
    same_tensor(u, "step.current_node", out["current_node"], (B, 1), lambda bb, _: pre["action"].at(bb), tags=("C01",))
    same_tensor(u, "step.current_carry", out["current_carry"], (B, 1),
                lambda bb, _: pre["current_carry"].at(bb, 0) + ite(AND(pre["action"].at(bb) >= D, pre["action"].at(bb) < D + H), 1, 0)
                - ite(pre["action"].at(bb) >= D + H, 1, 0), tags=("C01",))
    from tvc.unit import sum_point_update, divmod_hint

    # (action + H) mod M by cases (lemma divmod.row at the arbitrary row of the lemma below), then used for every row
    rw = z3.Int("step.mod-cases.g0")
    arw = pre["action"].at(rw)
    divmod_hint(u, arw + H, 0, M, arw + H)
    divmod_hint(u, arw + H, 1, M, arw + H - M)
    u.prove_forall("step.mod-cases", (B,), lambda r: (pre["action"].at(r) + H) % M == ite(pre["action"].at(r) + H < M, pre["action"].at(r) + H, pre["action"].at(r) + H - M), tags=("C01",))

    # the carried-orders count changes at exactly one order (the one picked up / delivered)
    c_pre, c_out = carried(pre, D, H), carried(out, D, H)
    bb_ = z3.Int("step.inv.carry-count.g0")
    for row in (b, bb_):
        arow = pre["action"].at(row)
        sum_point_update(u, c_out, (row,), c_pre, (row,), ite(arow >= D + H, arow - D - H, arow - D))
    u.prove_forall("step.inv.carry-count", (B,), lambda r: out["current_carry"].at(r, 0) == c_out.at(r), tags=("C01",))
    leak = AND(out["done"].at(0), b != 0)  # failure class: row 0 finishes at this step (its done flag is broadcast)
    for lbl, f in state_parts(u, out, B, D, H):
        if lbl == "mask-depot-empty-handed":
            d_ = u.idx((D,), "d")
            clause = IMPL(AND(out["action_mask"].at(b, d_), u.exists((M,), lambda k: out["available"].at(b, k))), out["current_carry"].at(b, 0) == 0)
            u.prove(f"step.inv.{lbl}", IMPL(NOT(leak), clause), tags=("C01", "C02"))
            u.known(f"step.inv.{lbl}.row0-done-leak", IMPL(leak, clause), tags=("C01", "C04"))
            continue
        if lbl == "carry-count":
            continue
        u.prove(f"step.inv.{lbl}", f, tags=("C01", "C02"))
    none_left = NOT(u.exists((M,), lambda k: out["available"].at(b, k)))
    same_tensor(u, "step.done.shape", out["done"], (B,), lambda bb: out["done"].at(bb), tags=("C02",))
    u.prove("step.done.iff", out["done"].at(b) == none_left, tags=("C01", "C02"))
    # objective bookkeeping (C03): the step length is charged to the current depot's route
    u.prove("step.length-shape", AND(*[zint(x) == zint(y) for x, y in zip(out["current_length"].shape, (B, D))]), tags=("C03",))
    unchanged(u, "step", pre, out, ["locs", "capacity", "lateness_weight"], tags=("C04",))


@unit("mdcpdp.step.close.L2", file=F, func="MDCPDPEnv._step", props=("C01", "C02", "C03", "C04"))
def _(u):
    _step(u, "close", "L2")


@unit("mdcpdp.step.open.L1", file=F, func="MDCPDPEnv._step", props=("C01", "C02", "C03", "C04"))
def _(u):
    _step(u, "open", "L1")


@unit("mdcpdp.rowlocal.step", file=F, func="MDCPDPEnv._step", props=("C04", "C03", "C14"))
def _(u):
    D, H = u.dims("D H")
    M = D + 2 * H
    env = _env(u)
    u.inline((F, "MDCPDPEnv.get_distance"))

    def req(u, td, B):
        a = td["action"]
        return AND(state_ok(u, td, B, D, H), u.forall((B,), lambda b: AND(a.at(b) >= 0, a.at(b) < M)))

    rowlocal(u, "step", lambda u, B: state(u, B, D, H), lambda u, td: u.run(F, "MDCPDPEnv._step", td, selfobj=env), requires=req, tags=("C04", "C03", "C14"))


def _rowlocal_reward(u, mode):
    D, H, T = u.dims("D H T")
    env = _env(u, reward=mode)

    def mk_in(u, B):
        td = state(u, B, D, H)
        return {"td": td, "actions": u.tensor("actions", (B, T), "i")}

    rowlocal(u, "reward", mk_in, lambda u, ins: u.run(F, "MDCPDPEnv._get_reward", ins["td"], ins["actions"], selfobj=env),
             requires=lambda u, ins, B: u.forall((B,), lambda b: AND(ins["td"]["current_depot"].at(b, 0) >= 0, ins["td"]["current_depot"].at(b, 0) < D)))


@unit("mdcpdp.rowlocal.reward.minsum", file=F, func="MDCPDPEnv._get_reward", props=("C04", "C14"))
def _(u):
    _rowlocal_reward(u, "minsum")


@unit("mdcpdp.rowlocal.reward.minmax", file=F, func="MDCPDPEnv._get_reward", props=("C04", "C14"))
def _(u):
    _rowlocal_reward(u, "minmax")


@unit("mdcpdp.rowlocal.reward.lateness", file=F, func="MDCPDPEnv._get_reward", props=("C04", "C14"))
def _(u):
    _rowlocal_reward(u, "lateness")
