"""CVRP: problem definition (spec layer) and contracts of CVRPEnv methods."""
import z3

from tvc import ops
from tvc.core import AND, IMPL, NOT, OR, cur, ite, mk, zint
from tvc.unit import spec, unit

from .envlib import B_, same_tensor, unchanged

F = "rl4co/envs/routing/cvrp/env.py"

# ---------------------------------------------------------------------------
# Problem definition (independent of the method bodies)
#   instance: depot, N customers with demand d_j in (0, Q]; vehicle capacity Q
#   abstract state: visited set, load of the current route, current node
#   enabled(customer j): j not visited and load + d_j <= Q     (non-strict: exact fill allowed)
#   enabled(depot): always; pruned(depot): at the depot while some customer is enabled
#   next: load' = 0 at the depot, load + d_j at customer j
# ---------------------------------------------------------------------------


def state(u, B, N):
    return u.td(
        B,
        locs=((B, N + 1, 2), "f"), demand=((B, N), "f"), current_node=((B, 1), "i"),
        used_capacity=((B, 1), "f"), vehicle_capacity=((B, 1), "f"), visited=((B, N + 1), "i"),
        action_mask=((B, N + 1), "b"),
    )


def valid_instance(u, td, B, N):
    d, q = td["demand"], td["vehicle_capacity"]
    return AND(
        u.forall((B,), lambda b: q.at(b, 0) > 0),
        u.forall((B, N), lambda b, j: AND(d.at(b, j) >= 0, d.at(b, j) <= q.at(b, 0))),
    )


def enabled(td, b, j):
    """customer j (0-based) may be served now."""
    return AND(td["visited"].at(b, j + 1) == 0,
               td["demand"].at(b, j) + td["used_capacity"].at(b, 0) <= td["vehicle_capacity"].at(b, 0))


def mask_spec(td, label="cvrp"):
    B, N = td["demand"].shape
    en = mk((B, N), "b", lambda I: B_(enabled(td, I[0], I[1])))
    anyen = ops.reduce("any", en, -1, label=label + "_anyenabled")
    cn = td["current_node"].snap()
    ens = en.snap()

    def elem(I):
        b, a = I
        dep = NOT(AND(cn((b, 0)) == 0, anyen.at(b)))
        if isinstance(a, int):
            return B_(dep) if a == 0 else ens((b, a - 1))
        return ite(zint(a) == 0, B_(dep), ens((b, zint(a) - 1)))

    return mk((B, N + 1), "b", elem)


def state_ok(u, td, B, N, mask_consistent=True):
    v, cn, used, q = td["visited"], td["current_node"], td["used_capacity"], td["vehicle_capacity"]
    fs = [
        valid_instance(u, td, B, N),
        u.forall((B, N + 1), lambda b, j: OR(v.at(b, j) == 0, v.at(b, j) == 1)),
        u.forall((B,), lambda b: AND(cn.at(b, 0) >= 0, cn.at(b, 0) <= N)),
        u.forall((B,), lambda b: AND(used.at(b, 0) >= 0, used.at(b, 0) <= q.at(b, 0))),
        u.forall((B,), lambda b: IMPL(cn.at(b, 0) == 0, used.at(b, 0) == 0)),
        # away from the depot the current customer has been visited
        u.forall((B,), lambda b: IMPL(cn.at(b, 0) != 0, v.at(b, cn.at(b, 0)) == 1)),
    ]
    if mask_consistent:
        ms = mask_spec(td, "pre")
        am = td["action_mask"]
        fs.append(u.forall((B, N + 1), lambda b, j: am.at(b, j) == ms.at(b, j)))
    return AND(*fs)


@spec(F, "CVRPEnv.get_action_mask")
def get_action_mask_spec(u, selfobj, td):
    return mask_spec(td, "callee")


# ---------------------------------------------------------------------------


@unit("cvrp.get_action_mask", file=F, func="CVRPEnv.get_action_mask", props=("C01", "C02", "C05"))
def _(u):
    B, N = u.dims("B N")
    td = state(u, B, N)
    u.requires(state_ok(u, td, B, N, mask_consistent=False))
    pre = u.snapshot(td)
    m = u.run(F, "CVRPEnv.get_action_mask", td)
    b, j = u.idx((B, N), "b j")
    # C01: an advertised customer is enabled in the problem definition
    u.prove("mask.sound.customer", IMPL(m.at(b, j + 1), enabled(pre, b, j)), tags=("C01",))
    # C05: every enabled customer is advertised (in particular with load + demand == capacity)
    u.prove("mask.complete.customer", IMPL(enabled(pre, b, j), m.at(b, j + 1)), tags=("C05",))
    u.prove("mask.complete.exact-fill",
            IMPL(AND(pre["visited"].at(b, j + 1) == 0,
                     pre["demand"].at(b, j) + pre["used_capacity"].at(b, 0) == pre["vehicle_capacity"].at(b, 0)),
                 m.at(b, j + 1)), tags=("C05",))
    # depot: hidden only while staying at the depot would be pointless (documented pruning)
    some = u.exists((N,), lambda k: enabled(pre, b, k))
    u.prove("mask.depot.iff", m.at(b, 0) == NOT(AND(pre["current_node"].at(b, 0) == 0, some)), tags=("C01", "C05"))
    # shape / whole-mask equality with the spec function used by callers
    ms = mask_spec(pre, "spec")
    same_tensor(u, "mask.eq-spec", m, (B, N + 1), lambda bb, jj: ms.at(bb, jj), tags=("C01", "C05"))
    # C02: some action is always advertised
    u.prove("mask.live", u.exists((N + 1,), lambda k: m.at(b, k)), tags=("C02",))
    unchanged(u, "mask", pre, td, ["demand", "used_capacity", "vehicle_capacity", "visited", "current_node", "locs"], tags=("C04",))
    # canaries: strict capacity test must be refuted by an exact-fill state; visited customers must be hidden
    u.canary("mask.strict", IMPL(m.at(b, j + 1),
                                 pre["demand"].at(b, j) + pre["used_capacity"].at(b, 0) < pre["vehicle_capacity"].at(b, 0)))
    u.canary("mask.ignores-visited", IMPL(pre["demand"].at(b, j) + pre["used_capacity"].at(b, 0) <= pre["vehicle_capacity"].at(b, 0), m.at(b, j + 1)))


@unit("cvrp.step", file=F, func="CVRPEnv._step", props=("C01", "C02", "C04"))
def _(u):
    B, N = u.dims("B N")
    td = state(u, B, N)
    td.set("action", u.tensor("action", (B,), "i"))
    u.requires(state_ok(u, td, B, N))
    a = td["action"]
    ms = mask_spec(td, "adm")
    # mask-confined: the action of every row is advertised
    u.requires(u.forall((B,), lambda b: AND(a.at(b) >= 0, a.at(b) <= N, ms.at(b, a.at(b)))))
    pre = u.snapshot(td)
    env = u.obj(F, "CVRPEnv")
    out = u.run(F, "CVRPEnv._step", td, selfobj=env)
    b = u.idx((B,), "b")
    j = u.idx((N + 1,), "j")
    ab = pre["action"].at(b)
    used0, q = pre["used_capacity"].at(b, 0), pre["vehicle_capacity"].at(b, 0)
    dem = pre["demand"]
    # the admitted action respects the problem's constraints (C01)
    u.prove("step.action-enabled", IMPL(ab != 0, AND(pre["visited"].at(b, ab) == 0, used0 + dem.at(b, ab - 1) <= q)), tags=("C01",))
    # successor state = next(sigma, a)
    same_tensor(u, "step.current_node", out["current_node"], (B, 1), lambda bb, _: pre["action"].at(bb), tags=("C01",))
    same_tensor(u, "step.used_capacity", out["used_capacity"], (B, 1),
                lambda bb, _: ite(pre["action"].at(bb) == 0, 0,
                                  pre["used_capacity"].at(bb, 0) + dem.at(bb, pre["action"].at(bb) - 1)), tags=("C01",))
    same_tensor(u, "step.visited", out["visited"], (B, N + 1),
                lambda bb, jj: ite(zint(jj) == pre["action"].at(bb), 1, pre["visited"].at(bb, jj)), tags=("C01",))
    u.prove("step.load-within-capacity", AND(out["used_capacity"].at(b, 0) >= 0, out["used_capacity"].at(b, 0) <= q), tags=("C01",))
    # done exactly when every node (incl. depot) has been visited
    allv = u.forall((N + 1,), lambda k: out["visited"].at(b, k) == 1)
    same_tensor(u, "step.done.shape", out["done"], (B,), lambda bb: out["done"].at(bb), tags=("C02",))
    u.prove("step.done.iff", out["done"].at(b) == allv, tags=("C01", "C02"))
    same_tensor(u, "step.reward-zero", out["reward"], (B,), lambda bb: z3.BoolVal(False), tags=("C03",))
    # the stored mask is the mask of the new state; invariant is preserved
    u.prove("step.inv", state_ok(u, out, B, N), tags=("C01", "C02"))
    unchanged(u, "step", pre, out, ["locs", "demand", "vehicle_capacity"], tags=("C04",))
    # finished stays finished (C02): stepping a done row with an advertised action keeps it done
    pre_done = u.forall((N + 1,), lambda k: pre["visited"].at(b, k) == 1)
    u.prove("step.done-stable", IMPL(pre_done, out["done"].at(b)), tags=("C02",))
    u.prove("step.pad-idem", IMPL(pre_done, AND(ab == 0, out["used_capacity"].at(b, 0) == 0,
                                                  out["visited"].at(b, j) == pre["visited"].at(b, j))), tags=("C04",))
    # canary: the load must really be reset at the depot
    u.canary("step.no-reset", out["used_capacity"].at(b, 0) == used0 + dem.at(b, ite(ab == 0, 0, ab - 1)))


@unit("cvrp.reset", file=F, func="CVRPEnv._reset", props=("C01", "C02"))
def _(u):
    B, N = u.dims("B N")
    td = u.td(B, depot=((B, 2), "f"), locs=((B, N, 2), "f"), demand=((B, N), "f"))
    cap = u.scalar("capacity", "f")
    u.requires(cap > 0)
    d = td["demand"]
    u.requires(u.forall((B, N), lambda b, j: AND(d.at(b, j) >= 0, d.at(b, j) <= cap)))
    pre = u.snapshot(td)
    env = u.obj(F, "CVRPEnv", generator=u.ns(vehicle_capacity=cap))
    out = u.run(F, "CVRPEnv._reset", td, [B], selfobj=env)
    same_tensor(u, "reset.locs", out["locs"], (B, N + 1, 2),
                lambda b, j, c: ite(zint(j) == 0, pre["depot"].at(b, c), pre["locs"].at(b, zint(j) - 1, c)), tags=("C01",))
    same_tensor(u, "reset.demand", out["demand"], (B, N), lambda b, j: pre["demand"].at(b, j), tags=("C01",))
    same_tensor(u, "reset.current_node", out["current_node"], (B, 1), lambda b, _: 0, tags=("C01",), dtype="i")
    same_tensor(u, "reset.used_capacity", out["used_capacity"], (B, 1), lambda b, _: 0, tags=("C01",))
    same_tensor(u, "reset.vehicle_capacity", out["vehicle_capacity"], (B, 1), lambda b, _: cap, tags=("C01",))
    same_tensor(u, "reset.visited", out["visited"], (B, N + 1), lambda b, j: 0, tags=("C01",), dtype="i")
    u.prove("reset.inv", state_ok(u, out, B, N), tags=("C01", "C02"))


@unit("cvrp.rowlocal", file=F, func="CVRPEnv._step", props=("C04", "C14"))
def _(u):
    N = u.dim("N")
    env = u.obj(F, "CVRPEnv")

    def mk_in(u, B):
        td = state(u, B, N)
        td.set("action", u.tensor("action", (B,), "i"))
        return td

    def req(u, td, B):
        a = td["action"]
        return AND(state_ok(u, td, B, N, mask_consistent=False), u.forall((B,), lambda b: AND(a.at(b) >= 0, a.at(b) <= N)))

    from .envlib import rowlocal

    rowlocal(u, "step", mk_in, lambda u, td: u.run(F, "CVRPEnv._step", td, selfobj=env), requires=req)


@unit("cvrp.rowlocal.mask", file=F, func="CVRPEnv.get_action_mask", props=("C04", "C14"))
def _(u):
    N = u.dim("N")
    from .envlib import rowlocal

    rowlocal(u, "mask", lambda u, B: state(u, B, N), lambda u, td: u.run(F, "CVRPEnv.get_action_mask", td),
             requires=lambda u, td, B: state_ok(u, td, B, N, mask_consistent=False))


@unit("cvrp.reward", file=F, func="CVRPEnv._get_reward", props=("C03",), note="also the reward of SDVRPEnv and CVRPTWEnv (inherited / delegated)")
def _(u):
    from .envlib import depot_tour_reward_unit

    depot_tour_reward_unit(u, F, "CVRPEnv._get_reward", "CVRPEnv", make_td=state)


@unit("cvrp.rowlocal.reward", file=F, func="CVRPEnv._get_reward", props=("C04", "C14"))
def _(u):
    from .envlib import depot_tour_reward_rowlocal

    depot_tour_reward_rowlocal(u, F, "CVRPEnv._get_reward", "CVRPEnv", make_td=state)


@unit("cvrp.reward.padding", file=F, func="CVRPEnv._get_reward", props=("C04", "C03"),
      note="finished rows are padded with depot actions while batch-mates run: the reward must not change")
def _(u):
    from .envlib import reward_pad_invariant

    N = u.dim("N")
    reward_pad_invariant(u, F, "CVRPEnv._get_reward", "CVRPEnv", lambda u, B: u.td(B, locs=((B, N + 1, 2), "f")), N + 1)
