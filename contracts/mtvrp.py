"""MTVRP (16 variants: C + optional O, B, L, TW): problem definition and contracts of MTVRPEnv.

The four features are data: open_route (bool), backhaul demands (possibly all zero), distance_limit
(possibly 'infinite'), time windows (possibly [0, 'infinite']). One proof with the features symbolic covers
all 16 variants. 'Infinite' limits occur only as right-hand sides of comparisons; they are modelled as
arbitrary (large) reals (A1).
"""
import z3

from tvc import ops
from tvc.core import AND, IMPL, NOT, OR, cur, ite, mk, zint, zreal
from tvc.unit import spec, unit

from .envlib import B_, rowlocal, same_tensor, unchanged

F = "rl4co/envs/routing/mtvrp/env.py"


def dist(locs, b, p, q):
    """|loc[p] - loc[q]| (orientation of get_distance(loc_p, loc_q))."""
    return ops.NORM2(locs.at(b, p, 0) - locs.at(b, q, 0), locs.at(b, p, 1) - locs.at(b, q, 1))


def state(u, B, N):
    return u.td(
        B, locs=((B, N + 1, 2), "f"), demand_backhaul=((B, N + 1), "f"), demand_linehaul=((B, N + 1), "f"),
        distance_limit=((B, 1), "f"), service_time=((B, N + 1), "f"), open_route=((B, 1), "b"),
        time_windows=((B, N + 1, 2), "f"), vehicle_capacity=((B, 1), "f"), capacity_original=((B, 1), "f"),
        speed=((B, 1), "f"), current_node=((B,), "i"), current_route_length=((B, 1), "f"), current_time=((B, 1), "f"),
        used_capacity_backhaul=((B, 1), "f"), used_capacity_linehaul=((B, 1), "f"), visited=((B, N + 1), "b"),
        action_mask=((B, N + 1), "b"))


class V:
    """Per-row view of the quantities of the problem definition."""

    def __init__(self, td, b):
        self.td, self.b = td, b
        g = lambda k, *i: td[k].at(b, *i)
        self.cur = g("current_node")
        self.time, self.len = g("current_time", 0), g("current_route_length", 0)
        self.ulh, self.ubh = g("used_capacity_linehaul", 0), g("used_capacity_backhaul", 0)
        self.C, self.speed, self.limit, self.open = g("vehicle_capacity", 0), g("speed", 0), g("distance_limit", 0), g("open_route", 0)

    def q(self, j):
        return self.td["demand_linehaul"].at(self.b, j)

    def p(self, j):
        return self.td["demand_backhaul"].at(self.b, j)

    def e(self, j):
        return self.td["time_windows"].at(self.b, j, 0)

    def l(self, j):
        return self.td["time_windows"].at(self.b, j, 1)

    def s(self, j):
        return self.td["service_time"].at(self.b, j)

    def d(self, i, j):
        return dist(self.td["locs"], self.b, i, j)

    def arrival(self, j):
        return self.time + self.d(self.cur, j) / self.speed

    def back_at_depot(self, j):
        a = self.arrival(j)
        start = ite(a >= self.e(j), a, self.e(j))
        return start + self.s(j) + self.d(j, 0) / self.speed

    def enabled(self, j, strict):
        """customer j may be served next. strict=False: the problem definition (equality allowed);
        strict=True: the interior (slack on the window ends)."""
        lt = (lambda x, y: x < y) if strict else (lambda x, y: x <= y)
        tw = AND(lt(self.arrival(j), self.l(j)),
                 lt(ite(self.open, zreal(0), self.back_at_depot(j)), self.l(0)))
        lim = self.len + self.d(self.cur, j) + ite(self.open, zreal(0), self.d(j, 0)) <= self.limit
        line = AND(self.q(j) > 0, self.q(j) + self.ulh <= self.C, NOT(self.p(self.cur) > 0))
        back = AND(self.p(j) > 0, self.p(j) + self.ubh <= self.C)
        return AND(NOT(self.td["visited"].at(self.b, j)), tw, lim, OR(line, back))


def valid_instance(u, td, B, N):
    """Well-formed instance: customers are linehaul xor backhaul, individually servable from the depot
    and returnable; depot data neutral."""
    def row(b):
        v = V(td, b)
        dep = AND(v.q(0) == 0, v.p(0) == 0, v.e(0) == 0, v.s(0) == 0, v.l(0) > 0, v.speed > 0, v.C > 0, v.limit >= 0)
        return dep

    def cust(b, j):
        v = V(td, b)
        return AND(v.q(j) >= 0, v.p(j) >= 0, OR(AND(v.q(j) > 0, v.p(j) == 0), AND(v.p(j) > 0, v.q(j) == 0)),
                   v.q(j) <= v.C, v.p(j) <= v.C, v.e(j) >= 0, v.s(j) >= 0, v.e(j) <= v.l(j))

    return AND(u.forall((B,), row), u.forall((B, (1, N + 1)), cust))


def state_parts(u, td, B, N):
    def row(b):
        v = V(td, b)
        return AND(v.cur >= 0, v.cur <= N, v.time >= 0, v.len >= 0, v.ulh >= 0, v.ubh >= 0, v.ulh <= v.C, v.ubh <= v.C,
                   IMPL(v.cur == 0, AND(v.time == 0, v.len == 0, v.ulh == 0, v.ubh == 0)))

    return [("valid-instance", valid_instance(u, td, B, N)), ("ranges", u.forall((B,), row))]


def state_ok(u, td, B, N):
    return AND(*[f for _, f in state_parts(u, td, B, N)])


def mask_spec(td):
    B, N1 = td["visited"].shape
    en = mk((B, N1 - 1), "b", lambda I: B_(V(td, I[0]).enabled(zint(I[1]) + 1 if not isinstance(I[1], int) else I[1] + 1, False)))
    anyen = ops.reduce("any", en, -1, label="mtvrp_any")

    def elem(I):
        b, j = I
        dep = NOT(AND(td["current_node"].at(b) == 0, anyen.at(b)))
        if isinstance(j, int):
            return B_(dep) if j == 0 else B_(V(td, b).enabled(j, False))
        return ite(zint(j) == 0, B_(dep), B_(V(td, b).enabled(j, False)))

    return mk((B, N1), "b", elem)


@spec(F, "MTVRPEnv.get_action_mask")
def get_action_mask_spec(u, selfobj, td):
    return mask_spec(u.snapshot(td))


@unit("mtvrp.get_action_mask", file=F, func="MTVRPEnv.get_action_mask", props=("C01", "C02", "C05", "C04"))
def _(u):
    B, N = u.dims("B N")
    td = state(u, B, N)
    u.requires(state_ok(u, td, B, N))
    pre = u.snapshot(td)
    m = u.run(F, "MTVRPEnv.get_action_mask", td)
    b = u.idx((B,), "b")
    j = u.idx(((1, N + 1),), "j")
    v = V(pre, b)
    # C01: every advertised customer satisfies every constraint of the definition
    u.prove("mask.sound.unvisited", IMPL(m.at(b, j), NOT(pre["visited"].at(b, j))), tags=("C01",))
    u.prove("mask.sound.time-window", IMPL(m.at(b, j), v.arrival(j) <= v.l(j)), tags=("C01",))
    u.prove("mask.sound.return-in-time", IMPL(AND(m.at(b, j), NOT(v.open)), v.back_at_depot(j) <= v.l(0)), tags=("C01",))
    u.prove("mask.sound.route-length", IMPL(m.at(b, j), v.len + v.d(v.cur, j) + ite(v.open, zreal(0), v.d(j, 0)) <= v.limit), tags=("C01",))
    u.prove("mask.sound.capacity", IMPL(m.at(b, j), AND(v.q(j) + v.ulh <= v.C, v.p(j) + v.ubh <= v.C)), tags=("C01",))
    u.prove("mask.sound.linehaul-before-backhaul", IMPL(AND(m.at(b, j), v.q(j) > 0), NOT(v.p(v.cur) > 0)), tags=("C01",))
    # C05: everything enabled by the definition with slack on the window ends is advertised ...
    u.prove("mask.complete.interior", IMPL(v.enabled(j, True), m.at(b, j)), tags=("C05",))
    # ... and so is an arrival exactly at the end of the window (the definition and the checker allow equality)
    u.prove("mask.complete.window-end-equality", IMPL(v.enabled(j, False), m.at(b, j)), tags=("C05",))
    # customers: the mask is exactly the (strict) enabled predicate -- proved once, then used as a lemma
    u.prove_forall("mask.customer.iff", (B, (1, N + 1)), lambda bb, jj: m.at(bb, jj) == V(pre, bb).enabled(jj, False), tags=("C01", "C05"))
    # depot: hidden exactly while standing at the depot with some advertised customer
    some_m = u.exists(((1, N + 1),), lambda k: m.at(b, k))
    u.prove("mask.depot.hidden-if", IMPL(AND(v.cur == 0, m.at(b, j)), NOT(m.at(b, 0))), tags=("C01", "C05"))
    u.prove("mask.depot.hidden-only-if", IMPL(NOT(m.at(b, 0)), AND(v.cur == 0, some_m)), tags=("C02", "C05"))
    u.ctx.assume(m.at(b, 0) == NOT(AND(v.cur == 0, some_m)))  # = the two clauses just proved (j arbitrary)
    u.prove("mask.live", OR(m.at(b, 0), some_m), tags=("C02",))
    ms = mask_spec(pre)
    same_tensor(u, "mask.shape", m, (B, N + 1), lambda bb, jj: m.at(bb, jj), tags=("C04",))
    u.prove("mask.eq-spec.customers", m.at(b, j) == ms.at(b, j), tags=("C01", "C05"))
    u.prove("mask.eq-spec.depot", m.at(b, 0) == ms.at(b, 0), tags=("C01", "C05"))
    unchanged(u, "mask", pre, td, ["locs", "visited", "current_node", "current_time", "current_route_length",
                                   "used_capacity_linehaul", "used_capacity_backhaul", "time_windows"], tags=("C04",))
    u.canary("mask.ignores-capacity", IMPL(AND(NOT(pre["visited"].at(b, j)), v.arrival(j) < v.l(j)), m.at(b, j)))
    u.canary("mask.ignores-precedence", IMPL(AND(m.at(b, j), v.q(j) > 0), v.p(v.cur) > 0))


@unit("mtvrp.step", file=F, func="MTVRPEnv._step", props=("C01", "C02", "C04"))
def _(u):
    B, N = u.dims("B N")
    td = state(u, B, N)
    td.set("action", u.tensor("action", (B,), "i"))
    u.requires(state_ok(u, td, B, N))
    a = td["action"]
    ms = mask_spec(td)
    u.requires(u.forall((B,), lambda b: AND(a.at(b) >= 0, a.at(b) <= N, ms.at(b, a.at(b)))))
    pre = u.snapshot(td)
    env = u.obj(F, "MTVRPEnv")
    out = u.run(F, "MTVRPEnv._step", td, selfobj=env)
    b = u.idx((B,), "b")
    v = V(pre, b)
    ab = pre["action"].at(b)
    u.prove("step.action-enabled", IMPL(ab != 0, v.enabled(ab, False)), tags=("C01",))
    arr = v.arrival(ab)
    start = ite(arr >= v.e(ab), arr, v.e(ab))
    u.prove("step.clock", out["current_time"].at(b, 0) == ite(ab == 0, 0, start + v.s(ab)), tags=("C01",))
    u.prove("step.service-starts-in-window", IMPL(ab != 0, AND(start >= v.e(ab), start <= v.l(ab))), tags=("C01",))
    u.prove("step.route-length", out["current_route_length"].at(b, 0) == ite(ab == 0, 0, v.len + v.d(v.cur, ab)), tags=("C01",))
    u.prove("step.route-length-within-limit", out["current_route_length"].at(b, 0) <= v.limit, tags=("C01",))
    u.prove("step.load.linehaul", out["used_capacity_linehaul"].at(b, 0) == ite(ab == 0, 0, v.ulh + v.q(ab)), tags=("C01",))
    u.prove("step.load.backhaul", out["used_capacity_backhaul"].at(b, 0) == ite(ab == 0, 0, v.ubh + v.p(ab)), tags=("C01",))
    u.prove("step.load-within-capacity", AND(out["used_capacity_linehaul"].at(b, 0) <= v.C, out["used_capacity_backhaul"].at(b, 0) <= v.C), tags=("C01",))
    same_tensor(u, "step.visited", out["visited"], (B, N + 1), lambda bb, jj: OR(zint(jj) == pre["action"].at(bb), pre["visited"].at(bb, jj)), tags=("C01",))
    same_tensor(u, "step.current_node", out["current_node"], (B,), lambda bb: pre["action"].at(bb), tags=("C01",))
    for k in ("current_time", "current_route_length", "used_capacity_linehaul", "used_capacity_backhaul"):
        same_tensor(u, f"step.{k}.shape", out[k], (B, 1), lambda bb, _, k=k: out[k].at(bb, 0), tags=("C04",))
    allv = u.forall((N + 1,), lambda k: out["visited"].at(b, k))
    same_tensor(u, "step.done.shape", out["done"], (B,), lambda bb: out["done"].at(bb), tags=("C02",))
    u.prove("step.done.iff", out["done"].at(b) == allv, tags=("C01", "C02"))
    for lbl, f in state_parts(u, out, B, N):
        u.prove(f"step.inv.{lbl}", f, tags=("C01", "C02"))
    msn = mask_spec(out)
    same_tensor(u, "step.mask-consistent", out["action_mask"], (B, N + 1), lambda bb, jj: msn.at(bb, jj), tags=("C01", "C05"))
    unchanged(u, "step", pre, out, ["locs", "demand_linehaul", "demand_backhaul", "time_windows", "service_time", "distance_limit",
                                   "open_route", "vehicle_capacity", "speed"], tags=("C04",))
    pre_done = u.forall((N + 1,), lambda k: pre["visited"].at(b, k))
    u.prove("step.done-stable", IMPL(pre_done, AND(ab == 0, out["done"].at(b))), tags=("C02",))
    u.prove("step.pad-idem", IMPL(pre_done, AND(out["current_time"].at(b, 0) == 0, out["current_route_length"].at(b, 0) == 0,
                                               out["used_capacity_linehaul"].at(b, 0) == 0)), tags=("C04",))
    u.canary("step.no-waiting", IMPL(ab != 0, out["current_time"].at(b, 0) == arr + v.s(ab)))


@unit("mtvrp.reset", file=F, func="MTVRPEnv._reset", props=("C01", "C02"))
def _(u):
    B, N = u.dims("B N")
    keys = dict(locs=((B, N + 1, 2), "f"), demand_backhaul=((B, N + 1), "f"), demand_linehaul=((B, N + 1), "f"),
                distance_limit=((B, 1), "f"), service_time=((B, N + 1), "f"), open_route=((B, 1), "b"),
                time_windows=((B, N + 1, 2), "f"), vehicle_capacity=((B, 1), "f"), capacity_original=((B, 1), "f"), speed=((B, 1), "f"))
    td = u.td(B, **keys)
    pre = u.snapshot(td)
    env = u.obj(F, "MTVRPEnv")
    # valid instance stated on the generated data (the dynamic keys do not exist yet)
    probe = dict(pre.data)
    from tvc.td import SymTD
    from tvc.core import const_tensor

    probe.update(current_node=const_tensor((B,), "i", 0), current_time=const_tensor((B, 1), "f", 0), current_route_length=const_tensor((B, 1), "f", 0),
                 used_capacity_linehaul=const_tensor((B, 1), "f", 0), used_capacity_backhaul=const_tensor((B, 1), "f", 0),
                 visited=const_tensor((B, N + 1), "b", False))
    u.requires(valid_instance(u, SymTD(probe, (B,)), B, N))
    out = u.run(F, "MTVRPEnv._reset", td, [B], selfobj=env)
    for k in keys:
        shp = keys[k][0]
        same_tensor(u, f"reset.{k}", out[k], shp, lambda *I, k=k: pre[k].at(*I), tags=("C01",))
    same_tensor(u, "reset.current_node", out["current_node"], (B,), lambda b: 0, tags=("C01",), dtype="i")
    for k in ("current_route_length", "current_time", "used_capacity_backhaul", "used_capacity_linehaul"):
        same_tensor(u, f"reset.{k}", out[k], (B, 1), lambda b, _: 0, tags=("C01",))
    same_tensor(u, "reset.visited", out["visited"], (B, N + 1), lambda b, j: False, tags=("C01",), dtype="b")
    for lbl, f in state_parts(u, out, B, N):
        u.prove(f"reset.inv.{lbl}", f, tags=("C01", "C02"))
    msn = mask_spec(out)
    same_tensor(u, "reset.mask-consistent", out["action_mask"], (B, N + 1), lambda bb, jj: msn.at(bb, jj), tags=("C01", "C05"))


@unit("mtvrp.reward", file=F, func="MTVRPEnv._get_reward", props=("C03",))
def _(u):
    B, N, T = u.dims("B N T")
    td = state(u, B, N)          # the whole state with arbitrary bookkeeping fields: the reward depends on the instance and the actions only
    act = u.tensor("actions", (B, T), "i")
    u.requires(u.forall((B, T), lambda b, t: AND(act.at(b, t) >= 0, act.at(b, t) <= N)))
    env = u.obj(F, "MTVRPEnv")
    r = u.run(F, "MTVRPEnv._get_reward", td, act, selfobj=env)
    locs, opn = td["locs"], td["open_route"]

    # route: depot, a_0, ..., a_{T-1}, back to depot; legs that return to the depot are free on open routes
    def node(b, k):
        return ite(zint(k) == 0, 0, act.at(b, zint(k) - 1))

    def leg(b, k):
        k2 = ite(zint(k) + 1 < zint(T) + 1, zint(k) + 1, 0)
        p, q = node(b, k), node(b, k2)
        return ite(AND(q == 0, opn.at(b, 0)), zreal(0), dist(locs, b, p, q))

    total = ops.reduce("sum", mk((B, T + 1), "f", lambda I: leg(I[0], I[1])), -1, label="cost")
    same_tensor(u, "reward.eq", r, (B,), lambda b: -total.at(b))
    b = u.idx((B,), "cb")
    closed = ops.reduce("sum", mk((B, T + 1), "f", lambda I: dist(locs, I[0], node(I[0], I[1]), node(I[0], ite(zint(I[1]) + 1 < zint(T) + 1, zint(I[1]) + 1, 0)))), -1, label="closedcost")
    u.canary("reward.open-routes-charged", r.at(b) == -closed.at(b))


def _rl(u, what):
    N = u.dim("N")
    env = u.obj(F, "MTVRPEnv")
    if what == "step":
        def mk_in(u, B):
            td = state(u, B, N)
            td.set("action", u.tensor("action", (B,), "i"))
            return td

        def req(u, td, B):
            a = td["action"]
            return AND(state_ok(u, td, B, N), u.forall((B,), lambda b: AND(a.at(b) >= 0, a.at(b) <= N)))

        rowlocal(u, "step", mk_in, lambda u, td: u.run(F, "MTVRPEnv._step", td, selfobj=env), requires=req)
    elif what == "mask":
        rowlocal(u, "mask", lambda u, B: state(u, B, N), lambda u, td: u.run(F, "MTVRPEnv.get_action_mask", td),
                 requires=lambda u, td, B: state_ok(u, td, B, N))
    else:
        T = u.dim("T")

        def mk_in(u, B):
            return {"td": u.td(B, locs=((B, N + 1, 2), "f"), open_route=((B, 1), "b")), "actions": u.tensor("actions", (B, T), "i")}

        def req(u, ins, B):
            a = ins["actions"]
            return u.forall((B, T), lambda b, t: AND(a.at(b, t) >= 0, a.at(b, t) <= N))

        rowlocal(u, "reward", mk_in, lambda u, ins: u.run(F, "MTVRPEnv._get_reward", ins["td"], ins["actions"], selfobj=env), requires=req)


@unit("mtvrp.rowlocal.step", file=F, func="MTVRPEnv._step", props=("C04", "C14"))
def _(u):
    _rl(u, "step")


@unit("mtvrp.rowlocal.mask", file=F, func="MTVRPEnv.get_action_mask", props=("C04", "C14"))
def _(u):
    _rl(u, "mask")


@unit("mtvrp.rowlocal.reward", file=F, func="MTVRPEnv._get_reward", props=("C04", "C14"))
def _(u):
    _rl(u, "reward")


@unit("mtvrp.reward.padding", file=F, func="MTVRPEnv._get_reward", props=("C04", "C03"))
def _(u):
    from .envlib import reward_pad_invariant

    N = u.dim("N")
    reward_pad_invariant(u, F, "MTVRPEnv._get_reward", "MTVRPEnv",
                         lambda u, B: u.td(B, locs=((B, N + 1, 2), "f"), open_route=((B, 1), "b")), N + 1)
