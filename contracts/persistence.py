"""C19 (proof part): npz round trip, load_data scaling, env __getstate__/__setstate__.

External I/O is an assumed contract (A11): np.savez stores the arrays it is given under their names, np.load returns
them unchanged; Generator.get_state / set_state round-trip the stream state."""
import z3

from tvc import ops
from tvc.core import AND, IMPL, NOT, OR, cur, ite, mk, zint, zreal, SymTensor
from tvc.td import SymTD
from tvc.unit import spec, unit

from .envlib import B_, same_tensor

DU = "rl4co/data/utils.py"
CVRP = "rl4co/envs/routing/cvrp/env.py"
MTVRP = "rl4co/envs/routing/mtvrp/env.py"
BASE = "rl4co/envs/common/base.py"


class FileStore:
    """stub of numpy's npz I/O: what is saved under a file name is what is loaded from it."""

    def __init__(self):
        self.files = {}

    def savez(self, filename, **arrays):
        self.files[filename] = dict(arrays)

    savez_compressed = savez

    def load(self, filename):
        return dict(self.files[filename])


@unit("data.npz_roundtrip", file=DU, func="save_tensordict_to_npz", props=("C19",))
def _(u):
    B, N = u.dims("B N")
    td = SymTD({"locs": u.tensor("locs", (B, N, 2), "f"), "demand": u.tensor("demand", (B, N), "f"), "capacity": u.tensor("capacity", (B,), "i")}, (B,))
    fs = FileStore()
    u.stub(np=fs)
    u.assume_external("np.savez / np.load round-trip arrays by name (A11)")
    for compress in (False, True):
        u.run(DU, "save_tensordict_to_npz", td, f"file{compress}.npz", compress, record=False)
        back = u.run(DU, "load_npz_to_tensordict", f"file{compress}.npz", record=False)
        tag = "compressed" if compress else "plain"
        u.prove(f"npz.{tag}.keys", sorted(back.keys()) == sorted(td.keys()))
        u.prove(f"npz.{tag}.batch_size", AND(len(back.batch_size) == 1, zint(back.batch_size[0]) == zint(B)))
        for k in td.keys():
            same_tensor(u, f"npz.{tag}.{k}", back[k], td[k].shape, lambda *I, k=k: td[k].at(*I), dtype=td[k].dtype)


@spec(DU, "load_npz_to_tensordict")
def load_npz_spec(u, selfobj, filename):
    """callers see: the TensorDict stored under that file name (by data.npz_roundtrip)."""
    return u._files[filename]


@unit("cvrp.load_data", file=CVRP, func="CVRPEnv.load_data", props=("C19",))
def _(u):
    B, N = u.dims("B N")
    raw = SymTD({"locs": u.tensor("locs", (B, N, 2), "f"), "depot": u.tensor("depot", (B, 2), "f"),
                 "demand": u.tensor("demand", (B, N), "f"), "capacity": u.tensor("capacity", (B,), "f")}, (B,))
    u.requires(u.forall((B,), lambda b: raw["capacity"].at(b) > 0))
    pre = u.snapshot(raw)
    u._files = {"data.npz": raw}
    out = u.run(CVRP, "CVRPEnv.load_data", "data.npz", record=False)
    u.native("cvrp.load_data")   # replay through a real .npz file written from the witness values
    for k in ("locs", "depot", "demand", "capacity"):
        u.native_out(k, out[k])
    # demand normalised by the capacity of ITS OWN instance; everything else untouched
    same_tensor(u, "load_data.demand-rowwise", out["demand"], (B, N), lambda b, j: pre["demand"].at(b, j) / pre["capacity"].at(b))
    for k in ("locs", "depot", "capacity"):
        same_tensor(u, f"load_data.{k}-unchanged", out[k], pre[k].shape, lambda *I, k=k: pre[k].at(*I))
    b = u.idx((B,), "cb")
    j = u.idx((N,), "cj")
    u.canary("load_data.row0-capacity", out["demand"].at(b, j) == pre["demand"].at(b, j) / pre["capacity"].at(0))


@unit("mtvrp.load_data", file=MTVRP, func="MTVRPEnv.load_data", props=("C19",))
def _(u):
    B, N = u.dims("B N")
    keys = dict(demand_linehaul=((B, N + 1), "f"), demand_backhaul=((B, N + 1), "f"), capacity_original=((B, 1), "f"), vehicle_capacity=((B, 1), "f"))
    for scale in (True, False):
        raw = SymTD({k: u.tensor(f"{k}_{scale}", shp, dt) for k, (shp, dt) in keys.items()}, (B,))
        u.requires(u.forall((B,), lambda b: raw["capacity_original"].at(b, 0) > 0))
        pre = u.snapshot(raw)
        u._files = {"data.npz": raw}
        env = u.obj(MTVRP, "MTVRPEnv")
        out = u.run(MTVRP, "MTVRPEnv.load_data", "data.npz", [], scale, selfobj=env, record=False)
        tag = "scaled" if scale else "raw"
        for k in ("demand_linehaul", "demand_backhaul"):
            same_tensor(u, f"load_data.{tag}.{k}", out[k], (B, N + 1),
                        (lambda b, j, k=k: pre[k].at(b, j) / pre["capacity_original"].at(b, 0)) if scale else (lambda b, j, k=k: pre[k].at(b, j)))


class _Rng:
    """stub of torch.Generator: get_state returns the state, set_state installs it (A11)."""

    def __init__(self, state):
        self.state = state

    def get_state(self):
        return self.state

    def set_state(self, st):
        self.state = st


@unit("env.getstate_setstate", file=BASE, func="RL4COEnvBase.__getstate__", props=("C19",))
def _(u):
    st0 = u.scalar("rng_state", "i")
    rng = _Rng(st0)
    env = u.obj(BASE, "RL4COEnvBase", name="x", check_solution=True, rng=rng, some_param=u.scalar("param", "f"))
    state = u.run(BASE, "RL4COEnvBase.__getstate__", selfobj=env, record=False)
    u.prove("getstate.rng-replaced-by-its-state", state["rng"] is st0 or state["rng"].eq(st0))
    u.prove("getstate.other-attributes-kept", AND(state["name"] == "x", state["check_solution"] is True, state["some_param"].eq(env._attrs["some_param"])))
    u.prove("getstate.original-untouched", env._attrs["rng"] is rng)
    # restore into a fresh object: every attribute back, a generator installed with the saved stream state
    fresh = u.obj(BASE, "RL4COEnvBase")
    u.stub(torch_manual_seed=None)
    made = []

    def manual_seed(seed):
        g = _Rng(z3.IntVal(-1))
        made.append(g)
        return g

    from tvc.methods import TF

    old = TF.get("manual_seed")
    TF["manual_seed"] = manual_seed
    try:
        u.run(BASE, "RL4COEnvBase.__setstate__", state, selfobj=fresh, record=False)
    finally:
        if old is None:
            TF.pop("manual_seed", None)
        else:
            TF["manual_seed"] = old
    u.prove("setstate.attributes-restored", AND(fresh._attrs["name"] == "x", fresh._attrs["check_solution"] is True, fresh._attrs["some_param"].eq(env._attrs["some_param"])))
    u.prove("setstate.rng-stream-restored", AND(isinstance(fresh._attrs["rng"], _Rng), fresh._attrs["rng"].state.eq(st0)))


BLP = "rl4co/models/rl/reinforce/baselines.py"


@unit("rollout_baseline.getstate_setstate", file=BLP, func="RolloutBaseline.__getstate__", props=("C19",))
def _(u):
    # pickling a rollout baseline keeps everything except the dataset (restored in setup); restoring keeps every other attribute
    vals = u.tensor("bl_vals", (4,), "f")
    obj = u.obj(BLP, "RolloutBaseline", bl_alpha=0.05, policy="the-baseline-policy", bl_vals=vals, mean=u.scalar("mean", "f"), dataset="the-dataset")
    st = u.run(BLP, "RolloutBaseline.__getstate__", selfobj=obj, record=False)
    u.prove("getstate.drops-only-the-dataset", sorted(st.keys()) == sorted(k for k in obj._attrs if k != "dataset"), note=f"{sorted(st.keys())} vs {sorted(obj._attrs)}")
    u.prove("getstate.keeps-values", st["policy"] == "the-baseline-policy" and st["bl_vals"] is vals and st["bl_alpha"] == 0.05)
    u.prove("getstate.object-untouched", obj._attrs.get("dataset") == "the-dataset")
    new = u.obj(BLP, "RolloutBaseline")
    u.run(BLP, "RolloutBaseline.__setstate__", st, selfobj=new, record=False)
    u.prove("setstate.restores", new._attrs.get("policy") == "the-baseline-policy" and new._attrs.get("bl_vals") is vals and new._attrs.get("dataset") is None)
    # a baseline that never had a dataset pickles as well
    obj2 = u.obj(BLP, "RolloutBaseline", bl_alpha=0.05, policy="p")
    st2 = u.run(BLP, "RolloutBaseline.__getstate__", selfobj=obj2, record=False)
    u.prove("getstate.without-dataset", sorted(st2.keys()) == ["bl_alpha", "policy"])


@unit("env.base.wrappers", file=BASE, func="RL4COEnvBase.get_reward", props=("C03", "C06", "C19", "C17"))
def _(u):
    # glue of every environment: get_reward = (validity check when enabled, on the same state and actions) then _get_reward;
    # step = _step wrapped as {"next": state}; dataset(phase) = generated instances, or the file of THAT phase loaded through
    # load_data, always wrapped in the environment's dataset class
    B = u.dim("B")
    acts = u.tensor("actions", (B, 3), "i")
    td = SymTD({"x": u.tensor("x", (B, 2), "f")}, (B,))
    rew = u.tensor("reward", (B,), "f")
    log = []
    for chk in (True, False):
        log.clear()
        env = u.obj(BASE, "RL4COEnvBase", check_solution=chk, check_solution_validity=lambda t, a: log.append(("check", t, a)),
                    _get_reward=lambda t, a: (log.append(("reward", t, a)), rew)[1])
        r = u.run(BASE, "RL4COEnvBase.get_reward", td, acts, selfobj=env, record=False)
        want = ["check", "reward"] if chk else ["reward"]
        u.prove(f"get_reward.check={chk}", r is rew and [x[0] for x in log] == want and all(x[1] is td and x[2] is acts for x in log))
    env = u.obj(BASE, "RL4COEnvBase", _torchrl_mode=False, _step=lambda t: (log.append(("step", t)), t)[1])
    out = u.run(BASE, "RL4COEnvBase.step", td, selfobj=env, record=False)
    u.prove("step.wraps-next", isinstance(out, dict) and list(out.keys()) == ["next"] and out["next"] is td)
    # dataset
    made = []
    gen_td, file_td = u.ns(tag="generated"), u.ns(tag="loaded")
    env = u.obj(BASE, "RL4COEnvBase", generator=lambda bs: (made.append(("generate", bs)), gen_td)[1], load_data=lambda f, bs: (made.append(("load", f, bs)), file_td)[1],
                dataset_cls=lambda t: ("dataset", t), train_file=None, val_file="val.npz", test_file=None)
    d1 = u.run(BASE, "RL4COEnvBase.dataset", [64], "train", selfobj=env, record=False)
    d2 = u.run(BASE, "RL4COEnvBase.dataset", [32], "val", selfobj=env, record=False)
    u.prove("dataset.train-generated", d1 == ("dataset", gen_td) and made[0] == ("generate", [64]))
    u.prove("dataset.val-loaded-from-its-own-file", d2 == ("dataset", file_td) and made[1][0] == "load" and made[1][1] == "val.npz" and made[1][2] == [32])
