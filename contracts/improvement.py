"""C09 (proof part): best-so-far bookkeeping of TSPkoptEnv._step with the tour surgery abstracted; get_costs."""
import z3

from tvc import ops
from tvc.core import AND, IMPL, NOT, OR, cur, ite, mk, zint, zreal
from tvc.interp import LoopInvariant
from tvc.unit import spec, unit

from .envlib import B_, same_tensor, unchanged

TSP = "rl4co/envs/routing/tsp/env.py"
BASE = "rl4co/envs/common/base.py"
_N = [0]


def tour_cost(locs, rec):
    """Spec: length of the tour given as a successor array: sum_i |x[rec[i]] - x[i]|."""
    B, N = rec.shape
    leg = mk((B, N), "f", lambda I: ops.NORM2(locs.at(I[0], rec.at(I[0], I[1]), 0) - locs.at(I[0], I[1], 0),
                                              locs.at(I[0], rec.at(I[0], I[1]), 1) - locs.at(I[0], I[1], 1)))
    return ops.reduce("sum", leg, 1, label="tourcost")


@spec(BASE, "ImprovementEnvBase.get_costs")
def get_costs_spec(u, selfobj, coordinates, rec):
    return tour_cost(coordinates, rec)


@unit("improvement.get_costs", file=BASE, func="ImprovementEnvBase.get_costs", props=("C09",))
def _(u):
    B, N = u.dims("B N")
    locs = u.tensor("locs", (B, N, 2), "f")
    rec = u.tensor("rec", (B, N), "i")
    u.requires(u.forall((B, N), lambda b, i: AND(rec.at(b, i) >= 0, rec.at(b, i) < N)))
    got = u.run(BASE, "ImprovementEnvBase.get_costs", locs, rec)
    want = tour_cost(locs, rec)
    same_tensor(u, "get_costs.eq", got, (B,), lambda b: want.at(b))


@spec(TSP, "TSPkoptEnv._local_operator")
def local_operator_spec(u, selfobj, solution, action):
    """Contract of the tour surgery (checked exhaustively for small N by the bounded stand-in improvement_envs):
    a fresh successor array, in range."""
    _N[0] += 1
    nxt = u.abstract(solution, f"next_rec{_N[0]}")
    B, N = solution.shape
    u.requires(u.forall((B, N), lambda b, i: AND(nxt.at(b, i) >= 0, nxt.at(b, i) < N)))
    return nxt


@unit("tspkopt.step.bookkeeping", file=TSP, func="TSPkoptEnv._step", props=("C09",))
def _(u):
    _kopt_step(u, jump=False)


@unit("tspkopt.step_to_solution.bookkeeping", file=TSP, func="TSPkoptEnv._step", props=("C09",))
def _(u):
    # env.step_to_solution(td, sol): the current tour BECOMES sol; costs, best-so-far, reward and visited_time are re-derived
    # from sol exactly as after an ordinary move (visited_time = position along sol), the step counter is not advanced
    _kopt_step(u, jump=True)


PDPF = "rl4co/envs/routing/pdp/env.py"


@spec(PDPF, "PDPRuinRepairEnv._local_operator")
def pdp_local_operator_spec(u, selfobj, solution, action):
    """Contract of the ruin-and-repair surgery (checked exhaustively for small N by the bounded stand-in): a fresh successor array, in range."""
    return local_operator_spec(u, selfobj, solution, action)


@unit("pdprr.step_to_solution.bookkeeping", file=PDPF, func="PDPRuinRepairEnv._step", props=("C09",))
def _(u):
    _kopt_step(u, jump=True, pdp=True)


@unit("pdprr.step.bookkeeping", file=PDPF, func="PDPRuinRepairEnv._step", props=("C09",))
def _(u):
    _kopt_step(u, jump=False, pdp=True)


def _kopt_step(u, jump, pdp=False):
    B, N = u.dims("B N")
    td = u.td(B, locs=((B, N, 2), "f"), rec_best=((B, N), "i"), rec_current=((B, N), "i"), cost_bsf=((B,), "f"),
              cost_current=((B,), "f"), visited_time=((B, N), "i"), i=((B, 1), "i"), action=((B, 2), "i"))
    for k in ("rec_best", "rec_current"):
        u.requires(u.forall((B, N), lambda b, i, k=k: AND(td[k].at(b, i) >= 0, td[k].at(b, i) < N)))
    # invariant of the environment: the best-so-far cost is the length of the stored best tour
    best_cost = tour_cost(td["locs"], td["rec_best"])
    u.requires(u.forall((B,), lambda b: td["cost_bsf"].at(b) == best_cost.at(b)))
    pre = u.snapshot(td)
    FILE, CLS = (PDPF, "PDPRuinRepairEnv") if pdp else (TSP, "TSPkoptEnv")
    if pdp:
        td.data["action_record"] = u.tensor("action_record", (B, N, N), "f")
        u.requires(u.forall((B,), lambda b: AND(td["action"].at(b, 0) >= 0, td["action"].at(b, 0) < N)))   # a removable pair index
    env = u.obj(FILE, CLS, k_max=2, two_opt_mode=True, generator=u.ns(num_loc=N))
    # ghost: POS(b,t) = the t-th node along next_rec starting from node 0
    POS = z3.Function("pos_along_tour", z3.IntSort(), z3.IntSort(), z3.IntSort())

    def lookup(e):
        # by name, else by role (a helper extracted from the step may rename them): the loop-carried rank-2 / rank-1 integer
        # tensors are the visit times / the current node; the successor array is the other rank-2 integer tensor in scope
        from tvc.core import SymTensor as _T

        carried_names = list(e.get("__loop_carried__") or [])
        def pick(name, rank, pool, exclude=()):
            if name in e and isinstance(e[name], _T):
                return name
            c = [k for k in pool if isinstance(e.get(k), _T) and e[k].rank == rank and e[k].dtype in ("i", "f") and k not in exclude]
            if len(c) == 1:
                return c[0]
            raise KeyError(f"cannot identify '{name}' among {c}")
        vt = pick("visited_time", 2, carried_names)
        pr = pick("pre", 1, carried_names)
        others = [k for k in e if not k.startswith("__") and k not in (vt, pr)]
        nr = pick("next_rec", 2, [k for k in others if isinstance(e.get(k), _T) and e[k].dtype == "i" and k not in carried_names
                                  and not k.startswith("visited") and k not in ("solution_best", "rec_best")])
        return e[vt], e[pr], e[nr]

    def inv(e, i):
        vt, pr, nr = lookup(e)
        return [("pre-is-ith-node", u.forall((B,), lambda b: AND(pr.at(b) == POS(b, zint(i)), pr.at(b) >= 0, pr.at(b) < N))),
                ("pos-unfolds", u.forall((B, (0, zint(i))), lambda b, t: AND(POS(b, zint(t) + 1) == nr.at(b, POS(b, t)), POS(b, t) >= 0, POS(b, t) < N))),
                ("last-write-wins", u.forall((B, (1, zint(i) + 1)), lambda b, t: IMPL(u.forall(((zint(t) + 1, zint(i) + 1),), lambda t2: POS(b, t2) != POS(b, t)), vt.at(b, POS(b, t)) == t)))]

    u.requires(u.forall((B,), lambda b: POS(b, 0) == 0))
    u.loop(FILE, f"{CLS}._step", 0, LoopInvariant(inv, name="visited-time-loop", tags=("C09",),
                                                      facts=lambda e, i: [u.forall((B,), lambda b: POS(b, zint(i) + 1) == lookup(e)[2].at(b, POS(b, zint(i))))]))
    if jump:
        sol = u.tensor("solution_to", (B, N), "i")
        u.requires(u.forall((B, N), lambda b, i: AND(sol.at(b, i) >= 0, sol.at(b, i) < N)))
        out = u.run(FILE, f"{CLS}._step", td, sol, selfobj=env)
    else:
        out = u.run(FILE, f"{CLS}._step", td, selfobj=env)
    b = u.idx((B,), "b")
    n = u.idx((N,), "n")
    nxt = out["rec_current"]
    if jump:
        u.prove("jump.current-tour-is-the-given-solution", AND(nxt.at(b, n) == sol.at(b, n), nxt.root() is not sol.root()))
    new_cost = tour_cost(pre["locs"], nxt)
    c0 = pre["cost_bsf"].at(b)
    u.prove("step.cost_current-is-length-of-current-tour", out["cost_current"].at(b) == new_cost.at(b))
    u.prove("step.cost_bsf-is-min", out["cost_bsf"].at(b) == ite(new_cost.at(b) < c0, new_cost.at(b), c0))
    u.prove("step.cost_bsf-never-increases", out["cost_bsf"].at(b) <= c0)
    u.prove("step.reward-is-decrease-of-bsf", AND(out["reward"].at(b) == c0 - out["cost_bsf"].at(b), out["reward"].at(b) >= 0))
    # the stored best tour is replaced exactly on improvement, row by row, by the *values* of the new tour
    u.prove("step.rec_best", out["rec_best"].at(b, n) == ite(new_cost.at(b) < c0, nxt.at(b, n), pre["rec_best"].at(b, n)))
    best2 = tour_cost(pre["locs"], out["rec_best"])
    u.prove("step.cost_bsf-is-length-of-best-tour", out["cost_bsf"].at(b) == best2.at(b))
    u.prove("step.rec_best-not-aliased", out["rec_best"].root() is not nxt.root())
    same_tensor(u, "step.i", out["i"], (B, 1), (lambda bb, _: pre["i"].at(bb, 0)) if jump else (lambda bb, _: pre["i"].at(bb, 0) + 1))
    # visited_time[b, node] = position of the node along the new tour (for nodes reached once: a valid tour)
    if u.mode == "conc":
        # (the unrolled concrete run has no invariant facts: the ghost's defining recursion is stated over the emitted tour)
        u.requires(u.forall((B, N), lambda bb, tt: POS(bb, zint(tt) + 1) == nxt.at(bb, POS(bb, tt))))
    t = u.idx(((1, N + 1),), "t")
    later_distinct = u.forall(((zint(t) + 1, N + 1),), lambda t2: POS(b, t2) != POS(b, t))
    u.prove("step.visited_time-is-position", IMPL(later_distinct, out["visited_time"].at(b, POS(b, t)) == t))
    u.canary("step.reward-negated", out["reward"].at(b) == out["cost_bsf"].at(b) - c0)


# ---------------------------------------------------------------------------------------------
# C06: the checker of the ruin-and-repair environment validates the BEST tour it is handed, by walking it
# ---------------------------------------------------------------------------------------------
PDPF = "rl4co/envs/routing/pdp/env.py"


@unit("pdprr.check.sound", file=PDPF, func="PDPRuinRepairEnv.check_solution_validity", props=("C06",))
def _(u):
    from .checkers import carried

    B, H = u.dims("B H")
    N = 2 * H + 1                                                    # depot + H pickups + H deliveries (delivery of p is p + H)
    # rec_current / visited_time belong to the CURRENT tour of the state, not to the best one: the verdict must not depend on them
    td = u.td(B, rec_best=((B, N), "i"), rec_current=((B, N), "i"), visited_time=((B, N), "i"))
    best = td["rec_best"]
    u.requires(u.forall((B, N), lambda b, i: AND(best.at(b, i) >= 0, best.at(b, i) < N)))
    env = u.obj(PDPF, "PDPRuinRepairEnv", device="cpu")
    POS = z3.Function("pos_along_best", z3.IntSort(), z3.IntSort(), z3.IntSort())       # ghost: t-th node of the walk depot -> best[depot] -> ...
    u.requires(u.forall((B,), lambda b: POS(b, 0) == 0))
    unfold = lambda b, t: POS(b, zint(t) + 1) == best.at(b, POS(b, t))
    if u.mode == "conc":
        u.requires(u.forall((B, N), lambda b, t: unfold(b, t)))

    def inv(e, i):
        vt = carried(e, "visited_time", "f", nth=0)
        pr = carried(e, "pre", "i", nth=0)
        return [("pre-is-ith-node", u.forall((B,), lambda b: AND(pr.at(b) == POS(b, zint(i)), pr.at(b) >= 0, pr.at(b) < N))),
                ("pos-unfolds", u.forall((B, (0, zint(i))), lambda b, t: AND(unfold(b, t), POS(b, t) >= 0, POS(b, t) < N))),
                ("last-write-wins", u.forall((B, (1, zint(i) + 1)), lambda b, t: IMPL(u.forall(((zint(t) + 1, zint(i) + 1),), lambda t2: POS(b, t2) != POS(b, t)), vt.at(b, POS(b, t)) == t)))]

    u.loop(PDPF, "PDPRuinRepairEnv.check_solution_validity", 0,
           LoopInvariant(inv, name="walk-best-tour", tags=("C06",), facts=lambda e, i: [u.forall((B,), lambda b: unfold(b, i))]))
    u.run(PDPF, "PDPRuinRepairEnv.check_solution_validity", td, selfobj=env, asserts="record")
    b, p = u.idx((B,), "b"), u.idx(((1, H + 1),), "p")
    t1, t2 = u.idx(((1, N + 1),), "t1"), u.idx(((1, N + 1),), "t2")
    u.asserted("Deliverying without pick-up", b, zint(p) - 1)
    last = lambda t: u.forall(((zint(t) + 1, N + 1),), lambda t3: POS(b, t3) != POS(b, t))
    # passing => along the walk of the BEST tour, the (last) visit of every pickup precedes the (last) visit of its delivery
    u.prove("check.sound.pickup-before-delivery-along-best-tour",
            IMPL(AND(POS(b, t1) == p, POS(b, t2) == zint(p) + H, last(t1), last(t2)), zint(t1) < zint(t2)), tags=("C06",))
    u.canary("check.sound.delivery-directly-after-pickup", IMPL(AND(POS(b, t1) == p, POS(b, t2) == zint(p) + H, last(t1), last(t2)), zint(t1) + 1 == zint(t2)))
