"""Registry of bounded stand-ins (run-time contract checks over a stated bounded space; never counted as proved)."""
from tvc.standins import register

register("selection_envs", ("C08", "C02", "C03", "C04"), "selection_envs.py", quick=["--tier", "quick"], thorough=["--tier", "thorough"])
register("generators", ("C18",), "generators.py", quick=["--tier", "quick"], thorough=["--tier", "thorough"])
register("improvement_envs", ("C09",), "improvement_envs.py", quick=["--tier", "quick"], thorough=["--tier", "thorough"])
register("datasets_persistence", ("C17", "C19"), "datasets_persistence.py", quick=["--tier", "quick"], thorough=["--tier", "thorough"])
register("eval_losses", ("C15", "C12", "C16", "C20"), "eval_losses.py", quick=["--tier", "quick"], thorough=["--tier", "thorough"])
register("decoding_dist", ("C10",), "decoding_dist.py", quick=["--tier", "quick"], thorough=["--tier", "thorough"])
register("sched_episodes", ("C07", "C02", "C03", "C04"), "sched_episodes.py", quick=["--tier", "quick"], thorough=["--tier", "thorough"])
register("routing_bruteforce", ("C01", "C02", "C03", "C05", "C06"), "routing_bruteforce.py", quick=["--tier", "quick"], thorough=["--tier", "thorough"])
register("policy_roundtrip", ("C11", "C13", "C14"), "policy_roundtrip.py", quick=["--tier", "quick"], thorough=["--tier", "thorough"])
