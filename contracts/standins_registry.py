"""Registry of bounded stand-ins (run-time contract checks over a stated bounded space; never counted as proved)."""
from tvc.standins import register

register("selection_envs", ("C08", "C02", "C03", "C04"), "selection_envs.py", quick=["--tier", "quick"], thorough=["--tier", "thorough"])
register("generators", ("C18",), "generators.py", quick=["--tier", "quick"], thorough=["--tier", "thorough"])
register("improvement_envs", ("C09",), "improvement_envs.py", quick=["--tier", "quick"], thorough=["--tier", "thorough"])
register("datasets_persistence", ("C17", "C19"), "datasets_persistence.py", quick=["--tier", "quick"], thorough=["--tier", "thorough"])
