"""C06: check_solution_validity agrees with the problem definition.

Two directions per checker:
  sound    - executed with the asserts *recorded* (each assert is assumed to have passed): every constraint of the
             definition must follow  =>  a solution violating a constraint makes some assert fire;
  complete - under the hypothesis that the solution is feasible, every assert is a proof obligation.
torch.sort is seen through its assumed contract (values ordered; values = input o permutation; bijection).
"""
import z3

from tvc import ops
from tvc.core import AND, IMPL, NOT, OR, cur, ite, mk, zint, zreal
from tvc.interp import LoopInvariant
from tvc.unit import spec, unit

from .envlib import B_, same_tensor

TSP = "rl4co/envs/routing/tsp/env.py"
ATSP = "rl4co/envs/routing/atsp/env.py"
CVRP = "rl4co/envs/routing/cvrp/env.py"


def is_permutation(u, act, B, T):
    """every value in [0,T) and pairwise distinct (hence each of 0..T-1 exactly once)."""
    return AND(u.forall((B, T), lambda b, t: AND(act.at(b, t) >= 0, act.at(b, t) < T)),
               u.forall((B, T, T), lambda b, t1, t2: IMPL(zint(t1) != zint(t2), act.at(b, t1) != act.at(b, t2))))


def incr_identity_hint(u, sorted_t, B, T):
    """lemma incr.identity (tvc/lemmas.py), per row: strictly increasing values inside [0,T) are 0,1,...,T-1."""
    b, k, k1, k2 = z3.Ints("hb hk hk1 hk2")
    S = lambda bb, kk: sorted_t.at(bb, kk)
    strict = z3.ForAll([k1, k2], z3.Implies(z3.And(0 <= k1, k1 < k2, k2 < zint(T)), S(b, k1) < S(b, k2)))
    inr = z3.ForAll([k1], z3.Implies(z3.And(0 <= k1, k1 < zint(T)), z3.And(S(b, k1) >= 0, S(b, k1) < zint(T))))
    concl = z3.ForAll([k], z3.Implies(z3.And(0 <= k, k < zint(T)), S(b, k) == k))
    u.ctx.assume(z3.ForAll([b], z3.Implies(z3.And(b >= 0, b < zint(B), strict, inr), concl)))


class capture_sort:
    """context manager: remember the results of torch.sort calls executed by the checker (their assumed contract is
    instantiated at the indices a goal talks about)."""

    def __init__(self, after=None):
        self.results, self.after = [], after

    def __enter__(self):
        from tvc.methods import TM

        self.orig = TM["sort"]

        def wrapped(t, *a, **k):
            r = self.orig(t, *a, **k)
            self.results.append(r)
            if self.after:
                self.after(r)
            return r

        TM["sort"] = wrapped
        return self

    def __exit__(self, *a):
        from tvc.methods import TM

        TM["sort"] = self.orig


def sort_instances(u, res, b, positions, T):
    """Ground instances of the assumed sort contract at input positions t (k = Q(b,t)) and at sorted positions k."""
    info = res[0].prov[1]
    S, P, Q, src = info["S"], info["P"], info["Q"], info["src"]
    fs = []
    for t in positions:
        t = zint(t)
        k = Q(zint(b), t)
        fs += [k >= 0, k < zint(T), P(zint(b), k) == t, S(zint(b), k) == src.at(b, t) if src.dtype != "b" else True]
    u.ctx.assume(AND(*[IMPL(AND(zint(t) >= 0, zint(t) < zint(T)), f) for t in positions for f in fs]) if False else AND(*fs))


def sort_input_bridge(u, res, B, T):
    """Consequence of the assumed sort contract, stated with the input element as trigger: every input position t
    has a sorted position k = Q(b,t) with S(b,k) = input(b,t)."""
    info = res[0].prov[1]
    S, P, Q, src = info["S"], info["P"], info["Q"], info["src"]
    b, t = z3.Ints("brb brt")
    body = z3.Implies(z3.And(b >= 0, b < zint(B), t >= 0, t < zint(T)),
                      z3.And(Q(b, t) >= 0, Q(b, t) < zint(T), P(b, Q(b, t)) == t, S(b, Q(b, t)) == src.at(b, t)))
    u.ctx.assume(z3.ForAll([b, t], body, patterns=[src.at(b, t)]))


def sorted_pos_instances(u, res, b, ks, T):
    info = res[0].prov[1]
    S, P, Q, src = info["S"], info["P"], info["Q"], info["src"]
    fs = []
    for k in ks:
        k = zint(k)
        t = P(zint(b), k)
        fs += [t >= 0, t < zint(T), Q(zint(b), t) == k, S(zint(b), k) == src.at(b, t)]
    u.ctx.assume(AND(*fs))


def _perm_checker(u, file, cls, direction):
    B, T = u.dims("B T")
    act = u.tensor("actions", (B, T), "i")
    td = u.td(B, locs=((B, T, 2), "f"))
    if direction == "sound":
        with capture_sort() as cs:
            u.run(file, f"{cls}.check_solution_validity", td, act, asserts="record")
        b = u.idx((B,), "b")
        t1, t2 = u.idx((T, T), "t1 t2")
        v = u.idx((T,), "v")
        sort_instances(u, cs.results[0], b, [t1, t2], T)
        sorted_pos_instances(u, cs.results[0], b, [v], T)
        u.prove("check.sound.in-range", AND(act.at(b, t1) >= 0, act.at(b, t1) < T), tags=("C06",))
        u.prove("check.sound.no-duplicate", IMPL(t1 != t2, act.at(b, t1) != act.at(b, t2)), tags=("C06",))
        u.prove("check.sound.no-missing-node", u.exists((T,), lambda t: act.at(b, t) == v), tags=("C06",))
    else:
        u.requires(is_permutation(u, act, B, T))
        # the sorted row is strictly increasing (ordered + distinct values) inside [0,T): lemma incr.identity gives sorted = arange
        with capture_sort(after=lambda r: incr_identity_hint(u, r[0], B, T)):
            u.run(file, f"{cls}.check_solution_validity", td, act, asserts="prove")


@unit("tsp.check.sound", file=TSP, func="TSPEnv.check_solution_validity", props=("C06",))
def _(u):
    _perm_checker(u, TSP, "TSPEnv", "sound")


@unit("tsp.check.complete", file=TSP, func="TSPEnv.check_solution_validity", props=("C06",))
def _(u):
    _perm_checker(u, TSP, "TSPEnv", "complete")


@unit("atsp.check.sound", file=ATSP, func="ATSPEnv.check_solution_validity", props=("C06",))
def _(u):
    _perm_checker(u, ATSP, "ATSPEnv", "sound")


@unit("atsp.check.complete", file=ATSP, func="ATSPEnv.check_solution_validity", props=("C06",))
def _(u):
    _perm_checker(u, ATSP, "ATSPEnv", "complete")


# ---------------------------------------------------------------------------------------------
# CVRP: customers exactly once (any number of depot visits), route load never above capacity
# ---------------------------------------------------------------------------------------------
EPS5 = zreal(1e-5)


def _cvrp_ghost(u, td, act, B, N, T):
    """Ghost load functions over the prefix length t (uninterpreted; unfolded once per loop iteration):
       Ldef: load by the problem definition (reset to 0 at the depot); Lchk: the checker's recurrence."""
    Ldef = z3.Function("load_def", z3.IntSort(), z3.IntSort(), z3.RealSort())
    Lchk = z3.Function("load_chk", z3.IntSort(), z3.IntSort(), z3.RealSort())
    dem = lambda b, t: td["demand"].at(b, act.at(b, t) - 1)
    cap = lambda b: td["vehicle_capacity"].at(b, 0)

    def unfold(b, t):
        a = act.at(b, t)
        nd = ite(a == 0, zreal(0), Ldef(b, t) + dem(b, t))
        raw = Lchk(b, t) + ite(a == 0, -cap(b), dem(b, t))
        nc = ite(raw < 0, zreal(0), raw)
        return AND(Ldef(b, zint(t) + 1) == nd, Lchk(b, zint(t) + 1) == nc)

    base = u.forall((B,), lambda b: AND(Ldef(b, 0) == 0, Lchk(b, 0) == 0))
    if u.mode == "conc":
        # concrete sequence length: the recursive definitions are given for every step (no loop invariant is used)
        base = AND(base, u.forall((B, T), lambda b, t: unfold(b, t)))
    return Ldef, Lchk, unfold, base, cap


def _cvrp_valid(u, td, B, N):
    d, q = td["demand"], td["vehicle_capacity"]
    return AND(u.forall((B,), lambda b: AND(q.at(b, 0) > 0, q.at(b, 0) == q.at(0, 0))),   # one capacity per batch (set by _reset)
               u.forall((B, N), lambda b, j: AND(d.at(b, j) >= 0, d.at(b, j) <= q.at(b, 0))))


@unit("cvrp.check.sound", file=CVRP, func="CVRPEnv.check_solution_validity", props=("C06",))
def _(u):
    B, N, T = u.dims("B N T")
    u.requires(T >= N)
    td = u.td(B, demand=((B, N), "f"), vehicle_capacity=((B, 1), "f"))
    act = u.tensor("actions", (B, T), "i")
    u.requires(_cvrp_valid(u, td, B, N))
    Ldef, Lchk, unfold, base, cap = _cvrp_ghost(u, td, act, B, N, T)
    u.requires(base)

    def inv(env, i):
        uc = env["used_cap"]
        return [("used_cap-is-checker-load", u.forall((B,), lambda b: uc.at(b) == Lchk(b, zint(i)))),
                ("all-earlier-asserts-held", u.forall((B, (1, zint(i) + 1)), lambda b, t: Lchk(b, t) <= cap(b) + EPS5)),
                ("definition-load-below-checker-load", u.forall((B, (0, zint(i) + 1)), lambda b, t: AND(Ldef(b, t) >= 0, Ldef(b, t) <= Lchk(b, t))))]

    u.loop(CVRP, "CVRPEnv.check_solution_validity", 0,
           LoopInvariant(inv, name="capacity-loop", tags=("C06",), facts=lambda env, i: [u.forall((B,), lambda b: unfold(b, i)),
                                                                                      u.forall((B,), lambda b: AND(act.at(b, i) >= 0, act.at(b, i) <= N))]))
    m0 = len(u.ctx.reds)
    with capture_sort(after=lambda r: sort_input_bridge(u, r, B, T)) as cs:
        u.run(CVRP, "CVRPEnv.check_solution_validity", td, act, asserts="record")
    # the recorded permutation assert is two `all` reductions (tail == 1..N, head == 0): their instances at an arbitrary
    # sorted position give the closed form of the sorted row, used as a lemma below
    from tvc.unit import all_instance

    alls = [r for r in list(u.ctx.reds.values())[m0:] if r.kind == "all" and len(r.ns) == 2][:2]
    gb, gk = z3.Int("check.sorted-form.g0"), z3.Int("check.sorted-form.g1")
    for r in alls:
        all_instance(u, r, (), (gb, gk - (zint(T) - zint(N))))
        all_instance(u, r, (), (gb, gk))
    S0 = cs.results[0][0]
    u.prove_forall("check.sorted-form", (B, T), lambda bb, kk: S0.at(bb, kk) == ite(zint(kk) < zint(T) - zint(N), 0, zint(kk) - (zint(T) - zint(N)) + 1), tags=("C06",))
    b = u.idx((B,), "b")
    t1, t2 = u.idx((T, T), "t1 t2")
    v = u.idx(((1, N + 1),), "v")
    sort_instances(u, cs.results[0], b, [t1, t2], T)
    sorted_pos_instances(u, cs.results[0], b, [zint(T) - zint(N) + v - 1], T)
    u.prove("check.sound.in-range", AND(act.at(b, t1) >= 0, act.at(b, t1) <= N), tags=("C06",))
    u.prove("check.sound.customer-at-most-once", IMPL(AND(t1 != t2, act.at(b, t1) != 0), act.at(b, t1) != act.at(b, t2)), tags=("C06",))
    u.prove("check.sound.customer-at-least-once", u.exists((T,), lambda t: act.at(b, t) == v), tags=("C06",))
    # capacity: the load by the problem definition never exceeds the capacity (within the checker's 1e-5 tolerance)
    t = u.idx(((1, T + 1),), "t")
    u.prove("check.sound.load-within-capacity", Ldef(b, t) <= cap(b) + EPS5, tags=("C06",))
    u.canary("check.sound.load-strictly-below-capacity", Ldef(b, t) < cap(b))


@unit("cvrp.check.complete.capacity", file=CVRP, func="CVRPEnv.check_solution_validity", props=("C06",),
      note="the capacity asserts pass for every feasible solution; completeness of the sort-based permutation test is assumed here (see DESIGN)")
def _(u):
    B, N, T = u.dims("B N T")
    u.requires(T >= N)
    td = u.td(B, demand=((B, N), "f"), vehicle_capacity=((B, 1), "f"))
    act = u.tensor("actions", (B, T), "i")
    u.requires(_cvrp_valid(u, td, B, N))
    u.requires(u.forall((B, T), lambda b, t: AND(act.at(b, t) >= 0, act.at(b, t) <= N)))
    Ldef, Lchk, unfold, base, cap = _cvrp_ghost(u, td, act, B, N, T)
    u.requires(base)
    # feasible by the definition: the load never exceeds the capacity
    u.requires(u.forall((B, (0, T + 1)), lambda b, t: AND(Ldef(b, t) >= 0, Ldef(b, t) <= cap(b))))

    def inv(env, i):
        uc = env["used_cap"]
        return [("used_cap-is-definition-load", u.forall((B,), lambda b: AND(uc.at(b) == Lchk(b, zint(i)), Lchk(b, zint(i)) == Ldef(b, zint(i)))))]

    u.loop(CVRP, "CVRPEnv.check_solution_validity", 0,
           LoopInvariant(inv, name="capacity-loop", tags=("C06",), facts=lambda env, i: [u.forall((B,), lambda b: unfold(b, i))]))
    u.assume_external("completeness of the sort-based 'each customer exactly once' assert (needs the rank characterisation of sort; covered by the routing_bruteforce stand-in)")

    def assume_sorted_form(r):
        S = r[0]
        u.ctx.assume(u.forall((B, T), lambda b, k: S.at(b, k) == ite(zint(k) < zint(T) - zint(N), 0, zint(k) - (zint(T) - zint(N)) + 1)))

    with capture_sort(after=assume_sorted_form):
        u.run(CVRP, "CVRPEnv.check_solution_validity", td, act, asserts="prove")
