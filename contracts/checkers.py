"""C06: check_solution_validity agrees with the problem definition.

Two directions per checker:
  sound    - executed with the asserts *recorded* (each assert is assumed to have passed): every constraint of the
             definition must follow  =>  a solution violating a constraint makes some assert fire;
  complete - under the hypothesis that the solution is feasible, every assert is a proof obligation.
torch.sort is seen through its assumed contract (values ordered; values = input o permutation; bijection).
"""
import z3

from tvc import ops
from tvc.core import AND, IMPL, NOT, OR, cur, ite, mk, zint, zreal
from tvc.interp import LoopInvariant
from tvc.unit import spec, unit

from .envlib import B_, same_tensor

TSP = "rl4co/envs/routing/tsp/env.py"
ATSP = "rl4co/envs/routing/atsp/env.py"
CVRP = "rl4co/envs/routing/cvrp/env.py"


def is_permutation(u, act, B, T):
    """every value in [0,T) and pairwise distinct (hence each of 0..T-1 exactly once)."""
    return AND(u.forall((B, T), lambda b, t: AND(act.at(b, t) >= 0, act.at(b, t) < T)),
               u.forall((B, T, T), lambda b, t1, t2: IMPL(zint(t1) != zint(t2), act.at(b, t1) != act.at(b, t2))))


def incr_identity_hint(u, sorted_t, B, T):
    """lemma incr.identity (tvc/lemmas.py), per row: strictly increasing values inside [0,T) are 0,1,...,T-1."""
    b, k, k1, k2 = z3.Ints("hb hk hk1 hk2")
    S = lambda bb, kk: sorted_t.at(bb, kk)
    strict = z3.ForAll([k1, k2], z3.Implies(z3.And(0 <= k1, k1 < k2, k2 < zint(T)), S(b, k1) < S(b, k2)))
    inr = z3.ForAll([k1], z3.Implies(z3.And(0 <= k1, k1 < zint(T)), z3.And(S(b, k1) >= 0, S(b, k1) < zint(T))))
    concl = z3.ForAll([k], z3.Implies(z3.And(0 <= k, k < zint(T)), S(b, k) == k))
    u.ctx.assume(z3.ForAll([b], z3.Implies(z3.And(b >= 0, b < zint(B), strict, inr), concl)))


def carried(env, name, dtype, exclude=(), nth=None):
    """A loop-carried local of the checked function, looked up by its current name and, if a harmless rename changed it, by its
    role: the only tensor local of that dtype (and not claimed by another role) that is not an input of the function."""
    from tvc.core import SymTensor

    if name in env and isinstance(env[name], SymTensor):
        return env[name]
    pool = env.get("__loop_carried__") or [k for k in env if not k.startswith("__")]
    cands = [k for k in pool if isinstance(env.get(k), SymTensor) and env[k].dtype == dtype and k not in exclude]
    if len(cands) == 1:
        return env[cands[0]]
    if nth is not None and nth < len(cands):
        return env[cands[nth]]      # several candidates: the nth of that dtype in the order the loop body assigns them
    raise KeyError(f"loop-carried local '{name}' not found and its role is ambiguous among {cands}")


class capture_sort:
    """context manager: remember the results of torch.sort calls executed by the checker (their assumed contract is
    instantiated at the indices a goal talks about)."""

    def __init__(self, after=None):
        self.results, self.after = [], after

    def __enter__(self):
        from tvc.methods import TM

        self.orig = TM["sort"]

        def wrapped(t, *a, **k):
            r = self.orig(t, *a, **k)
            self.results.append(r)
            if self.after:
                self.after(r)
            return r

        TM["sort"] = wrapped
        return self

    def __exit__(self, *a):
        from tvc.methods import TM

        TM["sort"] = self.orig


def sort_instances(u, res, b, positions, T):
    """Ground instances of the assumed sort contract at input positions t (k = Q(b,t)) and at sorted positions k."""
    info = res[0].prov[1]
    S, P, Q, src = info["S"], info["P"], info["Q"], info["src"]
    fs = []
    for t in positions:
        t = zint(t)
        k = Q(zint(b), t)
        fs += [k >= 0, k < zint(T), P(zint(b), k) == t, S(zint(b), k) == src.at(b, t) if src.dtype != "b" else True]
    u.ctx.assume(AND(*[IMPL(AND(zint(t) >= 0, zint(t) < zint(T)), f) for t in positions for f in fs]) if False else AND(*fs))


def sort_input_bridge(u, res, B, T):
    """Consequence of the assumed sort contract, stated with the input element as trigger: every input position t
    has a sorted position k = Q(b,t) with S(b,k) = input(b,t)."""
    info = res[0].prov[1]
    S, P, Q, src = info["S"], info["P"], info["Q"], info["src"]
    b, t = z3.Ints("brb brt")
    body = z3.Implies(z3.And(b >= 0, b < zint(B), t >= 0, t < zint(T)),
                      z3.And(Q(b, t) >= 0, Q(b, t) < zint(T), P(b, Q(b, t)) == t, S(b, Q(b, t)) == src.at(b, t)))
    u.ctx.assume(z3.ForAll([b, t], body, patterns=[src.at(b, t)]))


def sorted_pos_instances(u, res, b, ks, T):
    info = res[0].prov[1]
    S, P, Q, src = info["S"], info["P"], info["Q"], info["src"]
    fs = []
    for k in ks:
        k = zint(k)
        t = P(zint(b), k)
        fs += [t >= 0, t < zint(T), Q(zint(b), t) == k, S(zint(b), k) == src.at(b, t)]
    u.ctx.assume(AND(*fs))


def _perm_checker(u, file, cls, direction, best=False):
    B, T = u.dims("B T")
    act = u.tensor("actions", (B, T), "i")
    td = u.td(B, locs=((B, T, 2), "f"))
    run = lambda **kw: u.run(file, f"{cls}.check_solution_validity", td, act, **kw)
    if best:
        # improvement environments: the checker validates the best tour of the state (a successor array), not an action sequence
        td = u.td(B, locs=((B, T, 2), "f"), rec_current=((B, T), "i"))
        td.set("rec_best", act)
        env = u.obj(file, cls, device="cpu")
        run = lambda **kw: u.run(file, f"{cls}.check_solution_validity", td, selfobj=env, **kw)
    if direction == "sound":
        with capture_sort() as cs:
            run(asserts="record")
        b = u.idx((B,), "b")
        t1, t2 = u.idx((T, T), "t1 t2")
        v = u.idx((T,), "v")
        sort_instances(u, cs.results[0], b, [t1, t2], T)
        sorted_pos_instances(u, cs.results[0], b, [v], T)
        u.prove("check.sound.in-range", AND(act.at(b, t1) >= 0, act.at(b, t1) < T), tags=("C06",))
        u.prove("check.sound.no-duplicate", IMPL(t1 != t2, act.at(b, t1) != act.at(b, t2)), tags=("C06",))
        u.prove("check.sound.no-missing-node", u.exists((T,), lambda t: act.at(b, t) == v), tags=("C06",))
    else:
        u.requires(is_permutation(u, act, B, T))
        # the sorted row is strictly increasing (ordered + distinct values) inside [0,T): lemma incr.identity gives sorted = arange
        with capture_sort(after=lambda r: incr_identity_hint(u, r[0], B, T)):
            run(asserts="prove")


@unit("tspkopt.check.sound", file=TSP, func="TSPkoptEnv.check_solution_validity", props=("C06",))
def _(u):
    _perm_checker(u, TSP, "TSPkoptEnv", "sound", best=True)


@unit("tspkopt.check.complete", file=TSP, func="TSPkoptEnv.check_solution_validity", props=("C06",))
def _(u):
    _perm_checker(u, TSP, "TSPkoptEnv", "complete", best=True)


@unit("tsp.check.sound", file=TSP, func="TSPEnv.check_solution_validity", props=("C06",))
def _(u):
    _perm_checker(u, TSP, "TSPEnv", "sound")


@unit("tsp.check.complete", file=TSP, func="TSPEnv.check_solution_validity", props=("C06",))
def _(u):
    _perm_checker(u, TSP, "TSPEnv", "complete")


@unit("atsp.check.sound", file=ATSP, func="ATSPEnv.check_solution_validity", props=("C06",))
def _(u):
    _perm_checker(u, ATSP, "ATSPEnv", "sound")


@unit("atsp.check.complete", file=ATSP, func="ATSPEnv.check_solution_validity", props=("C06",))
def _(u):
    _perm_checker(u, ATSP, "ATSPEnv", "complete")


# ---------------------------------------------------------------------------------------------
# CVRP: customers exactly once (any number of depot visits), route load never above capacity
# ---------------------------------------------------------------------------------------------
EPS5 = zreal(1e-5)


def _cvrp_ghost(u, td, act, B, N, T):
    """Ghost load functions over the prefix length t (uninterpreted; unfolded once per loop iteration):
       Ldef: load by the problem definition (reset to 0 at the depot); Lchk: the checker's recurrence."""
    Ldef = z3.Function("load_def", z3.IntSort(), z3.IntSort(), z3.RealSort())
    Lchk = z3.Function("load_chk", z3.IntSort(), z3.IntSort(), z3.RealSort())
    dem = lambda b, t: td["demand"].at(b, act.at(b, t) - 1)
    cap = lambda b: td["vehicle_capacity"].at(b, 0)

    def unfold(b, t):
        a = act.at(b, t)
        nd = ite(a == 0, zreal(0), Ldef(b, t) + dem(b, t))
        raw = Lchk(b, t) + ite(a == 0, -cap(b), dem(b, t))
        nc = ite(raw < 0, zreal(0), raw)
        return AND(Ldef(b, zint(t) + 1) == nd, Lchk(b, zint(t) + 1) == nc)

    base = u.forall((B,), lambda b: AND(Ldef(b, 0) == 0, Lchk(b, 0) == 0))
    if u.mode == "conc":
        # concrete sequence length: the recursive definitions are given for every step (no loop invariant is used)
        base = AND(base, u.forall((B, T), lambda b, t: unfold(b, t)))
    return Ldef, Lchk, unfold, base, cap


def _cvrp_valid(u, td, B, N):
    d, q = td["demand"], td["vehicle_capacity"]
    return AND(u.forall((B,), lambda b: AND(q.at(b, 0) > 0, q.at(b, 0) == q.at(0, 0))),   # one capacity per batch (set by _reset)
               u.forall((B, N), lambda b, j: AND(d.at(b, j) >= 0, d.at(b, j) <= q.at(b, 0))))


@unit("cvrp.check.sound", file=CVRP, func="CVRPEnv.check_solution_validity", props=("C06",))
def _(u):
    B, N, T = u.dims("B N T")
    u.requires(T >= N)
    td = u.td(B, demand=((B, N), "f"), vehicle_capacity=((B, 1), "f"))
    act = u.tensor("actions", (B, T), "i")
    u.requires(_cvrp_valid(u, td, B, N))
    Ldef, Lchk, unfold, base, cap = _cvrp_ghost(u, td, act, B, N, T)
    u.requires(base)

    def inv(env, i):
        uc = carried(env, "used_cap", "f")
        return [("used_cap-is-checker-load", u.forall((B,), lambda b: uc.at(b) == Lchk(b, zint(i)))),
                ("all-earlier-asserts-held", u.forall((B, (1, zint(i) + 1)), lambda b, t: Lchk(b, t) <= cap(b) + EPS5)),
                ("definition-load-below-checker-load", u.forall((B, (0, zint(i) + 1)), lambda b, t: AND(Ldef(b, t) >= 0, Ldef(b, t) <= Lchk(b, t))))]

    u.loop(CVRP, "CVRPEnv.check_solution_validity", 0,
           LoopInvariant(inv, name="capacity-loop", tags=("C06",), facts=lambda env, i: [u.forall((B,), lambda b: unfold(b, i)),
                                                                                      u.forall((B,), lambda b: AND(act.at(b, i) >= 0, act.at(b, i) <= N))]))
    m0 = len(u.ctx.reds)
    with capture_sort(after=lambda r: sort_input_bridge(u, r, B, T)) as cs:
        u.run(CVRP, "CVRPEnv.check_solution_validity", td, act, asserts="record")
    # the recorded permutation assert is two `all` reductions (tail == 1..N, head == 0): their instances at an arbitrary
    # sorted position give the closed form of the sorted row, used as a lemma below
    from tvc.unit import all_instance

    alls = [r for r in list(u.ctx.reds.values())[m0:] if r.kind == "all" and len(r.ns) == 2][:2]
    gb, gk = z3.Int("check.sorted-form.g0"), z3.Int("check.sorted-form.g1")
    for r in alls:
        all_instance(u, r, (), (gb, gk - (zint(T) - zint(N))))
        all_instance(u, r, (), (gb, gk))
    S0 = cs.results[0][0]
    u.prove_forall("check.sorted-form", (B, T), lambda bb, kk: S0.at(bb, kk) == ite(zint(kk) < zint(T) - zint(N), 0, zint(kk) - (zint(T) - zint(N)) + 1), tags=("C06",))
    b = u.idx((B,), "b")
    t1, t2 = u.idx((T, T), "t1 t2")
    v = u.idx(((1, N + 1),), "v")
    sort_instances(u, cs.results[0], b, [t1, t2], T)
    sorted_pos_instances(u, cs.results[0], b, [zint(T) - zint(N) + v - 1], T)
    u.prove("check.sound.in-range", AND(act.at(b, t1) >= 0, act.at(b, t1) <= N), tags=("C06",))
    u.prove("check.sound.customer-at-most-once", IMPL(AND(t1 != t2, act.at(b, t1) != 0), act.at(b, t1) != act.at(b, t2)), tags=("C06",))
    u.prove("check.sound.customer-at-least-once", u.exists((T,), lambda t: act.at(b, t) == v), tags=("C06",))
    # capacity: the load by the problem definition never exceeds the capacity (within the checker's 1e-5 tolerance)
    t = u.idx(((1, T + 1),), "t")
    u.prove("check.sound.load-within-capacity", Ldef(b, t) <= cap(b) + EPS5, tags=("C06",))
    u.canary("check.sound.load-strictly-below-capacity", Ldef(b, t) < cap(b))


@unit("cvrp.check.complete.capacity", file=CVRP, func="CVRPEnv.check_solution_validity", props=("C06",),
      note="the capacity asserts pass for every feasible solution; completeness of the sort-based permutation test is assumed here (see DESIGN)")
def _(u):
    B, N, T = u.dims("B N T")
    u.requires(T >= N)
    td = u.td(B, demand=((B, N), "f"), vehicle_capacity=((B, 1), "f"))
    act = u.tensor("actions", (B, T), "i")
    u.requires(_cvrp_valid(u, td, B, N))
    u.requires(u.forall((B, T), lambda b, t: AND(act.at(b, t) >= 0, act.at(b, t) <= N)))
    Ldef, Lchk, unfold, base, cap = _cvrp_ghost(u, td, act, B, N, T)
    u.requires(base)
    # feasible by the definition: the load never exceeds the capacity
    u.requires(u.forall((B, (0, T + 1)), lambda b, t: AND(Ldef(b, t) >= 0, Ldef(b, t) <= cap(b))))

    def inv(env, i):
        uc = carried(env, "used_cap", "f")
        return [("used_cap-is-definition-load", u.forall((B,), lambda b: AND(uc.at(b) == Lchk(b, zint(i)), Lchk(b, zint(i)) == Ldef(b, zint(i)))))]

    u.loop(CVRP, "CVRPEnv.check_solution_validity", 0,
           LoopInvariant(inv, name="capacity-loop", tags=("C06",), facts=lambda env, i: [u.forall((B,), lambda b: unfold(b, i))]))
    u.assume_external("completeness of the sort-based 'each customer exactly once' assert (needs the rank characterisation of sort; covered by the routing_bruteforce stand-in)")

    def assume_sorted_form(r):
        S = r[0]
        u.ctx.assume(u.forall((B, T), lambda b, k: S.at(b, k) == ite(zint(k) < zint(T) - zint(N), 0, zint(k) - (zint(T) - zint(N)) + 1)))

    with capture_sort(after=assume_sorted_form):
        u.run(CVRP, "CVRPEnv.check_solution_validity", td, act, asserts="prove")


# ---------------------------------------------------------------------------------------------
# PDP: every node exactly once, no depot inside the tour, every pickup before its delivery
# ---------------------------------------------------------------------------------------------
PDP = "rl4co/envs/routing/pdp/env.py"


class capture_argsort:
    def __init__(self, after=None):
        self.results, self.after = [], after

    def __enter__(self):
        from tvc.methods import TF, TM

        self.orig = (TM["argsort"], TF["argsort"])

        def wrapped(t, *a, **k):
            r = self.orig[0](t, *a, **k)
            self.results.append(r)
            if self.after:
                self.after(r)
            return r

        TM["argsort"] = TF["argsort"] = wrapped
        return self

    def __exit__(self, *a):
        from tvc.methods import TF, TM

        TM["argsort"], TF["argsort"] = self.orig


@unit("pdp.check.sound", file=PDP, func="PDPEnv.check_solution_validity", props=("C06",))
def _(u):
    B, H = u.dims("B H")
    T = 2 * H                      # customers: pickups 1..H, deliveries H+1..2H; the tour has T actions (free start: no leading depot)
    act = u.tensor("actions", (B, T), "i")
    td = u.td(B, locs=((B, T + 1, 2), "f"))
    env = u.obj(PDP, "PDPEnv", force_start_at_depot=False)
    with capture_sort() as cs, capture_argsort() as ca:
        u.run(PDP, "PDPEnv.check_solution_validity", td, act, selfobj=env, asserts="record")
    n = T + 1
    b = u.idx((B,), "b")
    t1, t2 = u.idx((T, T), "t1 t2")
    v = u.idx(((1, T + 1),), "v")
    # the checker works on actions' = [0] ++ actions (length T+1): input position t of actions is position t+1 there
    g = lambda nm, k: z3.Int(f"{nm}.g{k}")
    sort_instances(u, cs.results[0], b, [t1 + 1, t2 + 1, 0], n)
    sorted_pos_instances(u, cs.results[0], b, [v, 0], n)
    sort_instances(u, cs.results[0], g("check.sound.in-range", 0), [g("check.sound.in-range", 1) + 1, 0], n)
    sort_instances(u, cs.results[0], g("check.sound.no-duplicate", 0), [g("check.sound.no-duplicate", 1) + 1, g("check.sound.no-duplicate", 2) + 1, 0], n)
    u.prove_forall("check.sound.in-range", (B, T), lambda bb, x: AND(act.at(bb, x) >= 1, act.at(bb, x) <= T), tags=("C06",))
    u.prove_forall("check.sound.no-duplicate", (B, T, T), lambda bb, x, y: IMPL(zint(x) != zint(y), act.at(bb, x) != act.at(bb, y)), tags=("C06",))
    u.prove("check.sound.no-missing-node", u.exists((T,), lambda t: act.at(b, t) == v), tags=("C06",))
    # precedence, through the argsort the checker uses: its own sorted row is strictly increasing inside [0, T] (ordered + distinct),
    # hence the identity (lemma incr.identity), hence argsort[v] is THE position of node v
    info = ca.results[0].prov[1]
    S2, P2, Q2, src2 = info["S"], info["P"], info["Q"], info["src"]
    S2t = mk((B, n), "i", lambda I: S2(zint(I[0]), zint(I[1])))
    qb, qt = z3.Ints("pdp.qb pdp.qt")
    # consequence of the assumed argsort contract: every input position has a sorted position holding its value
    u.ctx.assume(z3.ForAll([qb, qt], z3.Implies(z3.And(qb >= 0, qb < zint(B), qt >= 0, qt < zint(n)),
                                                z3.And(Q2(qb, qt) >= 0, Q2(qb, qt) < zint(n), P2(qb, Q2(qb, qt)) == qt, S2(qb, Q2(qb, qt)) == src2.at(qb, qt))),
                           patterns=[Q2(qb, qt)]))
    gb, gk = z3.Int("pdp.g0"), z3.Int("pdp.g1")
    u.prove_forall("check.argsort.values-in-range", (B, n), lambda bb, kk: AND(S2(zint(bb), zint(kk)) >= 0, S2(zint(bb), zint(kk)) <= T), tags=("C06",))
    u.prove_forall("check.argsort.strict", (B, n, n), lambda bb, k1, k2: IMPL(zint(k1) < zint(k2), S2(zint(bb), zint(k1)) < S2(zint(bb), zint(k2))), tags=("C06",))
    incr_identity_hint(u, S2t, B, n)
    u.prove_forall("check.argsort.sorted-is-identity", (B, n), lambda bb, kk: S2(zint(bb), zint(kk)) == zint(kk), tags=("C06",))
    i = u.idx(((1, H + 1),), "i")
    tp, tdl = u.idx((T, T), "tp td")
    # instances: sorted positions of the two tour positions, and the recorded precedence assert at pair i
    from tvc.unit import all_instance

    for t in (tp + 1, tdl + 1):
        k = Q2(zint(b), zint(t))
        u.ctx.assume(AND(k >= 0, k < zint(n), P2(zint(b), k) == zint(t), S2(zint(b), k) == src2.at(b, t)))
    prec = [r for r in u.ctx.reds.values() if r.kind == "all" and len(r.ns) == 2]
    if prec:   # (concrete runs unroll the reduction: nothing to instantiate)
        all_instance(u, prec[-1], (), (b, i - 1))
    u.prove("check.sound.pickup-before-delivery",
            IMPL(AND(act.at(b, tp) == i, act.at(b, tdl) == i + H), tp < tdl), tags=("C06",))
    u.canary("check.sound.delivery-right-after-pickup", IMPL(AND(act.at(b, tp) == i, act.at(b, tdl) == i + H), tdl == tp + 1))


def _with_prov(t, info):
    t.prov = ("sort", info)
    return t


@unit("pdp.check.complete", file=PDP, func="PDPEnv.check_solution_validity", props=("C06",))
def _(u):
    B, H = u.dims("B H")
    T = 2 * H
    n = T + 1
    act = u.tensor("actions", (B, T), "i")
    td = u.td(B, locs=((B, T + 1, 2), "f"))
    env = u.obj(PDP, "PDPEnv", force_start_at_depot=False)
    # feasible by the definition: every customer exactly once, no depot, each pickup i before its delivery i + H
    u.requires(u.forall((B, T), lambda b, t: AND(act.at(b, t) >= 1, act.at(b, t) <= T)))
    u.requires(u.forall((B, T, T), lambda b, x, y: IMPL(zint(x) != zint(y), act.at(b, x) != act.at(b, y))))
    u.requires(u.forall((B, T, T), lambda b, x, y: IMPL(AND(act.at(b, x) >= 1, act.at(b, x) <= H, act.at(b, y) == act.at(b, x) + H), zint(x) < zint(y))))

    def after_sort(r):
        # ordered + distinct values inside [0, T]  =>  strictly increasing  =>  the identity (lemma incr.identity)
        incr_identity_hint(u, r[0], B, n)

    def after_argsort(r):
        info = r.prov[1]
        S2, P2, Q2, src2 = info["S"], info["P"], info["Q"], info["src"]
        S2t = mk((B, n), "i", lambda I: S2(zint(I[0]), zint(I[1])))
        incr_identity_hint(u, S2t, B, n)
        # two lemmas (proved, then available quantified): the argsort's sorted row is the identity, so argsort[k] is the
        # position of node k: for k >= 1 it lies in the tour proper and the action there is k
        u.prove_forall("complete.argsort.sorted-is-identity", (B, n), lambda bb, kk: S2(zint(bb), zint(kk)) == zint(kk), tags=("C06",))
        g0, g1 = z3.Int("complete.argsort.position-of-node.g0"), z3.Int("complete.argsort.position-of-node.g1")
        pk = P2(g0, g1)   # ground instance of the assumed argsort contract at the lemma's arbitrary (row, node)
        u.ctx.assume(IMPL(AND(g0 >= 0, g0 < zint(B), g1 >= 0, g1 < zint(n)), AND(pk >= 0, pk < zint(n), S2(g0, g1) == src2.at(g0, pk), S2(g0, g1) == g1)))
        u.prove_forall("complete.argsort.position-of-node", (B, (1, n)),
                       lambda bb, kk: AND(P2(zint(bb), zint(kk)) >= 1, P2(zint(bb), zint(kk)) <= T, act.at(bb, P2(zint(bb), zint(kk)) - 1) == zint(kk)), tags=("C06",))

    with capture_sort(after=after_sort), capture_argsort(after=after_argsort):
        u.run(PDP, "PDPEnv.check_solution_validity", td, act, selfobj=env, asserts="prove")


# ---------------------------------------------------------------------------------------------
# OP: no customer twice (depot any number of times), tour length within the budget
# ---------------------------------------------------------------------------------------------
OPF = "rl4co/envs/routing/op/env.py"


def _nonzero_once_sound(u, cs, act, B, T, b, t1, t2):
    """From the recorded 'sorted row is zero or strictly increasing' assert: a non-zero node occurs at most once."""
    from tvc.unit import all_instance

    res = cs.results[0]
    info = res[0].prov[1]
    S, P, Q = info["S"], info["P"], info["Q"]
    sort_instances(u, res, b, [t1, t2], T)
    k1, k2 = Q(zint(b), zint(t1)), Q(zint(b), zint(t2))
    dup = [r for r in u.ctx.reds.values() if r.kind == "all" and len(r.ns) == 2]
    if dup:
        # the assert speaks about sorted positions 1..T-1 (index j = k - 1): instances at the later of the two positions
        all_instance(u, dup[0], (), (b, k1 - 1))
        all_instance(u, dup[0], (), (b, k2 - 1))
    # ordering of the sorted row between the two positions (instances of the assumed contract)
    u.ctx.assume(AND(IMPL(k1 < k2, S(zint(b), k1) <= S(zint(b), k2 - 1)), IMPL(k2 < k1, S(zint(b), k2) <= S(zint(b), k1 - 1)),
                     IMPL(k1 == k2, zint(t1) == zint(t2))))


@unit("op.check.sound", file=OPF, func="OPEnv.check_solution_validity", props=("C06",))
def _(u):
    B, N, T = u.dims("B N T")
    act = u.tensor("actions", (B, T), "i")
    td = u.td(B, locs=((B, N + 1, 2), "f"), max_length=((B, N + 1), "f"))
    u.requires(u.forall((B, T), lambda b, t: AND(act.at(b, t) >= 0, act.at(b, t) <= N)))   # indices valid for gather (domain of the checker)
    with capture_sort() as cs:
        u.run(OPF, "OPEnv.check_solution_validity", td, act, asserts="record")
    b = u.idx((B,), "b")
    t1, t2 = u.idx((T, T), "t1 t2")
    _nonzero_once_sound(u, cs, act, B, T, b, t1, t2)
    u.prove("check.sound.customer-at-most-once", IMPL(AND(t1 != t2, act.at(b, t1) != 0), act.at(b, t1) != act.at(b, t2)), tags=("C06",))
    u.canary("check.sound.depot-at-most-once", IMPL(t1 != t2, act.at(b, t1) != act.at(b, t2)))
    # length: closed tour through the visited nodes in order; budget of node j = stored max_length[j] + distance(depot, j)
    # (the reset stores max_length - distance to depot per node), tolerance 1e-6 + 1e-5
    from .ops_helpers import tour_length_tensor

    ordered = mk((B, T, 2), "f", lambda I: td["locs"].at(I[0], act.at(I[0], I[1]), I[2]))
    length = tour_length_tensor(ordered)
    j = u.idx((N + 1,), "j")
    d0j = ops.NORM2(td["locs"].at(b, 0, 0) - td["locs"].at(b, j, 0), td["locs"].at(b, 0, 1) - td["locs"].at(b, j, 1))
    u.prove("check.sound.length-within-budget", length.at(b) <= td["max_length"].at(b, j) + d0j + zreal(1e-6) + zreal(1e-5), tags=("C06",))
    u.canary("check.sound.length-strictly-below-stored-budget", length.at(b) <= td["max_length"].at(b, j))


# ---------------------------------------------------------------------------------------------
# PCTSP (and SPCTSP, which inherits the checker): no customer twice; collected prize >= 1 or every customer visited
# ---------------------------------------------------------------------------------------------
PCF = "rl4co/envs/routing/pctsp/env.py"


@unit("pctsp.check.sound", file=PCF, func="PCTSPEnv.check_solution_validity", props=("C06",))
def _(u):
    B, N, T = u.dims("B N T")
    act = u.tensor("actions", (B, T), "i")
    td = u.td(B, locs=((B, N + 1, 2), "f"), real_prize=((B, N + 1), "f"))
    u.requires(u.forall((B, T), lambda b, t: AND(act.at(b, t) >= 0, act.at(b, t) <= N)))
    with capture_sort() as cs:
        u.run(PCF, "PCTSPEnv.check_solution_validity", td, act, asserts="record")
    b = u.idx((B,), "b")
    t1, t2 = u.idx((T, T), "t1 t2")
    _nonzero_once_sound(u, cs, act, B, T, b, t1, t2)
    u.prove("check.sound.customer-at-most-once", IMPL(AND(t1 != t2, act.at(b, t1) != 0), act.at(b, t1) != act.at(b, t2)), tags=("C06",))
    u.canary("check.sound.depot-at-most-once", IMPL(t1 != t2, act.at(b, t1) != act.at(b, t2)))
    # prize: the checker's own two reductions are (1) the sum over the tour of the prize of the visited node (depot: 0) and
    # (2) the number of zeros of the SORTED row; either (1) reaches 1 (tolerance 1e-5) or T - (2) equals the number of customers
    sums = [r for r in u.ctx.reds.values() if r.kind == "sum" and r.outer_rank == 1]
    S0 = cs.results[0][0]
    if u.mode == "sym" and len(sums) == 2:
        k = z3.Int("pctsp.k")
        r_prize, r_zero = sums
        a = act.at(b, k)
        u.prove("check.sound.prize-sum-is-collected-prize", AND(zint(r_prize.ns[0]) == zint(T),
                IMPL(AND(k >= 0, k < T), r_prize.body((b,), (k,)) == ite(a == 0, zreal(0), td["real_prize"].at(b, a)))), tags=("C06",))
        u.prove("check.sound.count-is-zeros-of-sorted-row", AND(zint(r_zero.ns[0]) == zint(T),
                IMPL(AND(k >= 0, k < T), r_zero.body((b,), (k,)) == ite(S0.at(b, k) == 0, 1, 0))), tags=("C06",))
        u.prove("check.sound.prize-or-all-visited", OR(r_prize.app((b,)) >= 1 - zreal(1e-5), zint(T) - r_zero.app((b,)) == N), tags=("C06",))
        u.canary("check.sound.prize-always-reached", r_prize.app((b,)) >= 1 - zreal(1e-5))
    else:
        collected, nonzero = zreal(0), 0
        for t in range(T):
            a = act.at(b, t)
            collected = collected + ite(a == 0, zreal(0), td["real_prize"].at(b, a))
            nonzero = nonzero + ite(a != 0, 1, 0)
        for nm in ("check.sound.prize-sum-is-collected-prize", "check.sound.count-is-zeros-of-sorted-row", "check.sound.prize-or-all-visited"):
            u.prove(nm, OR(collected >= 1 - zreal(1e-5), nonzero == N), tags=("C06",))
        u.canary("check.sound.prize-always-reached", collected >= 1 - zreal(1e-5))


# ---------------------------------------------------------------------------------------------
# CVRPTW: time windows along the tour (the capacity / visit part is CVRPEnv's checker, proved above)
# ---------------------------------------------------------------------------------------------
CTW = "rl4co/envs/routing/cvrptw/env.py"


def _cvrptw_ghost(u, td, act, B, N, T):
    """Service start time and departure time by the problem definition (uninterpreted, unfolded once per step):
       start(b,t) = max(leave(b,t) + dist(prev node, a_t), window start of a_t);  leave(b,t+1) = 0 at the depot else start + duration."""
    start = z3.Function("tw_start_def", z3.IntSort(), z3.IntSort(), z3.RealSort())
    leave = z3.Function("tw_leave_def", z3.IntSort(), z3.IntSort(), z3.RealSort())
    locs, tw, dur = td["locs"], td["time_windows"], td["durations"]
    prev = lambda b, t: ite(zint(t) == 0, 0, act.at(b, zint(t) - 1))
    dist = lambda b, p, q: ops.NORM2(locs.at(b, p, 0) - locs.at(b, q, 0), locs.at(b, p, 1) - locs.at(b, q, 1))

    def unfold(b, t):
        a = act.at(b, t)
        arr = leave(b, zint(t)) + dist(b, prev(b, t), a)
        st = ite(arr >= tw.at(b, a, 0), arr, tw.at(b, a, 0))
        return AND(start(b, zint(t)) == st, leave(b, zint(t) + 1) == ite(a == 0, zreal(0), st + dur.at(b, a)))

    base = u.forall((B,), lambda b: leave(b, 0) == 0)
    if u.mode == "conc":
        base = AND(base, u.forall((B, T), lambda b, t: unfold(b, t)))
    return start, leave, unfold, base, prev


@unit("cvrptw.check.timewindows.sound", file=CTW, func="CVRPTWEnv.check_solution_validity", props=("C06",))
def _(u):
    B, N = u.dims("B N")
    T = u.dim("T", 2)
    td = u.td(B, locs=((B, N + 1, 2), "f"), time_windows=((B, N + 1, 2), "f"), durations=((B, N + 1), "f"))
    act = u.tensor("actions", (B, T), "i")
    u.requires(u.forall((B, T), lambda b, t: AND(act.at(b, t) >= 0, act.at(b, t) <= N)))
    start, leave, unfold, base, prev = _cvrptw_ghost(u, td, act, B, N, T)
    u.requires(base)
    # the capacity / visit part is CVRPEnv.check_solution_validity (units cvrp.check.*): abstracted here
    u.stub(CVRPEnv=u.ns(check_solution_validity=lambda td_, a_: None))

    def inv(env, i):
        ct, cn = carried(env, "curr_time", "f"), carried(env, "curr_node", "i")
        cnat = (lambda b: cn.at(b, 0)) if cn.rank == 2 else (lambda b: cn.at(b))
        return [("curr_time-is-departure-time", u.forall((B,), lambda b: ct.at(b, 0) == leave(b, zint(i)))),
                ("curr_node-is-previous-node", u.forall((B,), lambda b: cnat(b) == prev(b, i))),
                ("all-earlier-deadlines-held", u.forall((B, (0, zint(i))), lambda b, t: start(b, t) <= td["time_windows"].at(b, act.at(b, t), 1)))]

    u.loop(CTW, "CVRPTWEnv.check_solution_validity", 0,
           LoopInvariant(inv, name="tw-loop", tags=("C06",), peel=True, facts=lambda env, i: [u.forall((B,), lambda b: unfold(b, i))]))
    u.run(CTW, "CVRPTWEnv.check_solution_validity", td, act, asserts="record")
    b = u.idx((B,), "b")
    t = u.idx((T,), "t")
    j = u.idx((N + 1,), "j")
    u.prove("check.sound.service-starts-within-window", start(b, t) <= td["time_windows"].at(b, act.at(b, t), 1), tags=("C06",))
    # instance sanity asserts: windows are non-empty and leave time to serve and return
    d0 = ops.NORM2(td["locs"].at(b, 0, 0) - td["locs"].at(b, j, 0), td["locs"].at(b, 0, 1) - td["locs"].at(b, j, 1))
    u.prove("check.sound.instance-window-nonempty", td["time_windows"].at(b, j, 0) < td["time_windows"].at(b, j, 1), tags=("C06",))
    u.prove("check.sound.instance-return-in-time", td["time_windows"].at(b, j, 0) + d0 + td["durations"].at(b, j) <= td["time_windows"].at(b, 0, 1), tags=("C06",))
    u.canary("check.sound.start-strictly-before-deadline", start(b, t) < td["time_windows"].at(b, act.at(b, t), 1))


# ---------------------------------------------------------------------------------------------
# MTVRP: customers exactly once; per route: length within the limit (open routes do not count the return leg),
# service starts inside the windows, linehaul and backhaul loads within capacity
# ---------------------------------------------------------------------------------------------
MTV = "rl4co/envs/routing/mtvrp/env.py"


def _mtvrp_ghost(u, td, act, B, N, T):
    start = z3.Function("mt_start_def", z3.IntSort(), z3.IntSort(), z3.RealSort())
    leave = z3.Function("mt_leave_def", z3.IntSort(), z3.IntSort(), z3.RealSort())
    rlen = z3.Function("mt_route_len_def", z3.IntSort(), z3.IntSort(), z3.RealSort())     # length of the current route after step t (before the depot reset)
    rlen0 = z3.Function("mt_route_len_carried", z3.IntSort(), z3.IntSort(), z3.RealSort())  # carried into step t (0 after a depot visit)
    locs, tw, dur = td["locs"], td["time_windows"], td["service_time"]
    prev = lambda b, t: ite(zint(t) == 0, 0, act.at(b, zint(t) - 1))
    dist = lambda b, p, q: ops.NORM2(locs.at(b, p, 0) - locs.at(b, q, 0), locs.at(b, p, 1) - locs.at(b, q, 1))

    def unfold(b, t):
        a = act.at(b, t)
        d = dist(b, prev(b, t), a)
        arr = leave(b, zint(t)) + d
        st = ite(arr >= tw.at(b, a, 0), arr, tw.at(b, a, 0))
        counted = ite(AND(td["open_route"].at(b, 0), a == 0), zreal(0), d)      # an open route does not pay the way back to the depot
        return AND(start(b, zint(t)) == st, leave(b, zint(t) + 1) == ite(a == 0, zreal(0), st + dur.at(b, a)),
                   rlen(b, zint(t)) == rlen0(b, zint(t)) + counted, rlen0(b, zint(t) + 1) == ite(a == 0, zreal(0), rlen(b, zint(t))))

    base = u.forall((B,), lambda b: AND(leave(b, 0) == 0, rlen0(b, 0) == 0))
    if u.mode == "conc":
        base = AND(base, u.forall((B, T), lambda b, t: unfold(b, t)))
    return start, leave, rlen, rlen0, unfold, base, prev


def _load_ghost(u, td, act, B, T, feature, name):
    L = z3.Function(name, z3.IntSort(), z3.IntSort(), z3.RealSort())   # load of the current route after step t (0 carried over a depot visit)

    def unfold(b, t):
        a = act.at(b, t)
        return L(b, zint(t) + 1) == ite(a == 0, zreal(0), L(b, zint(t))) + td[feature].at(b, a)

    base = u.forall((B,), lambda b: L(b, 0) == 0)
    if u.mode == "conc":
        base = AND(base, u.forall((B, T), lambda b, t: unfold(b, t)))
    return L, unfold, base


@unit("mtvrp.check.sound", file=MTV, func="MTVRPEnv.check_solution_validity", props=("C06",))
def _(u):
    B, N, T = u.dims("B N T")
    u.requires(T >= N)
    td = u.td(B, locs=((B, N + 1, 2), "f"), time_windows=((B, N + 1, 2), "f"), service_time=((B, N + 1), "f"),
              demand_linehaul=((B, N + 1), "f"), demand_backhaul=((B, N + 1), "f"), vehicle_capacity=((B, 1), "f"),
              distance_limit=((B, 1), "f"), open_route=((B, 1), "b"))
    act = u.tensor("actions", (B, T), "i")
    u.requires(u.forall((B, T), lambda b, t: AND(act.at(b, t) >= 0, act.at(b, t) <= N)))
    start, leave, rlen, rlen0, unfold, base, prev = _mtvrp_ghost(u, td, act, B, N, T)
    Ll, unfold_l, base_l = _load_ghost(u, td, act, B, T, "demand_linehaul", "mt_load_linehaul")
    Lb, unfold_b, base_b = _load_ghost(u, td, act, B, T, "demand_backhaul", "mt_load_backhaul")
    u.requires(AND(base, base_l, base_b))
    cap = lambda b: td["vehicle_capacity"].at(b, 0)

    def inv_route(env, i):
        ct, cn, cl = carried(env, "curr_time", "f", nth=1), carried(env, "curr_node", "i"), carried(env, "curr_length", "f", nth=0)
        return [("curr_time-is-departure-time", u.forall((B,), lambda b: ct.at(b) == leave(b, zint(i)))),
                ("curr_node-is-previous-node", u.forall((B,), lambda b: cn.at(b) == prev(b, i))),
                ("curr_length-is-carried-route-length", u.forall((B,), lambda b: cl.at(b) == rlen0(b, zint(i)))),
                ("earlier-deadlines-held", u.forall((B, (0, zint(i))), lambda b, t: start(b, t) <= td["time_windows"].at(b, act.at(b, t), 1))),
                ("earlier-lengths-within-limit", u.forall((B, (0, zint(i))), lambda b, t: rlen(b, t) <= td["distance_limit"].at(b, 0)))]

    u.loop(MTV, "MTVRPEnv.check_solution_validity", 0,
           LoopInvariant(inv_route, name="route-loop", tags=("C06",), facts=lambda env, i: [u.forall((B,), lambda b: unfold(b, i))]))

    def inv_load(L, unf):
        def inv(env, i):
            uc = carried(env, "used_cap", "f")
            return [("used_cap-is-route-load", u.forall((B,), lambda b: uc.at(b) == L(b, zint(i)))),
                    ("earlier-loads-within-capacity", u.forall((B, (1, zint(i) + 1)), lambda b, t: L(b, t) <= cap(b)))]
        return inv

    for ordinal, (L, unf, nm) in enumerate(((Ll, unfold_l, "linehaul"), (Lb, unfold_b, "backhaul")), start=1):
        u.loop(MTV, "MTVRPEnv.check_solution_validity", ordinal,   # the loops of the nested _check_c1 are numbered with the enclosing function, in execution order
               LoopInvariant(inv_load(L, unf), name=f"{nm}-loop", tags=("C06",), facts=lambda env, i, unf=unf: [u.forall((B,), lambda b: unf(b, i))]))
    with capture_sort(after=lambda r: sort_input_bridge(u, r, B, T)) as cs:
        u.run(MTV, "MTVRPEnv.check_solution_validity", td, act, asserts="record")
    b = u.idx((B,), "b")
    t = u.idx((T,), "t")
    t1 = u.idx(((1, T + 1),), "t1")
    u.prove("check.sound.service-starts-within-window", start(b, t) <= td["time_windows"].at(b, act.at(b, t), 1), tags=("C06",))
    u.prove("check.sound.route-length-within-limit", rlen(b, t) <= td["distance_limit"].at(b, 0), tags=("C06",))
    u.prove("check.sound.linehaul-load-within-capacity", Ll(b, t1) <= cap(b), tags=("C06",))
    u.prove("check.sound.backhaul-load-within-capacity", Lb(b, t1) <= cap(b), tags=("C06",))
    u.canary("check.sound.route-length-strictly-below-limit", rlen(b, t) < td["distance_limit"].at(b, 0))


# ---------------------------------------------------------------------------------------------
# SDVRP (split delivery): the checker replays the deliveries; passing means every customer's demand was delivered in full
# ---------------------------------------------------------------------------------------------
SDV = "rl4co/envs/routing/sdvrp/env.py"


@unit("sdvrp.check.sound", file=SDV, func="SDVRPEnv.check_solution_validity", props=("C06",))
def _(u):
    B, N = u.dims("B N")
    T = u.dim("T", 2)
    td = u.td(B, demand=((B, N), "f"), vehicle_capacity=((B, 1), "f"))
    act = u.tensor("actions", (B, T), "i")
    u.requires(u.forall((B, T), lambda b, t: AND(act.at(b, t) >= 0, act.at(b, t) <= N)))
    u.requires(u.forall((B,), lambda b: td["vehicle_capacity"].at(b, 0) > 0))
    u.requires(u.forall((B, N), lambda b, j: td["demand"].at(b, j) >= 0))
    cap = lambda b: td["vehicle_capacity"].at(b, 0)
    # definition (split delivery): visiting customer j delivers min(remaining demand of j, remaining capacity); the depot refills
    rem = z3.Function("sd_remaining", z3.IntSort(), z3.IntSort(), z3.IntSort(), z3.RealSort())    # rem(b, t, node): before step t; node 0 = the checker's depot slot
    used = z3.Function("sd_used", z3.IntSort(), z3.IntSort(), z3.RealSort())

    def unfold(b, t):
        a = act.at(b, t)
        room = cap(b) - used(b, zint(t))
        d = ite(rem(b, zint(t), a) <= room, rem(b, zint(t), a), room)
        k = z3.Int("sd_k")
        return AND(used(b, zint(t) + 1) == ite(a == 0, zreal(0), used(b, zint(t)) + d),
                   z3.ForAll([k], z3.Implies(z3.And(k >= 0, k <= zint(N)), rem(b, zint(t) + 1, k) == ite(k == a, rem(b, zint(t), k) - d, rem(b, zint(t), k)))))

    base = u.forall((B,), lambda b: AND(used(b, 0) == 0, rem(b, 0, 0) == -cap(b)))
    base = AND(base, u.forall((B, N), lambda b, j: rem(b, 0, zint(j) + 1) == td["demand"].at(b, j)))
    if u.mode == "conc":
        base = AND(base, u.forall((B, T), lambda b, t: unfold(b, t)))
    u.requires(base)

    def inv(env, i):
        dm = carried(env, "demands", "f", nth=0)
        uc = carried(env, "used_cap", "f", nth=1)
        return [("demands-are-the-remaining-demands", u.forall((B, N + 1), lambda b, k: dm.at(b, k) == rem(b, zint(i), k))),
                ("used_cap-is-the-load", u.forall((B,), lambda b: uc.at(b) == used(b, zint(i))))]

    u.loop(SDV, "SDVRPEnv.check_solution_validity", 0,
           LoopInvariant(inv, name="delivery-loop", tags=("C06",), peel=True, facts=lambda env, i: [u.forall((B,), lambda b: unfold(b, i))]))
    u.run(SDV, "SDVRPEnv.check_solution_validity", td, act, asserts="record")
    b, j = u.idx((B,), "b"), u.idx((N,), "j")
    u.prove("check.sound.every-demand-delivered-in-full", rem(b, zint(T), zint(j) + 1) == 0, tags=("C06",))
    u.canary("check.sound.nothing-was-ever-delivered", rem(b, zint(T), zint(j) + 1) == td["demand"].at(b, j))
