"""Contracts of the shared helpers in rl4co/utils/ops.py.

Each helper has (a) a *spec function* used at call sites (callers see the
contract, never the body) and (b) a unit that proves the real body equal to
the spec function for the rank configurations that occur at call sites.
"""
import itertools

import z3

from tvc import ops
from tvc.core import AND, SymTensor, Unsupported, cur, mk, norm_dim, zint, simp_int
from tvc.ops import wf_forall
from tvc.unit import spec, unit

OPS = "rl4co/utils/ops.py"


def tensors_equal(u, name, a, b, tags=None):
    """Obligation: same shape and same elements."""
    ctx = cur()
    if not (isinstance(a, SymTensor) and isinstance(b, SymTensor)):
        u.prove(name + ".type", False, tags)
        return
    if a.rank != b.rank:
        u.prove(name + ".rank", False, tags, note=f"{a.shape} vs {b.shape}")
        return
    u.prove(name + ".shape", AND(*[zint(x) == zint(y) for x, y in zip(a.shape, b.shape)]), tags)
    if a.dtype != b.dtype:
        u.prove(name + ".dtype", False, tags, note=f"{a.dtype} vs {b.dtype}")
        return
    I = []
    rng = []
    for d, n in enumerate(a.shape):
        if isinstance(n, int) and n == 1:
            I.append(0)
        else:
            v = ctx.fresh_int(f"e{d}")
            I.append(v)
            rng.append(z3.And(v >= 0, v < zint(n)))
    from tvc.core import IMPL

    u.prove(name + ".elem", IMPL(AND(*rng), a.at(*I) == b.at(*I)), tags)


# --------------------------------------------------------------------------
# gather_by_index
# --------------------------------------------------------------------------


@spec(OPS, "gather_by_index")
def gather_by_index_spec(u, selfobj, src, idx, dim=1, squeeze=True):
    ctx = cur()
    from tvc.td import SymTD

    if isinstance(src, SymTD):
        # TensorDict.gather along a batch dim: every entry is gathered along that dim
        out = {k: gather_by_index_spec(u, selfobj, v, idx, dim, squeeze) for k, v in src.data.items()}
        probe = gather_by_index_spec(u, selfobj, ops.const_tensor(src.batch_size, "b", False), idx, dim, squeeze)
        return SymTD(out, probe.shape)
    r, q = src.rank, idx.rank
    d = norm_dim(dim, r)
    if q > r:
        ctx.wf("pre-gather_by_index-rank", False)
    ishape = tuple(idx.shape) + (1,) * (r - q)
    for k in range(r):
        if k == d:
            continue
        n = ishape[k]
        if isinstance(n, int) and n == 1:
            continue
        if not ctx.same(n, src.shape[k]):
            ctx.wf(f"pre-gather_by_index-size dim{k}", zint(n) == zint(src.shape[k]))
    isn = idx.snap()
    n_d = src.shape[d]
    wf_forall(idx.shape, lambda I: AND(zint(isn(I)) >= 0, zint(isn(I)) < zint(n_d)), "pre-gather_by_index-index-range")
    K = ishape[d]
    shape = [src.shape[k] if k != d else K for k in range(r)]
    do_squeeze = squeeze and (isinstance(K, int) and K == 1 or (not isinstance(K, int) and ctx.decide(zint(K) == 1)))
    ss = src.snap()

    def elem_full(J):
        ipos = tuple((J[k] if not (isinstance(ishape[k], int) and ishape[k] == 1) else 0) for k in range(q))
        JJ = list(J)
        JJ[d] = isn(ipos)
        return ss(tuple(JJ))

    if do_squeeze:
        out_shape = tuple(s for k, s in enumerate(shape) if k != d)
        return mk(out_shape, src.dtype, lambda J: elem_full(tuple(J[:d]) + (0,) + tuple(J[d:])))
    return mk(tuple(shape), src.dtype, elem_full)


@unit("ops.gather_by_index", file=OPS, func="gather_by_index", props=("C01", "C03", "C04", "C12"))
def _(u):
    # rank configurations occurring at call sites (src rank, idx rank, dim, squeeze, idx size along dim)
    configs = [
        (3, 2, 1, True, "one"), (3, 2, 1, True, "T"), (3, 1, 1, True, None), (2, 2, 1, True, "one"),
        (2, 2, 1, True, "T"), (2, 1, 1, True, None), (2, 2, -1, True, "one"), (2, 2, -1, False, "one"),
        (2, 2, 1, False, "one"), (3, 2, 1, False, "one"), (3, 2, -2, True, "one"), (3, 3, 1, True, "one"),
        (3, 2, 2, True, "T"), (2, 2, 0, True, "T"),
    ]
    B, N, T_ = u.dims("B N T")
    D = u.dim("D")
    for ci, (r, q, dim, sq, kd) in enumerate(configs):
        sshape = (B, N, D)[:r]
        d = dim if dim >= 0 else dim + r
        ishape = []
        for k in range(q):
            if k == d:
                ishape.append(1 if kd == "one" else T_)
            else:
                ishape.append(sshape[k])
        src = u.tensor(f"src{ci}", sshape, "f")
        idx = u.tensor(f"idx{ci}", tuple(ishape), "i")
        isn = idx.snap()
        u.requires(u.forall(idx.shape, lambda *I: AND(zint(isn(I)) >= 0, zint(isn(I)) < zint(sshape[d]))))
        got = u.run(OPS, "gather_by_index", src, idx, dim, sq, record=(ci == 0))
        want = gather_by_index_spec(u, None, src, idx, dim, sq)
        tensors_equal(u, f"gather_by_index.eq.cfg{ci}", got, want)


# --------------------------------------------------------------------------
# get_distance / get_tour_length
# --------------------------------------------------------------------------


@spec(OPS, "get_distance")
def get_distance_spec(u, selfobj, x, y):
    ctx = cur()
    if not isinstance(x.shape[-1], int) or x.shape[-1] != 2 or y.shape[-1] != 2:
        ctx.wf("pre-get_distance-last-dim-2", False)
    shape = ops.broadcast_shapes(ctx, [x.shape[:-1], y.shape[:-1]])
    xs, ys = x.snap(), y.snap()
    rank = len(shape)
    xsh, ysh = x.shape[:-1], y.shape[:-1]

    def elem(I):
        ix, iy = ops.bidx(I, xsh, rank), ops.bidx(I, ysh, rank)
        return ops.NORM2(xs(ix + (0,)) - ys(iy + (0,)), xs(ix + (1,)) - ys(iy + (1,)))

    return mk(shape, "f", elem)


@unit("ops.get_distance", file=OPS, func="get_distance", props=("C01", "C03"))
def _(u):
    B, N = u.dims("B N")
    for ci, (sx, sy) in enumerate([((B, N, 2), (B, N, 2)), ((B, 2), (B, 2)), ((B, 1, 2), (B, N, 2)), ((B, 2), (N, B, 2))]):
        x = u.tensor(f"x{ci}", sx, "f")
        y = u.tensor(f"y{ci}", sy, "f")
        got = u.run(OPS, "get_distance", x, y, record=(ci == 0))
        tensors_equal(u, f"get_distance.eq.cfg{ci}", got, get_distance_spec(u, None, x, y))


def tour_length_tensor(locs):
    """Spec: closed tour length sum_k |p_{k+1 mod n} - p_k| of ordered points [..., n, 2]."""
    nxt = ops.roll(locs, -1, -2)
    d = get_distance_spec(None, None, nxt, locs)
    return ops.reduce("sum", d, -1, label="tourlen")


@spec(OPS, "get_tour_length")
def get_tour_length_spec(u, selfobj, ordered_locs):
    return tour_length_tensor(ordered_locs)


@unit("ops.get_tour_length", file=OPS, func="get_tour_length", props=("C03",))
def _(u):
    B, N = u.dims("B N")
    x = u.tensor("locs", (B, N, 2), "f")
    got = u.run(OPS, "get_tour_length", x)
    # independent statement of the closed-tour length
    xs = x.snap()
    from tvc.core import ite

    def leg(b, k):
        k2 = ite(zint(k) + 1 < zint(N), zint(k) + 1, 0)
        return ops.NORM2(xs((b, k2, 0)) - xs((b, k, 0)), xs((b, k2, 1)) - xs((b, k, 1)))

    want = ops.reduce("sum", mk((B, N), "f", lambda I: leg(I[0], I[1])), -1, label="closedtour")
    tensors_equal(u, "get_tour_length.eq", got, want)
    # canary: an open tour (no return leg) must NOT be accepted as the spec
    def leg_open(b, k):
        return ite(zint(k) + 1 < zint(N), leg(b, k), 0)

    wrong = ops.reduce("sum", mk((B, N), "f", lambda I: leg_open(I[0], I[1])), -1, label="opentour")
    b = u.idx((B,), "cb")
    u.canary("get_tour_length.open", got.at(b) == wrong.at(b))
