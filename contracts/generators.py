"""C18 (proof part): generator post-conditions that are pure real arithmetic over the samplers' ranges.

torch.rand / sampler outputs are arbitrary tensors inside their documented range (assumed sampler contract A10);
what is proved is that EVERY draw inside that range yields an instance with the stated guarantee.
"""
import z3

from tvc import ops
from tvc.core import AND, IMPL, NOT, OR, cur, ite, mk, zint, zreal, SymTensor
from tvc.td import SymTD
from tvc.unit import spec, unit

from .envlib import B_, same_tensor

MTG = "rl4co/envs/routing/mtvrp/generator.py"


@unit("mtvrp.generator.time_windows", file=MTG, func="MTVRPGenerator.generate_time_windows", props=("C18",))
def _(u):
    B, N = u.dims("B N")
    locs = u.tensor("locs", (B, N + 1, 2), "f")
    speed = u.tensor("speed", (B, 1), "f")
    M = u.scalar("max_time", "f")
    u.requires(M > 0)
    u.requires(u.forall((B,), lambda b: speed.at(b, 0) > 0))
    gen = u.obj(MTG, "MTVRPGenerator", max_time=M)
    # customers do not coincide with the depot (the real code divides by the depot distance; a measure-zero event, A10)
    u.requires(u.forall((B, N), lambda b, i: OR(locs.at(b, 0, 0) != locs.at(b, i + 1, 0), locs.at(b, 0, 1) != locs.at(b, i + 1, 1))))
    tw, st = u.run(MTG, "MTVRPGenerator.generate_time_windows", locs, speed, selfobj=gen)
    b = u.idx((B,), "b")
    i = u.idx((N,), "i")
    same_tensor(u, "tw.shape", tw, (B, N + 1, 2), lambda *I: tw.at(*I))
    same_tensor(u, "service.shape", st, (B, N + 1), lambda *I: st.at(*I))
    u.prove("tw.depot", AND(tw.at(b, 0, 0) == 0, tw.at(b, 0, 1) == M, st.at(b, 0) == 0))
    s, lo, hi = st.at(b, i + 1), tw.at(b, i + 1, 0), tw.at(b, i + 1, 1)
    u.prove("tw.service-range", AND(s >= zreal(0.15) - zreal(1e-9), s <= zreal(0.18) + zreal(1e-9)))
    eps = zreal(1e-9)  # the Python float literals 0.15 / 0.18 / 0.2 are taken as the exact rationals they denote
    u.prove("tw.length-range", AND(hi - lo >= zreal(0.18) - eps, hi - lo <= zreal(0.2) + eps))
    # travel time depot -> customer i at this instance's speed
    d = ops.NORM2(locs.at(b, 0, 0) - locs.at(b, i + 1, 0), locs.at(b, 0, 1) - locs.at(b, i + 1, 1))
    tt = d / speed.at(b, 0)
    # feasibility pre-condition of the construction: a round trip plus this customer's service time and window length fits before the depot closes
    feas = 2 * tt + s + (hi - lo) <= M
    u.prove("tw.travel-time-positive", tt > 0)
    # a single-customer route depot -> i -> depot is feasible: i is reachable before its window closes, and after
    # serving i (waiting for the window to open if early) the vehicle is back before the depot closes
    u.prove("tw.reachable-before-close", IMPL(feas, tt <= hi))
    arrive = z3.If(tt >= lo, tt, lo)
    u.prove("tw.back-at-depot-in-time", IMPL(feas, arrive + s + tt <= M))
    u.prove("tw.window-not-before-arrival", IMPL(feas, lo >= tt))
    u.canary("tw.always-in-time-even-if-infeasible", arrive + s + tt <= M)
