"""C18 (proof part): generator post-conditions that are pure real arithmetic over the samplers' ranges.

torch.rand / sampler outputs are arbitrary tensors inside their documented range (assumed sampler contract A10);
what is proved is that EVERY draw inside that range yields an instance with the stated guarantee.
"""
import z3

from tvc import ops
from tvc.core import AND, IMPL, NOT, OR, cur, ite, mk, zint, zreal, SymTensor
from tvc.td import SymTD
from tvc.unit import spec, unit

from .envlib import B_, same_tensor

MTG = "rl4co/envs/routing/mtvrp/generator.py"


def shape_is(t, shape):
    """rank and every dimension equal (symbolic dimensions compared as formulas, not structurally)"""
    shape = tuple(shape)
    if len(tuple(t.shape)) != len(shape):
        return False
    return AND(*[zint(a) == zint(b) for a, b in zip(tuple(t.shape), shape)])


@unit("mtvrp.generator.time_windows", file=MTG, func="MTVRPGenerator.generate_time_windows", props=("C18",))
def _(u):
    B, N = u.dims("B N")
    locs = u.tensor("locs", (B, N + 1, 2), "f")
    speed = u.tensor("speed", (B, 1), "f")
    M = u.scalar("max_time", "f")
    u.requires(M > 0)
    u.requires(u.forall((B,), lambda b: speed.at(b, 0) > 0))
    gen = u.obj(MTG, "MTVRPGenerator", max_time=M)
    # customers do not coincide with the depot (the real code divides by the depot distance; a measure-zero event, A10)
    u.requires(u.forall((B, N), lambda b, i: OR(locs.at(b, 0, 0) != locs.at(b, i + 1, 0), locs.at(b, 0, 1) != locs.at(b, i + 1, 1))))
    tw, st = u.run(MTG, "MTVRPGenerator.generate_time_windows", locs, speed, selfobj=gen, record=False)
    u.native("mtvrp.generate_time_windows")   # replay with torch.rand patched to return the witness draws
    u.native_out("time_windows", tw)
    u.native_out("service_time", st)
    b = u.idx((B,), "b")
    i = u.idx((N,), "i")
    same_tensor(u, "tw.shape", tw, (B, N + 1, 2), lambda *I: tw.at(*I))
    same_tensor(u, "service.shape", st, (B, N + 1), lambda *I: st.at(*I))
    u.prove("tw.depot", AND(tw.at(b, 0, 0) == 0, tw.at(b, 0, 1) == M, st.at(b, 0) == 0))
    s, lo, hi = st.at(b, i + 1), tw.at(b, i + 1, 0), tw.at(b, i + 1, 1)
    u.prove("tw.service-range", AND(s >= zreal(0.15) - zreal(1e-9), s <= zreal(0.18) + zreal(1e-9)))
    eps = zreal(1e-9)  # the Python float literals 0.15 / 0.18 / 0.2 are taken as the exact rationals they denote
    u.prove("tw.length-range", AND(hi - lo >= zreal(0.18) - eps, hi - lo <= zreal(0.2) + eps))
    # travel time depot -> customer i at this instance's speed
    d = ops.NORM2(locs.at(b, 0, 0) - locs.at(b, i + 1, 0), locs.at(b, 0, 1) - locs.at(b, i + 1, 1))
    tt = d / speed.at(b, 0)
    # feasibility pre-condition of the construction: a round trip plus this customer's service time and window length fits before the depot closes
    feas = 2 * tt + s + (hi - lo) <= M
    u.prove("tw.travel-time-positive", tt > 0)
    # a single-customer route depot -> i -> depot is feasible: i is reachable before its window closes, and after
    # serving i (waiting for the window to open if early) the vehicle is back before the depot closes
    u.prove("tw.reachable-before-close", IMPL(feas, tt <= hi))
    arrive = z3.If(tt >= lo, tt, lo)
    u.prove("tw.back-at-depot-in-time", IMPL(feas, arrive + s + tt <= M))
    u.prove("tw.window-not-before-arrival", IMPL(feas, lo >= tt))
    u.canary("tw.always-in-time-even-if-infeasible", arrive + s + tt <= M)


CVG = "rl4co/envs/routing/cvrp/generator.py"


def _sampler(u, name, lo, hi, dtype="f", replay=None, preset=None):
    """A sampler stub (assumed contract A10): sample(shape) returns an arbitrary tensor with entries in [lo, hi].
    replay=<another stub>: return (value copies of) that stub's draws again, for two runs on the same randomness."""
    cnt = [0]
    drawn = []

    def sample(shape):
        cnt[0] += 1
        if replay is not None:
            t0 = replay.drawn[cnt[0] - 1]
            return SymTensor(t0.shape, t0.dtype, t0.snap(), name=t0.name)
        if preset is not None:
            # draws created by the contract beforehand (so that it can state a pre-condition on them)
            t = preset[cnt[0] - 1]
            assert len(t.shape) == len(tuple(shape))
            for a_, b_ in zip(t.shape, tuple(shape)):
                cur().wf("preset-draw-shape", zint(a_) == zint(b_))
        else:
            t = u.tensor(f"{name}{cnt[0]}", tuple(shape), dtype)
        drawn.append(SymTensor(t.shape, t.dtype, t.snap(), name=t.name))
        ts = t.snap()
        ops.assume_forall(tuple(shape), lambda I: z3.And(ts(I) >= lo, ts(I) <= hi))
        return t

    ns = u.ns(sample=sample)
    ns.drawn = drawn
    return ns


@unit("cvrp.generator.generate", file=CVG, func="CVRPGenerator._generate", props=("C18",))
def _(u):
    B, N = u.dims("B N")
    cap = u.scalar("capacity", "f")
    dmin, dmax = u.scalar("min_demand", "i"), u.scalar("max_demand", "i")
    lmin, lmax = u.scalar("min_loc", "f"), u.scalar("max_loc", "f")
    u.requires(AND(dmin >= 1, dmin <= dmax, lmin <= lmax, cap > 0))
    for variant in ("depot-from-locs", "depot-sampler"):
        gen = u.obj(CVG, "CVRPGenerator", num_loc=N, capacity=cap, min_demand=dmin, max_demand=dmax,
                    loc_sampler=_sampler(u, f"{variant}.loc", lmin, lmax),
                    depot_sampler=_sampler(u, f"{variant}.depot", lmin, lmax) if variant == "depot-sampler" else None,
                    demand_sampler=_sampler(u, f"{variant}.dem", z3.ToReal(dmin - 1), z3.ToReal(dmax - 1)))
        td = u.run(CVG, "CVRPGenerator._generate", [B], selfobj=gen, record=False)
        b, i, c = u.idx((B,), "b"), u.idx((N,), "i"), u.idx((2,), "c")
        p = variant + "."
        u.prove(p + "shapes", AND(tuple(td["locs"].shape) == (B, N, 2), tuple(td["depot"].shape) == (B, 2),
                                  tuple(td["demand"].shape) == (B, N), tuple(td["capacity"].shape) == (B, 1), tuple(td.batch_size) == (B,)))
        u.prove(p + "locs-in-range", AND(td["locs"].at(b, i, c) >= lmin, td["locs"].at(b, i, c) <= lmax,
                                         td["depot"].at(b, c) >= lmin, td["depot"].at(b, c) <= lmax))
        x = gen._attrs["demand_sampler"].drawn[0].at(b, i)          # the raw draw in [min_demand - 1, max_demand - 1]
        k = z3.ToInt(x) + 1                                            # .int() truncates; the draw is non-negative, so truncation = floor
        u.prove(p + "demand-integer-in-range", AND(td["demand"].at(b, i) == z3.ToReal(k) / cap, k >= dmin, k <= dmax))
        u.prove(p + "capacity-recorded", td["capacity"].at(b, 0) == cap)
        # every customer can be served by an empty vehicle iff the largest possible demand fits
        u.prove(p + "single-customer-fits", IMPL(z3.ToReal(dmax) <= cap, td["demand"].at(b, i) <= 1))
        u.prove(p + "demand-positive", td["demand"].at(b, i) > 0)
        u.canary(p + "demand-at-most-one-unconditionally", td["demand"].at(b, i) <= 1)


@unit("cvrp.generator.init.capacity", file=CVG, func="CVRPGenerator.__init__", props=("C18",))
def _(u):
    # the capacity the demands are divided by: the caller's `capacity=` whenever one is given (whatever the instance size),
    # else the Kool et al. table entry of the size, else the entry of the closest tabulated size
    cap = u.scalar("capacity", "f")
    u.requires(cap > 0)
    s = u.ns(sample=lambda shape: None)
    kw = dict(loc_sampler=s, depot_sampler=s, demand_sampler=s)
    table = {10: 20.0, 15: 25.0, 20: 30.0, 30: 33.0, 40: 37.0, 50: 40.0, 60: 43.0, 75: 45.0, 100: 50.0, 125: 55.0, 150: 60.0, 200: 70.0, 500: 100.0, 1000: 150.0}
    u.native("cvrp.generator.init")
    for n in (20, 50, 23):
        g = u.obj(CVG, "CVRPGenerator")
        u.run(CVG, "CVRPGenerator.__init__", n, selfobj=g, record=False, capacity=cap, **kw)
        u.native_out(f"explicit{n}", g._attrs["capacity"])
        u.prove(f"init.num_loc{n}.explicit-capacity-wins", g._attrs["capacity"] is cap or g._attrs["capacity"] == cap)
    for n, want in ((20, 30.0), (100, 50.0), (23, 30.0), (1, 20.0), (12, 20.0)):
        g = u.obj(CVG, "CVRPGenerator")
        u.run(CVG, "CVRPGenerator.__init__", n, selfobj=g, record=False, **kw)
        u.prove(f"init.num_loc{n}.default-capacity-from-table", g._attrs["capacity"] == want and table.get(n, want) == want, note=f"got {g._attrs['capacity']!r}")


TWG = "rl4co/envs/routing/cvrptw/generator.py"


def _unscale(v, M):
    """v * M for a value the code computed as x / M (M > 0): x itself (structurally), so that the clauses stay linear."""
    if z3.is_app_of(v, z3.Z3_OP_DIV) and v.arg(1).eq(M):
        return v.arg(0)
    return v * M


def _cvrptw_generate(u, scale, max_time=None):
    """CVRPTWGenerator._generate (steps 1-8 incl. the window repair), for EVERY draw of the samplers / torch.rand."""
    B, N = u.dims("B N")
    cap = u.scalar("capacity", "f")
    dmin, dmax = u.scalar("min_demand", "i"), u.scalar("max_demand", "i")
    lmin, lmax = u.scalar("min_loc", "f"), u.scalar("max_loc", "f")
    # scale=False: any max_time. scale=True divides everything by max_time; to keep the obligations linear that variant is proved
    # for concrete horizons (the default 480 and a second one), every other parameter staying symbolic
    M = u.scalar("max_time", "f") if max_time is None else zreal(max_time)
    u.requires(AND(dmin >= 1, dmin <= dmax, lmin <= lmax, cap > 0, M > 0))
    gen = u.obj(TWG, "CVRPTWGenerator", num_loc=N, capacity=cap, min_demand=dmin, max_demand=dmax, max_time=M if max_time is None else max_time, min_time=0.0, scale=scale, min_loc=lmin, max_loc=lmax,
                loc_sampler=_sampler(u, "loc", lmin, lmax), depot_sampler=_sampler(u, "depot", lmin, lmax),
                demand_sampler=_sampler(u, "dem", z3.ToReal(dmin - 1), z3.ToReal(dmax - 1)))
    u.inline((CVG, "CVRPGenerator._generate"))
    td = u.run(TWG, "CVRPTWGenerator._generate", [B], selfobj=gen, record=False, asserts="record")
    b, i = u.idx((B,), "b"), u.idx((N,), "i")
    tw, dur = td["time_windows"], td["durations"]
    un = (lambda v: _unscale(v, M)) if scale else (lambda v: v)     # with scale=True everything is expressed in units of max_time
    same_tensor(u, "tw.shape", tw, (B, N + 1, 2), lambda *I: tw.at(*I))
    same_tensor(u, "durations.shape", dur, (B, N + 1), lambda *I: dur.at(*I))
    j = u.idx((N + 1,), "j")
    u.prove("durations-zero", dur.at(b, j) == 0)
    u.prove("tw.depot", AND(tw.at(b, 0, 0) == 0, un(tw.at(b, 0, 1)) == z3.ToInt(M)))
    if scale:
        u.prove("scaled.windows-are-the-unscaled-ones-over-max_time",
                AND(un(tw.at(b, j, 0)) / M == tw.at(b, j, 0), un(tw.at(b, j, 1)) / M == tw.at(b, j, 1)))
    # the generator's own final assert (an instance violating it is never emitted), used at (b, j) and at customer i
    u.asserted("Please make sure", b, j)
    u.asserted("Please make sure", b, i + 1)
    u.prove("tw.ordered", tw.at(b, j, 0) < tw.at(b, j, 1))
    real = lambda v: z3.ToReal(v) if v.sort() == z3.IntSort() else v     # (unscaled windows are integer tensors)
    lo, hi = real(un(tw.at(b, i + 1, 0))), real(un(tw.at(b, i + 1, 1)))
    # distance depot -> customer in the UNSCALED coordinates the windows were built from
    dep, loc = gen._attrs["depot_sampler"].drawn[0], gen._attrs["loc_sampler"].drawn[0]
    d = ops.NORM2(dep.at(b, 0) - loc.at(b, i, 0), dep.at(b, 1) - loc.at(b, i, 1))
    feas = 2 * d <= M                                                # a round trip fits at all
    u.prove("tw.customer-ordered", lo < hi, assume=True)
    u.prove("lemma.distance-nonnegative", d >= 0, assume=True)
    # (non-linear step made explicit: a draw in [0, 1) times the non-negative slack max_time - 2 d stays inside [0, slack])
    rands = [fn for name, (fn, shp, dt) in u.ctx.inputs.items() if "rand" in name and len(shp) == 2]
    for n_, r in enumerate(rands):
        x = r(b, i + 1)
        u.prove(f"lemma.draw{n_ + 1}-in-range", AND(x >= 0, x < 1), assume=True)
        u.prove(f"lemma.slack-times-draw{n_ + 1}-in-range", IMPL(feas, AND((M - 2 * d) * x >= 0, (M - 2 * d) * x <= M - 2 * d)), assume=True, algebra_only=True)
        y = d + (M - 2 * d) * x                                      # the raw window end-point before truncation: inside [d, max_time - d]
        u.prove(f"lemma.truncated-endpoint{n_ + 1}-in-range", IMPL(feas, AND(z3.ToInt(y) >= z3.ToInt(d), z3.ToReal(z3.ToInt(y)) <= M - d, y >= 0)), assume=True, algebra_only=True)
    u.prove("tw.integer-valued", AND(z3.ToReal(z3.ToInt(lo)) == lo, z3.ToReal(z3.ToInt(hi)) == hi), assume=True)
    u.prove("tw.opens-not-before-depot-distance-floor", IMPL(feas, lo >= z3.ToReal(z3.ToInt(d))), assume=True)
    u.prove("tw.leaves-time-to-return", IMPL(feas, hi + d <= M))
    # integers lo < hi with lo >= floor(d): hi >= floor(d) + 1 > d
    u.prove("tw.reachable-before-close", IMPL(feas, d < hi), algebra_only=True)
    u.canary("tw.leaves-time-to-return-even-if-infeasible", hi + d <= M)
    if scale:
        c = u.idx((2,), "c")
        u.prove("scaled.coordinates", AND(td["locs"].at(b, i, c) * M == loc.at(b, i, c), td["depot"].at(b, c) * M == dep.at(b, c)))


@unit("cvrptw.generator.generate", file=TWG, func="CVRPTWGenerator._generate", props=("C18",))
def _(u):
    _cvrptw_generate(u, False)


@unit("cvrptw.generator.generate.scaled", file=TWG, func="CVRPTWGenerator._generate", props=("C18",))
def _(u):
    # scale=True, ANY max_time, relationally: on the same draws the scaled generator emits exactly the unscaled instance with
    # windows, durations and coordinates divided by max_time (so every clause of the unit above carries over in units of
    # max_time); demands and capacity are untouched
    from tvc import methods

    B, N = u.dims("B N")
    cap = u.scalar("capacity", "f")
    dmin, dmax = u.scalar("min_demand", "i"), u.scalar("max_demand", "i")
    lmin, lmax = u.scalar("min_loc", "f"), u.scalar("max_loc", "f")
    M = u.scalar("max_time", "f")
    u.requires(AND(dmin >= 1, dmin <= dmax, lmin <= lmax, cap > 0, M > 0))
    S = dict(loc_sampler=_sampler(u, "loc", lmin, lmax), depot_sampler=_sampler(u, "depot", lmin, lmax),
             demand_sampler=_sampler(u, "dem", z3.ToReal(dmin - 1), z3.ToReal(dmax - 1)))
    kw = dict(num_loc=N, capacity=cap, min_demand=dmin, max_demand=dmax, max_time=M, min_time=0.0, min_loc=lmin, max_loc=lmax)
    g1 = u.obj(TWG, "CVRPTWGenerator", scale=False, **kw, **S)
    g2 = u.obj(TWG, "CVRPTWGenerator", scale=True, **kw, **{k_: _sampler(u, k_, None, None, replay=v) for k_, v in S.items()})
    u.inline((CVG, "CVRPGenerator._generate"))
    r0 = methods._RAND[0]
    td1 = u.run(TWG, "CVRPTWGenerator._generate", [B], selfobj=g1, record=False, asserts="record")
    methods._RAND[0] = r0                                            # torch.rand returns the same draws in the second run
    td2 = u.run(TWG, "CVRPTWGenerator._generate", [B], selfobj=g2, record=False, asserts="record")
    b, i, j, c = u.idx((B,), "b"), u.idx((N,), "i"), u.idx((N + 1,), "j"), u.idx((2,), "c")
    same_tensor(u, "scaled.tw.shape", td2["time_windows"], (B, N + 1, 2), lambda *I: td2["time_windows"].at(*I))
    u.prove("scaled.windows", td2["time_windows"].at(b, j, c) == z3.ToReal(td1["time_windows"].at(b, j, c)) / M)
    u.prove("scaled.durations", td2["durations"].at(b, j) == td1["durations"].at(b, j) / M)
    u.prove("scaled.coordinates", AND(td2["locs"].at(b, i, c) == td1["locs"].at(b, i, c) / M, td2["depot"].at(b, c) == td1["depot"].at(b, c) / M))
    u.prove("scaled.demand-untouched", AND(td2["demand"].at(b, i) == td1["demand"].at(b, i), td2["capacity"].at(b, 0) == td1["capacity"].at(b, 0)))
    u.prove("scaled.windows-are-floats", td2["time_windows"].dtype == "f")
    u.canary("scaled.windows-unchanged", td2["time_windows"].at(b, j, c) == z3.ToReal(td1["time_windows"].at(b, j, c)))


# ---------------------------------------------------------------------------------------------
# the plain routing generators: documented shapes and ranges for EVERY draw of the samplers (A10)
# ---------------------------------------------------------------------------------------------
def _locs_in_range(u, p, td, B, N, lmin, lmax, depot=True):
    b, i, c = u.idx((B,), "b"), u.idx((N,), "i"), u.idx((2,), "c")
    want = AND(shape_is(td["locs"], (B, N, 2)), tuple(td.batch_size) == (B,))
    rng = AND(td["locs"].at(b, i, c) >= lmin, td["locs"].at(b, i, c) <= lmax)
    if depot:
        want = AND(want, shape_is(td["depot"], (B, 2)))
        rng = AND(rng, td["depot"].at(b, c) >= lmin, td["depot"].at(b, c) <= lmax)
    u.prove(p + "shapes", want)
    u.prove(p + "locs-in-range", rng)
    u.canary(p + "locs-strictly-inside", td["locs"].at(b, i, c) > lmin)
    return b, i, c


def _loc_variants(u, lmin, lmax):
    for variant in ("depot-sampler", "depot-from-locs"):
        yield variant + ".", dict(loc_sampler=_sampler(u, f"{variant}.loc", lmin, lmax),
                                  depot_sampler=_sampler(u, f"{variant}.depot", lmin, lmax) if variant == "depot-sampler" else None)


TSG = "rl4co/envs/routing/tsp/generator.py"


@unit("tsp.generator.generate", file=TSG, func="TSPGenerator._generate", props=("C18",))
def _(u):
    B, N = u.dims("B N")
    lmin, lmax = u.scalar("min_loc", "f"), u.scalar("max_loc", "f")
    u.requires(lmin <= lmax)
    gen = u.obj(TSG, "TSPGenerator", num_loc=N, loc_sampler=_sampler(u, "loc", lmin, lmax))
    td = u.run(TSG, "TSPGenerator._generate", [B], selfobj=gen, record=False)
    _locs_in_range(u, "", td, B, N, lmin, lmax, depot=False)
    u.prove("keys", sorted(td.keys()) == ["locs"])


PDG = "rl4co/envs/routing/pdp/generator.py"


@unit("pdp.generator.generate", file=PDG, func="PDPGenerator._generate", props=("C18",))
def _(u):
    B, N = u.dims("B N")
    lmin, lmax = u.scalar("min_loc", "f"), u.scalar("max_loc", "f")
    u.requires(lmin <= lmax)
    for p, samplers in _loc_variants(u, lmin, lmax):
        gen = u.obj(PDG, "PDPGenerator", num_loc=N, **samplers)
        td = u.run(PDG, "PDPGenerator._generate", [B], selfobj=gen, record=False)
        _locs_in_range(u, p, td, B, N, lmin, lmax)
        u.prove(p + "keys", sorted(td.keys()) == ["depot", "locs"])


@unit("pdp.generator.init.even", file=PDG, func="PDPGenerator.__init__", props=("C18",))
def _(u):
    # pickups and deliveries are paired (node i picks up for node i + num_loc / 2): an odd size is rounded up to the next even one
    s = u.ns(sample=lambda shape: None)
    for n, want in ((20, 20), (21, 22), (1, 2), (50, 50)):
        g = u.obj(PDG, "PDPGenerator")
        u.run(PDG, "PDPGenerator.__init__", n, selfobj=g, record=False, loc_sampler=s, depot_sampler=s)
        u.prove(f"init.num_loc{n}.even", g._attrs["num_loc"] == want, note=f"got {g._attrs['num_loc']!r}")


OPG = "rl4co/envs/routing/op/generator.py"


def _op_generate(u, prize_type, variants=("depot-sampler", "depot-from-locs")):
    B, N = u.dims("B N")
    lmin, lmax = u.scalar("min_loc", "f"), u.scalar("max_loc", "f")
    L = u.scalar("max_length", "f")
    u.requires(AND(lmin <= lmax, L > 0))
    for variant in variants:
        p = variant + "."
        if variant == "depot-sampler":
            dep_t, loc_t = u.tensor(p + "depot", (B, 2), "f"), u.tensor(p + "loc", (B, N, 2), "f")
            dep, loc = (lambda b, c: dep_t.at(b, c)), (lambda b, i, c: loc_t.at(b, i, c))
            samplers = dict(loc_sampler=_sampler(u, p + "loc", lmin, lmax, preset=[loc_t]), depot_sampler=_sampler(u, p + "depot", lmin, lmax, preset=[dep_t]))
        else:
            all_t = u.tensor(p + "loc", (B, N + 1, 2), "f")
            dep, loc = (lambda b, c: all_t.at(b, 0, c)), (lambda b, i, c: all_t.at(b, zint(i) + 1, c))
            samplers = dict(loc_sampler=_sampler(u, p + "loc", lmin, lmax, preset=[all_t]), depot_sampler=None)
        if prize_type == "dist":
            # some customer is off the depot (the real code divides by the largest depot distance; a measure-zero event, A10)
            u.requires(u.forall((B,), lambda b: u.exists((N,), lambda i: OR(loc(b, i, 0) != dep(b, 0), loc(b, i, 1) != dep(b, 1)))))
        gen = u.obj(OPG, "OPGenerator", num_loc=N, prize_type=prize_type, max_length=L, device="cpu", **samplers)
        td = u.run(OPG, "OPGenerator._generate", [B], selfobj=gen, record=False)
        b, i, c = _locs_in_range(u, p, td, B, N, lmin, lmax)
        u.prove(p + "locs-are-the-draws", AND(td["locs"].at(b, i, c) == loc(b, i, c), td["depot"].at(b, c) == dep(b, c)))
        pz = td["prize"].at(b, i)
        u.prove(p + "prize.shape", AND(shape_is(td["prize"], (B, N)), td["prize"].dtype == "f"))
        if prize_type == "const":
            u.prove(p + "prize.const-one", pz == 1)
        else:
            # a whole number of hundredths between 1/100 and 100/100 (for "dist": whenever some customer is off the depot)
            k = z3.ToInt(pz * 100)
            u.prove(p + "prize.hundredths-in-range", AND(pz * 100 == z3.ToReal(k), k >= 1, k <= 100))
            if prize_type == "unif":
                u.canary(p + "prize.below-one", pz < 1)
        u.prove(p + "max_length", AND(shape_is(td["max_length"], (B,)), td["max_length"].at(b) == L))
        u.prove(p + "keys", sorted(td.keys()) == ["depot", "locs", "max_length", "prize"])


for _pt in ("const", "unif"):
    unit(f"op.generator.generate.{_pt}", file=OPG, func="OPGenerator._generate", props=("C18",))(lambda u, _pt=_pt: _op_generate(u, _pt))
for _v in ("depot-sampler", "depot-from-locs"):
    unit(f"op.generator.generate.dist.{_v}", file=OPG, func="OPGenerator._generate", props=("C18",))(lambda u, _v=_v: _op_generate(u, "dist", (_v,)))


PCG = "rl4co/envs/routing/pctsp/generator.py"


@unit("pctsp.generator.generate", file=PCG, func="PCTSPGenerator._generate", props=("C18",))
def _(u):
    B, N = u.dims("B N")
    lmin, lmax = u.scalar("min_loc", "f"), u.scalar("max_loc", "f")
    pmax, dmax = u.scalar("penalty_max", "f"), u.scalar("prize_max", "f")
    u.requires(AND(lmin <= lmax, pmax >= 0, dmax >= 0))
    for p, samplers in _loc_variants(u, lmin, lmax):
        gen = u.obj(PCG, "PCTSPGenerator", num_loc=N, penalty_sampler=_sampler(u, p + "pen", zreal(0), pmax),
                    deterministic_prize_sampler=_sampler(u, p + "det", zreal(0), dmax),
                    stochastic_prize_sampler=_sampler(u, p + "sto", zreal(0), zreal(2)), **samplers)
        td = u.run(PCG, "PCTSPGenerator._generate", [B], selfobj=gen, record=False)
        b, i, c = _locs_in_range(u, p, td, B, N, lmin, lmax)
        pen, det, sto = (td[k].at(b, i) for k in ("penalty", "deterministic_prize", "stochastic_prize"))
        u.prove(p + "shapes.node-features", AND(*[shape_is(td[k], (B, N)) for k in ("penalty", "deterministic_prize", "stochastic_prize")]))
        u.prove(p + "penalty-in-range", AND(pen >= 0, pen <= pmax))
        u.prove(p + "expected-prize-in-range", AND(det >= 0, det <= dmax))
        # the revealed prize lies in [0, 2 * expected prize] (a draw in [0, 2] times the expected prize of THAT node)
        u.prove(p + "stochastic-prize-within-twice-expected", AND(sto >= 0, sto <= 2 * det))
        u.prove(p + "keys", sorted(td.keys()) == ["depot", "deterministic_prize", "locs", "penalty", "stochastic_prize"])
        u.canary(p + "stochastic-prize-at-most-expected", sto <= det)


MSG = "rl4co/envs/routing/mtsp/generator.py"


@unit("mtsp.generator.generate", file=MSG, func="MTSPGenerator._generate", props=("C18",))
def _(u):
    B, N = u.dims("B N")
    lmin, lmax = u.scalar("min_loc", "f"), u.scalar("max_loc", "f")
    amin, amax = u.scalar("min_num_agents", "i"), u.scalar("max_num_agents", "i")
    u.requires(AND(lmin <= lmax, amin >= 1, amin <= amax))
    gen = u.obj(MSG, "MTSPGenerator", num_loc=N, min_num_agents=amin, max_num_agents=amax, loc_sampler=_sampler(u, "loc", lmin, lmax))
    td = u.run(MSG, "MTSPGenerator._generate", [B], selfobj=gen, record=False)
    b, i, c = _locs_in_range(u, "", td, B, N, lmin, lmax, depot=False)
    u.prove("num_agents", AND(shape_is(td["num_agents"], (B,)), td["num_agents"].dtype == "i",
                              td["num_agents"].at(b) >= amin, td["num_agents"].at(b) <= amax))
    u.prove("keys", sorted(td.keys()) == ["locs", "num_agents"])
    u.canary("num_agents-below-max", td["num_agents"].at(b) < amax)


SVG = "rl4co/envs/routing/svrp/generator.py"


@unit("svrp.generator.generate", file=SVG, func="SVRPGenerator._generate", props=("C18",))
def _(u):
    B, N = u.dims("B N")
    lmin, lmax = u.scalar("min_loc", "f"), u.scalar("max_loc", "f")
    smin, smax = u.scalar("min_skill", "f"), u.scalar("max_skill", "f")
    u.requires(AND(lmin <= lmax, smin >= 0, smin <= smax))
    K = 3                                                            # technicians (len(tech_costs); python list: concrete)
    for p, samplers in _loc_variants(u, lmin, lmax):
        gen = u.obj(SVG, "SVRPGenerator", num_loc=N, num_tech=K, min_skill=smin, max_skill=smax, **samplers)
        td = u.run(SVG, "SVRPGenerator._generate", [B], selfobj=gen, record=False)
        b, i, c = _locs_in_range(u, p, td, B, N, lmin, lmax)
        k = u.idx((K,), "k")
        k2 = u.idx((K - 1,), "k2")
        techs, skills = td["techs"], td["skills"]
        u.prove(p + "shapes.skills", AND(shape_is(techs, (B, K, 1)), shape_is(skills, (B, N, 1))))
        u.prove(p + "techs.in-range", AND(techs.at(b, k, 0) >= smin, techs.at(b, k, 0) <= smax))
        u.prove(p + "techs.sorted-ascending", techs.at(b, k2, 0) <= techs.at(b, k2 + 1, 0))
        # solvable: the most skilled technician (the last one) can serve every customer
        u.prove(p + "skills.servable-by-best-technician", AND(skills.at(b, i, 0) >= 0, skills.at(b, i, 0) <= techs.at(b, K - 1, 0)))
        u.prove(p + "keys", sorted(td.keys()) == ["depot", "locs", "skills", "techs"])
        u.canary(p + "skills.servable-by-least-skilled", skills.at(b, i, 0) <= techs.at(b, 0, 0))


MDG = "rl4co/envs/routing/mdcpdp/generator.py"


def _mdcpdp_generate(u, depot_mode):
    B, N, D = u.dims("B N D")
    lmin, lmax = u.scalar("min_loc", "f"), u.scalar("max_loc", "f")
    cmin, cmax = u.scalar("min_capacity", "i"), u.scalar("max_capacity", "i")
    wmin, wmax = u.scalar("min_lateness_weight", "f"), u.scalar("max_lateness_weight", "f")
    u.requires(AND(lmin <= lmax, cmin >= 1, cmin <= cmax, wmin <= wmax))
    gen = u.obj(MDG, "MDCPDPGenerator", num_loc=N, num_depot=D, depot_mode=depot_mode, min_capacity=cmin, max_capacity=cmax,
                loc_sampler=_sampler(u, "loc", lmin, lmax), depot_sampler=_sampler(u, "depot", lmin, lmax),
                lateness_weight_sampler=_sampler(u, "lw", wmin, wmax))
    td = u.run(MDG, "MDCPDPGenerator._generate", [B], selfobj=gen, record=False)
    b, i, c = _locs_in_range(u, "", td, B, N, lmin, lmax, depot=False)
    d = u.idx((D,), "d")
    u.prove("shapes", AND(shape_is(td["depot"], (B, D, 2)), shape_is(td["capacity"], (B, 1)), shape_is(td["lateness_weight"], (B, 1))))
    u.prove("depots-in-range", AND(td["depot"].at(b, d, c) >= lmin, td["depot"].at(b, d, c) <= lmax))
    if depot_mode == "single":
        u.prove("single-depot-repeated", td["depot"].at(b, d, c) == td["depot"].at(b, 0, c))
    u.prove("capacity-in-range", AND(td["capacity"].dtype == "i", td["capacity"].at(b, 0) >= cmin, td["capacity"].at(b, 0) <= cmax))
    u.prove("lateness-weight-in-range", AND(td["lateness_weight"].at(b, 0) >= wmin, td["lateness_weight"].at(b, 0) <= wmax))
    u.prove("keys", sorted(td.keys()) == ["capacity", "depot", "lateness_weight", "locs"])
    u.canary("capacity-below-max", td["capacity"].at(b, 0) < cmax)


for _m in ("single", "multiple"):
    unit(f"mdcpdp.generator.generate.{_m}", file=MDG, func="MDCPDPGenerator._generate", props=("C18",))(lambda u, _m=_m: _mdcpdp_generate(u, _m))


SMG = "rl4co/envs/scheduling/smtwtp/generator.py"


@unit("smtwtp.generator.generate", file=SMG, func="SMTWTPGenerator._generate", props=("C18",))
def _(u):
    B, N = u.dims("B N")
    names = ("time_span", "job_weight", "process_time")
    lo = {n: u.scalar("min_" + n, "f") for n in names}
    hi = {n: u.scalar("max_" + n, "f") for n in names}
    u.requires(AND(*[AND(lo[n] >= 0, lo[n] <= hi[n]) for n in names]))
    gen = u.obj(SMG, "SMTWTPGenerator", num_job=N, **{"min_" + n: lo[n] for n in names}, **{"max_" + n: hi[n] for n in names})
    for bs in ("list", "int"):
        td = u.run(SMG, "SMTWTPGenerator._generate", [B] if bs == "list" else B, selfobj=gen, record=False)
        b, j = u.idx((B,), "b"), u.idx((N,), "j")
        for key, n in (("job_due_time", "time_span"), ("job_weight", "job_weight"), ("job_process_time", "process_time")):
            t = td[key]
            u.prove(f"{bs}.{key}", AND(shape_is(t, (B, N + 1)), t.at(b, 0) == 0, t.at(b, j + 1) >= lo[n], t.at(b, j + 1) <= hi[n]))
        u.prove(f"{bs}.keys", AND(sorted(td.keys()) == ["job_due_time", "job_process_time", "job_weight"], tuple(td.batch_size) == (B,)))
    u.canary("dummy-job-has-weight", td["job_weight"].at(b, 0) > 0)


FLG = "rl4co/envs/graph/flp/generator.py"


@unit("flp.generator.generate", file=FLG, func="FLPGenerator._generate", props=("C18",))
def _(u):
    B, N = u.dims("B N")
    lmin, lmax = u.scalar("min_loc", "f"), u.scalar("max_loc", "f")
    K = u.scalar("to_choose", "i")
    u.requires(AND(lmin <= lmax, K >= 1))
    gen = u.obj(FLG, "FLPGenerator", num_loc=N, min_loc=lmin, max_loc=lmax, to_choose=K, loc_sampler=_sampler(u, "loc", lmin, lmax))
    td = u.run(FLG, "FLPGenerator._generate", [B], selfobj=gen, record=False)
    b, i, c = _locs_in_range(u, "", td, B, N, lmin, lmax, depot=False)
    i2 = u.idx((N,), "i2")
    locs = td["locs"]
    u.prove("shapes", AND(shape_is(td["orig_distances"], (B, N, N)), shape_is(td["distances"], (B, N)), shape_is(td["chosen"], (B, N)),
                          shape_is(td["to_choose"], (B,)), td["chosen"].dtype == "b", td["to_choose"].dtype == "i"))
    u.prove("orig_distances-are-the-pairwise-distances", td["orig_distances"].at(b, i, i2) == ops.NORM2(locs.at(b, i, 0) - locs.at(b, i2, 0), locs.at(b, i, 1) - locs.at(b, i2, 1)))
    u.prove("nothing-chosen-yet", AND(NOT(td["chosen"].at(b, i)), td["to_choose"].at(b) == K))
    u.canary("something-chosen", td["chosen"].at(b, i))


# ---------------------------------------------------------------------------------------------
# MTVRP: demands, distance limit, variant sub-sampling defaults and the assembled instance
# ---------------------------------------------------------------------------------------------
def _mtvrp_gen(u, N, **kw):
    dmin, dmax = u.scalar("min_demand", "i"), u.scalar("max_demand", "i")
    bmin, bmax = u.scalar("min_backhaul", "i"), u.scalar("max_backhaul", "i")
    ratio = u.scalar("backhaul_ratio", "f")
    u.requires(AND(dmin >= 1, dmin <= dmax, bmin >= 1, bmin <= bmax))
    gen = u.obj(MTG, "MTVRPGenerator", num_loc=N, min_demand=dmin, max_demand=dmax, min_backhaul=bmin, max_backhaul=bmax, backhaul_ratio=ratio, **kw)
    return gen, (dmin, dmax, bmin, bmax)


@unit("mtvrp.generator.demands", file=MTG, func="MTVRPGenerator.generate_demands", props=("C18",))
def _(u):
    B, N = u.dims("B N")
    gen, (dmin, dmax, bmin, bmax) = _mtvrp_gen(u, N)
    lh, bh = u.run(MTG, "MTVRPGenerator.generate_demands", [B], N, selfobj=gen, record=False)
    b, i = u.idx((B,), "b"), u.idx((N,), "i")
    u.prove("shapes", AND(shape_is(lh, (B, N)), shape_is(bh, (B, N)), lh.dtype == "f", bh.dtype == "f"))
    l, h = lh.at(b, i), bh.at(b, i)
    kl, kh = z3.ToInt(l), z3.ToInt(h)
    # every customer is either a linehaul or a backhaul customer, never both, never neither; demands are whole numbers in range
    u.prove("exactly-one-kind", OR(AND(l > 0, h == 0), AND(l == 0, h > 0)))
    u.prove("linehaul-integer-in-range", IMPL(l > 0, AND(z3.ToReal(kl) == l, kl >= dmin, kl <= dmax)))
    u.prove("backhaul-integer-in-range", IMPL(h > 0, AND(z3.ToReal(kh) == h, kh >= bmin, kh <= bmax)))
    u.canary("all-linehaul", h == 0)
    u.canary("all-backhaul", l == 0)


@unit("mtvrp.generator.distance_limit", file=MTG, func="MTVRPGenerator.generate_distance_limit", props=("C18",))
def _(u):
    B, N = u.dims("B N")
    L = u.scalar("distance_limit", "f")
    locs = u.tensor("locs", (B, N + 1, 2), "f")
    gen = u.obj(MTG, "MTVRPGenerator", distance_limit=L)
    out = u.run(MTG, "MTVRPGenerator.generate_distance_limit", (B, 1), locs, selfobj=gen, record=False, asserts="record")
    b, j = u.idx((B,), "b"), u.idx((N + 1,), "j")
    u.asserted("Distance limit too low", b, j, 0)
    d = ops.NORM2(locs.at(b, j, 0) - locs.at(b, 0, 0), locs.at(b, j, 1) - locs.at(b, 0, 1))
    u.prove("limit", AND(shape_is(out, (B, 1)), out.at(b, 0) == L))
    # an emitted instance (the generator's own assert passed) lets every node be served by an out-and-back route within the limit
    u.prove("every-node-reachable-out-and-back", 2 * d < out.at(b, 0))
    u.canary("limit-below-twice-the-distance", out.at(b, 0) <= 2 * d)


@unit("mtvrp.generator.defaults", file=MTG, func="MTVRPGenerator.subsample_problems", props=("C18",))
def _(u):
    # the four feature-removal helpers of subsample_problems: a removed feature takes its neutral value on exactly the flagged
    # instances (closed routes, windows [0, inf) and no service time, no distance limit, backhauls turned into linehauls), every
    # other instance and every other field stays as generated
    B, N = u.dims("B N")
    keys = dict(open_route=((B, 1), "b"), time_windows=((B, N + 1, 2), "f"), service_time=((B, N + 1), "f"), distance_limit=((B, 1), "f"),
                demand_linehaul=((B, N + 1), "f"), demand_backhaul=((B, N + 1), "f"))
    b, j, c = u.idx((B,), "b"), u.idx((N + 1,), "j"), u.idx((2,), "c")
    for fn, touched in (("_default_open", ("open_route",)), ("_default_time_window", ("time_windows", "service_time")),
                        ("_default_distance_limit", ("distance_limit",)), ("_default_backhaul", ("demand_linehaul", "demand_backhaul"))):
        ctx = cur()
        ctx.prefix = fn + "."
        td = u.td(B, **keys)
        remove = u.tensor("remove", (B,), "b")
        ctx.prefix = ""
        pre = u.snapshot(td)
        out = u.run(MTG, f"MTVRPGenerator.{fn}", td, remove, record=False)
        r = remove.at(b)
        p = fn + "."
        if fn == "_default_open":
            u.prove(p + "flag", out["open_route"].at(b, 0) == AND(pre["open_route"].at(b, 0), NOT(r)))
        elif fn == "_default_time_window":
            u.prove(p + "windows", out["time_windows"].at(b, j, c) == ite(r, ite(c == 0, zreal(0), ops.INF), pre["time_windows"].at(b, j, c)))
            u.prove(p + "service", out["service_time"].at(b, j) == ite(r, zreal(0), pre["service_time"].at(b, j)))
        elif fn == "_default_distance_limit":
            u.prove(p + "limit", out["distance_limit"].at(b, 0) == ite(r, ops.INF, pre["distance_limit"].at(b, 0)))
        else:
            lin, bak = pre["demand_linehaul"].at(b, j), pre["demand_backhaul"].at(b, j)
            u.prove(p + "linehaul", out["demand_linehaul"].at(b, j) == ite(r, lin + bak, lin))
            u.prove(p + "backhaul", out["demand_backhaul"].at(b, j) == ite(r, zreal(0), bak))
            u.prove(p + "total-demand-preserved", out["demand_linehaul"].at(b, j) + out["demand_backhaul"].at(b, j) == lin + bak)
        for k in keys:
            if k not in touched:
                idx = (b, j, c)[:len(keys[k][0])] if k != "open_route" and k != "distance_limit" else (b, 0)
                u.prove(p + f"untouched.{k}", out[k].at(*idx) == pre[k].at(*idx))
    u.canary("backhaul-always-removed", out["demand_backhaul"].at(b, j) == 0)


def _mtvrp_generate(u, scale_demand):
    B, N = u.dims("B N")
    lmin, lmax = u.scalar("min_loc", "f"), u.scalar("max_loc", "f")
    cap, M, L, speed = u.scalar("capacity", "f"), u.scalar("max_time", "f"), u.scalar("distance_limit", "f"), u.scalar("speed", "f")
    u.requires(AND(lmin <= lmax, cap > 0, M > 0, speed > 0))
    gen, (dmin, dmax, bmin, bmax) = _mtvrp_gen(u, N, min_loc=lmin, max_loc=lmax, capacity=cap, max_time=M, distance_limit=L, speed=speed,
                                               scale_demand=scale_demand, subsample=False)
    # customers do not coincide with the depot (generate_time_windows divides by the depot distance; a measure-zero event, A10):
    # stated on the draw of the locations when it is made (the [B, N + 1, 2] uniform draw, wherever it comes in the order of draws)
    loc_draws = []

    def on_draw(kind, d):
        if len(d.shape) == 3 and isinstance(d.shape[2], int) and d.shape[2] == 2:
            loc_draws.append(d)
            ds = d.snap()
            ops.assume_forall((B, N), lambda I: OR(ds((I[0], 0, 0)) != ds((I[0], zint(I[1]) + 1, 0)), ds((I[0], 0, 1)) != ds((I[0], zint(I[1]) + 1, 1))))

    u.ctx.draw_hooks = [on_draw]
    u.inline(*[(MTG, "MTVRPGenerator." + f) for f in ("generate_locations", "generate_demands", "generate_open_route", "generate_speed",
                                                      "generate_time_windows", "generate_distance_limit")])
    td = u.run(MTG, "MTVRPGenerator._generate", [B], selfobj=gen, record=False, asserts="record")
    b, i, j, c = u.idx((B,), "b"), u.idx((N,), "i"), u.idx((N + 1,), "j"), u.idx((2,), "c")
    u.prove("keys", sorted(td.keys()) == sorted(["locs", "demand_backhaul", "demand_linehaul", "distance_limit", "time_windows", "service_time",
                                                 "vehicle_capacity", "capacity_original", "open_route", "speed"]))
    u.prove("shapes", AND(shape_is(td["locs"], (B, N + 1, 2)), shape_is(td["demand_linehaul"], (B, N + 1)), shape_is(td["demand_backhaul"], (B, N + 1)),
                          shape_is(td["time_windows"], (B, N + 1, 2)), shape_is(td["service_time"], (B, N + 1)), tuple(td.batch_size) == (B,),
                          *[shape_is(td[k], (B, 1)) for k in ("distance_limit", "vehicle_capacity", "capacity_original", "open_route", "speed")]))
    u.prove("locs-in-range", AND(td["locs"].at(b, j, c) >= lmin, td["locs"].at(b, j, c) <= lmax))
    u.prove("locs-are-the-location-draw", len(loc_draws) == 1 and td["locs"].at(b, j, c) == loc_draws[0].at(b, j, c))
    u.prove("depot-has-no-demand", AND(td["demand_linehaul"].at(b, 0) == 0, td["demand_backhaul"].at(b, 0) == 0))
    un = (lambda v: _unscale(v, cap)) if scale_demand else (lambda v: v)
    l, h = un(td["demand_linehaul"].at(b, i + 1)), un(td["demand_backhaul"].at(b, i + 1))       # in demand units
    if scale_demand:
        u.prove("scaled.demands-are-fractions-of-capacity", AND(td["demand_linehaul"].at(b, i + 1) == l / cap, td["demand_backhaul"].at(b, i + 1) == h / cap))
    kl, kh = z3.ToInt(l), z3.ToInt(h)
    u.prove("customer.exactly-one-kind", OR(AND(l > 0, h == 0), AND(l == 0, h > 0)))
    u.prove("customer.linehaul-integer-in-range", IMPL(l > 0, AND(z3.ToReal(kl) == l, kl >= dmin, kl <= dmax)))
    u.prove("customer.backhaul-integer-in-range", IMPL(h > 0, AND(z3.ToReal(kh) == h, kh >= bmin, kh <= bmax)))
    u.prove("capacity", AND(td["capacity_original"].at(b, 0) == cap, td["vehicle_capacity"].at(b, 0) == (zreal(1) if scale_demand else cap)))
    # a single customer always fits into an empty vehicle whenever the largest possible demand does
    u.prove("customer.fits-alone", IMPL(AND(z3.ToReal(dmax) <= cap, z3.ToReal(bmax) <= cap),
                                        AND(td["demand_linehaul"].at(b, i + 1) <= td["vehicle_capacity"].at(b, 0), td["demand_backhaul"].at(b, i + 1) <= td["vehicle_capacity"].at(b, 0))))
    u.prove("all-features-on", AND(td["open_route"].at(b, 0), td["speed"].at(b, 0) == speed, td["distance_limit"].at(b, 0) == L))
    u.asserted("Distance limit too low", b, j, 0)
    d = ops.NORM2(td["locs"].at(b, j, 0) - td["locs"].at(b, 0, 0), td["locs"].at(b, j, 1) - td["locs"].at(b, 0, 1))
    u.prove("every-node-reachable-out-and-back", 2 * d < td["distance_limit"].at(b, 0))
    u.prove("depot-window", AND(td["time_windows"].at(b, 0, 0) == 0, td["time_windows"].at(b, 0, 1) == M, td["service_time"].at(b, 0) == 0))
    u.canary("customer.demand-below-capacity-unconditionally", td["demand_linehaul"].at(b, i + 1) <= td["vehicle_capacity"].at(b, 0))


for _s in (True, False):
    unit("mtvrp.generator.generate." + ("scaled" if _s else "unscaled"), file=MTG, func="MTVRPGenerator._generate", props=("C18",))(lambda u, _s=_s: _mtvrp_generate(u, _s))


def _mtvrp_preset(u, preset):
    """subsample_problems for a named single-variant preset: the features of the variant are kept on EVERY instance, all others
    are neutralised on every instance (closed routes, windows [0, inf) / no service time, no limit, backhauls turned into linehauls)."""
    B, N = u.dims("B N")
    probs = {"cvrp": (0, 0, 0, 0), "ovrp": (1, 0, 0, 0), "vrpb": (0, 0, 0, 1), "vrpl": (0, 0, 1, 0), "vrptw": (0, 1, 0, 0), "ovrptw": (1, 1, 0, 0),
             "ovrpb": (1, 0, 0, 1), "ovrpl": (1, 0, 1, 0), "vrpbl": (0, 0, 1, 1), "vrpbtw": (0, 1, 0, 1), "vrpltw": (0, 1, 1, 0), "ovrpbl": (1, 0, 1, 1),
             "ovrpbtw": (1, 1, 0, 1), "ovrpltw": (1, 1, 1, 0), "vrpbltw": (0, 1, 1, 1), "ovrpbltw": (1, 1, 1, 1)}[preset]
    vp = dict(zip(("O", "TW", "L", "B"), (float(x) for x in probs)))
    gen = u.obj(MTG, "MTVRPGenerator", variant_probs=vp, variant_preset=preset, use_combinations=False)
    td = u.td(B, open_route=((B, 1), "b"), time_windows=((B, N + 1, 2), "f"), service_time=((B, N + 1), "f"), distance_limit=((B, 1), "f"),
              demand_linehaul=((B, N + 1), "f"), demand_backhaul=((B, N + 1), "f"))
    pre = u.snapshot(td)
    u.inline(*[(MTG, "MTVRPGenerator." + f) for f in ("_default_open", "_default_time_window", "_default_distance_limit", "_default_backhaul")])
    out = u.run(MTG, "MTVRPGenerator.subsample_problems", td, selfobj=gen, record=False)
    b, j, c = u.idx((B,), "b"), u.idx((N + 1,), "j"), u.idx((2,), "c")
    O, TW, L, Bk = probs
    u.prove("open", out["open_route"].at(b, 0) == (pre["open_route"].at(b, 0) if O else False))
    u.prove("windows", AND(out["time_windows"].at(b, j, c) == (pre["time_windows"].at(b, j, c) if TW else ite(c == 0, zreal(0), ops.INF)),
                           out["service_time"].at(b, j) == (pre["service_time"].at(b, j) if TW else zreal(0))))
    u.prove("limit", out["distance_limit"].at(b, 0) == (pre["distance_limit"].at(b, 0) if L else ops.INF))
    lin, bak = pre["demand_linehaul"].at(b, j), pre["demand_backhaul"].at(b, j)
    u.prove("backhaul", AND(out["demand_backhaul"].at(b, j) == (bak if Bk else zreal(0)), out["demand_linehaul"].at(b, j) == (lin if Bk else lin + bak)))
    u.canary("limit-always-kept", out["distance_limit"].at(b, 0) == pre["distance_limit"].at(b, 0)) if not L else u.canary("limit-always-removed", out["distance_limit"].at(b, 0) == ops.INF)


for _p in ("ovrp", "vrpb", "vrpl", "vrptw", "ovrptw", "vrpbltw", "ovrpbltw"):
    unit(f"mtvrp.generator.subsample.{_p}", file=MTG, func="MTVRPGenerator.subsample_problems", props=("C18",))(lambda u, _p=_p: _mtvrp_preset(u, _p))


FJG = "rl4co/envs/scheduling/fjsp/generator.py"


def _fjsp_gen(u, M, same_mean=False, **kw):
    pmin, pmax = u.scalar("min_processing_time", "i"), u.scalar("max_processing_time", "i")
    u.requires(AND(pmin >= 1, pmin <= pmax))
    return u.obj(FJG, "FJSPGenerator", num_mas=M, min_processing_time=pmin, max_processing_time=pmax, same_mean_per_op=same_mean, **kw), pmin, pmax


@unit("fjsp.generator.processing_times", file=FJG, func="FJSPGenerator._simulate_processing_times", props=("C18",))
def _(u):
    B, O = u.dims("B O")
    M = 3                                                            # machines (the shuffled axis: concrete; batch, operations symbolic)
    gen, pmin, pmax = _fjsp_gen(u, M)
    n_el = u.tensor("n_eligible_per_ops", (B, O), "i")
    u.requires(u.forall((B, O), lambda b, o: AND(n_el.at(b, o) >= 0, n_el.at(b, o) <= M)))
    pt = u.run(FJG, "FJSPGenerator._simulate_processing_times", n_el, selfobj=gen, record=False)
    b, o, m = u.idx((B,), "b"), u.idx((O,), "o"), u.idx((M,), "m")
    u.prove("shape", shape_is(pt, (B, M, O)))
    u.prove("times-zero-or-in-range", OR(pt.at(b, m, o) == 0, AND(pt.at(b, m, o) >= pmin, pt.at(b, m, o) <= pmax)))
    # every operation that was given at least one eligible machine can be processed somewhere; padded operations (0 eligible) nowhere
    u.prove("eligible-somewhere", IMPL(n_el.at(b, o) >= 1, u.exists((M,), lambda m2: pt.at(b, m2, o) > 0)))
    u.prove("padded-nowhere", IMPL(n_el.at(b, o) == 0, pt.at(b, m, o) == 0))
    u.prove("fully-flexible-everywhere", IMPL(n_el.at(b, o) == M, pt.at(b, m, o) > 0))
    u.canary("eligible-on-machine-0", IMPL(n_el.at(b, o) >= 1, pt.at(b, 0, o) > 0))


@unit("fjsp.generator.generate", file=FJG, func="FJSPGenerator._generate", props=("C18",))
def _(u):
    B, J, O = u.dims("B J O")
    M = 3
    omin, omax = u.scalar("min_ops_per_job", "i"), u.scalar("max_ops_per_job", "i")
    emin, emax = u.scalar("min_eligible_ma_per_op", "i"), u.scalar("max_eligible_ma_per_op", "i")
    u.requires(AND(omin >= 1, omin <= omax, emin >= 1, emin <= emax, emax <= M))
    gen, pmin, pmax = _fjsp_gen(u, M, num_jobs=J, n_ops_max=O, min_ops_per_job=omin, max_ops_per_job=omax, min_eligible_ma_per_op=emin, max_eligible_ma_per_op=emax)
    u.inline((FJG, "FJSPGenerator._simulate_processing_times"))
    td = u.run(FJG, "FJSPGenerator._generate", [B], selfobj=gen, record=False)
    b, j, o, m = u.idx((B,), "b"), u.idx((J,), "j"), u.idx((O,), "o"), u.idx((M,), "m")
    j2 = u.idx((J - 1,), "j2")
    st, en, pt, pad = td["start_op_per_job"], td["end_op_per_job"], td["proc_times"], td["pad_mask"]
    u.prove("keys", sorted(td.keys()) == ["end_op_per_job", "pad_mask", "proc_times", "start_op_per_job"])
    u.prove("shapes", AND(shape_is(st, (B, J)), shape_is(en, (B, J)), shape_is(pt, (B, M, O)), shape_is(pad, (B, O)), st.dtype == "i", en.dtype == "i", pad.dtype == "b"))
    # jobs are consecutive, non-empty blocks of operations starting at operation 0
    u.prove("jobs.first-starts-at-zero", st.at(b, 0) == 0)
    u.prove("jobs.consecutive", st.at(b, j2 + 1) == en.at(b, j2) + 1)
    from tvc.unit import prefix_sum_step
    for r in [r for r in u.ctx.reds.values() if r.label == "cumsum"]:
        prefix_sum_step(u, r, (b, j), 1)                             # end_op_per_job = cumsum(n_ope_per_job) - 1, unfolded at job j
    u.prove("jobs.non-empty-and-within-size", AND(en.at(b, j) - st.at(b, j) + 1 >= omin, en.at(b, j) - st.at(b, j) + 1 <= omax))
    # the padding mask marks exactly the operation slots after the last job
    u.prove("padding-is-after-the-last-job", pad.at(b, o) == (zint(o) > en.at(b, J - 1)))
    # every real operation is eligible on at least one machine; padded slots on none
    u.prove("real-operations-eligible-somewhere", IMPL(NOT(pad.at(b, o)), u.exists((M,), lambda m2: pt.at(b, m2, o) > 0)))
    u.prove("padded-slots-nowhere", IMPL(pad.at(b, o), pt.at(b, m, o) == 0))
    u.canary("nothing-padded", NOT(pad.at(b, o)))


JSG = "rl4co/envs/scheduling/jssp/generator.py"


def _jssp_times(u, one2one):
    B = u.dim("B")
    J, M = 2, 3                                                      # jobs x machines of the one-to-one map (flattened axis: concrete); else only M matters
    pmin, pmax = u.scalar("min_processing_time", "i"), u.scalar("max_processing_time", "i")
    u.requires(AND(pmin >= 1, pmin <= pmax))
    O = J * M if one2one else u.dim("O")
    gen = u.obj(JSG, "JSSPGenerator", num_jobs=J, num_mas=M, min_processing_time=pmin, max_processing_time=pmax, one2one_ma_map=one2one)
    # the generator's own assert ("exactly one machine can process an operation") is an obligation here, not a hypothesis
    pt = u.run(JSG, "JSSPGenerator._simulate_processing_times", [B], O, selfobj=gen, record=False)
    b, o, m = u.idx((B,), "b"), u.idx((O,), "o"), u.idx((M,), "m")
    m2 = u.idx((M,), "m2")
    u.prove("shape", AND(shape_is(pt, (B, M, O)), pt.dtype == "f"))
    u.prove("times-zero-or-in-range", OR(pt.at(b, m, o) == 0, AND(pt.at(b, m, o) >= pmin, pt.at(b, m, o) <= pmax)))
    u.prove("exactly-one-machine.at-least", u.exists((M,), lambda k: pt.at(b, k, o) > 0))
    u.prove("exactly-one-machine.at-most", IMPL(AND(pt.at(b, m, o) > 0, pt.at(b, m2, o) > 0), m == m2))
    if one2one:
        # every job visits every machine exactly once: the operations of job j are o = j*M .. j*M + M - 1
        j = u.idx((J,), "j")
        k1, k2 = u.idx((M,), "k1"), u.idx((M,), "k2")
        u.prove("one2one.job-visits-each-machine-once", IMPL(AND(pt.at(b, m, zint(j) * M + k1) > 0, pt.at(b, m, zint(j) * M + k2) > 0), k1 == k2))
    u.canary("machine-0-processes-everything", pt.at(b, 0, o) > 0)


for _o in (False, True):
    unit("jssp.generator.processing_times." + ("one2one" if _o else "random"), file=JSG, func="JSSPGenerator._simulate_processing_times", props=("C18",))(lambda u, _o=_o: _jssp_times(u, _o))


FFG = "rl4co/envs/scheduling/ffsp/generator.py"


@unit("ffsp.generator.generate", file=FFG, func="FFSPGenerator._generate", props=("C18",))
def _(u):
    B, J, MT = u.dims("B J MT")
    tmin, tmax = u.scalar("min_time", "i"), u.scalar("max_time", "i")
    u.requires(AND(tmin >= 1, tmin < tmax))
    gen = u.obj(FFG, "FFSPGenerator", num_job=J, num_machine_total=MT, min_time=tmin, max_time=tmax)
    td = u.run(FFG, "FFSPGenerator._generate", [B], selfobj=gen, record=False)
    b, j, m = u.idx((B,), "b"), u.idx((J,), "j"), u.idx((MT,), "m")
    rt = td["run_time"]
    u.prove("run_time", AND(shape_is(rt, (B, J, MT)), rt.dtype == "i", rt.at(b, j, m) >= tmin, rt.at(b, j, m) < tmax, sorted(td.keys()) == ["run_time"], tuple(td.batch_size) == (B,)))
    u.canary("run_time-reaches-max", rt.at(b, j, m) < tmax - 1)


ATG = "rl4co/envs/routing/atsp/generator.py"


@unit("atsp.generator.generate.tmat", file=ATG, func="ATSPGenerator._generate", props=("C18",))
def _(u):
    from tvc.interp import LoopInvariant
    from .checkers import carried

    B, N = u.dims("B N")
    dmin, dmax = u.scalar("min_dist", "f"), u.scalar("max_dist", "f")
    u.requires(AND(dmin >= 0, dmin <= dmax))
    gen = u.obj(ATG, "ATSPGenerator", num_loc=N, min_dist=dmin, max_dist=dmax, tmat_class=True, dist_sampler=_sampler(u, "dist", zreal(0), zreal(1)))

    def inv(env, i):
        d = carried(env, "dms", "f")
        return [("non-negative-zero-diagonal", u.forall((B, N, N), lambda b, a, c: AND(d.at(b, a, c) >= 0, d.at(b, a, a) == 0))),
                ("bounded", u.forall((B, N, N), lambda b, a, c: d.at(b, a, c) <= dmax)),
                # Floyd-Warshall: after i rounds every detour over an intermediate node k < i is already accounted for
                ("triangle-over-earlier-nodes", u.forall((B, N, N, (0, zint(i))), lambda b, a, c, k: d.at(b, a, c) <= d.at(b, a, k) + d.at(b, k, c)))]

    u.loop(ATG, "ATSPGenerator._generate", 0, LoopInvariant(inv, name="floyd-warshall", tags=("C18",)))
    td = u.run(ATG, "ATSPGenerator._generate", [B], selfobj=gen, record=False)
    cm = td["cost_matrix"]
    b, a, c, k = u.idx((B,), "b"), u.idx((N,), "a"), u.idx((N,), "c"), u.idx((N,), "k")
    u.prove("shape", AND(shape_is(cm, (B, N, N)), sorted(td.keys()) == ["cost_matrix"]))
    u.prove("zero-diagonal", cm.at(b, a, a) == 0)
    u.prove("in-range", AND(cm.at(b, a, c) >= 0, cm.at(b, a, c) <= dmax))
    u.prove("triangle-inequality", cm.at(b, a, c) <= cm.at(b, a, k) + cm.at(b, k, c))
    u.canary("symmetric", cm.at(b, a, c) == cm.at(b, c, a))
