"""C18 (proof part): generator post-conditions that are pure real arithmetic over the samplers' ranges.

torch.rand / sampler outputs are arbitrary tensors inside their documented range (assumed sampler contract A10);
what is proved is that EVERY draw inside that range yields an instance with the stated guarantee.
"""
import z3

from tvc import ops
from tvc.core import AND, IMPL, NOT, OR, cur, ite, mk, zint, zreal, SymTensor
from tvc.td import SymTD
from tvc.unit import spec, unit

from .envlib import B_, same_tensor

MTG = "rl4co/envs/routing/mtvrp/generator.py"


@unit("mtvrp.generator.time_windows", file=MTG, func="MTVRPGenerator.generate_time_windows", props=("C18",))
def _(u):
    B, N = u.dims("B N")
    locs = u.tensor("locs", (B, N + 1, 2), "f")
    speed = u.tensor("speed", (B, 1), "f")
    M = u.scalar("max_time", "f")
    u.requires(M > 0)
    u.requires(u.forall((B,), lambda b: speed.at(b, 0) > 0))
    gen = u.obj(MTG, "MTVRPGenerator", max_time=M)
    # customers do not coincide with the depot (the real code divides by the depot distance; a measure-zero event, A10)
    u.requires(u.forall((B, N), lambda b, i: OR(locs.at(b, 0, 0) != locs.at(b, i + 1, 0), locs.at(b, 0, 1) != locs.at(b, i + 1, 1))))
    tw, st = u.run(MTG, "MTVRPGenerator.generate_time_windows", locs, speed, selfobj=gen, record=False)
    u.native("mtvrp.generate_time_windows")   # replay with torch.rand patched to return the witness draws
    u.native_out("time_windows", tw)
    u.native_out("service_time", st)
    b = u.idx((B,), "b")
    i = u.idx((N,), "i")
    same_tensor(u, "tw.shape", tw, (B, N + 1, 2), lambda *I: tw.at(*I))
    same_tensor(u, "service.shape", st, (B, N + 1), lambda *I: st.at(*I))
    u.prove("tw.depot", AND(tw.at(b, 0, 0) == 0, tw.at(b, 0, 1) == M, st.at(b, 0) == 0))
    s, lo, hi = st.at(b, i + 1), tw.at(b, i + 1, 0), tw.at(b, i + 1, 1)
    u.prove("tw.service-range", AND(s >= zreal(0.15) - zreal(1e-9), s <= zreal(0.18) + zreal(1e-9)))
    eps = zreal(1e-9)  # the Python float literals 0.15 / 0.18 / 0.2 are taken as the exact rationals they denote
    u.prove("tw.length-range", AND(hi - lo >= zreal(0.18) - eps, hi - lo <= zreal(0.2) + eps))
    # travel time depot -> customer i at this instance's speed
    d = ops.NORM2(locs.at(b, 0, 0) - locs.at(b, i + 1, 0), locs.at(b, 0, 1) - locs.at(b, i + 1, 1))
    tt = d / speed.at(b, 0)
    # feasibility pre-condition of the construction: a round trip plus this customer's service time and window length fits before the depot closes
    feas = 2 * tt + s + (hi - lo) <= M
    u.prove("tw.travel-time-positive", tt > 0)
    # a single-customer route depot -> i -> depot is feasible: i is reachable before its window closes, and after
    # serving i (waiting for the window to open if early) the vehicle is back before the depot closes
    u.prove("tw.reachable-before-close", IMPL(feas, tt <= hi))
    arrive = z3.If(tt >= lo, tt, lo)
    u.prove("tw.back-at-depot-in-time", IMPL(feas, arrive + s + tt <= M))
    u.prove("tw.window-not-before-arrival", IMPL(feas, lo >= tt))
    u.canary("tw.always-in-time-even-if-infeasible", arrive + s + tt <= M)


CVG = "rl4co/envs/routing/cvrp/generator.py"


def _sampler(u, name, lo, hi, dtype="f"):
    """A sampler stub (assumed contract A10): sample(shape) returns an arbitrary tensor with entries in [lo, hi]."""
    cnt = [0]
    drawn = []

    def sample(shape):
        cnt[0] += 1
        t = u.tensor(f"{name}{cnt[0]}", tuple(shape), dtype)
        drawn.append(t)
        ts = t.snap()
        ops.assume_forall(tuple(shape), lambda I: z3.And(ts(I) >= lo, ts(I) <= hi))
        return t

    ns = u.ns(sample=sample)
    ns.drawn = drawn
    return ns


@unit("cvrp.generator.generate", file=CVG, func="CVRPGenerator._generate", props=("C18",))
def _(u):
    B, N = u.dims("B N")
    cap = u.scalar("capacity", "f")
    dmin, dmax = u.scalar("min_demand", "i"), u.scalar("max_demand", "i")
    lmin, lmax = u.scalar("min_loc", "f"), u.scalar("max_loc", "f")
    u.requires(AND(dmin >= 1, dmin <= dmax, lmin <= lmax, cap > 0))
    for variant in ("depot-from-locs", "depot-sampler"):
        gen = u.obj(CVG, "CVRPGenerator", num_loc=N, capacity=cap, min_demand=dmin, max_demand=dmax,
                    loc_sampler=_sampler(u, f"{variant}.loc", lmin, lmax),
                    depot_sampler=_sampler(u, f"{variant}.depot", lmin, lmax) if variant == "depot-sampler" else None,
                    demand_sampler=_sampler(u, f"{variant}.dem", z3.ToReal(dmin - 1), z3.ToReal(dmax - 1)))
        td = u.run(CVG, "CVRPGenerator._generate", [B], selfobj=gen, record=False)
        b, i, c = u.idx((B,), "b"), u.idx((N,), "i"), u.idx((2,), "c")
        p = variant + "."
        u.prove(p + "shapes", AND(tuple(td["locs"].shape) == (B, N, 2), tuple(td["depot"].shape) == (B, 2),
                                  tuple(td["demand"].shape) == (B, N), tuple(td["capacity"].shape) == (B, 1), tuple(td.batch_size) == (B,)))
        u.prove(p + "locs-in-range", AND(td["locs"].at(b, i, c) >= lmin, td["locs"].at(b, i, c) <= lmax,
                                         td["depot"].at(b, c) >= lmin, td["depot"].at(b, c) <= lmax))
        x = gen._attrs["demand_sampler"].drawn[0].at(b, i)          # the raw draw in [min_demand - 1, max_demand - 1]
        k = z3.ToInt(x) + 1                                            # .int() truncates; the draw is non-negative, so truncation = floor
        u.prove(p + "demand-integer-in-range", AND(td["demand"].at(b, i) == z3.ToReal(k) / cap, k >= dmin, k <= dmax))
        u.prove(p + "capacity-recorded", td["capacity"].at(b, 0) == cap)
        # every customer can be served by an empty vehicle iff the largest possible demand fits
        u.prove(p + "single-customer-fits", IMPL(z3.ToReal(dmax) <= cap, td["demand"].at(b, i) <= 1))
        u.prove(p + "demand-positive", td["demand"].at(b, i) > 0)
        u.canary(p + "demand-at-most-one-unconditionally", td["demand"].at(b, i) <= 1)


@unit("cvrp.generator.init.capacity", file=CVG, func="CVRPGenerator.__init__", props=("C18",))
def _(u):
    # the capacity the demands are divided by: the caller's `capacity=` whenever one is given (whatever the instance size),
    # else the Kool et al. table entry of the size, else the entry of the closest tabulated size
    cap = u.scalar("capacity", "f")
    u.requires(cap > 0)
    s = u.ns(sample=lambda shape: None)
    kw = dict(loc_sampler=s, depot_sampler=s, demand_sampler=s)
    table = {10: 20.0, 15: 25.0, 20: 30.0, 30: 33.0, 40: 37.0, 50: 40.0, 60: 43.0, 75: 45.0, 100: 50.0, 125: 55.0, 150: 60.0, 200: 70.0, 500: 100.0, 1000: 150.0}
    u.native("cvrp.generator.init")
    for n in (20, 50, 23):
        g = u.obj(CVG, "CVRPGenerator")
        u.run(CVG, "CVRPGenerator.__init__", n, selfobj=g, record=False, capacity=cap, **kw)
        u.native_out(f"explicit{n}", g._attrs["capacity"])
        u.prove(f"init.num_loc{n}.explicit-capacity-wins", g._attrs["capacity"] is cap or g._attrs["capacity"] == cap)
    for n, want in ((20, 30.0), (100, 50.0), (23, 30.0), (1, 20.0), (12, 20.0)):
        g = u.obj(CVG, "CVRPGenerator")
        u.run(CVG, "CVRPGenerator.__init__", n, selfobj=g, record=False, **kw)
        u.prove(f"init.num_loc{n}.default-capacity-from-table", g._attrs["capacity"] == want and table.get(n, want) == want, note=f"got {g._attrs['capacity']!r}")
