"""C18 (proof part): generator post-conditions that are pure real arithmetic over the samplers' ranges.

torch.rand / sampler outputs are arbitrary tensors inside their documented range (assumed sampler contract A10);
what is proved is that EVERY draw inside that range yields an instance with the stated guarantee.
"""
import z3

from tvc import ops
from tvc.core import AND, IMPL, NOT, OR, cur, ite, mk, zint, zreal, SymTensor
from tvc.td import SymTD
from tvc.unit import spec, unit

from .envlib import B_, same_tensor

MTG = "rl4co/envs/routing/mtvrp/generator.py"


@unit("mtvrp.generator.time_windows", file=MTG, func="MTVRPGenerator.generate_time_windows", props=("C18",))
def _(u):
    B, N = u.dims("B N")
    locs = u.tensor("locs", (B, N + 1, 2), "f")
    speed = u.tensor("speed", (B, 1), "f")
    M = u.scalar("max_time", "f")
    u.requires(M > 0)
    u.requires(u.forall((B,), lambda b: speed.at(b, 0) > 0))
    gen = u.obj(MTG, "MTVRPGenerator", max_time=M)
    # customers do not coincide with the depot (the real code divides by the depot distance; a measure-zero event, A10)
    u.requires(u.forall((B, N), lambda b, i: OR(locs.at(b, 0, 0) != locs.at(b, i + 1, 0), locs.at(b, 0, 1) != locs.at(b, i + 1, 1))))
    tw, st = u.run(MTG, "MTVRPGenerator.generate_time_windows", locs, speed, selfobj=gen, record=False)
    u.native("mtvrp.generate_time_windows")   # replay with torch.rand patched to return the witness draws
    u.native_out("time_windows", tw)
    u.native_out("service_time", st)
    b = u.idx((B,), "b")
    i = u.idx((N,), "i")
    same_tensor(u, "tw.shape", tw, (B, N + 1, 2), lambda *I: tw.at(*I))
    same_tensor(u, "service.shape", st, (B, N + 1), lambda *I: st.at(*I))
    u.prove("tw.depot", AND(tw.at(b, 0, 0) == 0, tw.at(b, 0, 1) == M, st.at(b, 0) == 0))
    s, lo, hi = st.at(b, i + 1), tw.at(b, i + 1, 0), tw.at(b, i + 1, 1)
    u.prove("tw.service-range", AND(s >= zreal(0.15) - zreal(1e-9), s <= zreal(0.18) + zreal(1e-9)))
    eps = zreal(1e-9)  # the Python float literals 0.15 / 0.18 / 0.2 are taken as the exact rationals they denote
    u.prove("tw.length-range", AND(hi - lo >= zreal(0.18) - eps, hi - lo <= zreal(0.2) + eps))
    # travel time depot -> customer i at this instance's speed
    d = ops.NORM2(locs.at(b, 0, 0) - locs.at(b, i + 1, 0), locs.at(b, 0, 1) - locs.at(b, i + 1, 1))
    tt = d / speed.at(b, 0)
    # feasibility pre-condition of the construction: a round trip plus this customer's service time and window length fits before the depot closes
    feas = 2 * tt + s + (hi - lo) <= M
    u.prove("tw.travel-time-positive", tt > 0)
    # a single-customer route depot -> i -> depot is feasible: i is reachable before its window closes, and after
    # serving i (waiting for the window to open if early) the vehicle is back before the depot closes
    u.prove("tw.reachable-before-close", IMPL(feas, tt <= hi))
    arrive = z3.If(tt >= lo, tt, lo)
    u.prove("tw.back-at-depot-in-time", IMPL(feas, arrive + s + tt <= M))
    u.prove("tw.window-not-before-arrival", IMPL(feas, lo >= tt))
    u.canary("tw.always-in-time-even-if-infeasible", arrive + s + tt <= M)


CVG = "rl4co/envs/routing/cvrp/generator.py"


def _sampler(u, name, lo, hi, dtype="f", replay=None):
    """A sampler stub (assumed contract A10): sample(shape) returns an arbitrary tensor with entries in [lo, hi].
    replay=<another stub>: return (value copies of) that stub's draws again, for two runs on the same randomness."""
    cnt = [0]
    drawn = []

    def sample(shape):
        cnt[0] += 1
        if replay is not None:
            t0 = replay.drawn[cnt[0] - 1]
            return SymTensor(t0.shape, t0.dtype, t0.snap(), name=t0.name)
        t = u.tensor(f"{name}{cnt[0]}", tuple(shape), dtype)
        drawn.append(SymTensor(t.shape, t.dtype, t.snap(), name=t.name))
        ts = t.snap()
        ops.assume_forall(tuple(shape), lambda I: z3.And(ts(I) >= lo, ts(I) <= hi))
        return t

    ns = u.ns(sample=sample)
    ns.drawn = drawn
    return ns


@unit("cvrp.generator.generate", file=CVG, func="CVRPGenerator._generate", props=("C18",))
def _(u):
    B, N = u.dims("B N")
    cap = u.scalar("capacity", "f")
    dmin, dmax = u.scalar("min_demand", "i"), u.scalar("max_demand", "i")
    lmin, lmax = u.scalar("min_loc", "f"), u.scalar("max_loc", "f")
    u.requires(AND(dmin >= 1, dmin <= dmax, lmin <= lmax, cap > 0))
    for variant in ("depot-from-locs", "depot-sampler"):
        gen = u.obj(CVG, "CVRPGenerator", num_loc=N, capacity=cap, min_demand=dmin, max_demand=dmax,
                    loc_sampler=_sampler(u, f"{variant}.loc", lmin, lmax),
                    depot_sampler=_sampler(u, f"{variant}.depot", lmin, lmax) if variant == "depot-sampler" else None,
                    demand_sampler=_sampler(u, f"{variant}.dem", z3.ToReal(dmin - 1), z3.ToReal(dmax - 1)))
        td = u.run(CVG, "CVRPGenerator._generate", [B], selfobj=gen, record=False)
        b, i, c = u.idx((B,), "b"), u.idx((N,), "i"), u.idx((2,), "c")
        p = variant + "."
        u.prove(p + "shapes", AND(tuple(td["locs"].shape) == (B, N, 2), tuple(td["depot"].shape) == (B, 2),
                                  tuple(td["demand"].shape) == (B, N), tuple(td["capacity"].shape) == (B, 1), tuple(td.batch_size) == (B,)))
        u.prove(p + "locs-in-range", AND(td["locs"].at(b, i, c) >= lmin, td["locs"].at(b, i, c) <= lmax,
                                         td["depot"].at(b, c) >= lmin, td["depot"].at(b, c) <= lmax))
        x = gen._attrs["demand_sampler"].drawn[0].at(b, i)          # the raw draw in [min_demand - 1, max_demand - 1]
        k = z3.ToInt(x) + 1                                            # .int() truncates; the draw is non-negative, so truncation = floor
        u.prove(p + "demand-integer-in-range", AND(td["demand"].at(b, i) == z3.ToReal(k) / cap, k >= dmin, k <= dmax))
        u.prove(p + "capacity-recorded", td["capacity"].at(b, 0) == cap)
        # every customer can be served by an empty vehicle iff the largest possible demand fits
        u.prove(p + "single-customer-fits", IMPL(z3.ToReal(dmax) <= cap, td["demand"].at(b, i) <= 1))
        u.prove(p + "demand-positive", td["demand"].at(b, i) > 0)
        u.canary(p + "demand-at-most-one-unconditionally", td["demand"].at(b, i) <= 1)


@unit("cvrp.generator.init.capacity", file=CVG, func="CVRPGenerator.__init__", props=("C18",))
def _(u):
    # the capacity the demands are divided by: the caller's `capacity=` whenever one is given (whatever the instance size),
    # else the Kool et al. table entry of the size, else the entry of the closest tabulated size
    cap = u.scalar("capacity", "f")
    u.requires(cap > 0)
    s = u.ns(sample=lambda shape: None)
    kw = dict(loc_sampler=s, depot_sampler=s, demand_sampler=s)
    table = {10: 20.0, 15: 25.0, 20: 30.0, 30: 33.0, 40: 37.0, 50: 40.0, 60: 43.0, 75: 45.0, 100: 50.0, 125: 55.0, 150: 60.0, 200: 70.0, 500: 100.0, 1000: 150.0}
    u.native("cvrp.generator.init")
    for n in (20, 50, 23):
        g = u.obj(CVG, "CVRPGenerator")
        u.run(CVG, "CVRPGenerator.__init__", n, selfobj=g, record=False, capacity=cap, **kw)
        u.native_out(f"explicit{n}", g._attrs["capacity"])
        u.prove(f"init.num_loc{n}.explicit-capacity-wins", g._attrs["capacity"] is cap or g._attrs["capacity"] == cap)
    for n, want in ((20, 30.0), (100, 50.0), (23, 30.0), (1, 20.0), (12, 20.0)):
        g = u.obj(CVG, "CVRPGenerator")
        u.run(CVG, "CVRPGenerator.__init__", n, selfobj=g, record=False, **kw)
        u.prove(f"init.num_loc{n}.default-capacity-from-table", g._attrs["capacity"] == want and table.get(n, want) == want, note=f"got {g._attrs['capacity']!r}")


TWG = "rl4co/envs/routing/cvrptw/generator.py"


def _unscale(v, M):
    """v * M for a value the code computed as x / M (M > 0): x itself (structurally), so that the clauses stay linear."""
    if z3.is_app_of(v, z3.Z3_OP_DIV) and v.arg(1).eq(M):
        return v.arg(0)
    return v * M


def _cvrptw_generate(u, scale, max_time=None):
    """CVRPTWGenerator._generate (steps 1-8 incl. the window repair), for EVERY draw of the samplers / torch.rand."""
    B, N = u.dims("B N")
    cap = u.scalar("capacity", "f")
    dmin, dmax = u.scalar("min_demand", "i"), u.scalar("max_demand", "i")
    lmin, lmax = u.scalar("min_loc", "f"), u.scalar("max_loc", "f")
    # scale=False: any max_time. scale=True divides everything by max_time; to keep the obligations linear that variant is proved
    # for concrete horizons (the default 480 and a second one), every other parameter staying symbolic
    M = u.scalar("max_time", "f") if max_time is None else zreal(max_time)
    u.requires(AND(dmin >= 1, dmin <= dmax, lmin <= lmax, cap > 0, M > 0))
    gen = u.obj(TWG, "CVRPTWGenerator", num_loc=N, capacity=cap, min_demand=dmin, max_demand=dmax, max_time=M if max_time is None else max_time, min_time=0.0, scale=scale, min_loc=lmin, max_loc=lmax,
                loc_sampler=_sampler(u, "loc", lmin, lmax), depot_sampler=_sampler(u, "depot", lmin, lmax),
                demand_sampler=_sampler(u, "dem", z3.ToReal(dmin - 1), z3.ToReal(dmax - 1)))
    u.inline((CVG, "CVRPGenerator._generate"))
    td = u.run(TWG, "CVRPTWGenerator._generate", [B], selfobj=gen, record=False, asserts="record")
    b, i = u.idx((B,), "b"), u.idx((N,), "i")
    tw, dur = td["time_windows"], td["durations"]
    un = (lambda v: _unscale(v, M)) if scale else (lambda v: v)     # with scale=True everything is expressed in units of max_time
    same_tensor(u, "tw.shape", tw, (B, N + 1, 2), lambda *I: tw.at(*I))
    same_tensor(u, "durations.shape", dur, (B, N + 1), lambda *I: dur.at(*I))
    j = u.idx((N + 1,), "j")
    u.prove("durations-zero", dur.at(b, j) == 0)
    u.prove("tw.depot", AND(tw.at(b, 0, 0) == 0, un(tw.at(b, 0, 1)) == z3.ToInt(M)))
    if scale:
        u.prove("scaled.windows-are-the-unscaled-ones-over-max_time",
                AND(un(tw.at(b, j, 0)) / M == tw.at(b, j, 0), un(tw.at(b, j, 1)) / M == tw.at(b, j, 1)))
    # the generator's own final assert (an instance violating it is never emitted), used at (b, j) and at customer i
    u.asserted("Please make sure", b, j)
    u.asserted("Please make sure", b, i + 1)
    u.prove("tw.ordered", tw.at(b, j, 0) < tw.at(b, j, 1))
    real = lambda v: z3.ToReal(v) if v.sort() == z3.IntSort() else v     # (unscaled windows are integer tensors)
    lo, hi = real(un(tw.at(b, i + 1, 0))), real(un(tw.at(b, i + 1, 1)))
    # distance depot -> customer in the UNSCALED coordinates the windows were built from
    dep, loc = gen._attrs["depot_sampler"].drawn[0], gen._attrs["loc_sampler"].drawn[0]
    d = ops.NORM2(dep.at(b, 0) - loc.at(b, i, 0), dep.at(b, 1) - loc.at(b, i, 1))
    feas = 2 * d <= M                                                # a round trip fits at all
    u.prove("tw.customer-ordered", lo < hi, assume=True)
    # (non-linear step made explicit: a draw in [0, 1) times the non-negative slack max_time - 2 d stays inside [0, slack])
    rands = [fn for name, (fn, shp, dt) in u.ctx.inputs.items() if "rand" in name and len(shp) == 2]
    for n_, r in enumerate(rands):
        x = r(b, i + 1)
        u.prove(f"lemma.draw{n_ + 1}-in-range", AND(x >= 0, x < 1), assume=True)
        u.prove(f"lemma.slack-times-draw{n_ + 1}-in-range", IMPL(feas, AND((M - 2 * d) * x >= 0, (M - 2 * d) * x <= M - 2 * d)), assume=True, algebra_only=True)
    u.prove("tw.integer-valued", AND(z3.ToReal(z3.ToInt(lo)) == lo, z3.ToReal(z3.ToInt(hi)) == hi), assume=True)
    u.prove("tw.opens-not-before-depot-distance-floor", IMPL(feas, lo >= z3.ToReal(z3.ToInt(d))), assume=True)
    u.prove("tw.leaves-time-to-return", IMPL(feas, hi + d <= M))
    # integers lo < hi with lo >= floor(d): hi >= floor(d) + 1 > d
    u.prove("tw.reachable-before-close", IMPL(feas, d < hi), algebra_only=True)
    u.canary("tw.leaves-time-to-return-even-if-infeasible", hi + d <= M)
    if scale:
        c = u.idx((2,), "c")
        u.prove("scaled.coordinates", AND(td["locs"].at(b, i, c) * M == loc.at(b, i, c), td["depot"].at(b, c) * M == dep.at(b, c)))


@unit("cvrptw.generator.generate", file=TWG, func="CVRPTWGenerator._generate", props=("C18",))
def _(u):
    _cvrptw_generate(u, False)


@unit("cvrptw.generator.generate.scaled", file=TWG, func="CVRPTWGenerator._generate", props=("C18",))
def _(u):
    # scale=True, ANY max_time, relationally: on the same draws the scaled generator emits exactly the unscaled instance with
    # windows, durations and coordinates divided by max_time (so every clause of the unit above carries over in units of
    # max_time); demands and capacity are untouched
    from tvc import methods

    B, N = u.dims("B N")
    cap = u.scalar("capacity", "f")
    dmin, dmax = u.scalar("min_demand", "i"), u.scalar("max_demand", "i")
    lmin, lmax = u.scalar("min_loc", "f"), u.scalar("max_loc", "f")
    M = u.scalar("max_time", "f")
    u.requires(AND(dmin >= 1, dmin <= dmax, lmin <= lmax, cap > 0, M > 0))
    S = dict(loc_sampler=_sampler(u, "loc", lmin, lmax), depot_sampler=_sampler(u, "depot", lmin, lmax),
             demand_sampler=_sampler(u, "dem", z3.ToReal(dmin - 1), z3.ToReal(dmax - 1)))
    kw = dict(num_loc=N, capacity=cap, min_demand=dmin, max_demand=dmax, max_time=M, min_time=0.0, min_loc=lmin, max_loc=lmax)
    g1 = u.obj(TWG, "CVRPTWGenerator", scale=False, **kw, **S)
    g2 = u.obj(TWG, "CVRPTWGenerator", scale=True, **kw, **{k_: _sampler(u, k_, None, None, replay=v) for k_, v in S.items()})
    u.inline((CVG, "CVRPGenerator._generate"))
    r0 = methods._RAND[0]
    td1 = u.run(TWG, "CVRPTWGenerator._generate", [B], selfobj=g1, record=False, asserts="record")
    methods._RAND[0] = r0                                            # torch.rand returns the same draws in the second run
    td2 = u.run(TWG, "CVRPTWGenerator._generate", [B], selfobj=g2, record=False, asserts="record")
    b, i, j, c = u.idx((B,), "b"), u.idx((N,), "i"), u.idx((N + 1,), "j"), u.idx((2,), "c")
    same_tensor(u, "scaled.tw.shape", td2["time_windows"], (B, N + 1, 2), lambda *I: td2["time_windows"].at(*I))
    u.prove("scaled.windows", td2["time_windows"].at(b, j, c) == z3.ToReal(td1["time_windows"].at(b, j, c)) / M)
    u.prove("scaled.durations", td2["durations"].at(b, j) == td1["durations"].at(b, j) / M)
    u.prove("scaled.coordinates", AND(td2["locs"].at(b, i, c) == td1["locs"].at(b, i, c) / M, td2["depot"].at(b, c) == td1["depot"].at(b, c) / M))
    u.prove("scaled.demand-untouched", AND(td2["demand"].at(b, i) == td1["demand"].at(b, i), td2["capacity"].at(b, 0) == td1["capacity"].at(b, 0)))
    u.prove("scaled.windows-are-floats", td2["time_windows"].dtype == "f")
    u.canary("scaled.windows-unchanged", td2["time_windows"].at(b, j, c) == z3.ToReal(td1["time_windows"].at(b, j, c)))
