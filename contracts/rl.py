"""C16 / C20: REINFORCE loss, baselines, running statistics."""
import z3

from tvc import ops
from tvc.core import AND, IMPL, NOT, OR, cur, ite, mk, zint, zreal, SymTensor
from tvc.methods import EPS
from tvc.td import SymTD
from tvc.unit import spec, unit, sum_linear_hint

from .envlib import B_, same_tensor

UT = "rl4co/models/rl/common/utils.py"
BL = "rl4co/models/rl/reinforce/baselines.py"
RF = "rl4co/models/rl/reinforce/reinforce.py"


def _red_tensor(red):
    return mk((), red.dtype, lambda I: red.app(()), prov=("red", red))


def _scalar(v):
    return v.at() if isinstance(v, SymTensor) else v


# ---------------------------------------------------------------------------------------------
# C20: RewardScaler (batched Welford). Representation invariant against the abstract view
#   n = #values observed, S1 = their sum, S2 = sum of squares:
#   count = n, mean*n = S1, M2*n = S2*n - S1^2   (i.e. mean = S1/n, M2 = sum (x - mean)^2)
# ---------------------------------------------------------------------------------------------


def _scaler_state(u):
    n = u.scalar("n", "i")
    mu, M2, S1, S2 = (u.scalar(k, "f") for k in ("mean", "M2", "S1", "S2"))
    u.requires(AND(n >= 0, IMPL(n == 0, AND(mu == 0, M2 == 0, S1 == 0, S2 == 0)),
                   mu * z3.ToReal(n) == S1, M2 * z3.ToReal(n) == S2 * z3.ToReal(n) - S1 * S1))
    return n, mu, M2, S1, S2


def _update_proof(u, x_flat_len, run):
    """run() executes update on the scaler object; returns (obj). Proves the invariant for n+m."""
    ctx = cur()
    n, mu, M2, S1, S2 = _scaler_state(u)
    obj = u.obj(UT, "RewardScaler", scale="norm", count=n, mean=mu, M2=M2)
    mark = len(ctx.reds)
    x = run(obj)
    new = list(ctx.reds.values())[mark:]
    m = x_flat_len
    xf = ops.reshape(x, -1) if x.rank != 1 else x
    T1 = ops.reduce("sum", xf, 0, label="T1")
    T2 = ops.reduce("sum", ops.binop("mul", xf, xf), 0, label="T2")
    n2 = _scalar(obj._attrs["count"])
    mu2 = _scalar(obj._attrs["mean"])
    M22 = _scalar(obj._attrs["M2"])
    u.prove("update.count", n2 == n + m, tags=("C20",))
    if len(new) >= 2:
        sA, sB = _red_tensor(new[0]), _red_tensor(new[1])
        # lemma instances (sum.linear): the two sums of the code as combinations of T1 = sum x, T2 = sum x^2
        u.ctx.assume(z3.ToReal(n + m) > 0)
        sum_linear_hint(u, sA, (), [(1 / z3.ToReal(n + m), T1, ())], const=-mu / z3.ToReal(n + m), name="update.sum1.summand", tags=("C20",))
        sum_linear_hint(u, sB, (), [(1, T2, ()), (-(mu + mu2), T1, ())], const=mu * mu2, name="update.sum2.summand", tags=("C20",))
    nn = z3.ToReal(n + m)
    N, Mr = z3.ToReal(n), z3.ToReal(zint(m))
    u.ctx.assume(AND(nn == N + Mr, nn > 0, Mr >= 1))
    if len(new) >= 2:
        # intermediate facts (each proved, then used as a lemma): closed forms of the two sums of the code
        u.prove("update.sum1.closed-form", sA.at() * nn == T1.at() - Mr * mu, tags=("C20",), assume=True, algebra_only=True)
        u.prove("update.mean.closed-form", mu2 * nn == mu * N + T1.at(), tags=("C20",), assume=True, algebra_only=True)
        u.prove("update.sum2.closed-form", sB.at() == T2.at() - (mu + mu2) * T1.at() + Mr * mu * mu2, tags=("C20",), assume=True, algebra_only=True)
    u.prove("update.mean", mu2 * nn == S1 + T1.at(), tags=("C20",), assume=True, algebra_only=True)
    u.prove("update.M2", M22 * nn == (S2 + T2.at()) * nn - (S1 + T1.at()) * (S1 + T1.at()), tags=("C20",), algebra_only=True)
    u.canary("update.M2-with-old-mean", M22 * nn == (S2 + T2.at()) * nn - (S1 + T1.at()) * (S1 + T1.at()) + 1)
    return obj, (n, mu, M2, S1, S2), (T1, T2)


@unit("rl.reward_scaler.update", file=UT, func="RewardScaler.update", props=("C20",))
def _(u):
    m = u.dim("m")
    x = u.tensor("batch", (m,), "f")
    _update_proof(u, m, lambda obj: (u.run(UT, "RewardScaler.update", x, selfobj=obj), x)[1])


@unit("rl.reward_scaler.update.2d", file=UT, func="RewardScaler.update", props=("C20",))
def _(u):
    a, b = u.dims("a b")
    x = u.tensor("batch", (a, b), "f")
    n, mu, M2, S1, S2 = _scaler_state(u)
    obj = u.obj(UT, "RewardScaler", scale="norm", count=n, mean=mu, M2=M2)
    u.run(UT, "RewardScaler.update", x, selfobj=obj)
    # any batch shape is flattened: the count grows by the number of elements
    u.prove("update.count.flattened", _scalar(obj._attrs["count"]) == n + a * b, tags=("C20",))


@unit("rl.reward_scaler.call", file=UT, func="RewardScaler.__call__", props=("C20", "C16"))
def _(u):
    m = u.dim("m")
    x = u.tensor("scores", (m,), "f")
    i = u.idx((m,), "i")
    # scale=None: identity; integer scale: division
    o0 = u.run(UT, "RewardScaler.__call__", x, selfobj=u.obj(UT, "RewardScaler", scale=None), record=False)
    same_tensor(u, "call.none.identity", o0, (m,), lambda k: x.at(k), tags=("C20", "C16"))
    c = u.scalar("int_scale", "i")
    u.requires(c >= 1)
    o1 = u.run(UT, "RewardScaler.__call__", x, selfobj=u.obj(UT, "RewardScaler", scale=c), record=False)
    same_tensor(u, "call.int.divides", o1, (m,), lambda k: x.at(k) / z3.ToReal(c), tags=("C20",))
    for mode in ("norm", "scale"):
        # state after at least one earlier observation: count is a Python int, mean and M2 are 0-dim tensors
        n, mu_t, M2_t = u.scalar(f"n_{mode}", "i"), u.tensor(f"mean_{mode}", (), "f"), u.tensor(f"M2_{mode}", (), "f")
        mu, M2 = mu_t.at(), M2_t.at()
        u.requires(AND(n >= 1, M2 >= 0, EPS > 0))
        # sqrt is non-negative (axiom of the uninterpreted sqrt, A1)
        sq = z3.Real("sq_arg")
        u.requires(z3.ForAll([sq], ops.UF["sqrt"](sq) >= 0))
        obj = u.obj(UT, "RewardScaler", scale=mode, count=n, mean=mu_t, M2=M2_t)
        pre = u.snapshot(x)
        u.inline((UT, "RewardScaler.update"))
        out = u.run(UT, "RewardScaler.__call__", x, selfobj=obj, record=False)
        n2, mu2, M22 = (_scalar(obj._attrs[k]) for k in ("count", "mean", "M2"))
        # every call observes its whole batch, whatever its size (a batch of one value included)
        u.native("rl.reward_scaler.call")
        u.native_out(f"count_{mode}", z3.ToReal(n2) if z3.is_expr(n2) and n2.sort() == z3.IntSort() else n2)
        u.prove(f"call.{mode}.observes-the-batch", n2 == n + m, tags=("C20",))
        std = ops.UF["sqrt"](M22 / z3.ToReal(n2 - 1))  # sample standard deviation of everything observed (incl. this batch)
        if mode == "norm":
            same_tensor(u, "call.norm", out, (m,), lambda k: (pre.at(k) - mu2) / (std + EPS), tags=("C20",))
        else:
            same_tensor(u, "call.scale", out, (m,), lambda k: pre.at(k) / (std + EPS), tags=("C20",))


# ---------------------------------------------------------------------------------------------
# C20: exponential moving average and warm-up baselines
# ---------------------------------------------------------------------------------------------


def _mean_of(r):
    return ops.TM_mean(r)


@unit("rl.exponential_baseline", file=BL, func="ExponentialBaseline.eval", props=("C20", "C16"))
def _(u):
    B = u.dim("B")
    r = u.tensor("reward", (B,), "f")
    r.requires_grad = True  # worst case: the reward carries a gradient path
    from tvc.methods import TM

    mean_r = TM["mean"](r).at()
    beta = u.scalar("beta", "f")
    u.requires(AND(beta >= 0, beta <= 1))
    # first call: v = mean(r)
    o1 = u.obj(BL, "ExponentialBaseline", beta=beta, v=None)
    v1, l1 = u.run(BL, "ExponentialBaseline.eval", None, r, selfobj=o1, record=False)
    u.prove("ema.first", AND(_scalar(v1) == mean_r, l1 == 0), tags=("C20",))
    u.prove("ema.first.detached", NOT(v1.requires_grad), tags=("C16",))
    # later calls: v' = beta v + (1-beta) mean(r); the stored state is the returned value
    v0 = u.scalar("v_prev", "f")
    o2 = u.obj(BL, "ExponentialBaseline", beta=beta, v=v0)
    v2, l2 = u.run(BL, "ExponentialBaseline.eval", None, r, selfobj=o2, record=False)
    u.prove("ema.recurrence", AND(_scalar(v2) == beta * v0 + (1 - beta) * mean_r, l2 == 0), tags=("C20",))
    u.prove("ema.state", _scalar(o2._attrs["v"]) == _scalar(v2), tags=("C20",))
    u.prove("ema.detached", NOT(v2.requires_grad), tags=("C16",))
    u.canary("ema.swapped-weights", _scalar(v2) == (1 - beta) * v0 + beta * mean_r)


@unit("rl.warmup_baseline", file=BL, func="WarmupBaseline.eval", props=("C20", "C16"))
def _(u):
    B = u.dim("B")
    r = u.tensor("reward", (B,), "f")
    from tvc.methods import TM

    mean_r = TM["mean"](r).at()
    alpha = u.scalar("alpha", "f")
    u.requires(AND(alpha >= 0, alpha <= 1))
    vb, lb = u.scalar("v_inner", "f"), u.scalar("l_inner", "f")
    inner = u.ns(eval=lambda td, rew, env=None: (vb, lb))
    beta, v0 = u.scalar("beta", "f"), u.scalar("v_prev", "f")
    warm = u.obj(BL, "ExponentialBaseline", beta=beta, v=v0)
    obj = u.obj(BL, "WarmupBaseline", baseline=inner, warmup_baseline=warm, alpha=alpha, n_epochs=u.scalar("n_epochs", "i"))
    u.inline((BL, "ExponentialBaseline.eval"))
    v, l = u.run(BL, "WarmupBaseline.eval", None, r, None, selfobj=obj, record=False)
    u.native("rl.warmup_baseline")
    u.native_out("value", v)
    u.native_out("loss", l)
    vw = beta * v0 + (1 - beta) * mean_r
    u.prove("warmup.value", _scalar(v) == alpha * vb + (1 - alpha) * vw, tags=("C20", "C16"))
    u.prove("warmup.loss", _scalar(l) == alpha * lb + (1 - alpha) * 0, tags=("C20", "C16"))
    # frame: mixing must not disturb the state of the exponential baseline (its moving average is the recurrence value, whatever alpha)
    u.prove("warmup.ema-state-is-the-recurrence-value", _scalar(warm._attrs["v"]) == ite(alpha == 1, v0, vw), tags=("C20",))   # (alpha = 1: the exponential baseline is not evaluated any more)
    u.prove("warmup.alpha0-is-warmup-only", IMPL(alpha == 0, _scalar(v) == vw), tags=("C20",))
    u.prove("warmup.alpha1-is-inner-only", IMPL(alpha == 1, _scalar(v) == vb), tags=("C20",))
    u.canary("warmup.swapped", _scalar(v) == (1 - alpha) * vb + alpha * vw)


@unit("rl.warmup_baseline.epoch_callback", file=BL, func="WarmupBaseline.epoch_callback", props=("C20",))
def _(u):
    e, ne = u.scalar("epoch", "i"), u.scalar("n_epochs", "i")
    a0 = u.scalar("alpha_prev", "f")
    u.requires(AND(e >= 0, ne >= 1))
    inner = u.ns(epoch_callback=lambda *a, **k: None)
    obj = u.obj(BL, "WarmupBaseline", baseline=inner, alpha=a0, n_epochs=ne)
    u.run(BL, "WarmupBaseline.epoch_callback", selfobj=obj, record=False, epoch=e)
    a1 = _scalar(obj._attrs["alpha"])
    u.prove("warmup.alpha.schedule", IMPL(e < ne, a1 == z3.ToReal(e + 1) / z3.ToReal(ne)), tags=("C20",))
    u.prove("warmup.alpha.range", IMPL(e < ne, AND(a1 > 0, a1 <= 1)), tags=("C20",))
    u.prove("warmup.alpha.reaches-one", IMPL(e == ne - 1, a1 == 1), tags=("C20",))
    u.prove("warmup.alpha.kept-afterwards", IMPL(e >= ne, a1 == a0), tags=("C20",))


# ---------------------------------------------------------------------------------------------
# C16: REINFORCE surrogate
# ---------------------------------------------------------------------------------------------


def _reinforce(u, bl_kind):
    B = u.dim("B")
    r = u.tensor("reward", (B,), "f")
    ll = u.tensor("log_likelihood", (B,), "f")
    ll.requires_grad = True          # the only differentiable path into the policy
    r.requires_grad = True           # worst case: a reward that still carries a graph must not contribute gradient
    td = SymTD({}, (B,))
    batch = {}
    if bl_kind == "scalar":       # exponential / mean / warm-up mixtures: one value for the batch
        blv, bll = u.scalar("bl_val", "f"), u.scalar("bl_loss", "f")
        baseline = u.ns(eval=lambda td_, rew, env=None: (blv, bll))
        bl_at = lambda b: blv
    elif bl_kind == "none":
        baseline = u.ns(eval=lambda td_, rew, env=None: (0, 0))
        bll = 0
        bl_at = lambda b: 0
    elif bl_kind == "per-instance":  # critic: one detached value per instance plus its own loss
        blt = u.tensor("bl_val", (B,), "f")
        bll = u.scalar("bl_loss", "f")
        baseline = u.ns(eval=lambda td_, rew, env=None: (blt, bll))
        bl_at = lambda b: blt.at(b)
    else:                          # rollout baseline travelling with the batch as 'extra'
        ext = u.tensor("extra", (B,), "f")
        batch = {"extra": ext}
        baseline = u.ns(eval=lambda td_, rew, env=None: (None, None))
        bll = 0
        bl_at = lambda b: ext.at(b)
    obj = u.obj(RF, "REINFORCE", baseline=baseline, env=None, advantage_scaler=u.obj(UT, "RewardScaler", scale=None))
    u.inline((UT, "RewardScaler.__call__"))
    out = u.run(RF, "REINFORCE.calculate_loss", td, batch, {"reward": r, "log_likelihood": ll}, selfobj=obj, record=False)
    want = ops.reduce("sum", mk((B,), "f", lambda I: (r.at(I[0]) - bl_at(I[0])) * ll.at(I[0])), 0, label="surrogate")
    loss = out["loss"]
    u.prove("loss.is-scalar", isinstance(loss, SymTensor) and loss.rank == 0, tags=("C16",))
    u.prove("loss.value", _scalar(loss) == -(want.at() / z3.ToReal(zint(B))) + bll, tags=("C16",))
    u.prove("loss.reinforce-term", _scalar(out["reinforce_loss"]) == -(want.at() / z3.ToReal(zint(B))), tags=("C16",))
    u.canary("loss.sign", _scalar(loss) == (want.at() / z3.ToReal(zint(B))) + bll)


@unit("rl.reinforce.loss.scalar-baseline", file=RF, func="REINFORCE.calculate_loss", props=("C16",))
def _(u):
    _reinforce(u, "scalar")


@unit("rl.reinforce.loss.no-baseline", file=RF, func="REINFORCE.calculate_loss", props=("C16",))
def _(u):
    _reinforce(u, "none")


@unit("rl.reinforce.loss.per-instance-baseline", file=RF, func="REINFORCE.calculate_loss", props=("C16",))
def _(u):
    _reinforce(u, "per-instance")


@unit("rl.reinforce.loss.extra-baseline", file=RF, func="REINFORCE.calculate_loss", props=("C16",))
def _(u):
    _reinforce(u, "extra")


@unit("rl.shared_baseline", file=BL, func="SharedBaseline.eval", props=("C16",))
def _(u):
    B, K = u.dims("B K")
    r = u.tensor("reward", (B, K), "f")
    obj = u.obj(BL, "SharedBaseline")
    v, l = u.run(BL, "SharedBaseline.eval", None, r, selfobj=obj, record=False)
    same_tensor(u, "shared.shape", v, (B, 1), lambda b, _: v.at(b, 0), tags=("C16",))
    b = u.idx((B,), "b")
    row = ops.reduce("sum", r, 1, label="rowsum")
    u.prove("shared.is-instance-mean", v.at(b, 0) * z3.ToReal(zint(K)) == row.at(b), tags=("C16",))
    # advantages average to zero within each instance
    adv = ops.binop("sub", r, v)
    advsum = ops.reduce("sum", adv, 1, label="advsum")
    sum_linear_hint(u, _row(advsum, b), (), [(1, _row(row, b), ())], const=-v.at(b, 0))
    u.prove("shared.advantages-sum-to-zero", advsum.at(b) == 0, tags=("C16",))
    u.prove("shared.no-loss", l == 0, tags=("C16",))


def _row(t, b):
    """0-d view of a reduced tensor at outer index b, keeping the reduction provenance for hints."""
    red = t.prov[1] if t.prov and t.prov[0] == "red" else None
    if red is None:
        return t
    from tvc.core import Red

    class _R:
        pass

    r2 = _R()
    r2.ns, r2.dtype = red.ns, red.dtype
    r2.body = lambda o, ks: red.body((b,), ks)
    r2.app = lambda o: red.app((b,))
    return mk((), red.dtype, lambda I: red.app((b,)), prov=("red", r2))


@unit("rl.critic_baseline", file=BL, func="CriticBaseline.eval", props=("C16",))
def _(u):
    B = u.dim("B")
    c = u.tensor("reward", (B,), "f")
    c.requires_grad = True
    vraw = u.tensor("critic_out", (B, 1), "f")
    vraw.requires_grad = True  # critic output depends on critic parameters
    obj = u.obj(BL, "CriticBaseline", critic=lambda x: vraw)
    from tvc.interp import Opaque

    v, loss = u.run(BL, "CriticBaseline.eval", None, c, selfobj=obj, record=False)
    same_tensor(u, "critic.value", v, (B,), lambda b: vraw.at(b, 0), tags=("C16",))
    u.prove("critic.value-detached", NOT(v.requires_grad), tags=("C16",))


# ---------------------------------------------------------------------------------------------
# C16 / C12: POMO shared step (shared baseline over the starts of each instance; best-of-starts at evaluation)
# ---------------------------------------------------------------------------------------------
POMO = "rl4co/models/zoo/pomo/model.py"


POMO_CALLS = {}


def _pomo(u, phase, S, B, T, n_aug=None):
    calls = POMO_CALLS
    total = S * B if n_aug is None else S * (n_aug * B)
    rew = u.tensor("policy_reward", (total,), "f")
    ll = u.tensor("policy_ll", (total,), "f")
    ll.requires_grad = True
    acts = u.tensor("policy_actions", (total, T), "i")
    td0 = SymTD({"locs": u.tensor("locs", (B, 3, 2), "f")}, (B,))
    env = u.ns(reset=lambda batch: td0, get_num_starts=lambda td: S)
    policy = lambda td, e, phase=None, num_starts=None: {"reward": rew, "log_likelihood": ll, "actions": acts}
    def augment(td):
        calls.setdefault("augment_arg", td)
        calls["augmented"] = SymTD(dict(td.data), td.batch_size) if isinstance(td, SymTD) else td
        return calls["augmented"]

    calls.clear()
    calls["reset_out"] = td0
    policy0 = policy
    policy = lambda td, e, phase=None, num_starts=None: (calls.__setitem__("policy_arg", td), policy0(td, e, phase=phase, num_starts=num_starts))[1]
    obj = u.obj(POMO, "POMO", env=env, policy=policy, num_augment=8 if n_aug is None else n_aug, num_starts=S, augment=augment,
                baseline=u.obj(BL, "SharedBaseline"), advantage_scaler=u.obj(UT, "RewardScaler", scale=None),
                log_metrics=lambda out, phase, dataloader_idx=None: {"_out": out})
    u.inline((RF, "REINFORCE.calculate_loss"), (BL, "SharedBaseline.eval"), (UT, "RewardScaler.__call__"))
    res = u.run(POMO, "POMO.shared_step", {}, 0, phase, selfobj=obj, record=False)
    return res, rew, ll, acts


@unit("pomo.shared_step.train", file=POMO, func="POMO.shared_step", props=("C16", "C12"))
def _(u):
    B, T = u.dims("B T")
    S = u.dim("S", 2)
    res, rew, ll, acts = _pomo(u, "train", S, B, T)
    loss = res["loss"]
    # reference surrogate: advantage of start s of instance b = its reward minus the mean over the S starts of the SAME instance
    rowsum = ops.reduce("sum", mk((B, S), "f", lambda I: rew.at(zint(I[1]) * B + zint(I[0]))), 1, label="startsum")
    adv = lambda b, s: rew.at(zint(s) * B + zint(b)) - rowsum.at(b) / z3.ToReal(zint(S))
    inner = ops.reduce("sum", mk((B, S), "f", lambda I: adv(I[0], I[1]) * ll.at(zint(I[1]) * B + zint(I[0]))), 1, label="inner")
    outer = ops.reduce("sum", inner, 0, label="outer")
    u.prove("pomo.loss.is-scalar", isinstance(loss, SymTensor) and loss.rank == 0)
    u.prove("pomo.loss.value", _scalar(loss) == -(outer.at() / (z3.ToReal(zint(B)) * z3.ToReal(zint(S)))))
    u.canary("pomo.loss.batch-mean-baseline", _scalar(loss) == 0)


@unit("pomo.shared_step.eval", file=POMO, func="POMO.shared_step", props=("C12", "C15"))
def _(u):
    B, T = u.dims("B T")
    S, A = u.dim("S", 2), u.dim("A", 2)
    from tvc.unit import on_reduction

    captured = []
    on_reduction(u, "", captured.append)
    res, rew, ll, acts = _pomo(u, "val", S, B, T, n_aug=A)
    out = res["_out"]
    b = u.idx((B,), "b")
    t = u.idx((T,), "t")
    i = u.idx((A,), "i")
    row = lambda jj, ii, bb: (zint(jj) * A + zint(ii)) * B + zint(bb)  # policy rows: start-major, then augmentation, then instance
    j, ia = z3.Int("jany"), z3.Int("iany")
    # witnesses: the argmax reductions the body itself creates (over starts at line `reward.max(dim=-1)`, over augmentations at `reward_.max(dim=1)`)
    am_start = [r for r in captured if r.kind == "argmax" and r.outer_rank == 2][0]
    am_aug = [r for r in captured if r.kind == "argmax" and r.outer_rank == 1][0]
    # the augmentation acts on the RESET state (depot and customers together in `locs`), and the policy decodes its output
    u.prove("pomo.augments-the-reset-state", AND(POMO_CALLS.get("augment_arg") is POMO_CALLS.get("reset_out"), POMO_CALLS.get("policy_arg") is POMO_CALLS.get("augmented")))
    same_tensor(u, "pomo.max_reward.shape", out["max_reward"], (B, A), lambda bb, ii: out["max_reward"].at(bb, ii))
    same_tensor(u, "pomo.best_multistart_actions.shape", out["best_multistart_actions"], (B, A, T), lambda bb, ii, tt: out["best_multistart_actions"].at(bb, ii, tt))
    same_tensor(u, "pomo.max_aug_reward.shape", out["max_aug_reward"], (B,), lambda bb: out["max_aug_reward"].at(bb))
    same_tensor(u, "pomo.best_aug_actions.shape", out["best_aug_actions"], (B, T), lambda bb, tt: out["best_aug_actions"].at(bb, tt))
    # per (instance, augmentation): the best of its OWN starts, with the matching action row
    js = am_start.app((b, i))
    u.prove("pomo.best-of-own-starts.witness-range", AND(js >= 0, js < S))
    u.prove("pomo.best-of-own-starts.reward", out["max_reward"].at(b, i) == rew.at(row(js, i, b)))
    u.prove("pomo.best-of-own-starts.actions", out["best_multistart_actions"].at(b, i, t) == acts.at(row(js, i, b), t))
    u.prove("pomo.best-of-own-starts.dominates", z3.ForAll([j], z3.Implies(z3.And(j >= 0, j < S), rew.at(row(j, i, b)) <= out["max_reward"].at(b, i))))
    # per instance: the best over all (augmentation, start) copies of that instance, with the matching action row
    is_ = am_aug.app((b,))
    js2 = am_start.app((b, is_))
    u.prove("pomo.best-of-own-copies.witness-range", AND(is_ >= 0, is_ < A, js2 >= 0, js2 < S))
    u.prove("pomo.best-of-own-copies.dominates", z3.ForAll([j, ia], z3.Implies(
        z3.And(j >= 0, j < S, ia >= 0, ia < A), rew.at(row(j, ia, b)) <= out["max_aug_reward"].at(b))))
    # two links, each a one-step argument, then their composition
    u.prove("pomo.best-of-own-copies.link-aug", out["max_aug_reward"].at(b) == out["max_reward"].at(b, is_), assume=True)
    u.prove("pomo.best-of-own-copies.link-start", out["max_reward"].at(b, is_) == rew.at(row(js2, is_, b)), assume=True)
    u.prove("pomo.best-of-own-copies.reward", out["max_aug_reward"].at(b) == rew.at(row(js2, is_, b)))
    u.prove("pomo.best-of-own-copies.actions", out["best_aug_actions"].at(b, t) == acts.at(row(js2, is_, b), t))
    u.canary("pomo.best-is-first-augmentation", out["max_aug_reward"].at(b) == out["max_reward"].at(b, 0))


# ---------------------------------------------------------------------------------------------
# C16: PPO mini-batch loss (clipped-ratio surrogate + value + entropy terms)
# ---------------------------------------------------------------------------------------------
PPO = "rl4co/models/rl/ppo/ppo.py"


@unit("ppo.shared_step.minibatch_loss", file=PPO, func="PPO.shared_step", props=("C16",))
def _(u):
    from tvc.methods import NoGrad  # noqa: F401

    M, T = u.dims("M T")          # M = rows of the (single) mini-batch, T = decoding steps
    eps, vf, el = u.scalar("clip_range", "f"), u.scalar("vf_lambda", "f"), u.scalar("entropy_lambda", "f")
    u.requires(AND(eps > 0, eps < 1))
    old_ll = u.tensor("old_log_likelihood", (M,), "f")
    rew = u.tensor("rollout_reward", (M,), "f")
    acts = u.tensor("rollout_actions", (M, T), "i")
    new_ll = u.tensor("new_step_log_likelihood", (M, T), "f")
    ent = u.tensor("new_entropy", (M,), "f")
    val = u.tensor("value_pred", (M, 1), "f")
    new_ll.requires_grad = True
    ent.requires_grad = True
    val.requires_grad = True
    td0 = SymTD({"locs": u.tensor("locs", (M, 3, 2), "f")}, (M,))
    calls = []

    def policy(td, env=None, phase=None, actions=None, return_entropy=False, return_sum_log_likelihood=True):
        calls.append(actions)
        if actions is None:   # rollout (the real code runs it under torch.no_grad)
            from tvc.core import cur as _cur
            g = getattr(_cur(), "no_grad_depth", 0) > 0
            r, l = rew.snap_tensor() if hasattr(rew, "snap_tensor") else rew, old_ll
            return {"reward": rew, "log_likelihood": old_ll, "actions": acts}
        return {"log_likelihood": new_ll, "entropy": ent, "reward": rew, "actions": actions}

    class _DS:
        def __init__(self, td):
            self.td = td

        def collate_fn(self, items):
            return items

    captured = {}
    opt = u.ns(zero_grad=lambda: None, step=lambda: None)
    obj = u.obj(PPO, "PPO", env=u.ns(reset=lambda batch: td0, dataset_cls=lambda td: u.ns(td=td, collate_fn=None)),
                policy=policy, critic=lambda td: val,
                ppo_cfg={"clip_range": eps, "ppo_epochs": 1, "mini_batch_size": 1.0, "vf_lambda": vf, "entropy_lambda": el,
                         "normalize_adv": False, "max_grad_norm": None},
                optimizers=lambda: opt, manual_backward=lambda loss: captured.__setitem__("loss", loss),
                log_metrics=lambda out, phase, dataloader_idx=None: {"_out": out})
    # DataLoader (assumed contract A9): here ONE mini-batch holding the whole roll-out batch in order
    u.stub(DataLoader=lambda dataset, batch_size=None, shuffle=False, collate_fn=None: [dataset.td])
    from tvc.unit import on_reduction

    reds = []
    on_reduction(u, "", reds.append)
    res = u.run(PPO, "PPO.shared_step", {}, 0, "train", selfobj=obj, record=False)
    out = res["_out"]
    i = u.idx((M,), "i")
    # sum of the new per-step log-probs of row k: the body's own reduction `ll.sum(dim=-1)` (checked to be that sum) or, unrolled, the explicit sum
    own = [r for r in reds if r.kind == "sum" and r.outer_rank == 1]
    if own:
        kk = z3.Int("ppo.kk")
        u.prove("ppo.llsum-is-the-step-sum", AND(zint(own[0].ns[0]) == zint(T), own[0].body((i,), (kk,)) == new_ll.at(i, kk)))
        llsum_at = lambda k: own[0].app((k,))
    else:
        llsum = ops.reduce("sum", new_ll, 1, label="llsum")
        llsum_at = lambda k: llsum.at(k)
    ratio = lambda k: ops.UF["exp"](llsum_at(k) - old_ll.at(k))
    adv = lambda k: rew.at(k) - val.at(k, 0)
    smin, smax = (lambda a, b: ops.scalar_binop("min", a, b)), (lambda a, b: ops.scalar_binop("max", a, b))
    clip = lambda x: smin(smax(x, 1 - eps), 1 + eps)                       # clamp(x, 1 - eps, 1 + eps)
    term = lambda k: smin(ratio(k) * adv(k), clip(ratio(k)) * adv(k))      # pessimistic (lower) of the two surrogates
    sur = ops.reduce("sum", mk((M,), "f", lambda I: term(I[0])), 0, label="sur")
    d = lambda k: val.at(k, 0) - rew.at(k)
    hub = lambda k: z3.If(z3.And(d(k) <= 1, d(k) >= -1), d(k) * d(k) / 2, z3.If(d(k) >= 0, d(k), -d(k)) - zreal(0.5))
    hs = ops.reduce("sum", mk((M,), "f", lambda I: hub(I[0])), 0, label="hub")
    es = ops.reduce("sum", ent, 0, label="ent")
    Mr = z3.ToReal(zint(M))
    u.prove("ppo.loss.is-scalar", AND(out["loss"].rank == 0, out["surrogate_loss"].rank == 0, out["value_loss"].rank == 0))
    u.prove("ppo.surrogate", _scalar(out["surrogate_loss"]) == -(sur.at() / Mr))
    u.prove("ppo.value_loss", _scalar(out["value_loss"]) == hs.at() / Mr)
    u.prove("ppo.loss", _scalar(out["loss"]) == _scalar(out["surrogate_loss"]) + vf * _scalar(out["value_loss"]) - el * (es.at() / Mr))
    u.prove("ppo.backward-on-total-loss", captured.get("loss") is out["loss"])
    u.prove("ppo.evaluates-stored-actions", len(calls) == 2 and calls[0] is None and calls[1] is not None)
    u.prove("ppo.loss-has-gradient", out["loss"].requires_grad)
    u.canary("ppo.unclipped", _scalar(out["surrogate_loss"]) == -(ops.reduce("sum", mk((M,), "f", lambda I: ratio(I[0]) * adv(I[0])), 0, label="unc").at() / Mr))


# ---------------------------------------------------------------------------------------------
# C16: SymNCO loss functions (shared baselines along one axis of the regrouped [B, S, A] tensors)
# ---------------------------------------------------------------------------------------------
SYL = "rl4co/models/zoo/symnco/losses.py"


def _sym_loss(u, fn, axis):
    from tvc.unit import on_reduction

    B = u.dim("B")
    S, A = u.dim("S", 2), u.dim("A", 2)
    rew = u.tensor("reward", (B, S, A), "f")
    ll = u.tensor("log_likelihood", (B, S, A), "f")
    ll.requires_grad = True
    reds = []
    on_reduction(u, "", reds.append)
    loss = u.run(SYL, fn, rew, ll)
    u.prove("symloss.is-scalar", isinstance(loss, SymTensor) and loss.rank == 0)
    u.prove("symloss.has-gradient", loss.requires_grad)
    u.canary("symloss.zero", _scalar(loss) == 0)
    sums = [r for r in reds if r.kind == "sum"]
    if u.mode != "sym" or len(sums) != 4:
        # unrolled (concrete) run: the explicit reference
        Sr, Ar = (S, A)
        n = (S, A)[axis - 1]
        def base(b, s, a):
            tot = 0
            for k in range(n):
                tot = tot + (rew.at(b, k, a) if axis == 1 else rew.at(b, s, k))
            return tot / zreal(n)
        tot = 0
        for b in range(B):
            for s_ in range(S):
                for a in range(A):
                    tot = tot + (rew.at(b, s_, a) - base(b, s_, a)) * ll.at(b, s_, a)
        # the same explicit clause under the names of the symbolic run's clauses: a refuted symbolic clause gets its
        # concrete, replayable counterexample from here
        for nm in ("symloss.baseline-is-mean-over-starts" if axis == 1 else "symloss.baseline-is-mean-over-augmentations",
                   "symloss.summand", "symloss.sum-over-starts", "symloss.sum-over-instances", "symloss.value"):
            u.prove(nm, _scalar(loss) == -(tot / zreal(B * S * A)))
        return
    # symbolic run: the loss is characterised through the body's own four reductions, each the sum of its summand over its
    # range by definition: (1) baseline sum over the chosen axis, (2)-(4) the three nested sums of -advantage * log-likelihood
    r_base, r2, r1, r0 = sums
    b, s_, a, k = u.idx((B,), "b"), u.idx((S,), "s"), u.idx((A,), "a"), z3.Int("symloss.k")
    n_axis = (S, A)[axis - 1]
    if axis == 1:
        u.prove("symloss.baseline-is-mean-over-starts", AND(zint(r_base.ns[0]) == zint(S), r_base.body((b, a), (k,)) == rew.at(b, k, a)))
        adv = rew.at(b, s_, a) - r_base.app((b, a)) / z3.ToReal(zint(S))
    else:
        u.prove("symloss.baseline-is-mean-over-augmentations", AND(zint(r_base.ns[0]) == zint(A), r_base.body((b, s_), (k,)) == rew.at(b, s_, k)))
        adv = rew.at(b, s_, a) - r_base.app((b, s_)) / z3.ToReal(zint(A))
    u.prove("symloss.summand", AND(zint(r2.ns[0]) == zint(A), r2.body((b, s_), (a,)) == -adv * ll.at(b, s_, a)))
    u.prove("symloss.sum-over-starts", AND(zint(r1.ns[0]) == zint(S), r1.body((b,), (s_,)) == r2.app((b, s_))))
    u.prove("symloss.sum-over-instances", AND(zint(r0.ns[0]) == zint(B), r0.body((), (b,)) == r1.app((b,))))
    u.prove("symloss.value", _scalar(loss) == r0.app(()) / (z3.ToReal(zint(B)) * z3.ToReal(zint(S)) * z3.ToReal(zint(A))))


@unit("symnco.problem_symmetricity_loss", file=SYL, func="problem_symmetricity_loss", props=("C16",))
def _(u):
    _sym_loss(u, "problem_symmetricity_loss", 1)


@unit("symnco.solution_symmetricity_loss", file=SYL, func="solution_symmetricity_loss", props=("C16",))
def _(u):
    _sym_loss(u, "solution_symmetricity_loss", 2)


@unit("rl.reinforce.shared_step", file=RF, func="REINFORCE.shared_step", props=("C16",))
def _(u):
    # glue of REINFORCE / A2C (A2C = REINFORCE with the critic baseline): the training loss returned by the step is
    # the one calculate_loss computes from THIS batch's roll-out, the roll-out is not best-of-k filtered in training
    B = u.dim("B")
    rew = u.tensor("policy_reward", (B,), "f")
    ll = u.tensor("policy_ll", (B,), "f")
    ll.requires_grad = True
    val = u.tensor("critic_value", (B, 1), "f")
    val.requires_grad = True
    td0 = SymTD({"locs": u.tensor("locs", (B, 3, 2), "f")}, (B,))
    seen = {}

    def policy(td, env, phase=None, select_best=None):
        seen["select_best"] = select_best
        return {"reward": rew, "log_likelihood": ll}

    for phase in ("train", "val"):
        obj = u.obj(RF, "REINFORCE", env=u.ns(reset=lambda batch: td0), policy=policy,
                    baseline=u.obj(BL, "CriticBaseline", critic=lambda x: val), advantage_scaler=u.obj(UT, "RewardScaler", scale=None),
                    log_metrics=lambda out, phase, dataloader_idx=None: {"_out": out})
        u.inline((RF, "REINFORCE.calculate_loss"), (BL, "CriticBaseline.eval"), (UT, "RewardScaler.__call__"))
        res = u.run(RF, "REINFORCE.shared_step", {}, 0, phase, selfobj=obj, record=False)
        if phase == "train":
            i = z3.Int("a2c.i")
            adv = mk((B,), "f", lambda I: (rew.at(I[0]) - val.at(I[0], 0)) * ll.at(I[0]))
            mse = mk((B,), "f", lambda I: (val.at(I[0], 0) - rew.at(I[0])) * (val.at(I[0], 0) - rew.at(I[0])))
            Br = z3.ToReal(zint(B))
            u.prove("a2c.loss", _scalar(res["loss"]) == -(ops.reduce("sum", adv, 0, label="a2c.adv").at() / Br) + ops.reduce("sum", mse, 0, label="a2c.mse").at() / Br)
            u.prove("a2c.train-rollout-not-filtered", seen["select_best"] is False)
            u.prove("a2c.loss-has-gradient", res["loss"].requires_grad)
            u.canary("a2c.no-critic-loss", _scalar(res["loss"]) == -(ops.reduce("sum", adv, 0, label="a2c.adv2").at() / Br))
        else:
            u.prove("eval.no-loss", res["loss"] is None)
            u.prove("eval.best-of-k", seen["select_best"] is True)


# ---------------------------------------------------------------------------------------------
# C16 / C12: SymNCO.shared_step - which tensors reach the three loss functions and how the losses are combined
# ---------------------------------------------------------------------------------------------
SYM = "rl4co/models/zoo/symnco/model.py"


@unit("symnco.shared_step.train", file=SYM, func="SymNCO.shared_step", props=("C16",))
def _(u):
    B = u.dim("B")
    S, A = u.dim("S", 2), u.dim("A", 2)
    R = S * (A * B)
    rew, ll = u.tensor("policy_reward", (R,), "f"), u.tensor("policy_ll", (R,), "f")
    ll.requires_grad = True
    proj = u.tensor("proj_embeddings", (A * B, 3, 4), "f")
    alpha, beta = u.scalar("alpha", "f"), u.scalar("beta", "f")
    Lps, Lss, Linv = u.scalar("L_ps", "f"), u.scalar("L_ss", "f"), u.scalar("L_inv", "f")
    got = {}
    u.stub(problem_symmetricity_loss=lambda r, l, dim=1: (got.update(ps=(r, l, dim)), Lps)[1],
           solution_symmetricity_loss=lambda r, l, dim=-1: (got.update(ss=(r, l, dim)), Lss)[1],
           invariance_loss=lambda pe, n: (got.update(inv=(pe, n)), Linv)[1])
    td0 = SymTD({"locs": u.tensor("locs", (B, 3, 2), "f")}, (B,))
    obj = u.obj(SYM, "SymNCO", env=u.ns(reset=lambda batch: td0, name="tsp"), num_augment=A, num_starts=S, augment=lambda td: td, alpha=alpha, beta=beta,
                policy=lambda td, env, phase=None, num_starts=None: {"reward": rew, "log_likelihood": ll, "proj_embeddings": proj},
                log_metrics=lambda out, phase, dataloader_idx=None: {"_out": out})
    res = u.run(SYM, "SymNCO.shared_step", {}, 0, "train", selfobj=obj, record=False)
    b, i, j = u.idx((B,), "b"), u.idx((S,), "i"), u.idx((A,), "j")
    u.prove("symnco.loss.combination", _scalar(res["loss"]) == Lps + beta * Lss + alpha * Linv)
    u.prove("symnco.losses.receive-the-same-regrouped-tensors", AND(got["ps"][0] is got["ss"][0], got["ps"][1] is got["ss"][1], got["inv"][0] is proj, got["inv"][1] is A))
    r3, l3 = got["ps"][0], got["ps"][1]
    u.prove("symnco.regrouped.shape", AND(*[zint(x) == zint(y) for x, y in zip(r3.shape, (B, S, A))], r3.rank == 3, l3.rank == 3))
    # every entry of the regrouped tensors is a roll-out of the SAME instance b, and reward / log-likelihood stay paired
    row = (j * S + i) * B + b
    u.prove("symnco.regrouped.same-instance-and-paired", AND(r3.at(b, i, j) == rew.at(row), l3.at(b, i, j) == ll.at(row), row % B == b))
    u.canary("symnco.loss.without-invariance-term", _scalar(res["loss"]) == Lps + beta * Lss)
