"""./verif check <Cxx> [--tier quick|thorough]   |   ./verif replay <file>   |   ./verif units [glob]

Exit codes: 0 all obligations discharged; 1 violation (VIOLATION line printed);
2 undecided (solver unknown on both back ends); 3 the verifier could not process
the code (unsupported construct, vacuity guard, internal error).
"""
from __future__ import annotations

import fnmatch
import hashlib
import importlib
import json
import multiprocessing as mp
import os
import pkgutil
import re
import subprocess
import sys
import time

ROOT = os.path.dirname(os.path.dirname(os.path.abspath(__file__)))
REPO = os.environ.get("TVC_REPO", "/repo")
VENV_PY = "/venv/bin/python"


def load_contracts():
    sys.path.insert(0, ROOT)
    import contracts

    for m in pkgutil.iter_modules(contracts.__path__):
        importlib.import_module("contracts." + m.name)


def _run_unit(name):
    from tvc.unit import run_unit

    try:
        return run_unit(name, REPO)
    except Exception as e:  # pragma: no cover
        import traceback

        return {"unit": name, "props": [], "obligations": [], "errors": [("internal", f"{e}\n{traceback.format_exc(limit=5)}")],
                "functions": {}, "assumptions": [], "used_ops": [], "paths": 0, "wall_s": 0}


def _run_lemmas(_):
    from tvc.lemmas import run_all

    return run_all()


def load_known():
    p = os.path.join(ROOT, "known_findings.json")
    if not os.path.exists(p):
        return {"known": [], "fixed": []}
    return json.load(open(p))


def safe(s):
    return re.sub(r"[^A-Za-z0-9_.-]+", "_", s)[:150]


def replay_file(path):
    if not os.path.exists(VENV_PY):
        return 5, "no /venv/bin/python"
    env = dict(os.environ)
    env["PYTHONPATH"] = REPO
    env["TVC_REPO"] = REPO
    try:
        p = subprocess.run([VENV_PY, os.path.join(ROOT, "concrete", "replay.py"), path, "--repo", REPO],
                           capture_output=True, text=True, timeout=300, env=env)
        return p.returncode, (p.stdout + p.stderr)[-3000:]
    except subprocess.TimeoutExpired:
        return 5, "replay timeout"


def check(prop, tier):
    from tvc.unit import UNITS

    t0 = time.time()
    seed = int(os.environ.get("VERIF_SEED", "0") or 0)
    load_contracts()
    os.environ["TVC_TIER"] = tier      # inherited by the unit workers: the thorough tier adds the concrete cross-check of every clause
    from tvc import standins

    names = [n for n, ud in UNITS.items() if prop in ud.props]
    known = load_known()
    known_ids = {(k["property"], k["unit"], k["obligation"]): k for k in known.get("known", [])}
    results = []
    nproc = min(int(os.environ.get("TVC_POOL", "10")), max(1, len(names) + 1))
    # one fresh worker per unit: a unit's verdicts do not depend on which units ran before it in the same process
    with mp.Pool(nproc, maxtasksperchild=1) as pool:
        lem_async = pool.apply_async(_run_lemmas, (0,))
        results = pool.map(_run_unit, names, chunksize=1)
        lemmas = lem_async.get()
    violations = []
    errors = []
    unknowns = []
    known_lines = []
    n_obl = n_dis = 0
    by_backend = {}
    solver_time = 0.0
    samples = []
    functions = {}
    assumptions = set()
    used_ops = set()
    canaries_ok = canaries_bad = 0
    obl_list = []
    CROSS[0] = sum(r.get("crosschecked", 0) for r in results)
    for r in results:
        for e in r["errors"]:
            errors.append(f"{r['unit']}: {e[0]}: {e[1]}")
        functions.update(r["functions"])
        assumptions |= set(r["assumptions"])
        used_ops |= set(r["used_ops"])
        for ob in r["obligations"]:
            if ob["kind"] in ("post", "lemma", "known") and prop not in ob["tags"]:
                continue
            if ob["kind"] == "canary":
                if prop not in ob["tags"]:
                    continue
                if ob["status"] == "canary-refuted":
                    canaries_ok += 1
                else:
                    canaries_bad += 1
                    ob["_unit"] = r["unit"]
                    obl_list.append(ob)
                continue
            ob["_unit"] = r["unit"]
            kid = (prop, r["unit"], ob["name"])
            if kid in known_ids:
                # an obligation inside a recorded failure class (known_findings.json): expected to be refuted
                if ob["status"] == "refuted":
                    known_lines.append(f"KNOWN-FINDING: property={prop} {known_ids[kid]['what']}")
                    _write_replay(prop, r["unit"], ob)
                    continue
                if ob["status"] == "proved":
                    known_lines.append(f"NOTE: known finding no longer reproduces: property={prop} unit={r['unit']} obligation={ob['name']}")
            n_obl += 1
            solver_time += ob.get("secs", 0)
            if ob["status"] == "proved":
                n_dis += 1
                by_backend[ob["backend"]] = by_backend.get(ob["backend"], 0) + 1
                if len(samples) < 6 and ob["kind"] != "wf":
                    samples.append({"unit": r["unit"], "obligation": ob["name"], "kind": ob["kind"], "loc": ob["loc"],
                                    "backend": ob["backend"], "secs": round(ob["secs"], 3)})
            elif ob["status"] == "refuted":
                violations.append((r["unit"], ob))
            else:
                unknowns.append(f"{r['unit']}::{ob['name']} ({ob.get('reason','')})")
    for l in (lemmas if names else []):  # the lemma library only backs properties that have proof units
        n_obl += 1
        solver_time += l["secs"]
        if l["status"] == "proved":
            n_dis += 1
            by_backend["z3"] = by_backend.get("z3", 0) + 1
        else:
            errors.append(f"lemma library: {l['name']} {l['status']}")
    # bounded stand-ins (never counted as proved)
    st_results = standins.run_for(prop, tier, seed, REPO)
    for s in st_results:
        for kn in s.get("known", []):
            kid = (prop, s["name"], kn["name"])
            if kid in known_ids:
                known_lines.append(f"KNOWN-FINDING: property={prop} {known_ids[kid]['what']}")
            else:
                s.setdefault("violations", []).append(kn)
        for v in s.get("violations", []):
            violations.append((s["name"], {"name": v["name"], "kind": "standin", "loc": s["name"], "replay": v, "note": v.get("what", ""), "standin": True}))
        for e in s.get("errors", []):
            errors.append(f"standin {s['name']}: {e}")
    out_lines = []
    rc = 0
    nviol = 0
    from concurrent.futures import ThreadPoolExecutor

    paths = [(_write_replay(prop, un, ob), un, ob) for un, ob in violations]
    todo = [p for p, un, ob in paths if not ob.get("standin")][:24]
    with ThreadPoolExecutor(8) as ex:
        rres = dict(zip(todo, ex.map(replay_file, todo)))
    for path, unit_name, ob in paths:
        if ob.get("standin"):
            confirmed = True
        else:
            code, txt = rres.get(path, (5, "not replayed (more than 24 violations in this run)"))
            confirmed = code == 0
            try:
                d = json.load(open(path))
                d["replay_output"] = txt
                d["replay_confirmed"] = confirmed
                json.dump(d, open(path, "w"), indent=1)
            except Exception:
                pass
        rel = os.path.relpath(path, ROOT)
        line = f"VIOLATION property={prop} replay={rel} obligation={unit_name}::{ob['name']} at {ob.get('loc')}"
        if not confirmed:
            line += " no-failing-input-found"
        out_lines.append(line)
        nviol += 1
        rc = 1
    if not nviol and canaries_bad:
        for ob in obl_list:
            errors.append(f"canary not refuted (vacuous clause or broken encoding): {ob['_unit']}::{ob['name']}")
    if rc == 0 and errors:
        rc = 3
    if rc == 0 and unknowns:
        rc = 2
    if rc == 0 and n_obl == 0 and not any(s.get("cases") for s in st_results):
        errors.append("zero obligations generated")
        rc = 3
    for l in known_lines:
        print(l)
    for l in out_lines:
        print(l)
    for e in errors:
        print("ERROR:", e[:2000])
    for x in unknowns:
        print("UNDECIDED:", x)
    wall = time.time() - t0
    ev = make_evidence(prop, tier, seed, n_obl, n_dis, by_backend, solver_time, samples, functions, assumptions, used_ops,
                       canaries_ok, st_results, known_lines, nviol, unknowns, errors, wall, names)
    os.makedirs(os.path.join(ROOT, "evidence"), exist_ok=True)
    json.dump(ev, open(os.path.join(ROOT, "evidence", f"{prop}.json"), "w"), indent=1)
    print(f"{prop}: obligations={n_obl} discharged={n_dis} violations={nviol} undecided={len(unknowns)} errors={len(errors)} "
          f"canaries_refuted={canaries_ok} standins={len(st_results)} wall={wall:.1f}s exit={rc}")
    return rc


def _write_replay(prop, unit_name, ob):
    d = os.path.join(ROOT, "replays", prop)
    os.makedirs(d, exist_ok=True)
    path = os.path.join(d, safe(f"{unit_name}__{ob['name']}") + ".json")
    rp = dict(ob.get("replay") or {})
    rp.setdefault("unit", unit_name)
    rp.setdefault("obligation", ob["name"])
    rp["property"] = prop
    rp["loc"] = ob.get("loc")
    rp["solver_output"] = {"status": ob.get("status"), "backend": ob.get("backend"), "reason": ob.get("reason", ""), "note": ob.get("note", "")}
    json.dump(rp, open(path, "w"), indent=1)
    return path


DROPPED = ["docstrings", "comments", "type annotations", "log.* calls", "render()", "device placement (.to(device), device=)",
           "_make_spec / TorchRL spec objects", "float precision (float tensors are reals, A1)",
           "integer width (int tensors are mathematical integers, A2)"]


BASE_ASSUMPTIONS = [
    "A1 float tensors are mathematical reals (no rounding, no overflow, no NaN); float32 boundary effects are left to the bounded stand-ins",
    "A2 integer tensors and Python ints are mathematical integers (no 64-bit wrap-around)",
    "A12 Python semantics of the interpreted subset: left-to-right evaluation, no exceptions other than the modelled asserts / well-formedness failures / KeyError of plain dicts; device placement, logging, typing and docstrings dropped",
    "torch / tensordict / einops operations behave as stated in the tvc operation table (documented semantics; see trusted_base for the operations this run used)",
    "collaborators passed to a unit as stubs (environment, policy, encoder, attention kernel, DataLoader, samplers) satisfy the contract written in that unit; they are proved, where they are repository code, by their own units",
    "uninterpreted real functions exp / log / sqrt / tanh / sigmoid / cos / sin with only the axioms instantiated in the units (positivity of exp and sqrt, cos^2 + sin^2 = 1); Euclidean norm: non-negative, zero iff zero, even (exact on the concrete pass)",
    "+/-inf literals are a constant INF above every input value, compared but never used in arithmetic (A1b)",
]
CROSS = [0]   # clauses re-examined on small concrete instances by the thorough tier (sum over units)


def make_evidence(prop, tier, seed, n_obl, n_dis, by_backend, solver_time, samples, functions, assumptions, used_ops,
                  canaries_ok, st_results, known_lines, nviol, unknowns, errors, wall, unit_names):
    from tvc import props as P

    meta = P.META.get(prop, {})
    level = meta.get("level", "proof")
    trusted = ["z3 4.x/5.x (python API) and cvc5 as SMT back ends",
               "tvc operation table = assumed contracts of the torch/tensordict operations used: " + ", ".join(sorted(used_ops))[:1500],
               "tvc AST interpreter (Python semantics A12: unbounded ints, left-to-right evaluation, no exceptions other than modelled asserts/WF failures)"]
    cov = {
        "obligations": n_obl, "discharged": n_dis,
        "checker_cmd": f"./verif check {prop} --tier {tier}",
        "trusted_base": trusted,
        "by_backend": by_backend, "solver_time_s": round(solver_time, 2),
        "functions_under_contract": [{"function": k, "module_sha256_16": v} for k, v in sorted(functions.items()) if not k.startswith("spec::")],
        "callee_contracts_used": sorted(k[6:] for k in functions if k.startswith("spec::")),
        "units": unit_names,
        "dropped_by_ingestion": DROPPED,
        "canaries_refuted": canaries_ok,
        "thorough_crosschecked_clauses": CROSS[0],
        "bounded_standins": [{"name": s["name"], "bound": s.get("bound"), "cases": s.get("cases"), "violations": len(s.get("violations", []))} for s in st_results],
        "known_findings_reported": known_lines,
        "undecided": unknowns, "errors": errors[:20],
        "not_covered": meta.get("not_covered", []),
        "samples": samples or [{"note": "no proof obligation sample"}],
        "explanation": meta.get("explanation", ""),
    }
    ncases = sum(s.get("cases", 0) for s in st_results)
    if ncases:
        cov["evaluations"] = ncases
        cov["distinct_nontrivial"] = sum(s.get("distinct", s.get("cases", 0)) for s in st_results)
        cov["rule"] = "; ".join(f"{s['name']}: {s.get('rule','')}" for s in st_results)
    return {"property_id": prop, "tier": tier, "seed": seed, "level": level, "coverage": cov,
            "assumptions": BASE_ASSUMPTIONS + sorted(assumptions) + meta.get("assumptions", []), "wall_s": round(wall, 2), "violations": nviol}


def main(argv):
    if not argv:
        print(__doc__)
        return 3
    cmd = argv[0]
    if cmd == "check":
        prop = argv[1]
        tier = os.environ.get("VERIF_TIER", "quick")
        if "--tier" in argv:
            tier = argv[argv.index("--tier") + 1]
        return check(prop, tier)
    if cmd == "replay":
        code, txt = replay_file(argv[1])
        print(txt)
        return code
    if cmd == "units":
        from tvc.main import main as m

        return m(argv[1:])
    print(__doc__)
    return 3


if __name__ == "__main__":
    sys.exit(main(sys.argv[1:]))
