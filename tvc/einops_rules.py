"""einops.rearrange / reduce / repeat for the patterns used by rl4co (names, parenthesised groups, '...')."""
import re

from . import ops
from .core import SymTensor, Unsupported, cur, simp_int
from .td import SymTD


def _tokens(side):
    out = []
    for m in re.finditer(r"\(([^)]*)\)|(\.\.\.)|(\S+)", side):
        if m.group(1) is not None:
            out.append(tuple(m.group(1).split()))
        elif m.group(2):
            out.append("...")
        else:
            out.append(m.group(3))
    return out


def _expand_ellipsis(toks, n_extra, prefix="_e"):
    out = []
    for t in toks:
        if t == "...":
            out.extend(f"{prefix}{k}" for k in range(n_extra))
        else:
            out.append(t)
    return out


def _rearrange_tensor(t, pattern, sizes):
    lhs, rhs = [s.strip() for s in pattern.split("->")]
    L, R = _tokens(lhs), _tokens(rhs)
    n_named = sum(1 for x in L if x != "...")
    n_extra = t.rank - n_named if "..." in L else 0
    L, R = _expand_ellipsis(L, n_extra), _expand_ellipsis(R, n_extra)
    if len(L) != t.rank:
        raise Unsupported(f"rearrange pattern {pattern!r} for rank {t.rank}")
    # 1. split groups on the left
    dimsize = {}
    split_shape, names = [], []
    for tok, n in zip(L, t.shape):
        if isinstance(tok, tuple):
            known = [sizes.get(a) for a in tok]
            unk = [a for a, v in zip(tok, known) if v is None]
            if len(unk) > 1:
                raise Unsupported("rearrange: more than one unknown size in a group")
            prod = 1
            for v in known:
                if v is not None:
                    prod = simp_int(ops.scalar_binop("mul", prod, v, wf=False))
            for a, v in zip(tok, known):
                if v is None:
                    v = simp_int(ops.scalar_binop("floordiv", n, prod, wf=False))
                dimsize[a] = v
                split_shape.append(v)
                names.append(a)
        else:
            dimsize[tok] = n
            split_shape.append(n)
            names.append(tok)
    x = ops.reshape(t, *split_shape) if len(split_shape) != t.rank else t
    # 2. permute to the order of the right-hand side
    order = []
    for tok in R:
        for a in (tok if isinstance(tok, tuple) else (tok,)):
            if a not in names:
                raise Unsupported(f"rearrange: unknown axis {a}")
            order.append(names.index(a))
    if sorted(order) != list(range(len(names))):
        raise Unsupported("rearrange: axes dropped or duplicated")
    if order != list(range(len(names))):
        x = ops.permute(x, *order)
    # 3. merge groups on the right
    out_shape = []
    for tok in R:
        if isinstance(tok, tuple):
            p = 1
            for a in tok:
                p = simp_int(ops.scalar_binop("mul", p, dimsize[a], wf=False))
            out_shape.append(p)
        else:
            out_shape.append(dimsize[tok])
    if len(out_shape) != x.rank:
        x = ops.reshape(x, *out_shape)
    return x


def apply(name, args, kwargs):
    if name == "rearrange":
        x, pattern = args[0], args[1]
        if isinstance(x, (list, tuple)):
            x = ops.stack(list(x), 0)
        if isinstance(x, SymTD):
            raise Unsupported("rearrange on TensorDict")
        return _rearrange_tensor(x, pattern, kwargs)
    if name == "reduce":
        x, pattern, red = args[0], args[1], args[2] if len(args) > 2 else kwargs.get("reduction")
        lhs, rhs = [s.strip() for s in pattern.split("->")]
        L, R = _tokens(lhs), _tokens(rhs)
        n_named = sum(1 for t in L if t != "...")
        n_extra = x.rank - n_named if "..." in L else 0
        L, R = _expand_ellipsis(L, n_extra), _expand_ellipsis(R, 0 if "..." not in R else n_extra)
        if any(isinstance(t, tuple) for t in L + R):
            raise Unsupported("einops.reduce with groups")
        dims = [k for k, t in enumerate(L) if t not in R]
        keep = [t for t in L if t in R]
        if keep != [t for t in R]:
            raise Unsupported("einops.reduce with permutation")
        kind = {"any": "any", "all": "all", "sum": "sum", "max": "max", "min": "min"}.get(red)
        if kind is None:
            raise Unsupported(f"einops.reduce {red}")
        r = x
        for d in sorted(dims, reverse=True):
            r = ops.reduce(kind, r, d)
        return r
    if name == "repeat":
        raise Unsupported("einops.repeat")
    raise Unsupported(f"einops.{name}")
