"""Contract units: a unit is a python function stating the contract of one real
function (inputs, requires, call of the real body, ensures as named obligations).

A unit is executed (a) with symbolic dimensions -> proof obligations for all
sizes, and (b) with small concrete dimensions -> quantifier-free instances used
for counterexamples (replayed on the real code), covers and canaries.
"""
from __future__ import annotations

import itertools
import json
import os
import time
import traceback

import z3

from . import ops, vc
from .core import (
    AND, IMPL, NOT, OR, Chooser, Ctx, PathEnd, SymTensor, Unsupported, cur, fresh_index, in_range, input_tensor,
    is_z3, mk, simp_int, sort_of, zint, const_tensor,
)
from .interp import ClassRef, FuncRef, Interp, Namespace, Repo, SelfObj
from .td import SymTD

UNITS = {}
SPECS = {}


def unit(name, file=None, func=None, props=(), dims_small=None, note=""):
    def deco(fn):
        UNITS[name] = UnitDef(name, fn, file, func, tuple(props), dims_small or {}, note)
        return fn

    return deco


def spec(relpath, qual):
    def deco(fn):
        SPECS[(relpath, qual)] = fn
        return fn

    return deco


class UnitDef:
    def __init__(self, name, fn, file, func, props, dims_small, note):
        self.name, self.fn, self.file, self.func = name, fn, file, func
        self.props, self.dims_small, self.note = props, dims_small, note


class U:
    """Handle given to unit functions."""

    def __init__(self, udef: UnitDef, ctx: Ctx, mode, dimvals, repo):
        self.udef = udef
        self.ctx = ctx
        self.mode = mode  # 'sym' | 'conc'
        self.dimvals = dimvals or {}
        self.interp = Interp(repo, call_hook=self._hook)
        self.interp_inline = set()
        self.calls = []  # replay recipes
        self.functions = {}  # key -> sha of module
        self.assumptions = set()
        self.no_spec = set()
        self.dim_order = []
        self.native_scn = None      # (scenario name, params): replay the whole history natively (concrete/scenarios.py)
        self.native_outs = {}       # label -> symbolic value whose model value is the prediction compared with the native output

    # ---- declarations
    def dim(self, name, lo=1, small=None):
        full = self.ctx.prefix + name
        if full not in self.dim_order:
            self.dim_order.append(full)
        DIM_LO[(self.udef.name, full)] = max(lo, DIM_LO.get((self.udef.name, full), 1))
        if self.mode == "conc":
            v = self.dimvals.get(full, self.dimvals.get(name))
            if v is None:
                v = max(lo, 2)
            if v < lo:
                raise PathEnd("infeasible")
            self.ctx.dims[full] = v
            return v
        return self.ctx.dim(name, lo)

    def dims(self, names, lo=1):
        return [self.dim(n, lo) for n in names.split()]

    def tensor(self, name, shape, dtype):
        t = input_tensor(name, tuple(shape), dtype, self.ctx)
        alias = getattr(self.ctx, "row_alias", None)
        if alias is not None and name in alias["src"]:
            # 2-run non-interference: row `row` of this batch IS row `src_row` of the other batch
            # (same terms), every other row is unconstrained.
            src, row, src_row = alias["src"][name], alias["row"], alias["src_row"]
            own = t.snap()
            ssrc = src.snap()

            def elem(I, own=own, ssrc=ssrc, row=row, src_row=src_row):
                i0 = I[0]
                if is_z3(i0) and i0.eq(row):
                    return ssrc((src_row,) + tuple(I[1:]))
                if isinstance(i0, int):
                    return z3.If(row == i0, ssrc((src_row,) + tuple(I[1:])), own(I))
                return z3.If(i0 == row, ssrc((src_row,) + tuple(I[1:])), own(I))

            a = mk(tuple(shape), dtype, elem, name=t.name, prov=("input", t.name))
            self.ctx.inputs[t.name] = (a, tuple(shape), dtype)
            return a
        return t

    def td(self, batch, **keys):
        bs = tuple(batch) if isinstance(batch, (tuple, list)) else (batch,)
        data = {}
        for k, (shape, dt) in keys.items():
            data[k] = self.tensor(k, shape, dt)
        return SymTD(data, bs)

    def abstract(self, t, name):
        """Replace a computed tensor by an opaque one of the same shape/dtype (modular reasoning: what follows may
        only use the facts that were proved about it and are re-stated with requires)."""
        return input_tensor(name, tuple(t.shape), t.dtype, self.ctx)

    def scalar(self, name, dtype="i"):
        c = z3.Const(self.ctx.prefix + name, sort_of(dtype))
        self.ctx.scalars[self.ctx.prefix + name] = (c, dtype)
        return c

    def requires(self, f):
        self.ctx.assume(f)

    def assume_external(self, text):
        self.assumptions.add(text)

    # ---- quantifier helpers (finite expansion with concrete ranges)
    def _ranges(self, shape):
        out = []
        for s in shape:
            if isinstance(s, tuple):
                out.append((simp_int(s[0]), simp_int(s[1])))
            else:
                out.append((0, simp_int(s)))
        return out

    def forall(self, shape, fn, names=None, pats=None, limit=4096):
        rs = self._ranges(shape)
        if all(isinstance(a, int) and isinstance(b, int) for a, b in rs):
            tot = 1
            for a, b in rs:
                tot *= max(0, b - a)
            if tot <= limit:
                cs = [fn(*I) for I in itertools.product(*[range(a, b) for a, b in rs])]
                return AND(*cs)
        vs = [z3.Int(f"{(names[k] if names else 'q')}_{next(self.ctx.fresh_ids)}") for k in range(len(rs))]
        rng = AND(*[AND(zint(v) >= zint(a), zint(v) < zint(b)) for v, (a, b) in zip(vs, rs)])
        body = IMPL(rng, fn(*vs))
        if isinstance(body, bool):
            return body
        if pats:
            p = pats(*vs)
            return z3.ForAll(vs, body, patterns=p if isinstance(p, list) else [p])
        return z3.ForAll(vs, body)

    def exists(self, shape, fn, names=None, limit=4096):
        rs = self._ranges(shape)
        if all(isinstance(a, int) and isinstance(b, int) for a, b in rs):
            tot = 1
            for a, b in rs:
                tot *= max(0, b - a)
            if tot <= limit:
                return OR(*[fn(*I) for I in itertools.product(*[range(a, b) for a, b in rs])])
        vs = [z3.Int(f"{(names[k] if names else 'e')}_{next(self.ctx.fresh_ids)}") for k in range(len(rs))]
        rng = AND(*[AND(zint(v) >= zint(a), zint(v) < zint(b)) for v, (a, b) in zip(vs, rs)])
        body = AND(rng, fn(*vs))
        if isinstance(body, bool):
            return body
        return z3.Exists(vs, body)

    def idx(self, shape, names=None):
        """Skolem index tuple (stands for 'for all indices' in goals)."""
        rs = self._ranges(shape)
        out = []
        for k, (a, b) in enumerate(rs):
            nm = names.split()[k] if names else f"i{k}"
            v = z3.Int(f"{self.ctx.prefix}{nm}")
            self.ctx.scalars[f"{self.ctx.prefix}{nm}"] = (v, "i")
            self.ctx.assume(z3.And(v >= zint(a), v < zint(b)))
            out.append(v)
        return out[0] if len(out) == 1 else tuple(out)

    # ---- objects
    def obj(self, relpath, clsname, **attrs):
        c = self.interp.cls(relpath, clsname)
        return SelfObj(c, attrs)

    def ns(self, **kw):
        return Namespace(**kw)

    # ---- native scenario replay (units that run a history of calls / stubbed collaborators)
    def native(self, scenario, **params):
        self.native_scn = (scenario, params)

    def native_out(self, label, value):
        self.native_outs[label] = value
        return value

    # ---- running real code
    def _hook(self, interp, fref, selfobj, args, kwargs):
        if fref.key in self.no_spec:
            return False, None
        sp = SPECS.get(fref.key)
        if sp is None:
            return False, None
        self.functions.setdefault(("spec",) + fref.key, fref.mod.sha)
        return True, sp(self, selfobj, *args, **kwargs)

    def stub(self, **names):
        """Module-level names (imported libraries) replaced by contract stubs = assumed contracts of external code."""
        if not hasattr(self.interp, "stubs"):
            self.interp.stubs = {}
        self.interp.stubs.update(names)
        for n in names:
            self.assumptions.add(f"external name `{n}` of {self.udef.file} replaced by a contract stub in unit {self.udef.name} (assumed contract of the library / collaborator)")

    def loop(self, relpath, qual, ordinal, spec):
        """Attach a LoopInvariant to the ordinal-th loop of a function (loops are numbered in execution order)."""
        self.interp.loop_specs[((relpath, qual), ordinal)] = spec

    def inline(self, *keys):
        for k in keys:
            self.interp.inline.add(k)
            self.functions.setdefault(("inlined",) + tuple(k), self.interp.repo.module(k[0]).sha)

    def snapshot(self, v):
        if isinstance(v, SymTD):
            return SymTD({k: self.snapshot(x) for k, x in v.data.items()}, v.batch_size)
        if isinstance(v, SymTensor):
            s = v.snap()
            return SymTensor(v.shape, v.dtype, s, name=v.name)
        if isinstance(v, (list, tuple)):
            return type(v)(self.snapshot(x) for x in v)
        if isinstance(v, dict):
            return {k: self.snapshot(x) for k, x in v.items()}
        return v

    def run(self, relpath, qual, *args, selfobj=None, record=True, asserts="prove", **kwargs):
        """Symbolically execute the body of the real function (current source)."""
        fref = self.interp.func(relpath, qual)
        self.functions[fref.key] = fref.mod.sha
        pre = [self.snapshot(a) for a in args]
        prek = {k: self.snapshot(v) for k, v in kwargs.items()}
        old_mode = self.ctx.assert_mode
        self.ctx.assert_mode = asserts
        try:
            res = self.interp.run(fref, args, kwargs, selfobj)
        finally:
            self.ctx.assert_mode = old_mode
        if record:
            self.calls.append({"file": relpath, "qual": qual, "self": selfobj, "args": pre, "kwargs": prek,
                               "result": res, "post_args": list(args)})
        return res

    # ---- obligations
    def prove(self, name, goal, tags=None, note="", assume=False, algebra_only=False):
        ob = self.ctx.oblige(name, ops.B_(goal), kind="post", tags=tuple(tags) if tags else self.udef.props, note=note)
        ob.algebra_only = algebra_only
        if assume:
            # a proved clause may serve as a lemma for the obligations that follow; if it is NOT proved, what was derived
            # from it is re-examined on concrete instances (same treatment as a failed side condition)
            self.ctx.assume(goal)
            ob.assumed_after = True
        return ob

    def prove_forall(self, name, shape, fn, tags=None, note=""):
        """Prove fn at a fresh arbitrary index, then make the universally quantified fact available."""
        rs = self._ranges(shape)
        vs = []
        rng = []
        for k, (a, b) in enumerate(rs):
            v = z3.Int(f"{self.ctx.prefix}{name}.g{k}")
            self.ctx.scalars[f"{self.ctx.prefix}{name}.g{k}"] = (v, "i")
            vs.append(v)
            rng.append(z3.And(v >= zint(a), v < zint(b)))
        goal = IMPL(AND(*rng), fn(*vs))
        ob = self.ctx.oblige(name, ops.B_(goal), kind="post", tags=tuple(tags) if tags else self.udef.props, note=note)
        self.ctx.assume(self.forall(shape, fn))
        return ob

    def asserted(self, msg, *idx):
        """The passed (recorded) `assert torch.all(X), msg` of the executed code, used at index idx: X[idx] holds whenever idx is
        in range. Sound by the semantics of all(); saves the solver the instantiation of the quantified hypothesis."""
        hits = [a for a in self.ctx.recorded_asserts if msg in a["msg"] and a.get("elem") is not None]
        if not hits:
            raise KeyError(f"no recorded all()-assert with message containing {msg!r}")
        for a in hits:
            rng = [z3.And(zint(i) >= 0, zint(i) < zint(n)) for i, n in zip(idx, a["shape"])]
            self.ctx.assume(IMPL(AND(*rng), ops.B_(a["elem"](tuple(idx)))))

    def canary(self, name, goal, tags=None):
        """A deliberately wrong clause: must be refutable (guards against vacuity)."""
        return self.ctx.oblige("canary:" + name, ops.B_(goal), kind="canary", expect="sat",
                               tags=tuple(tags) if tags else self.udef.props)

    def known(self, name, goal, tags=None, note=""):
        """A clause restricted to a recorded failure class (known_findings.json): expected to be refuted."""
        return self.ctx.oblige(name, ops.B_(goal), kind="known", tags=tuple(tags) if tags else self.udef.props, note=note)

    def lemma(self, name, goal, tags=None):
        return self.ctx.oblige(name, ops.B_(goal), kind="lemma", tags=tuple(tags) if tags else self.udef.props)


# ----------------------------------------------------------------------------
# path exploration
# ----------------------------------------------------------------------------


class PathRun:
    def __init__(self, ctx, u, trace, ended=None, error=None):
        self.ctx, self.u, self.trace, self.ended, self.error = ctx, u, trace, ended, error


def explore(udef: UnitDef, mode, dimvals, repo, max_paths=64):
    """Run the unit once per path; returns list of PathRun."""
    runs = []
    prefix = []
    while True:
        ch = Chooser(prefix)
        ctx = Ctx(ch, unit=udef.name)
        ctx.tags = udef.props
        ctx.exact_norm = mode == "conc"
        u = U(udef, ctx, mode, dimvals, repo)
        ended = None
        err = None
        with ctx:
            try:
                udef.fn(u)
            except PathEnd as p:
                ended = (p.kind, p.info)
            except Unsupported as e:
                err = ("unsupported", f"{e} @ {ctx.loc}")
            except Exception as e:  # engine bug -> exit 3, never a pass
                err = ("internal", f"{type(e).__name__}: {e} @ {ctx.loc}\n{traceback.format_exc(limit=8)}")
        runs.append(PathRun(ctx, u, list(ch.trace), ended, err))
        tr = list(ch.trace)
        while tr and tr[-1] is False:
            tr.pop()
        if not tr:
            break
        tr[-1] = False
        prefix = tr
        if len(runs) >= max_paths:
            runs.append(PathRun(ctx, u, [], None, ("internal", "path explosion")))
            break
    return runs


DIM_LO = {}   # (unit, dim) -> declared lower bound, learnt on the symbolic run; concrete candidates below it are skipped


def small_dim_assignments(udef, dim_names, cap=24):
    doms = []
    for n in dim_names:
        lo = DIM_LO.get((udef.name, n), 1)
        dom = tuple(v for v in udef.dims_small.get(n, (1, 2, 3)) if v >= lo)
        doms.append(dom or (lo,))
    combos = list(itertools.product(*doms))
    # order by total size so the smallest counterexample is found first
    combos.sort(key=lambda c: (sum(c), c))
    return [dict(zip(dim_names, c)) for c in combos[:cap]]


# ----------------------------------------------------------------------------
# running a unit to verdicts
# ----------------------------------------------------------------------------


def _jsonable_self(u, model, so):
    if so is None:
        return None
    def conv(v):
        if isinstance(v, SelfObj):
            return {"__obj__": v._cls.name, "__file__": v._cls.mod.relpath, "attrs": {k: conv(x) for k, x in v._attrs.items()}}
        if isinstance(v, Namespace):
            return {"__ns__": {k: conv(x) for k, x in v.__dict__.items()}}
        if is_z3(v):
            from .core import scalar_dtype

            return vc._val(model, v, scalar_dtype(v))
        if isinstance(v, SymTensor):
            return {"__tensor__": vc.tensor_value(model, v)}
        if isinstance(v, (list, tuple)):
            return [conv(x) for x in v]
        if isinstance(v, (int, float, bool, str)) or v is None:
            return v
        return repr(v)
    return conv(so)


def _jsonable_val(model, v):
    from .core import scalar_dtype

    if isinstance(v, SymTD):
        bs = [b if isinstance(b, int) else model.eval(zint(b), model_completion=True).as_long() for b in v.batch_size]
        return {"__td__": {k: _jsonable_val(model, x) for k, x in v.data.items()}, "batch_size": bs}
    if isinstance(v, SymTensor):
        return {"__tensor__": vc.tensor_value(model, v)}
    if isinstance(v, ops.MaxResult):
        return [_jsonable_val(model, x) for x in v]
    if isinstance(v, (list, tuple)):
        return [_jsonable_val(model, x) for x in v]
    if isinstance(v, dict):
        return {"__dict__": {str(k): _jsonable_val(model, x) for k, x in v.items()}}
    if is_z3(v):
        return vc._val(model, v, scalar_dtype(v))
    if isinstance(v, (int, float, bool, str)) or v is None:
        return v
    return {"__repr__": repr(v)}


def make_replay(u: U, ob, model, dimvals):
    calls = []
    for c in u.calls:
        try:
            calls.append({
                "file": c["file"], "qual": c["qual"],
                "self": _jsonable_self(u, model, c["self"]),
                "args": [_jsonable_val(model, a) for a in c["args"]],
                "kwargs": {k: _jsonable_val(model, a) for k, a in c["kwargs"].items()},
                "expected_result": _jsonable_val(model, c["result"]),
                "expected_post_args": [_jsonable_val(model, a) for a in c["post_args"]],
            })
        except Exception as e:
            calls.append({"file": c["file"], "qual": c["qual"], "extraction_error": f"{type(e).__name__}: {e}"})
    scal = {}
    for n, (cst, dt) in u.ctx.scalars.items():
        try:
            scal[n] = vc._val(model, cst, dt)
        except Exception:
            pass
    rp = {"unit": u.udef.name, "obligation": ob.name, "kind": ob.kind, "loc": ob.loc, "note": ob.note,
          "dims": dimvals, "witness_scalars": scal, "calls": calls}
    if u.native_scn:
        try:
            ins = {}
            for nm, (t, shape, dt) in u.ctx.inputs.items():
                if not isinstance(t, SymTensor):   # (z3 function | constant, shape, dtype): wrap as a tensor over its indices
                    fn = t
                    t = mk(tuple(shape), dt, (lambda I, fn=fn: fn(*[zint(i) for i in I])) if len(shape) else (lambda I, fn=fn: fn))
                ins[nm] = {"__tensor__": vc.tensor_value(model, t)}
            rp["native"] = {"scenario": u.native_scn[0], "params": u.native_scn[1], "inputs": ins,
                            "expected": {lab: _jsonable_val(model, v) for lab, v in u.native_outs.items()}}
        except Exception as e:
            rp["native"] = {"scenario": u.native_scn[0], "extraction_error": f"{type(e).__name__}: {e}"}
    return rp


QUICK_MS = int(os.environ.get("TVC_QUICK_MS", "8000"))
PAR = int(os.environ.get("TVC_UNIT_PAR", "4"))
PORTFOLIO = int(os.environ.get("TVC_PORTFOLIO", "3"))


def _solve_forked(jobs, timeout_ms, use_cvc5, cvc5_s=None, par=None):
    """Solve each (ctx, ob) in a forked child: every query starts from the same solver state
    (verdicts do not depend on the order in which obligations are tried) and up to PAR run at once."""
    import pickle
    import select

    results = [None] * len(jobs)
    pending = list(enumerate(jobs))
    running = {}  # fd -> (idx, pid, buf)
    while pending or running:
        while pending and len(running) < (par or PAR):
            idx, job = pending.pop(0)
            ctx, ob = job[0], job[1]
            variant = job[2] if len(job) > 2 else None
            r, w = os.pipe()
            pid = os.fork()
            if pid == 0:
                os.close(r)
                try:
                    res = vc.solve(ctx, ob, timeout_ms=timeout_ms, use_cvc5=use_cvc5 and not variant, cvc5_s=cvc5_s, seed=variant)
                    payload = {"status": res.status if res.status != "refuted" else "refuted", "backend": res.backend,
                               "secs": res.secs, "reason": res.reason}
                except Exception as e:  # pragma: no cover
                    payload = {"status": "error", "backend": "", "secs": 0.0, "reason": f"{type(e).__name__}: {e}"}
                try:
                    os.write(w, pickle.dumps(payload))
                finally:
                    os._exit(0)
            os.close(w)
            running[r] = (idx, pid, b"")
        if not running:
            break
        ready, _, _ = select.select(list(running), [], [], 1.0)
        for fd in ready:
            idx, pid, buf = running[fd]
            chunk = os.read(fd, 65536)
            if chunk:
                running[fd] = (idx, pid, buf + chunk)
                continue
            os.close(fd)
            os.waitpid(pid, 0)
            del running[fd]
            try:
                results[idx] = pickle.loads(buf)
            except Exception:
                results[idx] = {"status": "error", "backend": "", "secs": 0.0, "reason": "child died"}
    return results


def _solve_portfolio(still, timeout_ms):
    """Full budget: the default configuration (with cvc5 behind it) plus PORTFOLIO further z3 seeds per open obligation, in
    parallel; a proof by any member discharges the obligation (z3's search on these queries is seed-sensitive, the verdict is not)."""
    jobs3 = [(ctx, ob, v) for ctx, ob in still for v in ([None] + list(range(1, PORTFOLIO + 1)))]
    res3all = _solve_forked(jobs3, timeout_ms, use_cvc5=True, par=2 * (PORTFOLIO + 1)) if jobs3 else []
    res3 = []
    for k in range(len(still)):
        grp = res3all[k * (PORTFOLIO + 1):(k + 1) * (PORTFOLIO + 1)]
        best = next((r for r in grp if r["status"] == "proved"), None) or next((r for r in grp if r["status"] == "refuted"), None) or grp[0]
        best = dict(best)
        best["secs"] = max(r["secs"] for r in grp)
        res3.append(best)
    # last resort for what every member left open (a timeout, typically on a loaded machine: the budgets are wall-clock): once
    # more with four times the budget; costs nothing on a normal run
    again = [k for k, r in enumerate(res3) if r["status"] == "unknown"]
    if again and not os.environ.get("TVC_NO_RETRY"):
        jobs4 = [(still[k][0], still[k][1], v) for k in again for v in (None, 1)]
        res4 = _solve_forked(jobs4, 4 * timeout_ms, use_cvc5=True, par=2 * (PORTFOLIO + 1))
        for n_, k in enumerate(again):
            grp = res4[2 * n_:2 * n_ + 2]
            hit = next((r for r in grp if r["status"] in ("proved", "refuted")), None)
            if hit is not None:
                hit = dict(hit)
                hit["secs"] = res3[k]["secs"] + max(r["secs"] for r in grp)
                res3[k] = hit
    return res3


def run_unit(name, repo_root=None, want_canaries=True, timeout_ms=None):
    """Returns a picklable dict with per-obligation verdicts."""
    t0 = time.time()
    udef = UNITS[name]
    repo = Repo(repo_root)
    out = {"unit": name, "props": list(udef.props), "obligations": [], "errors": [], "functions": {},
           "assumptions": [], "used_ops": [], "paths": 0, "file": udef.file, "func": udef.func}
    try:
        runs = explore(udef, "sym", None, repo)
    except Exception as e:
        out["errors"].append(("internal", f"{type(e).__name__}: {e}\n{traceback.format_exc(limit=6)}"))
        out["wall_s"] = time.time() - t0
        return out
    out["paths"] = len(runs)
    seen = {}
    dim_names = []
    jobs = []
    for pr in runs:
        if pr.error:
            out["errors"].append(pr.error)
            continue
        for k, sha in pr.u.functions.items():
            out["functions"]["::".join(k)] = sha
        for k in sorted(getattr(pr.u.interp, "auto_inlined", ())):
            try:
                out["functions"]["::".join(("auto-inlined",) + tuple(k))] = pr.u.interp.repo.module(k[0]).sha
            except Exception:
                pass
        out["assumptions"] = sorted(set(out["assumptions"]) | pr.u.assumptions | set(getattr(pr.ctx, "notes", [])))
        out["used_ops"] = sorted(set(out["used_ops"]) | pr.ctx.used_ops)
        for d in pr.u.dim_order:
            if d not in dim_names:
                dim_names.append(d)
        for ob in pr.ctx.obligations:
            if ob.expect == "sat":
                seen.setdefault(ob.name, {"name": ob.name, "kind": ob.kind, "tags": list(ob.tags), "loc": ob.loc,
                                          "status": "pending-canary", "secs": 0.0, "backend": "", "note": ob.note})
                continue
            jobs.append((pr.ctx, ob))
    order = {"proved": 0, "unknown": 1, "error": 1, "refuted": 2}

    def merge(ob, r):
        rec = seen.get(ob.name)
        new = {"name": ob.name, "kind": ob.kind, "tags": list(ob.tags), "loc": ob.loc, "status": r["status"],
               "secs": r["secs"], "backend": r["backend"], "note": ob.note, "reason": r["reason"], "instances": 1}
        if rec is None:
            seen[ob.name] = new
        else:
            rec["instances"] = rec.get("instances", 1) + 1
            rec["secs"] += r["secs"]
            if order[r["status"]] > order.get(rec["status"], 0):
                rec.update({"status": r["status"], "backend": r["backend"], "reason": r["reason"]})

    # phase 1: short budget
    res1 = _solve_forked(jobs, QUICK_MS, use_cvc5=True, cvc5_s=8) if jobs else []
    open_jobs = []
    for (ctx, ob), r in zip(jobs, res1):
        if r["status"] == "proved":
            merge(ob, r)
        else:
            open_jobs.append((ctx, ob, r))
    # a failed side condition of a lemma instance invalidates what was derived from it: re-examine every
    # clause of the unit on concrete instances (where no lemma is needed)
    is_side = lambda ob: ob.kind == "side" or ob.name.startswith("loopinv.") or getattr(ob, "assumed_after", False)
    # side conditions / invariants / lemmas left open by the short budget get the full budget at once: only what is still
    # open afterwards taints its dependents (and triggers the expensive re-examination on concrete instances)
    side_open = [(c, ob) for c, ob, r in open_jobs if is_side(ob)]
    if side_open:
        for (c, ob), r in zip(side_open, _solve_portfolio(side_open, timeout_ms or vc.Z3_TIMEOUT_MS)):
            if r["status"] == "proved":
                merge(ob, r)
                open_jobs = [j for j in open_jobs if j[1] is not ob]
    side_failed = [ob.name for _, ob, r in open_jobs if is_side(ob)]
    if side_failed:
        for (ctx_, ob), r in zip(jobs, res1):
            if r["status"] == "proved" and ob.kind in ("post", "assert") and ob.name in seen:
                del seen[ob.name]
                open_jobs.append((ctx_, ob, {"status": "unknown", "backend": "", "secs": 0.0, "reason": f"depends on failed side condition {side_failed[0]}"}))
    # phase 2: small concrete dimensions (counterexamples, canaries)
    open_names = sorted({ob.name for _, ob, _ in open_jobs})
    for n in open_names:
        seen.setdefault(n, None)
    canaries = [n for n, r in seen.items() if r and r["status"] == "pending-canary"]
    found = {}
    # thorough tier: every clause of the unit - proved ones included - is ALSO re-examined on small concrete instances
    # (quantifier-free, reductions unrolled, exact norm): a cross-check of the symbolic semantics against the unrolled one;
    # a concrete counterexample of a clause always wins over a symbolic proof of it
    thorough = os.environ.get("TVC_TIER") == "thorough"
    if (open_names or canaries or thorough) and not out["errors"]:
        need = set(open_names) | set(canaries)
        if thorough:
            need |= {n for n, r in seen.items() if r and r.get("kind") in ("post", "assert")}
        found = _concrete_search(udef, repo, dim_names, need, out, everything=bool(side_failed) or thorough)
        left = set(canaries) - set(found)
        if left:
            # a canary that stays unrefuted makes the unit an error (vacuity guard): before that, once more with six times
            # the wall-clock budgets (on a loaded machine the 5-10 s queries of the first pass time out)
            found.update(_concrete_search(udef, repo, dim_names, left, out, everything=False, scale=6))
            left = set(canaries) - set(found)
            if left:    # (pathological load only: e.g. twenty checks started at once on sixteen cores)
                found.update(_concrete_search(udef, repo, dim_names, left, out, everything=False, scale=40))
        if thorough:
            out["crosschecked"] = len(need)
            for n, rp in found.items():
                if seen.get(n) and seen[n]["status"] == "proved":
                    seen[n].update({"status": "refuted", "reason": "concrete counterexample although the symbolic run proved the clause (thorough-tier cross-check)", "replay": rp})
        if side_failed:
            # concrete counterexamples of clauses that only exist in the unrolled (concrete) runs, e.g. the asserts
            # of a loop body that the symbolic run covers by its invariant
            for n, rp in found.items():
                if n not in seen or seen[n] is None:
                    seen[n] = {"name": n, "kind": rp.get("kind", "post"), "tags": list(udef.props), "loc": rp.get("loc"), "status": "refuted",
                               "secs": 0.0, "backend": "z3", "note": rp.get("note", ""), "reason": "counterexample with small concrete dimensions (clause of the unrolled loop)", "replay": rp}
    # phase 3: full budget (z3 then cvc5) for what is still open and has no counterexample
    still = [(ctx, ob) for ctx, ob, _ in open_jobs if ob.name not in found]
    res3 = _solve_portfolio(still, (timeout_ms or vc.Z3_TIMEOUT_MS) * (3 if thorough else 1))
    for n in open_names:
        if seen.get(n) is None:
            del seen[n]
    for (ctx, ob), r in zip(still, res3):
        merge(ob, r)
    # side conditions / assumed lemmas that the full budget (phase 3) did prove no longer taint their dependents
    side_failed = [n for n in side_failed if not (seen.get(n) and seen[n]["status"] == "proved")]
    if side_failed:
        for n in list(seen):
            rec = seen[n]
            if rec and (rec["kind"] == "side" or n.startswith("loopinv.")) and rec["status"] in ("refuted", "unknown") and n not in found:
                rec["status"] = "unknown"
                rec["reason"] = "side condition of a lemma instance not provable (the proof route does not apply to this code); dependent clauses re-examined on concrete instances"
            elif rec and rec["kind"] in ("post", "assert") and rec["status"] == "proved" and n not in found:
                rec["status"] = "unknown"
                rec["reason"] = f"derived through failed side condition {side_failed[0]}; no counterexample found on small instances"
    for ctx, ob, r in open_jobs:
        if ob.name in found:
            merge(ob, {"status": "refuted", "backend": "z3", "secs": r["secs"], "reason": "counterexample with small concrete dimensions"})
            seen[ob.name]["replay"] = found[ob.name]
    for n in canaries:
        seen[n]["status"] = "canary-refuted" if n in found else "canary-not-refuted"
    for n, rec in seen.items():
        if rec["status"] == "refuted" and "replay" not in rec:
            rec["replay"] = {"unit": udef.name, "obligation": n, "note": "solver model with symbolic dimensions only; no small instance found"}
        if rec["status"] == "error":
            out["errors"].append(("internal", f"solve {n}: {rec.get('reason')}"))
    out["obligations"] = list(seen.values())
    out["wall_s"] = time.time() - t0
    return out


def _distinct_inputs(ctx, limit=24):
    """Distinctness of the entries of every small float input tensor (a preference for replayable witnesses only)."""
    import itertools as it

    ax = []
    for nm, (fn, shape, dt) in ctx.inputs.items():
        if dt != "f" or not shape or isinstance(fn, SymTensor) or not all(isinstance(n, int) for n in shape):
            continue
        tot = 1
        for n in shape:
            tot *= n
        if tot < 2 or tot > limit:
            continue
        ax.append(z3.Distinct(*[fn(*[z3.IntVal(i) for i in I]) for I in it.product(*[range(n) for n in shape])]))
    return ax


def _concrete_search(udef, repo, dim_names, need, out, everything=False, scale=1):
    """Small concrete dimensions: quantifier-free instances give real counterexamples.
    scale: multiplier of the (wall-clock) solver budgets - the retry for canaries that a loaded machine left open."""
    found = {}
    t_start = time.time()
    for dv in small_dim_assignments(udef, dim_names):
        if not need - set(found):
            break
        if time.time() - t_start > 120 * scale:
            break
        old = ops.UNROLL_LIMIT
        ops.UNROLL_LIMIT = 64
        try:
            runs = explore(udef, "conc", dv, repo)
        finally:
            ops.UNROLL_LIMIT = old
        for pr in runs:
            if pr.error:
                out.setdefault("conc_errors", []).append(f"{dv}: {pr.error[0]}: {pr.error[1][:300]}")
                continue
            for ob in pr.ctx.obligations:
                if ob.name in found:
                    continue
                if ob.name not in need and not (everything and ob.kind in ("post", "assert") and ob.expect != "sat"):
                    continue
                try:
                    # prefer a counter-model without ties between float inputs (argmax / sort / topk tie-breaking is
                    # unspecified in the operation contracts, so a tied witness may not replay); fall back to any model
                    r = None
                    dist = _distinct_inputs(pr.ctx)
                    if dist:
                        r = vc.solve(pr.ctx, ob, timeout_ms=5000 * scale, use_cvc5=False, extra_axioms=dist)
                    if r is None or r.status != "refuted":
                        r = vc.solve(pr.ctx, ob, timeout_ms=10000 * scale, use_cvc5=False)
                except Exception as e:
                    continue
                if r.status == "refuted":
                    try:
                        rp = make_replay(pr.u, ob, r.model, dv)
                    except Exception as e:
                        rp = {"unit": udef.name, "obligation": ob.name, "extraction_error": f"{type(e).__name__}: {e}"}
                    found[ob.name] = rp
    return found


# ----------------------------------------------------------------------------
# lemma instances (schemas proved by induction in tvc/lemmas.py)
# ----------------------------------------------------------------------------


def _red_of(t):
    if isinstance(t, SymTensor) and t.prov and t.prov[0] == "red":
        return t.prov[1]
    return None  # unrolled (concrete length): the solver sees the explicit sum, no lemma needed


def sum_point_update(u, A, oA, Bt, oB, p):
    """Instance of lemma sum.point: if the summands of A(oA) and Bt(oB) agree except at
    index p then A - B = a(p) - b(p)."""
    rA, rB = _red_of(A), _red_of(Bt)
    if rA is None or rB is None:
        return
    oA = tuple(oA) if isinstance(oA, (tuple, list)) else (oA,)
    oB = tuple(oB) if isinstance(oB, (tuple, list)) else (oB,)
    n = zint(rA.length(oA))
    k = z3.Int(f"kpu_{next(u.ctx.fresh_ids)}")
    agree = z3.ForAll([k], z3.Implies(z3.And(k >= 0, k < n, k != zint(p)), rA.body(oA, (k,)) == rB.body(oB, (k,))))
    concl = z3.If(z3.And(zint(p) >= 0, zint(p) < n),
                  rA.app(oA) - rB.app(oB) == rA.body(oA, (zint(p),)) - rB.body(oB, (zint(p),)),
                  rA.app(oA) == rB.app(oB))
    u.ctx.assume(z3.Implies(z3.And(n == zint(rB.length(oB)), agree), concl))


def sum_split_last(u, A, oA, Bt, oB):
    """Instance of the definition S(n+1) = S(n) + f(n): A sums n+1 terms, Bt the first n of them."""
    rA, rB = _red_of(A), _red_of(Bt)
    if rA is None or rB is None:
        return
    oA = tuple(oA) if isinstance(oA, (tuple, list)) else (oA,)
    oB = tuple(oB) if isinstance(oB, (tuple, list)) else (oB,)
    nA, nB = zint(rA.ns[0]), zint(rB.ns[0])
    k = z3.Int(f"ksl_{next(u.ctx.fresh_ids)}")
    agree = z3.ForAll([k], z3.Implies(z3.And(k >= 0, k < nB), rA.body(oA, (k,)) == rB.body(oB, (k,))))
    u.ctx.assume(z3.Implies(z3.And(nA == nB + 1, nB >= 0, agree), rA.app(oA) == rB.app(oB) + rA.body(oA, (nB,))))


def prefix_sum_step(u, red, outer, d):
    """Instance of the definition of prefix sums (a `cumsum` reduction whose length is outer[d] + 1 and whose summands do not
    depend on outer[d]): C(.., 0, ..) = x(.., 0, ..) and C(.., i, ..) = C(.., i - 1, ..) + x(.., i, ..) for i >= 1."""
    outer = tuple(zint(i) for i in outer)
    i = outer[d]
    prev = outer[:d] + (i - 1,) + outer[d + 1:]
    u.ctx.assume(z3.Implies(i == 0, red.app(outer) == red.body(outer, (zint(0),))))
    u.ctx.assume(z3.Implies(i >= 1, red.app(outer) == red.app(prev) + red.body(outer, (i,))))


def divmod_hint(u, r, q, M, t):
    """Instance of lemma divmod.row (tvc/lemmas.py): r = q*M + t, 0 <= t < M  ==>  r mod M = t, r div M = q."""
    r, q, M, t = zint(r), zint(q), zint(M), zint(t)
    u.ctx.assume(z3.Implies(z3.And(r == q * M + t, t >= 0, t < M, M >= 1), z3.And(r % M == t, r / M == q)))


def _red_len(r, outer):
    return r.length(outer) if hasattr(r, "length") else r.ns[0]


def div_below_hint(u, M):
    """Quantified instance of lemma divmod.row with quotient 0: 0 <= r < M  ==>  r div M = 0 and r mod M = r (triggered by r div M)."""
    r = z3.Int(f"rdb_{next(u.ctx.fresh_ids)}")
    M = zint(M)
    u.ctx.assume(z3.ForAll([r], z3.Implies(z3.And(r >= 0, r < M), z3.And(r / M == 0, r % M == r)), patterns=[r / M]))


def sum_linear_hint(u, H, oH, terms, const=0, name=None, tags=None):
    """Instance of lemma sum.linear: if summand_H(k) = sum_i coef_i * summand_i(k) + const for every k then
    H = sum_i coef_i * S_i + n * const.  terms = [(coef, tensor, outer)].
    With `name`, the summand identity is emitted as its own obligation (proved at an arbitrary index) and the
    conclusion of the lemma instance becomes available afterwards; without, the instance is assumed as an implication."""
    rH = _red_of(H)
    if rH is None or any(_red_of(t) is None for _, t, _ in terms):
        return
    oH = tuple(oH) if isinstance(oH, (tuple, list)) else (oH,)
    n = zint(_red_len(rH, oH))          # (the length may depend on the outer index: prefix sums)
    k = z3.Int(f"klin_{next(u.ctx.fresh_ids)}" if name is None else f"{name}.k")
    rhs_body = zreal_(const)
    rhs = z3.ToReal(n) * zreal_(const)
    same_len = []
    for coef, t, o in terms:
        r = _red_of(t)
        o = tuple(o) if isinstance(o, (tuple, list)) else (o,)
        rhs_body = rhs_body + zreal_(coef) * r.body(o, (k,))
        rhs = rhs + zreal_(coef) * r.app(o)
        same_len.append(zint(_red_len(r, o)) == n)
    if name is None:
        agree = z3.ForAll([k], z3.Implies(z3.And(k >= 0, k < n), rH.body(oH, (k,)) == rhs_body))
        u.ctx.assume(z3.Implies(z3.And(agree, *same_len), rH.app(oH) == rhs))
        return
    u.ctx.scalars[f"{name}.k"] = (k, "i")
    ob = u.prove(name, z3.Implies(z3.And(k >= 0, k < n), z3.And(rH.body(oH, (k,)) == rhs_body, *same_len)), tags=tags)
    ob.kind = "side"  # side condition of a lemma instance: its failure makes the dependent clauses undecided, not violated
    u.ctx.assume(rH.app(oH) == rhs)


def zreal_(x):
    from .core import zreal

    return zreal(x)



def on_reduction(u, label, fn):
    """Run fn(red) when the executed code creates a reduction with this label (lets a contract attach lemma
    instances to sums that are internal to the function body)."""
    if not hasattr(u.ctx, "red_hooks"):
        u.ctx.red_hooks = []
    u.ctx.red_hooks.append((label, fn))


def sum_point_update_rows(u, rA, B_t, p_fn, nrows):
    """For every outer row r: instance of lemma sum.point between reduction rA (just created) and the sum tensor B_t,
    where the summands differ at most at index p_fn(r)."""
    rB = _red_of(B_t)
    if rB is None or rA is None:
        return
    r = z3.Int(f"rpu_{next(u.ctx.fresh_ids)}")
    k = z3.Int(f"kpu_{next(u.ctx.fresh_ids)}")
    n = zint(rA.ns[0])
    p = zint(p_fn(r))
    agree = z3.ForAll([k], z3.Implies(z3.And(k >= 0, k < n, k != p), rA.body((r,), (k,)) == rB.body((r,), (k,))))
    concl = z3.If(z3.And(p >= 0, p < n), rA.app((r,)) - rB.app((r,)) == rA.body((r,), (p,)) - rB.body((r,), (p,)), rA.app((r,)) == rB.app((r,)))
    u.ctx.assume(z3.ForAll([r], z3.Implies(z3.And(r >= 0, r < zint(nrows), n == zint(rB.ns[0]), agree), concl), patterns=[rA.app((r,))]))


def all_instance(u, red, outer, k):
    """Ground instance of the defining axiom of an `all` reduction at bound index k (tuple for multi-index)."""
    ks = tuple(k) if isinstance(k, (tuple, list)) else (k,)
    outer = tuple(outer)
    rng = z3.And(*[z3.And(zint(x) >= 0, zint(x) < zint(red.length(outer, j))) for j, x in enumerate(ks)])
    u.ctx.assume(z3.Implies(z3.And(red.app(outer), rng), red.body(outer, tuple(zint(x) for x in ks))))
