"""tvc core: symbolic tensors as index functions, contexts, reductions.

A tensor is (shape, dtype, elem) where elem maps an index tuple (python ints or
z3 Int terms) to a z3 term.  dtype classes: 'f' real, 'i' mathematical integer
(int64/int32/uint8), 'b' bool.  Views write through to their base.
"""
from __future__ import annotations

import itertools
from fractions import Fraction

import z3

DT_ORDER = {"b": 0, "i": 1, "f": 2}


class Unsupported(Exception):
    """The engine met a construct it does not model (exit 3, never a pass)."""


class PathEnd(Exception):
    """Raised to stop the current path (infeasible branch or explicit raise)."""

    def __init__(self, kind="end", info=None):
        super().__init__(kind)
        self.kind = kind
        self.info = info


class Inf:
    """+/- infinity literal (float('inf'), torch.inf)."""

    def __init__(self, sign=1):
        self.sign = sign

    def __neg__(self):
        return Inf(-self.sign)

    def __repr__(self):
        return "inf" if self.sign > 0 else "-inf"


def is_z3(x):
    return isinstance(x, z3.ExprRef)


def is_bool_z3(x):
    return isinstance(x, z3.BoolRef)


def zint(x):
    if isinstance(x, bool):
        return z3.IntVal(1 if x else 0)
    if isinstance(x, int):
        return z3.IntVal(x)
    if is_z3(x):
        if z3.is_bool(x):
            return z3.If(x, z3.IntVal(1), z3.IntVal(0))
        if x.sort() == z3.RealSort():
            raise Unsupported("real used as integer")
        return x
    raise Unsupported(f"cannot make int of {type(x)}")


def zreal(x):
    if isinstance(x, bool):
        return z3.RealVal(1 if x else 0)
    if isinstance(x, int):
        return z3.RealVal(x)
    if isinstance(x, float):
        fr = Fraction(repr(x))
        return z3.RealVal(fr.numerator) / z3.RealVal(fr.denominator) if fr.denominator != 1 else z3.RealVal(fr.numerator)
    if isinstance(x, Fraction):
        return z3.RealVal(x.numerator) / z3.RealVal(x.denominator)
    if is_z3(x):
        if z3.is_bool(x):
            return z3.If(x, z3.RealVal(1), z3.RealVal(0))
        if x.sort() == z3.IntSort():
            return z3.ToReal(x)
        return x
    raise Unsupported(f"cannot make real of {type(x)}")


def zbool(x):
    if isinstance(x, bool):
        return z3.BoolVal(x)
    if isinstance(x, (int, float)):
        return z3.BoolVal(x != 0)
    if is_z3(x):
        if z3.is_bool(x):
            return x
        if x.sort() == z3.IntSort():
            return x != 0
        if x.sort() == z3.RealSort():
            return x != 0
    raise Unsupported(f"cannot make bool of {type(x)}")


def scalar_dtype(x):
    if isinstance(x, bool):
        return "b"
    if isinstance(x, int):
        return "i"
    if isinstance(x, (float, Fraction)):
        return "f"
    if is_z3(x):
        if z3.is_bool(x):
            return "b"
        if x.sort() == z3.IntSort():
            return "i"
        if x.sort() == z3.RealSort():
            return "f"
    if isinstance(x, Inf):
        return "f"
    raise Unsupported(f"scalar of type {type(x)}")


def cast(v, to):
    """Value conversion between dtype classes with torch semantics."""
    if to == "f":
        return zreal(v)
    if to == "b":
        return zbool(v)
    if to == "i":
        if isinstance(v, float):
            return z3.IntVal(int(v))
        if is_z3(v) and v.sort() == z3.RealSort():
            # truncation toward zero
            fl = z3.ToInt(v)
            return z3.If(v >= 0, fl, -z3.ToInt(-v))
        return zint(v)
    raise Unsupported(f"dtype {to}")


def sort_of(dtype):
    return {"f": z3.RealSort(), "i": z3.IntSort(), "b": z3.BoolSort()}[dtype]


def promote(*dts):
    return max(dts, key=lambda d: DT_ORDER[d])


def ite(c, a, b):
    if isinstance(c, bool):
        return a if c else b
    if z3.is_true(c):
        return a
    if z3.is_false(c):
        return b
    # make both branches z3 of same sort
    if not is_z3(a) and not is_z3(b):
        d = promote(scalar_dtype(a), scalar_dtype(b))
        a, b = cast(a, d), cast(b, d)
    elif not is_z3(a):
        a = cast(a, scalar_dtype(b))
    elif not is_z3(b):
        b = cast(b, scalar_dtype(a))
    elif a.sort() != b.sort():
        d = promote(scalar_dtype(a), scalar_dtype(b))
        a, b = cast(a, d), cast(b, d)
    return z3.If(c, a, b)


def AND(*cs):
    out = []
    for c in cs:
        if isinstance(c, bool):
            if not c:
                return False
            continue
        out.append(c)
    if not out:
        return True
    return z3.And(*out) if len(out) > 1 else out[0]


def OR(*cs):
    out = []
    for c in cs:
        if isinstance(c, bool):
            if c:
                return True
            continue
        out.append(c)
    if not out:
        return False
    return z3.Or(*out) if len(out) > 1 else out[0]


def NOT(c):
    if isinstance(c, bool):
        return not c
    return z3.Not(c)


def IMPL(a, b):
    return OR(NOT(a), b)


def B(c):
    """python bool / z3 -> z3 BoolRef."""
    return z3.BoolVal(c) if isinstance(c, bool) else c


def ikey(idx):
    return tuple(i if isinstance(i, int) else ("z", i.get_id()) for i in idx)


def simp_int(x):
    """Return python int if the term simplifies to a numeral."""
    if isinstance(x, bool):
        return int(x)
    if isinstance(x, int):
        return x
    if is_z3(x):
        s = z3.simplify(x)
        if z3.is_int_value(s):
            return s.as_long()
        return s
    return x


# ----------------------------------------------------------------------------
# Context
# ----------------------------------------------------------------------------

_CTX = []


def cur() -> "Ctx":
    if not _CTX:
        raise RuntimeError("no active tvc context")
    return _CTX[-1]


class Chooser:
    """Replays a decision prefix, extends it with True on new decisions."""

    def __init__(self, prefix=()):
        self.prefix = list(prefix)
        self.trace = []

    def choose(self):
        k = len(self.trace)
        v = self.prefix[k] if k < len(self.prefix) else True
        self.trace.append(v)
        return v


class Obligation:
    def __init__(self, name, hyps, goal, tags=(), kind="post", loc=None, expect="unsat", note="", witness=None):
        self.name = name
        self.hyps = list(hyps)
        self.goal = goal
        self.tags = tuple(tags)
        self.kind = kind  # post | wf | assert | lemma | cover | canary
        self.loc = loc
        self.expect = expect  # 'unsat' (proved) or 'sat' (cover / canary)
        self.note = note
        self.witness = witness or {}
        self.algebra_only = False  # reductions stay opaque symbols (no lemma instances): pure arithmetic goals


class Red:
    """A reduction over bound indices: kind in sum/any/all/max/min/argmax/argmin."""

    _ids = itertools.count()

    def __init__(self, kind, ns, body, outer_rank, dtype, label=""):
        self.id = next(Red._ids)
        self.kind = kind
        self.ns = tuple(ns)  # bound lengths
        self.body = body  # body(outer_idx tuple, ks tuple) -> z3 term
        self.outer_rank = outer_rank
        self.dtype = dtype
        self.label = label
        srt = sort_of(dtype)
        self.name = f"{kind}{self.id}{('_' + label) if label else ''}"
        if outer_rank:
            self.fn = z3.Function(self.name, *([z3.IntSort()] * outer_rank), srt)
        else:
            self.fn = z3.Const(self.name, srt)
        self.wit = None  # skolem witness functions, made on demand
        self.hints = []

    def length(self, outer, j=0):
        """bound length of the j-th reduced index (may depend on the outer index, e.g. cumsum)."""
        n = self.ns[j]
        return n(tuple(outer)) if callable(n) else n

    def app(self, outer):
        if self.outer_rank:
            return self.fn(*[zint(i) for i in outer])
        return self.fn

    def decl(self):
        return self.fn if self.outer_rank else self.fn.decl()


class Ctx:
    def __init__(self, chooser=None, unit=""):
        self.unit = unit
        self.chooser = chooser or Chooser()
        self.hyps = []  # all assumptions (requires, dims, path)
        self.path = []  # path condition (subset of hyps)
        self.obligations = []
        self.reds = {}  # decl id -> Red
        self.inputs = {}  # name -> (fn, shape, dtype) for model extraction
        self.dims = {}  # name -> z3 const
        self.fresh_ids = itertools.count()
        self._solver = z3.Solver()
        self._solver.set("timeout", 3000)
        self._cache = {}
        self.tags = ()
        self.loc = None
        self.assert_mode = "prove"  # or 'record'
        self.recorded_asserts = []
        self.notes = []
        self.used_ops = set()
        self.scalars = {}  # name -> z3 const (symbolic python scalars for model extraction)
        self.no_grad_depth = 0
        self.prefix = ""  # for 2-run names

    # -- context manager
    def __enter__(self):
        _CTX.append(self)
        return self

    def __exit__(self, *a):
        _CTX.pop()

    # -- declarations
    def dim(self, name, lo=1):
        d = z3.Int(self.prefix + name)
        self.dims[self.prefix + name] = d
        if lo is not None:
            self.assume(d >= lo)
        return d

    def fresh(self, name, sort):
        return z3.Const(f"{name}!{next(self.fresh_ids)}", sort)

    def fresh_int(self, name):
        return self.fresh(name, z3.IntSort())

    def assume(self, f):
        if isinstance(f, bool):
            if not f:
                raise PathEnd("infeasible")
            return
        self.hyps.append(f)
        if not _has_quant(f):
            self._solver.add(f)
            self._cache.clear()

    # -- light reasoning for shapes / branch decisions
    def proves(self, f):
        if isinstance(f, bool):
            return f
        f = z3.simplify(f)
        if z3.is_true(f):
            return True
        if z3.is_false(f):
            return False
        k = f.get_id()
        if k in self._cache:
            return self._cache[k][1]
        self._solver.push()
        self._solver.add(z3.Not(f))
        r = self._solver.check()
        self._solver.pop()
        res = r == z3.unsat
        self._cache[k] = (f, res)
        return res

    def same(self, a, b):
        if isinstance(a, int) and isinstance(b, int):
            return a == b
        a1, b1 = simp_int(a), simp_int(b)
        if isinstance(a1, int) and isinstance(b1, int):
            return a1 == b1
        if is_z3(a1) and is_z3(b1) and a1.eq(b1):
            return True
        return self.proves(zint(a) == zint(b))

    def decide(self, c, loc=None):
        """Turn a symbolic condition into a python bool, forking if needed."""
        if isinstance(c, bool):
            return c
        if not is_z3(c):
            return bool(c)
        c = zbool(c)
        if self.proves(c):
            return True
        if self.proves(z3.Not(c)):
            return False
        v = self.chooser.choose()
        cond = c if v else z3.Not(c)
        self.path.append(cond)
        self.assume(cond)
        return v

    # -- obligations
    def oblige(self, name, goal, kind="post", tags=None, extra_hyps=(), expect="unsat", note="", witness=None):
        if isinstance(goal, bool):
            goal = z3.BoolVal(goal)
        ob = Obligation(
            name,
            list(self.hyps) + list(extra_hyps),
            goal,
            tags=tags if tags is not None else self.tags,
            kind=kind,
            loc=self.loc,
            expect=expect,
            note=note,
            witness=witness,
        )
        self.obligations.append(ob)
        return ob

    def wf(self, what, cond):
        """Well-formedness obligation of a library operation."""
        if isinstance(cond, bool) and cond:
            return
        if not isinstance(cond, bool) and self.proves(cond):
            # still recorded as an obligation (cheap), so that it is counted and
            # re-proved by the full solver with the quantified hypotheses
            pass
        loc = self.loc or "?"
        head, _, detail = what.partition(" ")
        self.oblige(f"wf:{loc}:{head}", cond, kind="wf", note=detail)
        # continue under the assumption that the operation succeeded
        if not isinstance(cond, bool):
            self.assume(cond)
        elif not cond:
            raise PathEnd("wf-fail", what)

    def new_red(self, kind, ns, body, outer_rank, dtype, label=""):
        r = Red(kind, ns, body, outer_rank, dtype, label)
        self.reds[r.decl().get_id()] = r
        for lab, fn in getattr(self, "red_hooks", []):
            if lab == label:
                fn(r)
        return r


def _has_quant(f):
    seen = set()
    stack = [f]
    while stack:
        t = stack.pop()
        if t.get_id() in seen:
            continue
        seen.add(t.get_id())
        if z3.is_quantifier(t):
            return True
        stack.extend(t.children())
    return False


# ----------------------------------------------------------------------------
# Tensors
# ----------------------------------------------------------------------------


class SymTensor:
    __slots__ = ("shape", "dtype", "_elem", "base", "fwd", "inv", "name", "prov", "_memo", "requires_grad", "graph")

    def __init__(self, shape, dtype, elem=None, base=None, fwd=None, inv=None, name=None, prov=None):
        self.shape = tuple(simp_int(s) for s in shape)
        self.dtype = dtype
        self._elem = elem
        self.base = base
        self.fwd = fwd
        self.inv = inv
        self.name = name
        self.prov = prov
        self._memo = {}
        self.graph = None
        # ghost grad-path flag: True iff the value depends differentiably on policy parameters
        # (set on policy outputs by contracts, propagated by ops, cleared by detach / no_grad)
        self.requires_grad = base.requires_grad if base is not None else False

    # -- reading
    def snap(self):
        """Immutable closure of the current content."""
        if self.base is None:
            return self._elem
        be = self.base.snap()
        fwd = self.fwd
        return lambda idx: be(fwd(idx))

    def at(self, *idx):
        if len(idx) == 1 and isinstance(idx[0], tuple):
            idx = idx[0]
        if len(idx) != len(self.shape):
            raise Unsupported(f"index rank {len(idx)} for tensor of rank {len(self.shape)}")
        if self.base is None:
            k = ikey(idx)
            hit = self._memo.get(k)
            if hit is not None:
                return hit[1]
            v = self._elem(tuple(idx))
            self._memo[k] = (idx, v)
            return v
        return self.base.at(*self.fwd(tuple(idx)))

    @property
    def rank(self):
        return len(self.shape)

    # -- writing
    def write(self, fn):
        """fn(idx, old_value) -> new value for every element (identity where untouched)."""
        if self.base is None:
            old = self._elem
            dt = self.dtype
            memo = {}

            def new(idx, old=old, fn=fn, dt=dt, memo=memo):
                k = ikey(idx)
                h = memo.get(k)
                if h is not None:
                    return h[1]
                v = cast(fn(idx, old(idx)), dt)
                memo[k] = (idx, v)
                return v

            self._elem = new
            self._memo = {}
            self.prov = None
        else:
            if self.inv is None:
                raise Unsupported("write through a non-invertible view (expand/advanced)")
            inv = self.inv

            def bfn(J, oldJ, inv=inv, fn=fn):
                c, i = inv(J)
                if isinstance(c, bool) and not c:
                    return oldJ
                return ite(c, fn(i, oldJ), oldJ)

            self.base.write(bfn)

    def is_view(self):
        return self.base is not None

    def root(self):
        t = self
        while t.base is not None:
            t = t.base
        return t

    def __repr__(self):
        return f"SymTensor({self.name or ''} shape={self.shape} dtype={self.dtype})"


def grad_of(*xs):
    if _CTX and getattr(_CTX[-1], "no_grad_depth", 0) > 0:
        return False
    return any(isinstance(x, SymTensor) and x.requires_grad for x in xs)


def mk(shape, dtype, elem, name=None, prov=None, grad=False):
    memo = {}

    def e(idx, elem=elem, memo=memo):
        k = ikey(idx)
        h = memo.get(k)
        if h is not None:
            return h[1]
        v = elem(idx)
        memo[k] = (idx, v)
        return v

    t = SymTensor(shape, dtype, e, name=name, prov=prov)
    t.requires_grad = bool(grad)
    return t


def input_tensor(name, shape, dtype, ctx=None):
    """An input tensor = an uninterpreted function of its indices."""
    ctx = ctx or cur()
    name = ctx.prefix + name
    rank = len(shape)
    if rank:
        fn = z3.Function(name, *([z3.IntSort()] * rank), sort_of(dtype))
        elem = lambda idx: fn(*[zint(i) for i in idx])
    else:
        c = z3.Const(name, sort_of(dtype))
        fn = c
        elem = lambda idx: c
    t = SymTensor(shape, dtype, elem, name=name, prov=("input", name))
    ctx.inputs[name] = (fn, tuple(shape), dtype)
    if not hasattr(ctx, "input_fns"):
        ctx.input_fns = []
    ctx.input_fns.append((fn, tuple(shape), dtype))
    if getattr(ctx, "inf_declared", False) and dtype == "f":
        from .ops import INF

        if rank == 0:
            ctx.assume(z3.And(fn < INF, fn > -INF))
        else:
            vs = [z3.Int(f"infq{k}") for k in range(rank)]
            ctx.assume(z3.ForAll(vs, z3.And(fn(*vs) < INF, fn(*vs) > -INF), patterns=[fn(*vs)]))
    return t


def const_tensor(shape, dtype, value):
    v = cast(value, dtype)
    return mk(shape, dtype, lambda idx: v, prov=("const", value))


def in_range(idx, shape):
    cs = []
    for i, n in zip(idx, shape):
        if isinstance(i, int) and isinstance(n, int):
            if not (0 <= i < n):
                return False
            continue
        cs.append(zint(i) >= 0)
        cs.append(zint(i) < zint(n))
    return AND(*cs)


def fresh_index(ctx, shape, names=None, assume=True):
    """Skolem index tuple ranging over shape (range facts are assumed)."""
    idx = []
    for d, n in enumerate(shape):
        if isinstance(n, int) and n == 1:
            idx.append(0)
            continue
        nm = names[d] if names else f"i{d}"
        v = ctx.fresh_int(nm)
        idx.append(v)
        if assume:
            ctx.assume(z3.And(v >= 0, v < zint(n)))
    return tuple(idx)


def norm_dim(d, rank):
    if not isinstance(d, int):
        d = simp_int(d)
        if not isinstance(d, int):
            raise Unsupported("symbolic dim argument")
    if d < 0:
        d += rank
    if not (0 <= d < max(rank, 1)):
        raise Unsupported(f"dim {d} out of range for rank {rank}")
    return d


def broadcast_shapes(ctx, shapes):
    rank = max(len(s) for s in shapes)
    out = []
    for k in range(1, rank + 1):
        dims = [s[-k] for s in shapes if len(s) >= k]
        cur_d = None
        for d in dims:
            if isinstance(d, int) and d == 1:
                continue
            if cur_d is None:
                cur_d = d
            elif not ctx.same(cur_d, d):
                # torch would raise unless equal (or one is 1 at run time)
                ctx.wf(f"broadcast {cur_d}~{d}", OR(zint(cur_d) == zint(d)))
        out.append(1 if cur_d is None else cur_d)
    return tuple(reversed(out))


def bidx(idx, shape, out_rank):
    """Map a broadcast-result index to an operand index."""
    off = out_rank - len(shape)
    r = []
    for k, n in enumerate(shape):
        if isinstance(n, int) and n == 1:
            r.append(0)
        else:
            r.append(idx[off + k])
    return tuple(r)
