"""Symbolic TensorDict: finite map from constant keys to SymTensor + batch_size."""
from __future__ import annotations

from .core import SymTensor, Unsupported, cur, simp_int
from . import ops


class SymTD:
    def __init__(self, data=None, batch_size=None, **kw):
        self.data = dict(data or {})
        if batch_size is None:
            batch_size = ()
        if isinstance(batch_size, (int,)) or not isinstance(batch_size, (tuple, list)):
            batch_size = (batch_size,)
        self.batch_size = tuple(simp_int(b) for b in batch_size)
        self.device = "dev"

    # --- mapping
    def keys(self, *a, **k):
        return list(self.data.keys())

    def items(self):
        return list(self.data.items())

    def values(self):
        return list(self.data.values())

    def __contains__(self, k):
        return k in self.data

    def get(self, key, default=None):
        return self.data.get(key, default)

    def set(self, key, value, inplace=False):
        self._check(key, value)
        self.data[key] = value
        return self

    def _check(self, key, value):
        if isinstance(value, SymTensor):
            ctx = cur()
            bs = self.batch_size
            if value.rank < len(bs):
                ctx.wf(f"td-set '{key}' rank {value.rank} < batch dims {len(bs)}", False)
            for k, b in enumerate(bs):
                if not ctx.same(value.shape[k], b):
                    from .core import zint

                    ctx.wf(f"td-set '{key}' batch dim {k}: {value.shape[k]} vs {b}", zint(value.shape[k]) == zint(b))

    def __getitem__(self, key):
        if isinstance(key, str):
            if key not in self.data:
                raise Unsupported(f"TensorDict has no key {key!r} (keys: {list(self.data)})")
            return self.data[key]
        # index the batch dims of every entry
        out = {}
        for k, v in self.data.items():
            out[k] = ops.getitem(v, key) if isinstance(v, SymTensor) else v[key]
        if not out:
            raise Unsupported("indexing an empty TensorDict")
        nb = len(self.batch_size)
        probe = ops.getitem(ops.const_tensor(self.batch_size, "b", False), key)
        return SymTD(out, probe.shape)

    def __setitem__(self, key, value):
        if isinstance(key, str):
            self.set(key, value)
            return
        if isinstance(value, SymTD):
            for k, v in value.data.items():
                if k in self.data:
                    ops.setitem(self.data[k], key, v)
                else:
                    raise Unsupported("td[idx] = td2 with a new key")
            return
        raise Unsupported("TensorDict item assignment with non-td value")

    def update(self, other, **kw):
        items = other.data.items() if isinstance(other, SymTD) else other.items()
        for k, v in items:
            self.set(k, v)
        return self

    def clone(self, recurse=True):
        out = {}
        for k, v in self.data.items():
            out[k] = ops.ew(lambda x: x, [v]) if isinstance(v, SymTensor) and v.rank >= 0 else v
        return SymTD(out, self.batch_size)

    def copy(self):
        return SymTD(dict(self.data), self.batch_size)

    @property
    def shape(self):
        return self.batch_size

    def size(self, d=None):
        return self.batch_size if d is None else self.batch_size[d]

    def dim(self):
        return len(self.batch_size)

    def to(self, *a, **k):
        return self

    def is_empty(self):
        return not self.data

    def exclude(self, *keys):
        return SymTD({k: v for k, v in self.data.items() if k not in keys}, self.batch_size)

    def select(self, *keys):
        return SymTD({k: self.data[k] for k in keys}, self.batch_size)

    def pop(self, key, default=None):
        return self.data.pop(key, default)

    def contiguous(self):
        return self

    def _tail(self, v):
        return tuple(v.shape[len(self.batch_size):])

    def expand(self, *sizes):
        sizes = ops._shape_args(sizes)
        out = {k: ops.expand(v, *(tuple(sizes) + tuple(-1 for _ in self._tail(v)))) for k, v in self.data.items()}
        probe = ops.expand(ops.const_tensor(self.batch_size, "b", False), *sizes)
        return SymTD(out, probe.shape)

    def view(self, *sizes):
        sizes = ops._shape_args(sizes)
        out = {k: ops.reshape(v, *(tuple(sizes) + self._tail(v))) for k, v in self.data.items()}
        probe = ops.reshape(ops.const_tensor(self.batch_size, "b", False), *sizes)
        return SymTD(out, probe.shape)

    reshape = view

    def permute(self, *dims):
        dims = ops._shape_args(dims)
        nb = len(self.batch_size)
        out = {k: ops.permute(v, *(tuple(dims) + tuple(range(nb, v.rank)))) for k, v in self.data.items()}
        return SymTD(out, tuple(self.batch_size[d] for d in dims))

    def gather(self, dim, index):
        raise Unsupported("TensorDict.gather")

    def apply_each(self, fn, batch_size):
        return SymTD({k: fn(v) for k, v in self.data.items()}, batch_size)

    def __repr__(self):
        return f"SymTD({ {k: getattr(v, 'shape', v) for k, v in self.data.items()} }, bs={self.batch_size})"
