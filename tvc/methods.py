"""Name -> rule tables for tensor methods, torch.* functions and TensorDict methods."""
from __future__ import annotations

import z3

from . import ops
from .core import Inf, SymTensor, Unsupported, cur, simp_int, zint, const_tensor, mk, cast, zbool, is_z3, norm_dim
from .core import zreal
from .ops import DType, DTYPES, DT_CANON, dtype_cls, T, binop, unop, reduce, ew
from .td import SymTD

TM = {}  # tensor methods
TF = {}  # torch functions


def tm(*names):
    def deco(f):
        for n in names:
            TM[n] = f
        return f

    return deco


def tf(*names):
    def deco(f):
        for n in names:
            TF[n] = f
        return f

    return deco


def _drop(kw, *names):
    for n in names + ("device", "requires_grad", "non_blocking", "memory_format", "generator", "pin_memory", "layout"):
        kw.pop(n, None)
    return kw


# ---- size / meta
@tm("size")
def _size(t, d=None):
    if d is None:
        return tuple(t.shape)
    return t.shape[norm_dim(d, t.rank)]


@tm("dim", "ndimension")
def _dim(t):
    return t.rank


@tm("numel")
def _numel(t):
    return ops._prod(t.shape)


@tm("to")
def _to(t, *a, **kw):
    d = kw.get("dtype")
    for x in a:
        if isinstance(x, DType):
            d = x
        elif isinstance(x, SymTensor):
            d = DT_CANON[x.dtype]
    if d is None:
        return t
    return ops.to_dtype(t, dtype_cls(d))


@tm("type_as")
def _type_as(t, o):
    return ops.to_dtype(t, o.dtype)


for _n, _d in (("float", "f"), ("double", "f"), ("half", "f"), ("int", "i"), ("long", "i"), ("bool", "b"), ("byte", "i"), ("short", "i")):
    TM[_n] = (lambda d: (lambda t: ops.to_dtype(t, d)))(_d)


@tm("clone", "contiguous", "cpu", "cuda", "requires_grad_")
def _ident_copy(t, *a, **k):
    return ew(lambda x: x, [t])


@tm("detach")
def _detach(t):
    r = ew(lambda x: x, [t])
    r.requires_grad = False  # ghost grad-path flag cleared
    return r


@tm("item")
def _item(t):
    if t.rank == 0:
        return t.at()
    if all(isinstance(n, int) and n == 1 for n in t.shape):
        return t.at(*([0] * t.rank))
    raise Unsupported("item() on non-scalar")


@tm("tolist")
def _tolist(t):
    raise Unsupported("tolist")


@tm("new")
def _new(t, *a):
    if a:
        raise Unsupported("Tensor.new with args")
    return const_tensor((0,), t.dtype, 0)


@tm("new_zeros")
def _new_zeros(t, *size, **kw):
    d = dtype_cls(kw.get("dtype"), t.dtype)
    return const_tensor(ops._shape_args(size), d, 0)


@tm("new_ones")
def _new_ones(t, *size, **kw):
    d = dtype_cls(kw.get("dtype"), t.dtype)
    return const_tensor(ops._shape_args(size), d, 1)


@tm("new_full")
def _new_full(t, size, val, **kw):
    d = dtype_cls(kw.get("dtype"), t.dtype)
    return const_tensor(ops._shape_args((size,)), d, val)


# ---- views
TM["view"] = lambda t, *s: ops.reshape(t, *s)
TM["reshape"] = lambda t, *s: ops.reshape(t, *s)
TM["unsqueeze"] = lambda t, d: ops.unsqueeze(t, d)
TM["squeeze"] = lambda t, d=None: ops.squeeze(t, d)
TM["expand"] = lambda t, *s: ops.expand(t, *s)
TM["expand_as"] = lambda t, o: ops.expand(t, *o.shape)
TM["view_as"] = lambda t, o: ops.reshape(t, *o.shape)
TM["transpose"] = lambda t, a, b: ops.transpose(t, a, b)
TM["permute"] = lambda t, *d: ops.permute(t, *d)
TM["flatten"] = lambda t, start_dim=0, end_dim=-1: ops.flatten(t, start_dim, end_dim)
TM["t"] = lambda t: ops.transpose(t, 0, 1)


# ---- elementwise
for _n, _op in (("add", "add"), ("sub", "sub"), ("mul", "mul"), ("div", "truediv"), ("eq", "eq"), ("ne", "ne"),
                ("lt", "lt"), ("le", "le"), ("gt", "gt"), ("ge", "ge"), ("logical_and", "and"), ("logical_or", "or"),
                ("logical_xor", "xor"), ("maximum", "max"), ("minimum", "min"), ("remainder", "mod"),
                ("floor_divide", "floordiv"), ("bitwise_and", "and"), ("bitwise_or", "or")):
    def _mkb(op, name):
        def f(a, b, **kw):
            if name.startswith("logical_"):
                a2 = ops.to_dtype(a, "b") if T(a) else zbool(a)
                b2 = ops.to_dtype(b, "b") if T(b) else zbool(b)
                return binop(op, a2, b2)
            return binop(op, a, b)

        return f

    TM[_n] = _mkb(_op, _n)
    TF[_n] = TM[_n]

TM["logical_not"] = lambda t: unop("invert", ops.to_dtype(t, "b"))
TF["logical_not"] = TM["logical_not"]
TM["abs"] = lambda t: unop("abs", t)
TF["abs"] = TM["abs"]
TM["neg"] = lambda t: unop("neg", t)
TF["neg"] = TM["neg"]


def _inplace(opname):
    def f(t, other, **kw):
        r = binop(opname, t, other)
        rs = r.snap()
        # result shape must equal t.shape (in-place ops cannot broadcast the target)
        ctx = cur()
        if r.rank != t.rank or not all(ctx.same(a, b) for a, b in zip(r.shape, t.shape)):
            ctx.wf(f"inplace-{opname}-shape {r.shape} -> {t.shape}", False)
        t.write(lambda idx, old: rs(idx))
        return t

    return f


for _n, _op in (("add_", "add"), ("sub_", "sub"), ("mul_", "mul"), ("div_", "truediv"), ("logical_and_", "and"), ("logical_or_", "or")):
    TM[_n] = _inplace(_op)

INPLACE_BINOPS = {"add": TM["add_"], "sub": TM["sub_"], "mul": TM["mul_"], "truediv": TM["div_"],
                  "and": _inplace("and"), "or": _inplace("or"), "floordiv": _inplace("floordiv"), "mod": _inplace("mod")}


@tm("fill_")
def _fill_(t, v):
    t.write(lambda idx, old: v)
    return t


@tm("zero_")
def _zero_(t):
    t.write(lambda idx, old: 0)
    return t


@tm("copy_")
def _copy_(t, src):
    ops.assign(t, src)
    return t


@tm("masked_fill")
def _masked_fill(t, mask, value):
    if isinstance(value, Inf):
        ops.uses_inf()
        value = ops.inf_value(value)
    if T(value):
        value = value.at() if value.rank == 0 else value
    return ops.where(mask, value, t) if t.dtype != "b" else ew(lambda m, x: z3.If(m, zbool(value), x), [mask, t], out_dtype="b", compute=None)


@tm("masked_fill_")
def _masked_fill_(t, mask, value):
    r = _masked_fill(t, mask, value)
    rs = r.snap()
    t.write(lambda idx, old: rs(idx))
    return t


@tm("clamp", "clip")
def _clamp(t, min=None, max=None):
    return ops.clamp(t, min, max)


TF["clamp"] = _clamp
TF["clip"] = _clamp


@tm("clamp_")
def _clamp_(t, min=None, max=None):
    r = ops.clamp(t, min, max)
    rs = r.snap()
    t.write(lambda idx, old: rs(idx))
    return t


for _n in ("exp", "log", "tanh", "sqrt", "cos", "sin", "sigmoid"):
    TM[_n] = (lambda n: (lambda t: ops.uf_apply(n, t)))(_n)
    TF[_n] = TM[_n]


@tm("isinf")
def _isinf(t):
    # A1: float tensors hold finite reals, except where the code itself wrote the literal infinity (A1b)
    if getattr(cur(), "inf_declared", False) and t.dtype == "f":
        return ew(lambda x: z3.Or(x == ops.INF, x == -ops.INF), [t], out_dtype="b", compute=None)
    return const_tensor(t.shape, "b", False)


@tm("isnan")
def _isnan(t):
    return const_tensor(t.shape, "b", False)


TF["isinf"] = _isinf
TF["isnan"] = _isnan


@tm("isfinite")
def _isfinite(t):
    return const_tensor(t.shape, "b", True)


TF["isfinite"] = _isfinite
TF["nan_to_num"] = lambda t, **kw: t
TM["nan_to_num"] = TF["nan_to_num"]


# ---- reductions
def _red(kind):
    def f(t, dim=None, keepdim=False, **kw):
        if "axis" in kw:
            dim = kw["axis"]
        if "keepdims" in kw:
            keepdim = kw["keepdims"]
        if type(t).__name__ == "MaskedSel" and kind in ("any", "all") and dim is None:
            return getattr(t, kind)()
        return reduce(kind, t, dim, keepdim)

    return f


TM["sum"] = _red("sum")
TF["sum"] = TM["sum"]
TM["any"] = _red("any")
TF["any"] = TM["any"]
TM["all"] = _red("all")
TF["all"] = TM["all"]
TM["argmax"] = _red("argmax")
TF["argmax"] = TM["argmax"]
TM["argmin"] = _red("argmin")
TF["argmin"] = TM["argmin"]


@tm("max")
def _max(t, dim=None, keepdim=False):
    if T(dim):
        return binop("max", t, dim)
    if dim is None:
        return reduce("max", t)
    return ops.max_with_indices(t, dim, keepdim, "max")


@tm("min")
def _min(t, dim=None, keepdim=False):
    if T(dim):
        return binop("min", t, dim)
    if dim is None:
        return reduce("min", t)
    return ops.max_with_indices(t, dim, keepdim, "min")


TM["amax"] = lambda t, dim=None, keepdim=False: reduce("max", t, dim, keepdim)
TM["amin"] = lambda t, dim=None, keepdim=False: reduce("min", t, dim, keepdim)
TF["amax"] = TM["amax"]
TF["amin"] = TM["amin"]


def _tf_max(a, b=None, keepdim=False, dim=None):
    if b is None and dim is None:
        return reduce("max", a)
    if dim is not None:
        return ops.max_with_indices(a, dim, keepdim, "max")
    if T(b) or not isinstance(b, int):
        return binop("max", a, b)
    return ops.max_with_indices(a, b, keepdim, "max")


def _tf_min(a, b=None, keepdim=False, dim=None):
    if b is None and dim is None:
        return reduce("min", a)
    if dim is not None:
        return ops.max_with_indices(a, dim, keepdim, "min")
    if T(b) or not isinstance(b, int):
        return binop("min", a, b)
    return ops.max_with_indices(a, b, keepdim, "min")


TF["max"] = _tf_max
TF["min"] = _tf_min


@tm("count_nonzero")
def _count_nonzero(t, dim=None):
    nz = ew(lambda x: z3.If(zbool(x), z3.IntVal(1), z3.IntVal(0)), [t], out_dtype="i", compute=None)
    return reduce("sum", nz, dim)


TF["count_nonzero"] = _count_nonzero


@tm("mean")
def _mean(t, dim=None, keepdim=False, keepdims=None):
    if keepdims is not None:
        keepdim = keepdims
    s = reduce("sum", ops.to_dtype(t, "f"), dim, keepdim)
    if dim is None:
        n = ops._prod(t.shape)
    elif isinstance(dim, (tuple, list)):
        n = ops._prod([t.shape[norm_dim(d, t.rank)] for d in dim])
    else:
        n = t.shape[norm_dim(dim, t.rank)]
    return binop("truediv", s, n)


TF["mean"] = _mean


def _var(t, dim=None, unbiased=True, keepdim=False, correction=None):
    """torch.var (documented definition): sum of squared deviations from the mean over dim, divided by n - correction
    (Bessel's correction 1 by default); WF obligation n - correction > 0."""
    if correction is None:
        correction = 1 if unbiased else 0
    if dim is None:
        dims = list(range(t.rank))
    elif isinstance(dim, (tuple, list)):
        dims = [norm_dim(d, t.rank) for d in dim]
    else:
        dims = [norm_dim(dim, t.rank)]
    n = ops._prod([t.shape[d] for d in dims])
    m = _mean(t, tuple(dims), keepdim=False)
    ms = m.snap()
    ts = ops.to_dtype(t, "f").snap()
    outer = [d for d in range(t.rank) if d not in dims]
    dev = mk(t.shape, "f", lambda I: (ts(I) - ms(tuple(I[d] for d in outer))) * (ts(I) - ms(tuple(I[d] for d in outer))))
    ssq = reduce("sum", dev, tuple(dims), keepdim)
    den = ops.scalar_binop("sub", n, correction, wf=False)
    cur().wf("var-positive-denominator", zint(den) > 0)
    return binop("truediv", ssq, den)


TM["var"] = _var
TF["var"] = _var


def _matmul(a, b):
    """torch.matmul / bmm for operands of rank >= 2 (documented definition, reals): leading dims broadcast,
    out[..., i, j] = sum_k a[..., i, k] * b[..., k, j]; WF obligation: the contracted sizes agree."""
    from .core import broadcast_shapes, bidx

    if a.rank < 2 or b.rank < 2:
        raise Unsupported("matmul with a rank-1 operand")
    ctx = cur()
    if not ctx.same(a.shape[-1], b.shape[-2]):
        ctx.wf(f"matmul-inner-dims {a.shape[-1]} vs {b.shape[-2]}", zint(a.shape[-1]) == zint(b.shape[-2]))
    lead = tuple(broadcast_shapes(ctx, [a.shape[:-2], b.shape[:-2]]))
    r = len(lead)
    as_, bs_ = ops.to_dtype(a, "f").snap(), ops.to_dtype(b, "f").snap()
    la, lb = tuple(a.shape[:-2]), tuple(b.shape[:-2])

    def elem(I):
        L, i, j, k = tuple(I[:r]), I[r], I[r + 1], I[r + 2]
        return as_(tuple(bidx(L, la, r)) + (i, k)) * bs_(tuple(bidx(L, lb, r)) + (k, j))

    prod = mk(lead + (a.shape[-2], b.shape[-1], a.shape[-1]), "f", elem)
    return reduce("sum", prod, -1, label="matmul")


def _softmax(t, dim=-1, dtype=None, **kw):
    """torch.softmax (documented definition, reals): exp(x_i) / sum_j exp(x_j) along dim; an entry equal to -inf (A1b: the
    constant -INF) has weight 0. exp is the uninterpreted positive function of the operation table."""
    d = norm_dim(dim, t.rank)
    ts = ops.to_dtype(t, "f").snap()
    EXP = ops.UF["exp"]
    inf_used = getattr(cur(), "inf_declared", False)
    w = mk(t.shape, "f", (lambda I: z3.If(ts(I) == -ops.INF, z3.RealVal(0), EXP(ts(I)))) if inf_used else (lambda I: EXP(ts(I))))
    z = reduce("sum", w, d, keepdim=True, label="softmax-norm")
    return binop("truediv", w, z)


TF["softmax"] = _softmax
TM["softmax"] = _softmax

TF["matmul"] = _matmul
TF["bmm"] = _matmul
TM["matmul"] = _matmul
TM["bmm"] = _matmul
TM["norm"] = lambda t, p=2, dim=-1, keepdim=False: ops.norm(t, p, dim, keepdim)
TF["norm"] = TM["norm"]

# ---- gather / scatter
TM["gather"] = lambda t, dim, index: ops.gather(t, dim, index)
TF["gather"] = TM["gather"]
TM["scatter"] = lambda t, dim, index, src=None, value=None: ops.scatter(t, dim, index, src if src is not None else value)
TF["scatter"] = TM["scatter"]
TM["scatter_"] = lambda t, dim, index, src=None, value=None: ops.scatter(t, dim, index, src if src is not None else value, inplace=True)
TM["scatter_add"] = lambda t, dim, index, src: ops.scatter(t, dim, index, src, mode="add")
TF["scatter_add"] = TM["scatter_add"]
TM["scatter_add_"] = lambda t, dim, index, src: ops.scatter(t, dim, index, src, mode="add", inplace=True)
def _roll(t, shifts, dims=None):
    """torch.roll; without dims the tensor is flattened, rolled and restored to its shape (documented behaviour)."""
    if dims is None:
        flat = ops.reshape(t, -1)
        return ops.reshape(ops.roll(flat, shifts, 0), *t.shape)
    return ops.roll(t, shifts, dims)


TM["roll"] = _roll


# ---- torch functions
def _mk_const(value):
    def f(*size, dtype=None, **kw):
        _drop(kw, "out")
        if not size and "size" in kw:
            size = (tuple(kw.pop("size")),)
        return const_tensor(ops._shape_args(size), dtype_cls(dtype, "f"), value)

    return f


TF["zeros"] = _mk_const(0)
TF["ones"] = _mk_const(1)
TF["empty"] = _mk_const(0)


@tf("full")
def _full(size, fill_value, dtype=None, **kw):
    return ops.full(ops._shape_args((size,)), fill_value, dtype)


def _mk_like(value):
    def f(t, dtype=None, **kw):
        return const_tensor(t.shape, dtype_cls(dtype, t.dtype), value)

    return f


TF["zeros_like"] = _mk_like(0)
TF["ones_like"] = _mk_like(1)
TF["empty_like"] = _mk_like(0)


@tf("full_like")
def _full_like(t, v, dtype=None, **kw):
    return const_tensor(t.shape, dtype_cls(dtype, t.dtype), v)


@tf("arange")
def _arange(*a, dtype=None, out=None, **kw):
    if out is not None and dtype is None:
        dtype = DT_CANON[out.dtype]
    if dtype is None and any(isinstance(x, float) for x in a):
        dtype = DT_CANON["f"]
    return ops.arange(*a, dtype=dtype)


@tf("tensor", "as_tensor")
def _tensor(data, dtype=None, **kw):
    if T(data):
        return data if dtype is None else ops.to_dtype(data, dtype_cls(dtype))
    if isinstance(data, (list, tuple)):
        flat = list(data)
        if all(not isinstance(x, (list, tuple)) for x in flat):
            from .core import scalar_dtype, promote

            d = dtype_cls(dtype, promote(*[scalar_dtype(x) for x in flat]) if flat else "f")
            vals = [cast(x, d) for x in flat]

            def elem(idx):
                i = idx[0]
                if isinstance(i, int):
                    return vals[i]
                r = vals[-1]
                for k in range(len(vals) - 2, -1, -1):
                    r = z3.If(zint(i) == k, vals[k], r)
                return r

            return mk((len(vals),), d, elem)
        raise Unsupported("torch.tensor of nested list")
    from .core import scalar_dtype

    return const_tensor((), dtype_cls(dtype, scalar_dtype(data)), data)


TF["cat"] = lambda tensors, dim=0, **kw: ops.cat(list(tensors), kw.get("axis", dim))
TF["concat"] = TF["cat"]
TF["stack"] = lambda tensors, dim=0: ops.stack(list(tensors), dim)
TF["roll"] = _roll
TF["where"] = lambda c, a, b: ops.where(c, a, b)
# torch.lerp(start, end, weight) = start + weight * (end - start)   (documented definition; reals, A1)
TF["lerp"] = lambda a, b, w: ops.binop("add", a, ops.binop("mul", w, ops.binop("sub", b, a)))
TM["lerp"] = TF["lerp"]
TF["squeeze"] = TM["squeeze"]
TF["unsqueeze"] = TM["unsqueeze"]
TF["transpose"] = TM["transpose"]
TF["permute"] = lambda t, dims: ops.permute(t, *dims)
TF["reshape"] = lambda t, shape: ops.reshape(t, *shape)
TF["flatten"] = TM["flatten"]
TF["is_tensor"] = lambda x: T(x)
TF["mul"] = TM["mul"]
TF["add"] = TM["add"]
TF["sub"] = TM["sub"]
TF["div"] = TM["div"]


class NoGrad:
    def __enter__(self):
        cur().no_grad_depth += 1
        return self

    def __exit__(self, *a):
        cur().no_grad_depth -= 1
        return False


TF["no_grad"] = lambda: NoGrad()
TF["inference_mode"] = lambda *a, **k: NoGrad()
TF["enable_grad"] = lambda: NoGrad()

# functional
FN = {}
FN["pad"] = lambda t, pad, mode="constant", value=0: ops.pad(t, pad, mode, value if value is not None else 0)


# ---- repetition
def _repeat_interleave(t, repeats, dim=None):
    if T(repeats):
        raise Unsupported("repeat_interleave with tensor repeats")
    if dim is None:
        if t.rank != 1:
            t = ops.flatten(t)
        dim = 0
    d = norm_dim(dim, t.rank)
    s_ = t.snap()
    shape = list(t.shape)
    shape[d] = simp_int(ops.scalar_binop("mul", t.shape[d], repeats, wf=False))

    def elem(I):
        J = list(I)
        J[d] = simp_int(ops.scalar_binop("floordiv", I[d], repeats, wf=False))
        return s_(tuple(J))

    return mk(tuple(shape), t.dtype, elem)


TM["repeat_interleave"] = _repeat_interleave
TF["repeat_interleave"] = _repeat_interleave


def _repeat(t, *sizes):
    sizes = ops._shape_args(sizes)
    if len(sizes) < t.rank:
        raise Unsupported("repeat with fewer dims")
    off = len(sizes) - t.rank
    tshape = (1,) * off + tuple(t.shape)
    shape = tuple(simp_int(ops.scalar_binop("mul", a, b, wf=False)) for a, b in zip(tshape, sizes))
    s_ = t.snap()

    def elem(I):
        J = []
        for k in range(off, len(sizes)):
            n = tshape[k]
            if isinstance(sizes[k], int) and sizes[k] == 1:
                J.append(I[k])
            elif isinstance(n, int) and n == 1:
                J.append(0)
            else:
                J.append(simp_int(ops.scalar_binop("mod", I[k], n, wf=False)))
        return s_(tuple(J))

    return mk(shape, t.dtype, elem)


TM["repeat"] = _repeat


# torch.finfo(dtype).eps: a positive machine constant (symbolic: its value is irrelevant to the algebra)
EPS = z3.Real("finfo_eps")


class _Finfo:
    eps = EPS
    max = z3.Real("finfo_max")
    min = z3.Real("finfo_min")
    tiny = z3.Real("finfo_tiny")


TF["finfo"] = lambda *a, **k: _Finfo()


def _mse_loss(a, b, reduction="mean"):
    d = binop("sub", a, b)
    sq = binop("mul", d, d)
    if reduction == "mean":
        return _mean(sq)
    if reduction == "sum":
        return reduce("sum", sq)
    return sq


FN["mse_loss"] = _mse_loss
FN["softmax"] = _softmax


def _huber_loss(a, b, reduction="mean", delta=1.0):
    """F.huber_loss (documented definition): 0.5 d^2 if |d| <= delta else delta (|d| - 0.5 delta), d = input - target."""
    d = binop("sub", a, b)
    dl = zreal(delta)
    h = ew(lambda x: z3.If(z3.And(x <= dl, x >= -dl), x * x / 2, dl * (z3.If(x >= 0, x, -x) - dl / 2)), [d], out_dtype="f")
    if reduction == "mean":
        return _mean(h)
    if reduction == "sum":
        return reduce("sum", h)
    return h


FN["huber_loss"] = _huber_loss


def _one_hot(t, num_classes=-1):
    """F.one_hot(t, C): out[..., c] = 1 iff t[...] == c (integer tensor); the WF obligation: 0 <= t < C."""
    if isinstance(num_classes, int) and num_classes < 0:
        raise Unsupported("one_hot with inferred num_classes (data-dependent shape)")
    s_ = t.snap()
    ops.wf_forall(tuple(t.shape), lambda I: z3.And(zint(s_(I)) >= 0, zint(s_(I)) < zint(num_classes)), "one_hot-class-in-range")
    return mk(tuple(t.shape) + (num_classes,), "i", lambda I: z3.If(zint(s_(tuple(I[:-1]))) == zint(I[-1]), 1, 0))


FN["one_hot"] = _one_hot


# ---- split / flip / random sources
def _split(t, size, dim=0):
    d = norm_dim(dim, t.rank)
    n = t.shape[d]
    if not isinstance(size, int):
        size = simp_int(size)
    if isinstance(size, int) and isinstance(n, int):
        out = []
        k = 0
        while k < n:
            idx = [slice(None)] * t.rank
            idx[d] = slice(k, min(k + size, n))
            out.append(ops.getitem(t, tuple(idx)))
            k += size
        return tuple(out)
    # symbolic chunk size: the number of chunks must be concrete: n = c * size
    c = ops._cancel_factor(zint(n), zint(size)) if is_z3(n) else None
    c = simp_int(c) if c is not None else None
    if not isinstance(c, int):
        raise Unsupported("split into a symbolic number of chunks")
    out = []
    for j in range(c):
        idx = [slice(None)] * t.rank
        idx[d] = slice(simp_int(ops.scalar_binop("mul", j, size, wf=False)), simp_int(ops.scalar_binop("mul", j + 1, size, wf=False)))
        out.append(ops.getitem(t, tuple(idx)))
    return tuple(out)


TM["split"] = _split
TF["split"] = _split


def _chunk(t, chunks, dim=0):
    """torch.chunk into `chunks` equal parts (the size along dim must be a multiple of chunks: WF obligation)."""
    d = norm_dim(dim, t.rank)
    n = t.shape[d]
    if not isinstance(chunks, int):
        raise Unsupported("chunk into a symbolic number of parts")
    if isinstance(n, int):
        if n % chunks:
            raise Unsupported("chunk with a remainder")
        size = n // chunks
    else:
        size = ops._cancel_factor(zint(n), z3.IntVal(chunks))
        if size is None:
            cur().wf(f"chunk-divisible {n} by {chunks}", zint(n) % chunks == 0)
            size = simp_int(zint(n) / chunks)
        else:
            size = simp_int(size)
    out = []
    for j in range(chunks):
        idx = [slice(None)] * t.rank
        idx[d] = slice(simp_int(ops.scalar_binop("mul", j, size, wf=False)), simp_int(ops.scalar_binop("mul", j + 1, size, wf=False)))
        out.append(ops.getitem(t, tuple(idx)))
    return tuple(out)


TM["chunk"] = _chunk
TF["chunk"] = _chunk


def _unbind(t, dim=0):
    d = norm_dim(dim, t.rank)
    n = t.shape[d]
    if not isinstance(n, int):
        # a tuple of symbolic length: only iterated / indexed by position, which the tensor with that dim moved to the front
        # supports with the same meaning (for a in x.unbind(1)  ==  for a in x.transpose(0, 1) for a 2-D x)
        return ops.permute(t, [d] + [k for k in range(t.rank) if k != d]) if d != 0 else t
    out = []
    for k in range(n):
        idx = [slice(None)] * t.rank
        idx[d] = k
        out.append(ops.getitem(t, tuple(idx)))
    return tuple(out)


TM["unbind"] = _unbind
TF["unbind"] = _unbind
TF["hstack"] = lambda ts: ops.cat(list(ts), 0 if list(ts)[0].rank == 1 else 1)


def _flip(t, *dims):
    dims = ops._shape_args(dims)
    ds = [norm_dim(d, t.rank) for d in dims]
    s_ = t.snap()
    shape = t.shape

    def elem(I):
        J = list(I)
        for d in ds:
            J[d] = ops.simp_sub(ops.simp_sub(shape[d], 1), I[d])
        return s_(tuple(J))

    return mk(t.shape, t.dtype, elem, grad=t.requires_grad)


TM["flip"] = _flip
TF["flip"] = lambda t, dims: _flip(t, *dims)

_RAND = [0]


def _rand(*size, **kw):
    """torch.rand: an arbitrary tensor with entries in [0, 1) (assumed sampler contract, A10)."""
    from .core import input_tensor

    shape = ops._shape_args(size)
    _RAND[0] += 1
    t = input_tensor(f"rand{_RAND[0]}", shape, "f")
    s_ = t.snap()
    ops.assume_forall(shape, lambda I: z3.And(s_(I) >= 0, s_(I) < 1))
    return t


TF["rand"] = _rand
TF["rand_like"] = lambda t, **kw: _rand(*t.shape)


def _randint(*args, size=None, **kw):
    """torch.randint(low=0, high, size): an arbitrary integer tensor with entries in [low, high) (assumed sampler contract, A10)."""
    from .core import input_tensor

    args = list(args)
    if size is None:
        size = args.pop()
    if "high" in kw:
        low, high = kw.pop("low", args[0] if args else 0), kw.pop("high")
    else:
        low, high = (0, args[0]) if len(args) == 1 else (args[0], args[1])
    shape = ops._shape_args((tuple(size),))
    _RAND[0] += 1
    t = input_tensor(f"randint{_RAND[0]}", shape, "i")
    s_ = t.snap()
    cur().wf("randint-nonempty-range", zint(low) < zint(high))
    ops.assume_forall(shape, lambda I: z3.And(s_(I) >= zint(low), s_(I) < zint(high)))
    return t


TF["randint"] = _randint


def _multinomial(ps, num_samples, replacement=False, **kw):
    """torch.multinomial(ps [B,N], n, replacement) (assumed contract): n column indices per row, each of positive weight; without
    replacement pairwise distinct. WF obligation (torch silently returns zero-weight categories or raises otherwise): with
    replacement every row has a positive weight, without replacement at least n of them."""
    from .core import input_tensor

    if ps.rank != 2 or not isinstance(num_samples, int):
        raise Unsupported("multinomial: only [B, N] weights and a concrete number of samples")
    if isinstance(replacement, SymTensor):
        replacement = replacement.at() if replacement.rank == 0 else replacement
    if not isinstance(replacement, bool) and not is_z3(replacement):
        raise Unsupported("multinomial: replacement flag")
    repl = replacement if isinstance(replacement, bool) else zbool(replacement)        # may be a symbolic truth value
    B, N = ps.shape
    n = num_samples
    pos = ops.to_dtype(binop("gt", ps, 0), "i")
    cnt = reduce("sum", pos, 1)
    cs = cnt.snap()
    need = (1 if repl else n) if isinstance(repl, bool) else z3.If(repl, 1, n)
    ops.wf_forall((B,), lambda I: zint(cs(I)) >= need, "multinomial-enough-support")
    _RAND[0] += 1
    sel = input_tensor(f"multinomial{_RAND[0]}", (B, n), "i")
    ss, pp = sel.snap(), ps.snap()
    ops.assume_forall((B, n), lambda I: z3.And(ss(I) >= 0, ss(I) < zint(N), pp((I[0], ss(I))) > 0))
    if repl is not True:
        for a in range(n):
            for c in range(a + 1, n):
                ops.assume_forall((B,), lambda I, a=a, c=c: (ss((I[0], a)) != ss((I[0], c))) if repl is False else z3.Or(repl, ss((I[0], a)) != ss((I[0], c))))
    cur().notes.append("assumed contract of torch.multinomial: indices of positive weight, pairwise distinct without replacement; support size is a WF obligation")
    return sel


TF["multinomial"] = _multinomial
TM["multinomial"] = _multinomial


def _float_tensor(*size, **kw):
    """torch.FloatTensor(*size) / torch.empty: uninitialised memory = an arbitrary float tensor."""
    from .core import input_tensor

    shape = ops._shape_args(size)
    _RAND[0] += 1
    return input_tensor(f"uninit{_RAND[0]}", shape, "f")


TF["FloatTensor"] = _float_tensor


def _cdist(x1, x2, p=2, **kw):
    """torch.cdist(x1 [B,P,M], x2 [B,R,M], p=2) -> [B,P,R]: pairwise Euclidean distances (M concrete)."""
    if p not in (2, 2.0):
        raise Unsupported("cdist with p != 2")
    if x1.rank != 3 or x2.rank != 3:
        raise Unsupported("cdist on non-3-D tensors")
    a = ops.unsqueeze(x1, 2)            # [B,P,1,M]
    b = ops.unsqueeze(x2, 1)            # [B,1,R,M]
    return ops.norm(binop("sub", a, b), 2, -1, False)


TF["cdist"] = _cdist

_ROUND = [0]


def _round(t, decimals=0, **kw):
    """torch.round: an integer-valued result within 1/2 of the argument (the tie-breaking rule - half to even - is left open)."""
    if decimals != 0:
        raise Unsupported("round with decimals")
    if t.dtype != "f":
        return t
    from .core import input_tensor

    _ROUND[0] += 1
    r = input_tensor(f"round{_ROUND[0]}", tuple(t.shape), "f")
    rs, xs = r.snap(), t.snap()
    ops.assume_forall(tuple(t.shape), lambda I: z3.And(z3.ToReal(z3.ToInt(rs(I))) == rs(I), rs(I) - xs(I) <= zreal(1) / 2, xs(I) - rs(I) <= zreal(1) / 2))
    return r


TM["round"] = _round
TF["round"] = _round


def _uniform_(t, a=0, b=1, **kw):
    """Tensor.uniform_(a, b): every element is overwritten in place by an arbitrary value in [a, b] (assumed sampler contract, A10)."""
    from .core import input_tensor

    _RAND[0] += 1
    d = input_tensor(f"uniform{_RAND[0]}", tuple(t.shape), "f")
    s_ = d.snap()
    ops.assume_forall(tuple(t.shape), lambda I: z3.And(s_(I) >= cast(a, "f"), s_(I) <= cast(b, "f")))
    t.write(lambda idx, old: s_(idx))
    for h in getattr(cur(), "draw_hooks", []):
        h("uniform_", d)            # a contract may state a pre-condition on a draw when it is made (whatever the order of the draws)
    return t


TM["uniform_"] = _uniform_


# ---- nonzero: only the row-wise enumeration idiom  x.nonzero(as_tuple=True)[1].view(B, -1)  on a 2-D tensor
class NonzeroCols:
    """Column indices of the non-zero entries of a [B, N] tensor in row-major order (torch.nonzero contract).
    Usable only through .view(B, -1): requires every row to hold the same number c of non-zeros (WF obligation);
    then result[b, k] is the k-th smallest non-zero column of row b."""

    def __init__(self, src):
        self.src = src

    def view(self, *sizes):
        ctx = cur()
        sizes = ops._shape_args(sizes)
        src = self.src
        B, N = src.shape
        if len(sizes) != 2 or not ctx.same(sizes[0], B) or not (isinstance(sizes[1], int) and sizes[1] == -1):
            raise Unsupported("nonzero(...)[1] is only modelled under .view(batch, -1)")
        ss = src.snap()
        nzi = ew(lambda x: z3.If(zbool(x), z3.IntVal(1), z3.IntVal(0)), [src], out_dtype="i", compute=None)
        cnt = reduce("sum", nzi, -1, label="nzcount")
        c = simp_int(cnt.at(0)) if isinstance(B, int) or True else None
        # all rows must have the same count, otherwise the [B, -1] view mixes rows (or raises)
        ops.wf_forall((B,), lambda I: zint(cnt.at(I[0])) == zint(cnt.at(0)), "nonzero-view-equal-counts-per-row")
        cdim = z3.Int(f"nzc!{next(ctx.fresh_ids)}")
        ctx.assume(z3.And(cdim == zint(cnt.at(0)), cdim >= 0))
        f = z3.Function(f"nz!{next(ctx.fresh_ids)}", z3.IntSort(), z3.IntSort(), z3.IntSort())
        b, k, k2, i = z3.Ints("nzb nzk nzk2 nzi")
        inb = z3.And(b >= 0, b < zint(B))
        # enumeration contract of torch.nonzero (row-major order): in range, non-zero, strictly increasing, complete
        ctx.assume(z3.ForAll([b, k], z3.Implies(z3.And(inb, k >= 0, k < cdim),
                                               z3.And(f(b, k) >= 0, f(b, k) < zint(N), zbool(ss((b, f(b, k)))))), patterns=[f(b, k)]))
        ctx.assume(z3.ForAll([b, k, k2], z3.Implies(z3.And(inb, k >= 0, k < k2, k2 < cdim), f(b, k) < f(b, k2)), patterns=[z3.MultiPattern(f(b, k), f(b, k2))]))
        w = z3.Function(f"nzinv!{next(ctx.fresh_ids)}", z3.IntSort(), z3.IntSort(), z3.IntSort())
        ctx.assume(z3.ForAll([b, i], z3.Implies(z3.And(inb, i >= 0, i < zint(N), zbool(ss((b, i)))),
                                               z3.And(w(b, i) >= 0, w(b, i) < cdim, f(b, w(b, i)) == i))))
        ctx.notes.append("assumed contract of torch.nonzero: row-major enumeration (in range, non-zero, increasing, complete)")
        return mk((B, cdim), "i", lambda I: f(zint(I[0]), zint(I[1])))


def _pick(vals, i):
    r = zint(vals[-1])
    for k in range(len(vals) - 2, -1, -1):
        r = z3.If(zint(i) == k, zint(vals[k]), r)
    return r


def _nonzero(t, as_tuple=False):
    if not as_tuple and t.rank == 1 and isinstance(t.shape[0], int) and t.shape[0] <= 32:
        # a tensor of concrete values (e.g. torch.tensor(list of python numbers)): the indices are concrete too
        vals = [z3.simplify(cast(t.at(k), "f")) if is_z3(t.at(k)) else t.at(k) for k in range(t.shape[0])]
        if all(not is_z3(v) or z3.is_rational_value(v) or z3.is_int_value(v) or z3.is_true(v) or z3.is_false(v) for v in vals):
            def nz(v):
                if z3.is_true(v):
                    return True
                if z3.is_false(v):
                    return False
                return (v.as_fraction() != 0) if is_z3(v) else bool(v)
            idx = [k for k, v in enumerate(vals) if nz(v)]
            return mk((len(idx), 1), "i", lambda I: idx[I[0]] if isinstance(I[0], int) else _pick(idx, I[0]))
    if not as_tuple or t.rank != 2:
        raise Unsupported("nonzero (only the 2-D as_tuple=True row enumeration idiom is modelled)")
    return (None, NonzeroCols(t))


TM["nonzero"] = _nonzero
TF["nonzero"] = _nonzero


def _cumsum(t, dim, **kw):
    """cumsum along dim: out[..., i, ...] = sum_{k <= i} x[..., k, ...]  (prefix sums as reductions whose length depends on i)."""
    ctx = cur()
    d = norm_dim(dim, t.rank)
    n = t.shape[d]
    s_ = t.snap()
    dt = "i" if t.dtype in ("b", "i") else "f"
    if isinstance(n, int) and n <= ops.UNROLL_LIMIT:
        def elem(I):
            r = cast(0, dt)
            i = I[d]
            for k in range(n):
                J = list(I)
                J[d] = k
                term = cast(s_(tuple(J)), dt)
                r = r + (term if isinstance(i, int) and k <= i else (z3.If(zint(i) >= k, term, cast(0, dt)) if not isinstance(i, int) else cast(0, dt)))
            return r
        return mk(t.shape, dt, elem, grad=t.requires_grad)

    def body(outer, ks):
        J = list(outer)
        J[d] = ks[0]
        return cast(s_(tuple(J)), dt)

    red = ctx.new_red("sum", (lambda o: ops.simp_add(o[d], 1),), body, t.rank, dt, "cumsum")
    return mk(t.shape, dt, lambda I: red.app(I), prov=("red", red), grad=t.requires_grad)


TM["cumsum"] = _cumsum
TF["cumsum"] = _cumsum


# ---- sort / argsort: assumed contract of torch.sort (values ordered, a permutation of the input along dim)
class SortResult(tuple):
    def __new__(cls, values, indices):
        return super().__new__(cls, (values, indices))

    @property
    def values(self):
        return self[0]

    @property
    def indices(self):
        return self[1]


_SORT = [0]


def _sort(t, dim=-1, descending=False, stable=False):
    ctx = cur()
    d = norm_dim(dim, t.rank)
    n = t.shape[d]
    _SORT[0] += 1
    k_ = _SORT[0]
    nouter = t.rank - 1
    ints = [z3.IntSort()] * t.rank
    from .core import sort_of

    S = z3.Function(f"sorted{k_}", *ints, sort_of(t.dtype if t.dtype != "b" else "i"))
    P = z3.Function(f"sortperm{k_}", *ints, z3.IntSort())
    Q = z3.Function(f"sortperm_inv{k_}", *ints, z3.IntSort())
    a = t.snap()
    dt = t.dtype if t.dtype != "b" else "i"
    o = [z3.Int(f"so{k_}_{j}") for j in range(nouter)]
    k, k2 = z3.Int(f"sk{k_}"), z3.Int(f"sk2{k_}")
    oshape = [s_ for j, s_ in enumerate(t.shape) if j != d]
    orng = [z3.And(v >= 0, v < zint(m)) for v, m in zip(o, oshape)]

    def full(kk):
        J = list(o)
        J.insert(d, kk)
        return J

    def A(kk):
        return cast(a(tuple(full(kk))), dt)

    ink = lambda kk: z3.And(kk >= 0, kk < zint(n))
    ctx.assume(z3.ForAll(o + [k], z3.Implies(z3.And(*orng, ink(k)),
                                            z3.And(P(*full(k)) >= 0, P(*full(k)) < zint(n), S(*full(k)) == A(P(*full(k))),
                                                   Q(*full(P(*full(k)))) == k)), patterns=[S(*full(k))]))
    ctx.assume(z3.ForAll(o + [k], z3.Implies(z3.And(*orng, ink(k)),
                                            z3.And(Q(*full(k)) >= 0, Q(*full(k)) < zint(n), P(*full(Q(*full(k)))) == k)), patterns=[Q(*full(k))]))
    cmp = (lambda x, y: x >= y) if descending else (lambda x, y: x <= y)
    ctx.assume(z3.ForAll(o + [k, k2], z3.Implies(z3.And(*orng, ink(k), ink(k2), k < k2), cmp(S(*full(k)), S(*full(k2)))),
                         patterns=[z3.MultiPattern(S(*full(k)), S(*full(k2)))]))
    ctx.notes.append("assumed contract of torch.sort: values ordered, values = input o permutation, indices a bijection")
    vals = mk(t.shape, dt, lambda I: S(*[zint(x) for x in I]))
    idxs = mk(t.shape, "i", lambda I: P(*[zint(x) for x in I]))
    vals.prov = ("sort", {"S": S, "P": P, "Q": Q, "dim": d, "n": n, "src": t})
    idxs.prov = ("sortidx", {"S": S, "P": P, "Q": Q, "dim": d, "n": n, "src": t})
    return SortResult(vals, idxs)


TM["sort"] = _sort
TF["sort"] = _sort
TM["argsort"] = lambda t, dim=-1, descending=False, **kw: _sort(t, dim, descending)[1]
TF["argsort"] = TM["argsort"]


class MaskedSel:
    """x[boolean mask]: a selection of data-dependent length; only elementwise predicates followed by any()/all()
    are modelled (any = exists a selected element, all = for all selected elements)."""

    def __init__(self, t, mask):
        self.t, self.mask = t, mask

    def map(self, fn):
        return MaskedSel(fn(self.t), self.mask)

    def _m(self):
        m = self.mask
        for _ in range(self.t.rank - m.rank):
            m = ops.unsqueeze(m, -1)
        return m

    def any(self):
        return reduce("any", binop("and", self._m(), self.t))

    def all(self):
        return reduce("all", binop("or", unop("invert", self._m()), self.t))


# elementwise operations that commute with row selection: f(x[mask], y[mask]) == f(x, y)[mask]
MASKED_ELEMENTWISE = {"max", "min", "maximum", "minimum", "floor", "ceil", "abs", "int", "long", "float", "double", "bool", "clamp",
                      "clamp_min", "clamp_max", "relu", "square", "sqrt", "exp", "log", "neg", "round", "to", "type", "clone", "detach",
                      "isinf", "isnan", "isfinite", "logical_not", "eq", "ne", "lt", "le", "gt", "ge", "add", "sub", "mul", "div",
                      "true_divide", "sign", "reciprocal", "pow", "logical_and", "logical_or", "where", "masked_fill", "cpu", "contiguous",
                      "zeros_like", "ones_like", "full_like"}


def masked_lift(fn, *args):
    """Apply an elementwise function to masked selections: every selection must come from the SAME mask tensor and
    from tensors of the mask's shape extended to the right; plain scalars pass through."""
    sels = [a for a in args if isinstance(a, MaskedSel)]
    m = sels[0].mask
    for s_ in sels[1:]:
        if s_.mask is not m:
            raise Unsupported("elementwise operation on selections by different masks")
    for a in args:
        if isinstance(a, SymTensor) and a.rank > 0:
            raise Unsupported("elementwise operation between a masked selection and a tensor")
    r = fn(*[a.t if isinstance(a, MaskedSel) else a for a in args])
    if not isinstance(r, SymTensor):
        raise Unsupported("elementwise operation on a masked selection did not return a tensor")
    return MaskedSel(r, m)


# ---- topk: assumed contract of torch.topk (k concrete): k pairwise distinct positions, values = input there,
#      sorted (descending for largest=True), every other value is <= (>=) the last selected one
_TOPK = [0]


def _topk(t, k, dim=-1, largest=True, sorted=True):
    ctx = cur()
    d = norm_dim(dim, t.rank)
    k = simp_int(k)
    if not isinstance(k, int):
        raise Unsupported("topk with symbolic k")
    if d != t.rank - 1:
        raise Unsupported("topk along a non-last dim")
    _TOPK[0] += 1
    n = t.shape[d]
    ctx.wf("topk-k-le-n", zint(k) <= zint(n))
    nouter = t.rank - 1
    dt = t.dtype if t.dtype != "b" else "i"
    from .core import sort_of

    V = z3.Function(f"topk_val{_TOPK[0]}", *([z3.IntSort()] * t.rank), sort_of(dt))
    P = z3.Function(f"topk_idx{_TOPK[0]}", *([z3.IntSort()] * t.rank), z3.IntSort())
    a = t.snap()
    o = [z3.Int(f"tk{_TOPK[0]}_{j}") for j in range(nouter)]
    oshape = list(t.shape[:-1])
    orng = [z3.And(v >= 0, v < zint(m)) for v, m in zip(o, oshape)]
    kk = z3.Int(f"tkk{_TOPK[0]}")
    cmp = (lambda x, y: x >= y) if largest else (lambda x, y: x <= y)
    facts = []
    for j in range(k):
        facts.append(z3.And(P(*o, j) >= 0, P(*o, j) < zint(n), V(*o, j) == cast(a(tuple(o) + (P(*o, j),)), dt)))
        for j2 in range(j + 1, k):
            facts.append(P(*o, j) != P(*o, j2))
            facts.append(cmp(V(*o, j), V(*o, j2)))
    body = z3.And(*facts) if facts else z3.BoolVal(True)
    pats = [V(*o, 0)] if o else None
    ctx.assume(z3.ForAll(o, z3.Implies(z3.And(*orng), body), patterns=[z3.MultiPattern(*[V(*o, 0)])]) if o else body)
    others = z3.Implies(z3.And(*orng, kk >= 0, kk < zint(n), *[kk != P(*o, j) for j in range(k)]),
                        cmp(V(*o, k - 1), cast(a(tuple(o) + (kk,)), dt)))
    ctx.assume(z3.ForAll(o + [kk], others))
    ctx.notes.append("assumed contract of torch.topk: distinct positions, values sorted, all other values dominated")
    vals = mk(tuple(oshape) + (k,), dt, lambda I: V(*[zint(x) for x in I]))
    idxs = mk(tuple(oshape) + (k,), "i", lambda I: P(*[zint(x) for x in I]))
    vals.prov = ("topk", {"V": V, "P": P, "k": k, "n": n, "src": t})
    return MaxResult_(vals, idxs)


class MaxResult_(tuple):
    def __new__(cls, values, indices):
        return super().__new__(cls, (values, indices))

    @property
    def values(self):
        return self[0]

    @property
    def indices(self):
        return self[1]


TM["topk"] = _topk
TF["topk"] = _topk

TF["Size"] = lambda x: tuple(x)

TM["numpy"] = lambda t: t   # .numpy(): same values and dtype (A11)


# ---------------------------------------------------------------------------------------------
# aliases and simple derived operations (documented torch definitions in terms of operations already in the table):
# they keep a semantics-preserving rewrite of the repository within reach of the interpreter
# ---------------------------------------------------------------------------------------------
def _alias(name, fn, method=True, function=True):
    if method and name not in TM:
        TM[name] = fn
    if function and name not in TF:
        TF[name] = fn


_alias("tile", lambda t, *dims: _repeat(t, *(dims[0] if len(dims) == 1 and isinstance(dims[0], (tuple, list)) else dims)))
_alias("take_along_dim", lambda t, indices, dim: ops.gather(t, dim, indices))
_alias("movedim", lambda t, a, b: ops.transpose(t, a, b) if abs(norm_dim(a, t.rank) - norm_dim(b, t.rank)) <= 1 else (_ for _ in ()).throw(Unsupported("movedim over more than one position")))
_alias("swapaxes", lambda t, a, b: ops.transpose(t, a, b))
_alias("swapdims", lambda t, a, b: ops.transpose(t, a, b))
_alias("broadcast_to", lambda t, *s: ops.expand(t, *s))
_alias("clamp_min", lambda t, min=None: ops.clamp(t, min, None))
_alias("clamp_max", lambda t, max=None: ops.clamp(t, None, max))
_alias("relu", lambda t: ops.clamp(t, 0, None))
FN.setdefault("relu", TF["relu"])
_alias("square", lambda t: binop("mul", t, t))
_alias("reciprocal", lambda t: binop("truediv", 1.0, t))
_alias("true_divide", lambda a, b: binop("truediv", a, b))
_alias("sign", lambda t: ew(lambda x: z3.If(x > 0, 1, z3.If(x < 0, -1, 0)), [t], out_dtype=t.dtype if t.dtype != "b" else "i"))
_alias("concatenate", TF["cat"], method=False)
_alias("vstack", lambda ts: ops.cat([x if x.rank >= 2 else ops.unsqueeze(x, 0) for x in ts], 0), method=False)
TM.setdefault("where", lambda cond, a, b: ops.where(cond, a, b))


def _pow(t, e):
    if isinstance(e, int) and 0 <= e <= 4:
        r = None
        for _ in range(e):
            r = t if r is None else binop("mul", r, t)
        return r if r is not None else ops.full(t.shape, 1.0) if T(t) else 1.0
    if isinstance(e, float) and e == 0.5 and T(t):
        return ops.uf_apply("sqrt", t)
    raise Unsupported("pow with this exponent")


_alias("pow", _pow)


def _narrow(t, dim, start, length):
    idx = [slice(None)] * t.rank
    idx[norm_dim(dim, t.rank)] = slice(start, ops.simp_add(start, length))
    return ops.getitem(t, tuple(idx))


_alias("narrow", _narrow)


def _select(t, dim, index):
    idx = [slice(None)] * t.rank
    idx[norm_dim(dim, t.rank)] = index
    return ops.getitem(t, tuple(idx))


_alias("select", _select)


def _index_select(t, dim, index):
    d = norm_dim(dim, t.rank)
    idx = [slice(None)] * t.rank
    idx[d] = index
    return ops.getitem(t, tuple(idx))


_alias("index_select", _index_select)


def _floor(t):
    return ew(lambda x: z3.ToReal(z3.ToInt(x)), [t], out_dtype="f") if t.dtype == "f" else t


def _ceil(t):
    return ew(lambda x: -z3.ToReal(z3.ToInt(-x)), [t], out_dtype="f") if t.dtype == "f" else t


_alias("floor", _floor)
_alias("ceil", _ceil)


def _std(t, dim=None, unbiased=True, keepdim=False, correction=None):
    return ops.uf_apply("sqrt", _var(t, dim, unbiased, keepdim, correction))


_alias("std", _std)


def _logsumexp(t, dim, keepdim=False):
    ts = ops.to_dtype(t, "f").snap()
    EXP = ops.UF["exp"]
    w = mk(t.shape, "f", lambda I: EXP(ts(I)))
    return ops.uf_apply("log", reduce("sum", w, dim, keepdim, label="logsumexp"))


_alias("logsumexp", _logsumexp)


def _log_softmax(t, dim=-1, dtype=None, **kw):
    """x - logsumexp(x) along dim (finite entries; -inf entries are outside this definition: Unsupported via INF arithmetic)."""
    return binop("sub", ops.to_dtype(t, "f"), _logsumexp(t, dim, keepdim=True))


_alias("log_softmax", _log_softmax)
FN.setdefault("log_softmax", _log_softmax)


def _dot(a, b):
    return reduce("sum", binop("mul", a, b), -1, label="dot")


_alias("dot", _dot)
_alias("outer", lambda a, b: binop("mul", ops.unsqueeze(a, 1), ops.unsqueeze(b, 0)))
