"""AST interpreter: symbolic execution of the real function bodies from /repo.

The verified text is the current source: files are re-read and re-parsed on
every run; nothing is translated or copied. What is dropped on ingestion:
docstrings, annotations, log.* calls, device placement.
"""
from __future__ import annotations

import ast
import hashlib
import os

import z3

from . import ops
from .core import (
    AND, NOT, OR, Inf, PathEnd, SymTensor, Unsupported, cur, is_z3, simp_int, zbool, zint, const_tensor, mk,
)
from .methods import FN, INPLACE_BINOPS, TF, TM, NoGrad
from .ops import DType, DTYPES, DT_CANON, T, binop, scalar_binop, unop
from .td import SymTD

REPO_ROOT = os.environ.get("TVC_REPO", "/repo")

BINOPS = {ast.Add: "add", ast.Sub: "sub", ast.Mult: "mul", ast.Div: "truediv", ast.FloorDiv: "floordiv",
          ast.Mod: "mod", ast.Pow: "pow", ast.BitAnd: "and", ast.BitOr: "or", ast.BitXor: "xor"}
CMPOPS = {ast.Lt: "lt", ast.LtE: "le", ast.Gt: "gt", ast.GtE: "ge", ast.Eq: "eq", ast.NotEq: "ne"}


class ReturnEx(Exception):
    def __init__(self, value):
        self.value = value


class BreakEx(Exception):
    pass


class ContinueEx(Exception):
    pass


class RaisedEx(PathEnd):
    def __init__(self, info):
        super().__init__("raise", info)


# ----------------------------------------------------------------------------
# repo model
# ----------------------------------------------------------------------------


class ClassInfo:
    def __init__(self, mod, node):
        self.mod = mod
        self.node = node
        self.name = node.name
        self.methods = {}
        self.attrs = {}
        for st in node.body:
            if isinstance(st, ast.FunctionDef):
                # property setters share the name: keep the first (getter)
                if st.name in self.methods and any(isinstance(d, ast.Attribute) and d.attr == "setter" for d in st.decorator_list):
                    continue
                self.methods[st.name] = st
            elif isinstance(st, ast.Assign) and len(st.targets) == 1 and isinstance(st.targets[0], ast.Name):
                try:
                    self.attrs[st.targets[0].id] = ast.literal_eval(st.value)
                except Exception:
                    pass

    def bases(self):
        out = []
        for b in self.node.bases:
            r = self.mod.resolve_class_expr(b)
            if r is not None:
                out.append(r)
        return out

    def find_method(self, name, skip_self=False):
        """MRO-ish lookup (depth-first, left to right)."""
        if not skip_self and name in self.methods:
            return self, self.methods[name]
        for b in self.bases():
            r = b.find_method(name)
            if r:
                return r
        return None

    def find_attr(self, name):
        if name in self.attrs:
            return True, self.attrs[name]
        for b in self.bases():
            ok, v = b.find_attr(name)
            if ok:
                return ok, v
        return False, None

    def is_subclass_of(self, name):
        if self.name == name:
            return True
        return any(b.is_subclass_of(name) for b in self.bases())


class ModuleInfo:
    def __init__(self, repo, relpath):
        self.repo = repo
        self.relpath = relpath
        path = os.path.join(repo.root, relpath)
        with open(path) as f:
            self.src = f.read()
        self.sha = hashlib.sha256(self.src.encode()).hexdigest()[:16]
        self.tree = ast.parse(self.src)
        self.imports = {}
        self.funcs = {}
        self.classes = {}
        self.consts = {}
        pkg = relpath[:-3].replace("/", ".")
        if pkg.endswith(".__init__"):
            pkg = pkg[: -len(".__init__")]
            self.package = pkg
        else:
            self.package = pkg.rsplit(".", 1)[0] if "." in pkg else ""
        self.modname = pkg
        for st in self.tree.body:
            self._top(st)

    def _top(self, st):
        if isinstance(st, ast.Import):
            for a in st.names:
                self.imports[a.asname or a.name.split(".")[0]] = ("module", a.name if a.asname else a.name.split(".")[0])
        elif isinstance(st, ast.ImportFrom):
            mod = st.module or ""
            if st.level:
                base = self.package.split(".")
                if st.level > 1:
                    base = base[: -(st.level - 1)]
                mod = ".".join(base + ([mod] if mod else []))
            for a in st.names:
                self.imports[a.asname or a.name] = ("attr", mod, a.name)
        elif isinstance(st, ast.FunctionDef):
            self.funcs[st.name] = st
        elif isinstance(st, ast.ClassDef):
            self.classes[st.name] = ClassInfo(self, st)
        elif isinstance(st, ast.Assign) and len(st.targets) == 1 and isinstance(st.targets[0], ast.Name):
            try:
                self.consts[st.targets[0].id] = ast.literal_eval(st.value)
            except Exception:
                pass
        elif isinstance(st, ast.Try):
            for s in st.body:
                self._top(s)
        elif isinstance(st, ast.If):
            # module-level configuration switches: later (else) assignments win; recorded as an assumption by users
            for s in st.body + st.orelse:
                self._top(s)

    def resolve_class_expr(self, expr):
        if isinstance(expr, ast.Name):
            return self.resolve_class(expr.id)
        return None

    def resolve_class(self, name):
        if name in self.classes:
            return self.classes[name]
        imp = self.imports.get(name)
        if imp and imp[0] == "attr":
            m = self.repo.module_by_name(imp[1])
            if m is not None:
                return m.lookup_export_class(imp[2])
        return None

    def lookup_export_class(self, name, depth=0):
        if name in self.classes:
            return self.classes[name]
        imp = self.imports.get(name)
        if imp and imp[0] == "attr" and depth < 5:
            m = self.repo.module_by_name(imp[1])
            if m is not None:
                return m.lookup_export_class(imp[2], depth + 1)
        return None

    def lookup_export_func(self, name, depth=0):
        if name in self.funcs:
            return self, self.funcs[name]
        imp = self.imports.get(name)
        if imp and imp[0] == "attr" and depth < 5:
            m = self.repo.module_by_name(imp[1])
            if m is not None:
                return m.lookup_export_func(imp[2], depth + 1)
        return None


class Repo:
    def __init__(self, root=None):
        self.root = root or REPO_ROOT
        self.mods = {}

    def module(self, relpath):
        if relpath not in self.mods:
            self.mods[relpath] = ModuleInfo(self, relpath)
        return self.mods[relpath]

    def module_by_name(self, dotted):
        if not dotted.startswith("rl4co"):
            return None
        p = dotted.replace(".", "/")
        for cand in (p + ".py", p + "/__init__.py"):
            if os.path.exists(os.path.join(self.root, cand)):
                return self.module(cand)
        return None


# ----------------------------------------------------------------------------
# interpreter values
# ----------------------------------------------------------------------------


class FuncRef:
    def __init__(self, mod, node, cls=None):
        self.mod = mod
        self.node = node
        self.cls = cls
        self.qual = f"{cls.name}.{node.name}" if cls else node.name
        self.key = (mod.relpath, self.qual)
        decos = [d.id for d in node.decorator_list if isinstance(d, ast.Name)]
        self.is_static = "staticmethod" in decos
        self.is_classmethod = "classmethod" in decos
        self.is_property = "property" in decos

    def __repr__(self):
        return f"<func {self.key}>"


class BoundMethod:
    def __init__(self, obj, func: FuncRef):
        self.obj = obj
        self.func = func


class ClassRef:
    def __init__(self, cls: ClassInfo):
        self.cls = cls


class SelfObj:
    """An object of a repo class with the attributes a contract declares."""

    def __init__(self, cls: ClassInfo, attrs=None):
        self._cls = cls
        self._attrs = dict(attrs or {})


class Namespace:
    def __init__(self, **kw):
        self.__dict__.update(kw)


class SuperObj:
    def __init__(self, obj, cls):
        self.obj = obj
        self.cls = cls


class TorchMod:
    def __init__(self, path="torch"):
        self.path = path


class Opaque:
    def __init__(self, name):
        self.name = name

    def __repr__(self):
        return f"<opaque {self.name}>"


class TensorMethod:
    def __init__(self, t, name):
        self.t = t
        self.name = name


class TypeTok:
    def __init__(self, name):
        self.name = name


class _SymMath:
    """The `math` module: Python floats are computed, symbolic arguments go to the uninterpreted real functions of the
    operation table (sqrt / exp / log / cos / sin / tanh), e.g. math.sqrt(embed_dim) with a symbolic embedding width."""

    def __getattr__(self, name):
        import math

        real = getattr(math, name)
        if not callable(real):
            return real

        def f(*args):
            if any(is_z3(a) for a in args):
                if name in ops.UF and len(args) == 1:
                    a = args[0]
                    ar = z3.ToReal(a) if a.sort() == z3.IntSort() else a
                    r = ops.UF[name](ar)
                    if name == "sqrt":      # ground instance of: the square root of a positive real is positive
                        cur().assume(z3.Implies(ar > 0, r > 0))
                    if name == "exp":
                        cur().assume(r > 0)
                    return r
                raise Unsupported(f"math.{name} of a symbolic value")
            return real(*args)

        return f


class _ArbitraryConfig:
    """Attributes are fresh real constants (cached per name): code that starts to read a configuration value the contract
    does not mention sees an arbitrary one."""

    def __init__(self, path):
        object.__setattr__(self, "_path", path)
        object.__setattr__(self, "_vals", {})

    def __getattr__(self, name):
        if name.startswith("__"):
            raise AttributeError(name)
        vals = object.__getattribute__(self, "_vals")
        if name not in vals:
            nm = f"{object.__getattribute__(self, '_path')}.{name}"
            # counts and sizes (num_loc, num_agents, n_ops_max, batch_size, ...) are arbitrary integers, everything else an arbitrary real
            is_count = name.startswith(("num_", "n_", "max_num", "min_num")) or name.endswith(("_size", "_num", "_count"))
            vals[name] = z3.Int(nm) if is_count else z3.Real(nm)
        return vals[name]


class Lambda:
    def __init__(self, node, env, frame):
        self.node = node
        self.env = env
        self.frame = frame


class SymRange:
    def __init__(self, lo, hi):
        self.lo, self.hi = lo, hi


TYPE_TOKS = {n: TypeTok(n) for n in ("int", "float", "bool", "str", "tuple", "list", "dict", "Tensor", "TensorDict", "TensorDictBase")}


class Frame:
    def __init__(self, func: FuncRef, selfobj=None, owner=None):
        self.func = func
        self.selfobj = selfobj
        self._loop_ordinal = 0
        # loops of a callee that was inlined WITHOUT being named by the contract (a helper extracted by a refactoring) are
        # numbered with the function that called it, in execution order, and looked up under that function's loop contracts
        self.owner = owner

    @property
    def loop_frame(self):
        return self.owner.loop_frame if self.owner is not None else self

    @property
    def loop_ordinal(self):
        return self.loop_frame._loop_ordinal

    @loop_ordinal.setter
    def loop_ordinal(self, v):
        self.loop_frame._loop_ordinal = v


class Interp:
    def __init__(self, repo=None, inline=(), call_hook=None, max_depth=12):
        self.repo = repo or Repo()
        self.inline = set(inline)  # keys (relpath, qual) that may be executed by body
        self.call_hook = call_hook  # fn(interp, funcref, selfobj, args, kwargs) -> (handled, value)
        self.depth = 0
        self.max_depth = max_depth
        self.loop_specs = {}
        self.frames = []
        _GETATTR_INTERP[0] = self
        self.auto_inlined = set()

    # ---- public
    def func(self, relpath, qual) -> FuncRef:
        mod = self.repo.module(relpath)
        if "." in qual:
            cn, fn = qual.split(".", 1)
            cls = mod.classes.get(cn)
            if cls is None or fn not in cls.methods:
                raise Unsupported(f"no function {qual} in {relpath}")
            return FuncRef(mod, cls.methods[fn], cls)
        if qual not in mod.funcs:
            raise Unsupported(f"no function {qual} in {relpath}")
        return FuncRef(mod, mod.funcs[qual])

    def cls(self, relpath, name) -> ClassInfo:
        c = self.repo.module(relpath).classes.get(name)
        if c is None:
            raise Unsupported(f"no class {name} in {relpath}")
        return c

    def run(self, fref: FuncRef, args=(), kwargs=None, selfobj=None, auto=False):
        """Execute the body of fref symbolically (never through its contract)."""
        kwargs = dict(kwargs or {})
        env = self._bind(fref, list(args), kwargs, selfobj)
        fr = Frame(fref, selfobj, owner=self.frames[-1] if (auto and self.frames) else None)
        self.frames.append(fr)
        self.depth += 1
        if self.depth > self.max_depth:
            raise Unsupported("call depth")
        nograd = any("no_grad" in ast.unparse(d) or "inference_mode" in ast.unparse(d) for d in fref.node.decorator_list)
        if nograd:
            cur().no_grad_depth += 1
        try:
            try:
                self.exec_block(fref.node.body, env, fr)
            except ReturnEx as r:
                return r.value
            return None
        finally:
            if nograd:
                cur().no_grad_depth -= 1
            self.depth -= 1
            self.frames.pop()

    # ---- binding
    def _bind(self, fref, args, kwargs, selfobj):
        a = fref.node.args
        params = [p.arg for p in a.posonlyargs + a.args]
        env = {}
        if fref.cls is not None and not fref.is_static:
            if selfobj is None:
                raise Unsupported(f"method {fref.qual} called without self")
            env[params[0]] = selfobj if not fref.is_classmethod else ClassRef(fref.cls)
            params = params[1:]
        defaults = a.defaults
        ndef = len(defaults)
        for i, p in enumerate(params):
            if i < len(args):
                env[p] = args[i]
            elif p in kwargs:
                env[p] = kwargs.pop(p)
            else:
                k = i - (len(params) - ndef)
                if k >= 0:
                    env[p] = self.eval_const_default(defaults[k], fref)
                else:
                    raise Unsupported(f"missing argument {p} for {fref.qual}")
        extra = args[len(params):]
        if a.vararg:
            env[a.vararg.arg] = tuple(extra)
        elif extra:
            raise Unsupported(f"too many positional args for {fref.qual}")
        for p, d in zip(a.kwonlyargs, a.kw_defaults):
            if p.arg in kwargs:
                env[p.arg] = kwargs.pop(p.arg)
            elif d is not None:
                env[p.arg] = self.eval_const_default(d, fref)
            else:
                raise Unsupported(f"missing kw-only {p.arg}")
        if a.kwarg:
            env[a.kwarg.arg] = dict(kwargs)
        elif kwargs:
            raise Unsupported(f"unexpected kwargs {list(kwargs)} for {fref.qual}")
        return env

    def eval_const_default(self, node, fref):
        fr = Frame(fref, None)
        return self.eval(node, {}, fr)

    # ---- statements
    def exec_block(self, stmts, env, fr):
        for st in stmts:
            self.exec(st, env, fr)

    def exec(self, st, env, fr):
        ctx = cur()
        ctx.loc = f"{fr.func.mod.relpath}:{st.lineno}"
        m = getattr(self, "st_" + type(st).__name__, None)
        if m is None:
            raise Unsupported(f"statement {type(st).__name__} at {ctx.loc}")
        m(st, env, fr)

    def st_Expr(self, st, env, fr):
        if isinstance(st.value, ast.Constant):
            return  # docstring
        self.eval(st.value, env, fr)

    def st_Pass(self, st, env, fr):
        pass

    def st_Return(self, st, env, fr):
        raise ReturnEx(self.eval(st.value, env, fr) if st.value is not None else None)

    def st_Break(self, st, env, fr):
        raise BreakEx()

    def st_Continue(self, st, env, fr):
        raise ContinueEx()

    def st_Raise(self, st, env, fr):
        raise RaisedEx(ast.unparse(st)[:120])

    def st_Import(self, st, env, fr):
        pass

    def st_ImportFrom(self, st, env, fr):
        pass

    def st_Global(self, st, env, fr):
        pass

    def st_Delete(self, st, env, fr):
        for t in st.targets:
            if isinstance(t, ast.Name):
                env.pop(t.id, None)
            elif isinstance(t, ast.Subscript):
                obj = self.eval(t.value, env, fr)
                key = self.eval(t.slice, env, fr)
                if isinstance(obj, dict) and isinstance(key, (str, int)):
                    del obj[key]            # a missing key raises KeyError exactly as in Python (see st_Try)
                elif isinstance(obj, SymTD) and isinstance(key, str):
                    del obj.data[key]
                else:
                    raise Unsupported("del of a subscript that is not a plain dict / TensorDict entry")
            else:
                raise Unsupported("del of this target")

    def st_Assign(self, st, env, fr):
        v = self.eval(st.value, env, fr)
        for t in st.targets:
            self.assign(t, v, env, fr)

    def st_AnnAssign(self, st, env, fr):
        if st.value is not None:
            self.assign(st.target, self.eval(st.value, env, fr), env, fr)

    def assign(self, target, v, env, fr):
        if isinstance(target, ast.Name):
            env[target.id] = v
        elif isinstance(target, (ast.Tuple, ast.List)):
            vals = self.unpack(v, len(target.elts))
            for t, x in zip(target.elts, vals):
                self.assign(t, x, env, fr)
        elif isinstance(target, ast.Subscript):
            obj = self.eval(target.value, env, fr)
            idx = self.eval_index(target.slice, env, fr)
            self.setitem(obj, idx, v)
        elif isinstance(target, ast.Attribute):
            obj = self.eval(target.value, env, fr)
            if isinstance(obj, SelfObj):
                obj._attrs[target.attr] = v
            elif isinstance(obj, Namespace):
                setattr(obj, target.attr, v)
            elif isinstance(obj, SymTensor) and target.attr == "data":
                ops.assign(obj, v)
            else:
                raise Unsupported(f"attribute assignment on {type(obj).__name__}")
        else:
            raise Unsupported(f"assign target {type(target).__name__}")

    def unpack(self, v, n):
        if isinstance(v, SymTensor):
            if not isinstance(v.shape[0], int):
                raise Unsupported("unpacking a tensor of symbolic length")
            v = [ops.getitem(v, k) for k in range(v.shape[0])]
        v = list(v)
        if len(v) != n:
            raise Unsupported(f"unpack {len(v)} values into {n}")
        return v

    def setitem(self, obj, idx, v):
        if isinstance(obj, SymTensor):
            ops.setitem(obj, idx, v)
        elif isinstance(obj, SymTD):
            obj[idx] = v
        elif isinstance(obj, (list, dict)):
            obj[simp_int(idx) if not isinstance(idx, (str, tuple, slice)) else idx] = v
        else:
            raise Unsupported(f"setitem on {type(obj).__name__}")

    def st_AugAssign(self, st, env, fr):
        op = BINOPS.get(type(st.op))
        if op is None:
            raise Unsupported("augassign op")
        rhs = self.eval(st.value, env, fr)
        tgt = st.target
        if isinstance(tgt, ast.Name):
            cur_v = self.lookup(tgt.id, env, fr)
            if isinstance(cur_v, SymTensor):
                env[tgt.id] = INPLACE_BINOPS[op](cur_v, rhs)
            elif isinstance(cur_v, list) and op == "add":
                cur_v.extend(rhs)
            else:
                env[tgt.id] = self.binop(op, cur_v, rhs)
        elif isinstance(tgt, ast.Subscript):
            obj = self.eval(tgt.value, env, fr)
            idx = self.eval_index(tgt.slice, env, fr)
            if isinstance(obj, SymTD) and isinstance(idx, str):
                cur_v = obj[idx]
                obj.set(idx, INPLACE_BINOPS[op](cur_v, rhs))
            elif isinstance(obj, SymTensor):
                if any(T(i) for i in (idx if isinstance(idx, tuple) else (idx,))):
                    tup = idx if isinstance(idx, tuple) else (idx,)
                    if len(tup) == 1 and tup[0].dtype == "b":
                        newv = self.binop(op, obj, rhs)
                        ms, ns, mr = tup[0].snap(), newv.snap(), tup[0].rank
                        from .core import ite as _ite

                        obj.write(lambda i, old: _ite(ms(i[:mr]), ns(i), old))
                    elif op in ("add", "sub"):
                        ops._adv_setitem(obj, tup, rhs, accumulate=op)
                    else:
                        raise Unsupported("augassign with advanced index")
                else:
                    view = ops.getitem(obj, idx)
                    INPLACE_BINOPS[op](view, rhs)
            elif isinstance(obj, (list, dict)):
                obj[idx] = self.binop(op, obj[idx], rhs)
            else:
                raise Unsupported("augassign subscript target")
        elif isinstance(tgt, ast.Attribute):
            obj = self.eval(tgt.value, env, fr)
            cur_v = self.getattr(obj, tgt.attr, fr)
            self.assign(tgt, self.binop(op, cur_v, rhs), env, fr)
        else:
            raise Unsupported("augassign target")

    def st_If(self, st, env, fr):
        c = self.truth(self.eval(st.test, env, fr))
        if cur().decide(c):
            self.exec_block(st.body, env, fr)
        else:
            self.exec_block(st.orelse, env, fr)

    def st_Assert(self, st, env, fr):
        ctx = cur()
        # `assert torch.all(X)` / `assert X.all()`: the elementwise tensor X is kept, so that a contract can use the passed
        # assert at a chosen index (U.asserted) instead of leaving the instantiation to the solver
        elem = None
        t_ = st.test
        if isinstance(t_, ast.Call) and not t_.keywords:
            if isinstance(t_.func, ast.Attribute) and t_.func.attr == "all":
                base = t_.func.value
                if isinstance(base, ast.Name) and base.id == "torch" and len(t_.args) == 1:
                    elem = self.eval(t_.args[0], env, fr)
                elif not t_.args:
                    elem = self.eval(base, env, fr)
        if isinstance(elem, SymTensor):
            c = self.truth(TM["all"](elem))
        elif elem is not None and type(elem).__name__ == "MaskedSel":
            c, elem = self.truth(elem.all()), None
        elif elem is not None:
            c, elem = self.truth(self.apply(("torchfn", "all"), [elem], {})), None
        else:
            c = self.truth(self.eval(st.test, env, fr))
        loc = ctx.loc
        msg = ""
        if st.msg is not None and isinstance(st.msg, ast.Constant):
            msg = str(st.msg.value)
        if ctx.assert_mode == "record":
            ctx.recorded_asserts.append({"loc": loc, "msg": msg, "cond": ops.B_(c), "path": list(ctx.path),
                                         "elem": elem.snap() if elem is not None else None, "shape": tuple(elem.shape) if elem is not None else None})
            ctx.assume(c if not isinstance(c, bool) else c)
        else:
            ctx.oblige(f"assert:{loc}:{msg[:40]}", ops.B_(c), kind="assert")
            ctx.assume(c if not isinstance(c, bool) else c)

    def st_With(self, st, env, fr):
        mgrs = []
        for item in st.items:
            v = self.eval(item.context_expr, env, fr)
            if isinstance(v, NoGrad):
                v.__enter__()
                mgrs.append(v)
            if item.optional_vars is not None:
                self.assign(item.optional_vars, v, env, fr)
        try:
            self.exec_block(st.body, env, fr)
        finally:
            for m in mgrs:
                m.__exit__(None, None, None)

    def st_Try(self, st, env, fr):
        # modelled: body only (no exception other than asserts / WF failures is modelled, A12), except KeyError of a plain
        # dict operation, which is concrete and handled by a matching `except KeyError / Exception / bare except`
        try:
            self.exec_block(st.body, env, fr)
        except KeyError:
            for h in st.handlers:
                names = []
                if h.type is not None:
                    names = [ast.unparse(x) for x in (h.type.elts if isinstance(h.type, ast.Tuple) else [h.type])]
                if h.type is None or any(n in ("KeyError", "LookupError", "Exception", "BaseException") for n in names):
                    self.exec_block(h.body, env, fr)
                    break
            else:
                raise
            self.exec_block(st.finalbody, env, fr)
            return
        self.exec_block(st.orelse, env, fr)
        self.exec_block(st.finalbody, env, fr)

    def st_FunctionDef(self, st, env, fr):
        env[st.name] = Lambda(st, env, fr)

    def st_For(self, st, env, fr):
        it = self.eval(st.iter, env, fr)
        ordinal = fr.loop_ordinal
        fr.loop_ordinal += 1
        items = self.concrete_iter(it)
        if items is None:
            spec = self.loop_specs.get((fr.loop_frame.func.key, ordinal))
            if spec is None:
                raise Unsupported(f"loop #{ordinal} of {fr.loop_frame.func.qual} has a symbolic trip count and no invariant")
            return spec(self, st, env, fr, it)
        for x in items:
            self.assign(st.target, x, env, fr)
            try:
                self.exec_block(st.body, env, fr)
            except BreakEx:
                break
            except ContinueEx:
                continue
        else:
            self.exec_block(st.orelse, env, fr)

    def concrete_iter(self, it):
        if isinstance(it, (list, tuple)):
            return list(it)
        if isinstance(it, dict):
            return list(it.keys())
        if isinstance(it, range):
            return list(it)
        if isinstance(it, SymRange):
            lo, hi = simp_int(it.lo), simp_int(it.hi)
            if isinstance(lo, int) and isinstance(hi, int):
                return list(range(lo, hi))
            return None
        if isinstance(it, SymTensor):
            n = it.shape[0]
            if isinstance(n, int):
                return [ops.getitem(it, k) for k in range(n)]
            return None
        if hasattr(it, "__iter__") and not isinstance(it, (str, SymTD)):
            return list(it)
        raise Unsupported(f"iteration over {type(it).__name__}")

    def st_While(self, st, env, fr):
        ordinal = fr.loop_ordinal
        fr.loop_ordinal += 1
        spec = self.loop_specs.get((fr.loop_frame.func.key, ordinal))
        if spec is not None:
            return spec(self, st, env, fr, None)
        # bounded unrolling only when the condition is decided concretely
        n = 0
        while True:
            c = self.truth(self.eval(st.test, env, fr))
            if not isinstance(c, bool):
                ctx = cur()
                if ctx.proves(c):
                    c = True
                elif ctx.proves(NOT(c)):
                    c = False
                else:
                    raise Unsupported(f"while loop #{ordinal} of {fr.func.qual} needs an invariant")
            if not c:
                break
            n += 1
            if n > 64:
                raise Unsupported("while unrolled > 64")
            try:
                self.exec_block(st.body, env, fr)
            except BreakEx:
                break
            except ContinueEx:
                continue

    # ---- expressions
    def truth(self, v):
        if isinstance(v, bool):
            return v
        if type(v).__name__ == "MaskedSel":
            raise Unsupported("truth value of a masked selection")
        if v is None:
            return False
        if isinstance(v, SymTensor):
            if v.rank == 0:
                return zbool(v.at())
            if all(isinstance(n, int) and n == 1 for n in v.shape):
                return zbool(v.at(*([0] * v.rank)))
            raise Unsupported("truth value of a tensor with more than one element")
        if is_z3(v):
            return zbool(v)
        if isinstance(v, (int, float)):
            return bool(v)
        if isinstance(v, (list, tuple, dict, str)):
            return len(v) > 0
        if isinstance(v, SymTD):
            return True
        return True

    def eval(self, e, env, fr):
        m = getattr(self, "ex_" + type(e).__name__, None)
        if m is None:
            raise Unsupported(f"expression {type(e).__name__} at {cur().loc}")
        return m(e, env, fr)

    def ex_Constant(self, e, env, fr):
        return e.value

    def ex_Name(self, e, env, fr):
        return self.lookup(e.id, env, fr)

    def lookup(self, name, env, fr):
        if name in env:
            return env[name]
        if name in getattr(self, "stubs", {}):
            return self.stubs[name]
        mod = fr.func.mod
        # enclosing lambda scopes
        if name in mod.funcs:
            return FuncRef(mod, mod.funcs[name])
        if name in mod.classes:
            return ClassRef(mod.classes[name])
        if name in mod.consts:
            return mod.consts[name]
        if name in mod.imports:
            imp = mod.imports[name]
            if imp[0] == "module":
                if imp[1] in ("torch",):
                    return TorchMod("torch")
                if imp[1] in ("torch.nn.functional",):
                    return TorchMod("torch.nn.functional")
                if imp[1] in ("math",):
                    return _SymMath()
                return Opaque(imp[1])
            _, modname, attr = imp
            if modname == "torch.nn" and attr == "functional":
                return TorchMod("torch.nn.functional")
            if modname == "torch" and attr == "Tensor":
                return TYPE_TOKS["Tensor"]
            if modname == "torch.nn.functional" and attr in FN:
                return ("torchfn.F", attr)          # from torch.nn.functional import one_hot, ...
            if modname == "torch" and attr in TF:
                return ("torchfn", attr)
            if modname.startswith("tensordict"):
                if attr in ("TensorDict", "TensorDictBase"):
                    return TYPE_TOKS["TensorDict"]
            if modname == "einops":
                return Opaque("einops." + attr)
            m = self.repo.module_by_name(modname)
            if m is not None:
                r = m.lookup_export_func(attr)
                if r:
                    return FuncRef(r[0], r[1])
                c = m.lookup_export_class(attr)
                if c:
                    return ClassRef(c)
                if attr in m.consts:
                    return m.consts[attr]
            return Opaque(f"{modname}.{attr}")
        if name in TYPE_TOKS:
            return TYPE_TOKS[name]
        if name in BUILTINS:
            return BUILTINS[name]
        if name == "log":
            return Opaque("log")
        raise Unsupported(f"unknown name {name} at {cur().loc}")

    def ex_Tuple(self, e, env, fr):
        return tuple(self.eval_seq(e.elts, env, fr))

    def ex_List(self, e, env, fr):
        return list(self.eval_seq(e.elts, env, fr))

    def eval_seq(self, elts, env, fr):
        out = []
        for x in elts:
            if isinstance(x, ast.Starred):
                v = self.eval(x.value, env, fr)
                if isinstance(v, SymTensor):
                    v = self.unpack(v, v.shape[0])
                out.extend(list(v))
            else:
                out.append(self.eval(x, env, fr))
        return out

    def ex_Dict(self, e, env, fr):
        d = {}
        for k, v in zip(e.keys, e.values):
            if k is None:
                d.update(self.eval(v, env, fr))
            else:
                d[self.eval(k, env, fr)] = self.eval(v, env, fr)
        return d

    def ex_Set(self, e, env, fr):
        return set(self.eval_seq(e.elts, env, fr))

    def ex_JoinedStr(self, e, env, fr):
        # f-strings: evaluated when every interpolated value is a plain Python str / int (e.g. attribute names built from the
        # phase); anything else (messages with tensors) stays an opaque placeholder, as before
        parts = []
        for v in e.values:
            if isinstance(v, ast.Constant):
                parts.append(str(v.value))
            elif isinstance(v, ast.FormattedValue) and v.format_spec is None and v.conversion == -1:
                try:
                    x = self.eval(v.value, env, fr)
                except Exception:
                    return "<fstring>"
                if isinstance(x, (str, int)) and not isinstance(x, bool):
                    parts.append(str(x))
                else:
                    return "<fstring>"
            else:
                return "<fstring>"
        return "".join(parts)

    def ex_Slice(self, e, env, fr):
        f = lambda x: None if x is None else self.eval(x, env, fr)
        return slice(f(e.lower), f(e.upper), f(e.step))

    def eval_index(self, e, env, fr):
        if isinstance(e, ast.Tuple):
            return tuple(self.eval_index(x, env, fr) for x in e.elts)
        return self.eval(e, env, fr)

    def ex_Subscript(self, e, env, fr):
        obj = self.eval(e.value, env, fr)
        idx = self.eval_index(e.slice, env, fr)
        return self.getitem(obj, idx)

    def getitem(self, obj, idx):
        if isinstance(obj, SymTensor):
            return ops.getitem(obj, idx)
        if isinstance(obj, SymTD):
            return obj[idx]
        if isinstance(obj, (list, tuple, str)):
            if isinstance(idx, slice):
                return obj[slice(*(simp_int(x) if x is not None else None for x in (idx.start, idx.stop, idx.step)))]
            i = simp_int(idx)
            if isinstance(i, SymTensor):
                i = simp_int(i.at()) if i.rank == 0 else i
            if not isinstance(i, int):
                raise Unsupported("symbolic index into a python sequence")
            return obj[i]
        if isinstance(obj, dict):
            return obj[idx]
        if isinstance(obj, TypeTok):
            return obj
        raise Unsupported(f"subscript on {type(obj).__name__}")

    def ex_Attribute(self, e, env, fr):
        obj = self.eval(e.value, env, fr)
        return self.getattr(obj, e.attr, fr)

    def getattr(self, obj, name, fr):
        if isinstance(obj, TypeTok) and obj.name == "Tensor" and name in TM:
            # unbound method: torch.Tensor.float(x) == x.float()
            return lambda t, *a, **k: TM[name](t, *a, **k)
        if isinstance(obj, SymTensor):
            if name == "shape":
                return tuple(obj.shape)
            if name == "dtype":
                return DT_CANON[obj.dtype]
            if name == "device":
                return "dev"
            if name == "data":
                return obj
            if name == "T":
                return ops.transpose(obj, 0, 1)
            if name == "ndim":
                return obj.rank
            if name == "is_cuda":
                return False
            if name in TM:
                return TensorMethod(obj, name)
            raise Unsupported(f"tensor attribute {name}")
        if type(obj).__name__ == "MaskedSel":
            if name in ("any", "all"):
                return getattr(obj, name)
            from .methods import MASKED_ELEMENTWISE

            if name in TM and name in MASKED_ELEMENTWISE:
                return lambda *a, **k: obj.map(lambda t: TM[name](t, *a, **k))
            raise Unsupported(f"masked selection attribute {name}")
        if isinstance(obj, ops.MaxResult):
            if name == "values":
                return obj[0]
            if name == "indices":
                return obj[1]
        if isinstance(obj, SymTD):
            if name in ("shape", "batch_size"):
                return tuple(obj.batch_size)
            if name == "device":
                return "dev"
            if hasattr(obj, name):
                return getattr(obj, name)
            raise Unsupported(f"TensorDict attribute {name}")
        if isinstance(obj, TorchMod):
            return self.torch_attr(obj, name)
        if isinstance(obj, SelfObj):
            if name == "__dict__":
                return obj._attrs
            if name in obj._attrs:
                return obj._attrs[name]
            r = obj._cls.find_method(name)
            if r:
                f = FuncRef(r[0].mod, r[1], r[0])
                if f.is_property:
                    return self.run(f, [], {}, selfobj=obj)  # trivial getters are executed, not abstracted
                if f.is_static:
                    return f
                return BoundMethod(obj, f)
            ok, v = obj._cls.find_attr(name)
            if ok:
                return v
            if name == "generator":
                # the instance generator the environment was built with: a configuration object about which the contract
                # says nothing, so every numeric attribute read from it is an ARBITRARY value (over-approximation)
                obj._attrs[name] = _ArbitraryConfig(f"{obj._cls.name}.generator")
                return obj._attrs[name]
            raise Unsupported(f"attribute {name} of {obj._cls.name} not declared by the contract")
        if isinstance(obj, ClassRef):
            r = obj.cls.find_method(name)
            if r:
                return FuncRef(r[0].mod, r[1], r[0])
            ok, v = obj.cls.find_attr(name)
            if ok:
                return v
            raise Unsupported(f"class attribute {obj.cls.name}.{name}")
        if isinstance(obj, SuperObj):
            r = obj.cls.find_method(name, skip_self=True)
            if r:
                f = FuncRef(r[0].mod, r[1], r[0])
                return f if f.is_static else BoundMethod(obj.obj, f)
            raise Unsupported(f"super().{name}")
        if isinstance(obj, Namespace):
            if hasattr(obj, name):
                return getattr(obj, name)
            raise Unsupported(f"namespace attribute {name}")
        if isinstance(obj, Opaque):
            return Opaque(obj.name + "." + name)
        if isinstance(obj, (list, dict, tuple, str, set)):
            return getattr(obj, name)
        if isinstance(obj, DType):
            if name == "is_floating_point":
                return obj.cls == "f"
        if obj.__class__.__name__ == "module":
            return getattr(obj, name)
        if isinstance(obj, str) and obj == "dev":
            return obj
        if not isinstance(obj, (SymTensor, SymTD)) and hasattr(obj, name) and (type(obj).__module__.startswith("tvc") or type(obj).__module__.startswith("contracts")):
            return getattr(obj, name)
        raise Unsupported(f"attribute {name} on {type(obj).__name__}")

    def torch_attr(self, mod, name):
        if mod.path == "torch":
            if name in DTYPES:
                return DType(name, DTYPES[name])
            if name == "inf":
                return Inf(1)
            if name == "pi":
                import math

                return math.pi
            if name == "nn":
                return TorchMod("torch.nn")
            if name == "Tensor":
                return TYPE_TOKS["Tensor"]
            if name in TF:
                return ("torchfn", name)
            if name in ("cuda", "backends", "linalg", "distributions", "utils", "random"):
                return TorchMod("torch." + name)
            raise Unsupported(f"torch.{name} is not in the operation table")
        if mod.path == "torch.nn":
            if name == "functional":
                return TorchMod("torch.nn.functional")
            return Opaque("torch.nn." + name)
        if mod.path == "torch.nn.functional":
            if name in FN:
                return ("torchfn.F", name)
            raise Unsupported(f"F.{name} is not in the operation table")
        return Opaque(mod.path + "." + name)

    def ex_BinOp(self, e, env, fr):
        op = BINOPS.get(type(e.op))
        if op is None:
            raise Unsupported(f"binop {type(e.op).__name__}")
        a = self.eval(e.left, env, fr)
        b = self.eval(e.right, env, fr)
        return self.binop(op, a, b)

    def binop(self, op, a, b):
        if isinstance(a, (list, tuple)) and isinstance(b, (list, tuple)) and op == "add":
            return type(a)(list(a) + list(b))
        if isinstance(a, (list, tuple)) and op == "mul":
            n = simp_int(b)
            if not isinstance(n, int):
                raise Unsupported("sequence repeat by symbolic count")
            return a * n
        if isinstance(a, str) or isinstance(b, str):
            if op == "add":
                return str(a) + str(b)
            if op == "mod":
                return "<fmt>"
        if type(a).__name__ == "MaskedSel" or type(b).__name__ == "MaskedSel":
            from .methods import masked_lift

            return masked_lift(lambda x, y: self.binop(op, x, y), a, b)
        if isinstance(a, (SymTensor,)) or isinstance(b, SymTensor):
            if isinstance(a, Inf) or isinstance(b, Inf):
                return binop(op, a, b)
            return binop(op, a, b)
        r = scalar_binop(op, a, b)
        return simp_int(r) if is_z3(r) and r.sort() == z3.IntSort() else r

    def ex_UnaryOp(self, e, env, fr):
        v = self.eval(e.operand, env, fr)
        if isinstance(e.op, ast.USub):
            r = unop("neg", v)
            return simp_int(r) if is_z3(r) and r.sort() == z3.IntSort() else r
        if isinstance(e.op, ast.UAdd):
            return v
        if isinstance(e.op, ast.Not):
            t = self.truth(v)
            return NOT(t)
        if isinstance(e.op, ast.Invert):
            return unop("invert", v)
        raise Unsupported("unary op")

    def ex_BoolOp(self, e, env, fr):
        is_and = isinstance(e.op, ast.And)
        ctx = cur()
        acc = None  # accumulated symbolic condition
        last = None
        for k, sub in enumerate(e.values):
            v = self.eval(sub, env, fr)
            orig = v            # `a or b` / `a and b` return the deciding OPERAND, not its truth value
            last_operand = k == len(e.values) - 1
            if isinstance(v, (SymTensor,)) or is_z3(v):
                t = self.truth(v)
                if isinstance(t, bool):
                    v = t
                else:
                    if ctx.proves(t):
                        v = True
                    elif ctx.proves(NOT(t)):
                        v = False
                    else:
                        acc = t if acc is None else (AND(acc, t) if is_and else OR(acc, t))
                        continue
            # concrete python value
            tv = self.truth(v)
            if isinstance(tv, bool):
                if is_and and not tv:
                    return orig if acc is None else False
                if (not is_and) and tv:
                    return orig if acc is None else True
                last = orig
                continue
            acc = tv if acc is None else (AND(acc, tv) if is_and else OR(acc, tv))
        if acc is None:
            return last
        # all concrete operands were neutral
        return acc

    def ex_Compare(self, e, env, fr):
        left = self.eval(e.left, env, fr)
        res = None
        for op, rhs in zip(e.ops, e.comparators):
            right = self.eval(rhs, env, fr)
            r = self.compare(op, left, right)
            res = r if res is None else self.and_values(res, r)
            left = right
        return res

    def and_values(self, a, b):
        if isinstance(a, SymTensor) or isinstance(b, SymTensor):
            return binop("and", a, b)
        return AND(a if isinstance(a, bool) else zbool(a), b if isinstance(b, bool) else zbool(b))

    def compare(self, op, a, b):
        if isinstance(op, (ast.Is, ast.IsNot)):
            same = a is b or (a is None and b is None)
            if isinstance(a, (bool, int, str)) and isinstance(b, (bool, int, str)):
                same = a == b and type(a) == type(b)
            return same if isinstance(op, ast.Is) else not same
        if isinstance(op, (ast.In, ast.NotIn)):
            if isinstance(b, (list, tuple, set, dict, str)):
                if isinstance(b, SymTD):
                    r = a in b
                else:
                    r = any((a is x) or (not is_z3(x) and not is_z3(a) and not isinstance(x, SymTensor) and a == x) for x in b) if not isinstance(b, (dict, str)) else a in b
            elif isinstance(b, SymTD):
                r = a in b
            else:
                raise Unsupported("in on non-container")
            return r if isinstance(op, ast.In) else not r
        o = CMPOPS.get(type(op))
        if o is None:
            raise Unsupported("compare op")
        if type(a).__name__ == "MaskedSel" and not type(b).__name__ == "MaskedSel":
            # elementwise predicate over the selected rows (only any()/all() can consume it)
            return a.map(lambda t: binop(o, t, b))
        if isinstance(a, SymTensor) or isinstance(b, SymTensor):
            return binop(o, a, b)
        if a is None or b is None:
            eq = a is b
            if o == "eq":
                return eq
            if o == "ne":
                return not eq
            raise Unsupported("ordering with None")
        if isinstance(a, (str, DType, TypeTok)) or isinstance(b, (str, DType, TypeTok)) or isinstance(a, (list, tuple, dict)) or isinstance(b, (list, tuple, dict)):
            if isinstance(a, (list, tuple)) and isinstance(b, (list, tuple)) and o in ("eq", "ne"):
                if len(a) != len(b):
                    return o == "ne"
                conds = [self.compare(ast.Eq(), x, y) for x, y in zip(a, b)]
                c = AND(*conds)
                return c if o == "eq" else NOT(c)
            if o == "eq":
                return a == b
            if o == "ne":
                return a != b
            return {"lt": a < b, "le": a <= b, "gt": a > b, "ge": a >= b}[o]
        return scalar_binop(o, a, b)

    def ex_IfExp(self, e, env, fr):
        c = self.truth(self.eval(e.test, env, fr))
        if cur().decide(c):
            return self.eval(e.body, env, fr)
        return self.eval(e.orelse, env, fr)

    def ex_Lambda(self, e, env, fr):
        return Lambda(e, env, fr)

    def ex_Starred(self, e, env, fr):
        raise Unsupported("starred outside call/sequence")

    def ex_ListComp(self, e, env, fr):
        return list(self.comp(e.elt, e.generators, env, fr))

    def ex_GeneratorExp(self, e, env, fr):
        return list(self.comp(e.elt, e.generators, env, fr))

    def ex_SetComp(self, e, env, fr):
        return set(self.comp(e.elt, e.generators, env, fr))

    def ex_DictComp(self, e, env, fr):
        out = {}
        for sub in self.comp_envs(e.generators, env, fr):
            out[self.eval(e.key, sub, fr)] = self.eval(e.value, sub, fr)
        return out

    def comp(self, elt, gens, env, fr):
        for sub in self.comp_envs(gens, env, fr):
            yield self.eval(elt, sub, fr)

    def comp_envs(self, gens, env, fr):
        def rec(k, sub):
            if k == len(gens):
                yield sub
                return
            g = gens[k]
            items = self.concrete_iter(self.eval(g.iter, sub, fr))
            if items is None:
                raise Unsupported("comprehension over symbolic-length iterable")
            for x in items:
                s2 = dict(sub)
                self.assign(g.target, x, s2, fr)
                ok = True
                for c in g.ifs:
                    t = self.truth(self.eval(c, s2, fr))
                    if not cur().decide(t):
                        ok = False
                        break
                if ok:
                    yield from rec(k + 1, s2)

        yield from rec(0, dict(env))

    # ---- calls
    def ex_Call(self, e, env, fr):
        ctx = cur()
        loc = f"{fr.func.mod.relpath}:{e.lineno}"
        # super()
        if isinstance(e.func, ast.Name) and e.func.id == "super" and "super" not in env:
            if fr.selfobj is None or fr.func.cls is None:
                raise Unsupported("super() outside method")
            return SuperObj(fr.selfobj, fr.func.cls)
        f = self.eval(e.func, env, fr)
        args = self.eval_seq(e.args, env, fr)
        kwargs = {}
        for kw in e.keywords:
            if kw.arg is None:
                kwargs.update(self.eval(kw.value, env, fr))
            else:
                kwargs[kw.arg] = self.eval(kw.value, env, fr)
        ctx.loc = loc
        r = self.apply(f, args, kwargs, fr)
        ctx.loc = loc
        return r

    def apply(self, f, args, kwargs, fr=None):
        if isinstance(f, tuple) and len(f) == 2 and f[0] == "torchfn":
            cur().used_ops.add("torch." + f[1])
            kwargs.pop("device", None)
            if any(type(a).__name__ == "MaskedSel" for a in args):
                from .methods import MASKED_ELEMENTWISE, masked_lift

                if f[1] in MASKED_ELEMENTWISE and not kwargs:
                    return masked_lift(TF[f[1]], *args)
                if f[1] not in ("any", "all"):
                    raise Unsupported(f"torch.{f[1]} on a masked selection")
            return TF[f[1]](*args, **kwargs)
        if isinstance(f, tuple) and len(f) == 2 and f[0] == "torchfn.F":
            cur().used_ops.add("F." + f[1])
            return FN[f[1]](*args, **kwargs)
        if hasattr(f, "__self__") and type(f.__self__).__name__ == "NonzeroCols":
            return f(*args, **kwargs)
        if isinstance(f, TensorMethod):
            cur().used_ops.add("Tensor." + f.name)
            kwargs.pop("device", None)
            return TM[f.name](f.t, *args, **kwargs)
        if isinstance(f, FuncRef):
            return self.call(f, args, kwargs, None)
        if isinstance(f, BoundMethod):
            return self.call(f.func, args, kwargs, f.obj)
        if isinstance(f, Lambda):
            return self.call_lambda(f, args, kwargs)
        if isinstance(f, Opaque):
            if f.name.startswith("log"):
                return None
            if f.name in ("torch.cuda.is_available",):
                return False      # device management is dropped by the ingestion (CPU semantics)
            if f.name in ("torch.cuda.empty_cache",):
                return None
            if f.name.startswith("einops."):
                from . import einops_rules

                return einops_rules.apply(f.name.split(".", 1)[1], args, kwargs)
            raise Unsupported(f"call to unmodelled {f.name}")
        if isinstance(f, SelfObj):
            r = f._cls.find_method("__call__")
            if r:
                return self.call(FuncRef(r[0].mod, r[1], r[0]), args, kwargs, f)
            r = f._cls.find_method("forward")
            if r:
                return self.call(FuncRef(r[0].mod, r[1], r[0]), args, kwargs, f)
            raise Unsupported(f"object of {f._cls.name} is not callable")
        if isinstance(f, TypeTok):
            return self.construct(f, args, kwargs)
        if isinstance(f, ClassRef):
            # dataclass of the repository: an object with its annotated fields
            decos = [ast.unparse(d) for d in f.cls.node.decorator_list]
            if any("dataclass" in d for d in decos):
                names = [st.target.id for st in f.cls.node.body if isinstance(st, ast.AnnAssign) and isinstance(st.target, ast.Name)]
                if len(args) > len(names):
                    raise Unsupported(f"too many arguments for dataclass {f.cls.name}")
                attrs = dict(zip(names, args))
                attrs.update(kwargs)
                return SelfObj(f.cls, attrs)
            # plain class of the repository: a fresh object initialised by the real __init__ (found along the bases)
            r = f.cls.find_method("__init__")
            if r is not None:
                obj = SelfObj(f.cls, {})
                self.call(FuncRef(r[0].mod, r[1], r[0]), args, kwargs, obj)
                return obj
            raise Unsupported(f"constructing {f.cls.name}")
        if callable(f):
            return f(*args, **kwargs)
        raise Unsupported(f"call of {type(f).__name__}")

    def construct(self, tok, args, kwargs):
        n = tok.name
        if n in ("TensorDict", "TensorDictBase"):
            data = args[0] if args else kwargs.get("source", {})
            bs = kwargs.get("batch_size", args[1] if len(args) > 1 else ())
            td = SymTD({}, bs)
            for k, v in (data.items() if isinstance(data, dict) else data.data.items()):
                td.set(k, v)
            return td
        if n == "int":
            v = args[0]
            if isinstance(v, SymTensor):
                v = TM["item"](v)
            if is_z3(v):
                from .core import cast

                return simp_int(cast(v, "i"))
            return int(v)
        if n == "float":
            v = args[0]
            if isinstance(v, str):
                if v in ("inf", "+inf"):
                    return Inf(1)
                if v == "-inf":
                    return Inf(-1)
            if isinstance(v, SymTensor):
                v = TM["item"](v)
            if is_z3(v):
                from .core import zreal

                return zreal(v)
            return float(v)
        if n == "bool":
            return self.truth(args[0])
        if n == "list":
            return list(self.concrete_iter(args[0])) if args else []
        if n == "tuple":
            return tuple(self.concrete_iter(args[0])) if args else ()
        if n == "dict":
            d = dict(args[0]) if args else {}
            d.update(kwargs)
            return d
        if n == "str":
            return str(args[0])
        raise Unsupported(f"constructor {n}")

    def call_lambda(self, lam, args, kwargs):
        node = lam.node
        env = dict(lam.env)
        a = node.args
        params = [p.arg for p in a.args]
        for i, p in enumerate(params):
            if i < len(args):
                env[p] = args[i]
            elif p in kwargs:
                env[p] = kwargs[p]
            else:
                k = i - (len(params) - len(a.defaults))
                env[p] = self.eval(a.defaults[k], lam.env, lam.frame)
        if isinstance(node, ast.Lambda):
            return self.eval(node.body, env, lam.frame)
        try:
            self.exec_block(node.body, env, lam.frame)
        except ReturnEx as r:
            return r.value
        return None

    def call(self, fref: FuncRef, args, kwargs, selfobj):
        """Call of a repo function: through its contract (spec) unless marked inline."""
        if self.call_hook is not None:
            handled, v = self.call_hook(self, fref, selfobj, args, kwargs)
            if handled:
                return v
        if fref.key in self.inline or "*" in self.inline:
            return self.run(fref, args, kwargs, selfobj)
        # a callee of the repository for which the contract declares neither a specification nor an explicit inlining
        # (typically a helper that a later change of the code started to call): its current body is executed in place and
        # recorded as part of the verified text of this unit, instead of giving up with a checker error
        self.auto_inlined.add(fref.key)
        return self.run(fref, args, kwargs, selfobj, auto=True)


class _MaskedSource:
    """Marker: value for `x[mask] op= v` computed elementwise from the full tensor."""

    def __init__(self, t):
        self.t = t


# ----------------------------------------------------------------------------
# builtins
# ----------------------------------------------------------------------------


def _b_len(x):
    if isinstance(x, SelfObj):
        r = x._cls.find_method("__len__")
        if r is None:
            raise Unsupported(f"len() of {x._cls.name}")
        it = _GETATTR_INTERP[0]
        return it.call(FuncRef(r[0].mod, r[1], r[0]), [], {}, x)
    if isinstance(x, SymTensor):
        return x.shape[0]
    if isinstance(x, SymTD):
        return x.batch_size[0]
    return len(x)


def _b_range(*a):
    a = [simp_int(x) for x in a]
    if all(isinstance(x, int) for x in a):
        return range(*a)
    if len(a) == 1:
        return SymRange(0, a[0])
    if len(a) == 2:
        return SymRange(a[0], a[1])
    raise Unsupported("symbolic range with step")


def _b_isinstance(x, t):
    toks = t if isinstance(t, tuple) else (t,)
    for tok in toks:
        n = tok.name if isinstance(tok, (TypeTok, Opaque)) else getattr(tok, "__name__", str(tok))
        if n == "int" and (isinstance(x, int) and not isinstance(x, bool) or (is_z3(x) and x.sort() == z3.IntSort())):
            return True
        if n == "float" and (isinstance(x, float) or (is_z3(x) and x.sort() == z3.RealSort())):
            return True
        if n == "bool" and isinstance(x, bool):
            return True
        if n == "str" and isinstance(x, str):
            return True
        if n == "tuple" and isinstance(x, tuple):
            return True
        if n == "list" and isinstance(x, list):
            return True
        if n == "dict" and isinstance(x, dict):
            return True
        if n == "Tensor" and isinstance(x, SymTensor):
            return True
        if n in ("TensorDict", "TensorDictBase") and isinstance(x, SymTD):
            return True
        if n.split(".")[-1] in getattr(x, "_isinstance_of", ()):      # contract stubs standing for library objects (e.g. nn.BatchNorm1d)
            return True
        if n.endswith("Iterable") and isinstance(x, (list, tuple, dict)):   # typing / collections.abc Iterable: plain containers only
            return True
    return False


def _b_minmax(kind):
    def f(*a, **kw):
        if len(a) == 1:
            a = list(a[0])
        if kw.get("key") is not None:
            # key function: concrete keys only (e.g. the closest tabulated size); anything symbolic is refused, never ignored
            itp = _GETATTR_INTERP[0]
            keys = [itp.apply(kw["key"], (x,), {}) for x in a]
            if any(is_z3(k) for k in keys) or not a:
                raise Unsupported(f"{kind} with a key function over symbolic values")
            best = 0
            for i in range(1, len(a)):
                if (keys[i] < keys[best]) if kind == "min" else (keys[i] > keys[best]):
                    best = i
            return a[best]
        if set(kw) - {"key", "default"}:
            raise Unsupported(f"{kind} with keyword arguments {sorted(kw)}")
        if len(a) == 2 and any(is_z3(x) for x in a) and all(is_z3(x) or isinstance(x, int) for x in a):
            # min / max of a size and a constant: decided from the current hypotheses when they determine it
            ctx = cur()
            lo, hi = (a[0], a[1])
            if ctx.proves(zint(lo) <= zint(hi)):
                return lo if kind == "min" else hi
            if ctx.proves(zint(hi) <= zint(lo)):
                return hi if kind == "min" else lo
        r = a[0]
        for x in a[1:]:
            r = scalar_binop(kind, r, x)
        return simp_int(r) if is_z3(r) and r.sort() == z3.IntSort() else r

    return f


def _b_hasattr(o, n):
    if isinstance(o, SelfObj):
        return n in o._attrs or o._cls.find_method(n) is not None or o._cls.find_attr(n)[0]
    if isinstance(o, Namespace):
        return hasattr(o, n)
    if isinstance(o, SymTD):
        return hasattr(o, n)
    raise Unsupported(f"hasattr on {type(o).__name__}")


def _b_getattr(o, n, *d):
    if isinstance(o, SelfObj):
        if _b_hasattr(o, n):
            return Interp.getattr(_GETATTR_INTERP[0], o, n, None)
        if d:
            return d[0]
    if isinstance(o, Namespace):
        return getattr(o, n, *d)
    raise Unsupported("getattr")


_GETATTR_INTERP = [None]


def _b_sum(xs, start=0):
    r = start
    for x in xs:
        r = scalar_binop("add", r, x) if not isinstance(x, SymTensor) and not isinstance(r, SymTensor) else binop("add", r, x)
    return r


def _b_abs(x):
    return unop("abs", x)


BUILTINS = {
    "len": _b_len, "range": _b_range, "isinstance": _b_isinstance, "max": _b_minmax("max"), "min": _b_minmax("min"),
    "reversed": lambda x: list(reversed(list(x))), "enumerate": lambda x, start=0: list(enumerate(list(x), start)),
    "zip": lambda *a: list(zip(*[list(x) for x in a])), "hasattr": _b_hasattr, "getattr": _b_getattr,
    "next": lambda it, *d: next(iter(it), *d), "iter": iter,
    "print": lambda *a, **k: None, "sum": _b_sum, "abs": _b_abs, "sorted": sorted, "any": any, "all": all,
    "True": True, "False": False, "None": None, "NotImplementedError": Opaque("NotImplementedError"),
    "ValueError": Opaque("ValueError"), "Exception": Opaque("Exception"), "round": round, "map": lambda f, xs: [f(x) for x in xs],
}


# ----------------------------------------------------------------------------
# loops of symbolic length: invariants supplied by the contract
# ----------------------------------------------------------------------------


def _assigned_names(stmts):
    """Names (re)bound or mutated in place inside a loop body."""
    out = []

    def base_name(t):
        while isinstance(t, (ast.Subscript, ast.Attribute)):
            t = t.value
        return t.id if isinstance(t, ast.Name) else None

    for st in stmts:
        for node in ast.walk(st):
            tg = []
            if isinstance(node, ast.Assign):
                tg = node.targets
            elif isinstance(node, (ast.AugAssign, ast.AnnAssign)):
                tg = [node.target]
            elif isinstance(node, ast.For):
                tg = [node.target]
            for t in tg:
                for x in ([t] if not isinstance(t, (ast.Tuple, ast.List)) else t.elts):
                    n = base_name(x)
                    if n and n not in out:
                        out.append(n)
    return out


class LoopInvariant:
    """Hoare rule for `for v in range(n)` / `for row in tensor` with symbolic n.

    inv(env, i) -> [(label, formula)] must hold before iteration i (0 <= i <= n).
    Obligations: initiation (i = 0), preservation (one arbitrary iteration), and the asserts of the body
    (proved or recorded, per the assert mode). After the loop the variables modified by the body are
    arbitrary values satisfying inv(., n)."""

    def __init__(self, inv, name="loop", tags=None, facts=None, peel=False):
        """peel=True: the first iteration (i = 0, needs n >= 1 as a WF obligation) is executed from the entry state, the
        rule is applied to iterations 1..n-1: for loops whose carried variables change shape / type in the first iteration."""
        self.inv, self.name, self.tags, self.facts, self.peel = inv, name, tags, facts, peel

    def __call__(self, interp, st, env, fr, it):
        from .core import input_tensor

        ctx = cur()
        if isinstance(it, SymRange):
            lo, n = it.lo, it.hi
            elem_of = lambda i: simp_int(scalar_binop("add", lo, i))
            n = simp_int(scalar_binop("sub", n, lo))
        elif isinstance(it, SymTensor):
            n = it.shape[0]
            elem_of = lambda i: ops.getitem(it, i)
        else:
            raise Unsupported("LoopInvariant over this iterable")
        mods = [m for m in _assigned_names(st.body) if m in env]
        env["__loop_carried__"] = tuple(mods)   # names defined before the loop and re-assigned in its body (for role-based look-up)
        tag = f"{self.name}"

        def oblige(kind, i, e):
            for lbl, f in self.inv(e, i):
                ctx.oblige(f"loopinv.{tag}.{kind}.{lbl}", ops.B_(f), kind="post", tags=self.tags)

        def havoc(e, suffix):
            for m in mods:
                v = e[m]
                if isinstance(v, SymTensor):
                    e[m] = input_tensor(f"{m}@{tag}.{suffix}", v.shape, v.dtype, ctx)
                elif is_z3(v):
                    e[m] = ctx.fresh(f"{m}@{tag}.{suffix}", v.sort())
                elif isinstance(v, (int, float)) and not isinstance(v, bool):
                    e[m] = ctx.fresh(f"{m}@{tag}.{suffix}", z3.IntSort() if isinstance(v, int) else z3.RealSort())
                elif v is None or isinstance(v, (bool, str)):
                    pass
                else:
                    raise Unsupported(f"loop-modified variable {m} of type {type(v).__name__}")

        first = 0
        if self.peel:
            ctx.wf(f"loop-peel-nonempty {tag}", zint(n) >= 1)
            if self.facts is not None:
                for f in self.facts(env, 0):
                    ctx.assume(f)
            interp.assign(st.target, elem_of(0), env, fr)
            try:
                interp.exec_block(st.body, env, fr)
            except (BreakEx, ContinueEx):
                raise Unsupported("break/continue in a loop verified by invariant")
            first = 1
        # 1. initiation
        oblige("init", first, env)
        # 2. preservation: arbitrary iteration i from an arbitrary state satisfying the invariant
        i = z3.Int(f"{tag}.iter")
        ctx.scalars[f"{tag}.iter"] = (i, "i")
        saved_hyps, saved_path = list(ctx.hyps), list(ctx.path)
        body_env = env
        havoc(body_env, "pre")
        ctx.assume(z3.And(i >= first, i < zint(n)))
        for lbl, f in self.inv(body_env, i):
            ctx.assume(f)
        if self.facts is not None:
            # definitional facts about ghost functions (e.g. one unfolding of a recursive spec function at i)
            for f in self.facts(body_env, i):
                ctx.assume(f)
        interp.assign(st.target, elem_of(i), body_env, fr)
        try:
            interp.exec_block(st.body, body_env, fr)
        except (BreakEx, ContinueEx):
            raise Unsupported("break/continue in a loop verified by invariant")
        oblige("step", simp_int(i + 1), body_env)
        # 3. after the loop: arbitrary state satisfying inv(n). Facts assumed for the single iteration are dropped,
        #    except the recorded asserts, which are re-stated by the invariant if they matter afterwards.
        ctx.hyps[:] = saved_hyps
        ctx.path[:] = saved_path
        ctx._solver = z3.Solver()
        ctx._solver.set("timeout", 3000)
        for h in ctx.hyps:
            from .core import _has_quant

            if not _has_quant(h):
                ctx._solver.add(h)
        ctx._cache.clear()
        havoc(env, "post")
        for lbl, f in self.inv(env, n):
            ctx.assume(f)
        if isinstance(st.target, ast.Name):
            env[st.target.id] = elem_of(simp_int(scalar_binop("sub", n, 1)))
