"""Debug driver: python3-vt -m tvc.main <unit-glob> [...]"""
import fnmatch
import importlib
import json
import os
import pkgutil
import sys
import time


def load_contracts():
    import contracts

    for m in pkgutil.iter_modules(contracts.__path__):
        importlib.import_module("contracts." + m.name)


def main(argv):
    from tvc.unit import UNITS, run_unit

    load_contracts()
    pats = argv or ["*"]
    names = [n for n in UNITS if any(fnmatch.fnmatch(n, p) for p in pats)]
    rc = 0
    for n in names:
        t = time.time()
        r = run_unit(n)
        print(f"== {n}: paths={r['paths']} obligations={len(r['obligations'])} wall={time.time()-t:.2f}s")
        for e in sorted(set(r.get("conc_errors", [])))[:5]:
            print("   CONC-ERROR", e)
        for e in r["errors"]:
            print("   ERROR", e[0], e[1])
            rc = 3
        for ob in r["obligations"]:
            flag = {"proved": "ok ", "canary-refuted": "ok "}.get(ob["status"], "!! ")
            if flag != "ok " or os.environ.get("V"):
                print(f"   {flag}{ob['status']:18s} {ob['name']}  [{ob['backend']} {ob['secs']:.2f}s] {ob.get('note','')} {ob.get('reason','')}")
                if ob.get("replay") and os.environ.get("V"):
                    print("      replay:", json.dumps(ob["replay"])[:1500])
            if flag != "ok ":
                rc = max(rc, 1)
    return rc


if __name__ == "__main__":
    sys.exit(main(sys.argv[1:]))
