"""Lemma library: every axiom schema that vc.red_axioms instantiates for a
reduction is proved here by induction (base VC + step VC, z3), on every run.

Sum over [0,n): S(0) = 0, S(n+1) = S(n) + f(n) with f uninterpreted. The
induction hypothesis is stated for n, the goal for n+1; the definition of S is
given as the two unfolding instances the step needs, so no quantifier
instantiation heuristics are involved.
"""
import time

import z3


def _prove(name, hyps, goal, out):
    s = z3.Solver()
    s.set("timeout", 20000)
    for h in hyps:
        s.add(h)
    s.add(z3.Not(goal))
    t = time.time()
    r = s.check()
    out.append({"name": name, "status": "proved" if r == z3.unsat else ("refuted" if r == z3.sat else "unknown"),
                "secs": time.time() - t, "backend": "z3", "kind": "lemma", "tags": [], "loc": "tvc/lemmas.py", "note": ""})


def run_all():
    out = []
    for sort, nm in ((z3.RealSort(), "real"), (z3.IntSort(), "int")):
        f = z3.Function(f"f_{nm}", z3.IntSort(), sort)
        g = z3.Function(f"g_{nm}", z3.IntSort(), sort)
        S = z3.Function(f"S_{nm}", z3.IntSort(), sort)
        G = z3.Function(f"G_{nm}", z3.IntSort(), sort)
        n, k, p = z3.Ints("n k p")
        defs = [S(0) == 0, S(n + 1) == S(n) + f(n), G(0) == 0, G(n + 1) == G(n) + g(n), n >= 0]
        below = lambda kk, nn: z3.And(kk >= 0, kk < nn)
        # -- nonneg: (forall k<n. f k >= 0) -> S n >= 0 /\ forall k<n. f k <= S n /\ (S n = 0 -> forall k<n. f k = 0)
        def P_nonneg(nn):
            return z3.Implies(z3.ForAll([k], z3.Implies(below(k, nn), f(k) >= 0)),
                              z3.And(S(nn) >= 0,
                                     z3.ForAll([k], z3.Implies(below(k, nn), f(k) <= S(nn))),
                                     z3.Implies(S(nn) == 0, z3.ForAll([k], z3.Implies(below(k, nn), f(k) == 0)))))
        _prove(f"sum.nonneg.base.{nm}", defs, P_nonneg(0), out)
        _prove(f"sum.nonneg.step.{nm}", defs + [P_nonneg(n)], P_nonneg(n + 1), out)
        # -- allzero: (forall k<n. f k = 0) -> S n = 0
        def P_zero(nn):
            return z3.Implies(z3.ForAll([k], z3.Implies(below(k, nn), f(k) == 0)), S(nn) == 0)
        _prove(f"sum.allzero.base.{nm}", defs, P_zero(0), out)
        _prove(f"sum.allzero.step.{nm}", defs + [P_zero(n)], P_zero(n + 1), out)
        # -- extensionality: (forall k<n. f k = g k) -> S n = G n
        def P_ext(nn):
            return z3.Implies(z3.ForAll([k], z3.Implies(below(k, nn), f(k) == g(k))), S(nn) == G(nn))
        _prove(f"sum.ext.base.{nm}", defs, P_ext(0), out)
        _prove(f"sum.ext.step.{nm}", defs + [P_ext(n)], P_ext(n + 1), out)
        # -- point update: (forall k<n, k != p. f k = g k) /\ 0<=p<n -> S n - G n = f p - g p
        def P_pt(nn):
            return z3.Implies(z3.And(z3.ForAll([k], z3.Implies(z3.And(below(k, nn), k != p), f(k) == g(k)))),
                              z3.If(below(p, nn), S(nn) - G(nn) == f(p) - g(p), S(nn) == G(nn)))
        _prove(f"sum.point.base.{nm}", defs, P_pt(0), out)
        _prove(f"sum.point.step.{nm}", defs + [P_pt(n)], P_pt(n + 1), out)
        # -- append: S (n+1) = S n + f n is the definition; prefix monotonicity for nonneg summands
        if nm == "int":
            # 0/1 summands: S n <= n; S n = n <-> all ones
            def P_01(nn):
                return z3.Implies(z3.ForAll([k], z3.Implies(below(k, nn), z3.And(f(k) >= 0, f(k) <= 1))),
                                  z3.And(S(nn) <= nn, S(nn) >= 0,
                                         (S(nn) == nn) == z3.ForAll([k], z3.Implies(below(k, nn), f(k) == 1))))
            _prove("sum.zero-one.base", defs, P_01(0), out)
            _prove("sum.zero-one.step", defs + [P_01(n)], P_01(n + 1), out)
        # -- max: M(1) = f 0, M(n+1) = max(M n, f n): bound and attainment
        M = z3.Function(f"M_{nm}", z3.IntSort(), sort)
        mdefs = [M(1) == f(0), M(n + 1) == z3.If(f(n) > M(n), f(n), M(n)), n >= 1]
        def P_max(nn):
            return z3.And(z3.ForAll([k], z3.Implies(below(k, nn), f(k) <= M(nn))),
                          z3.Exists([k], z3.And(below(k, nn), f(k) == M(nn))))
        _prove(f"max.base.{nm}", mdefs, P_max(1), out)
        _prove(f"max.step.{nm}", mdefs + [P_max(n)], P_max(n + 1), out)
    # -- linearity: h k = a*f k + c*g k + e  ->  H n = a*S n + c*G n + n*e   (reals; a, c, e arbitrary)
    fr = z3.Function("f_lin", z3.IntSort(), z3.RealSort())
    gr = z3.Function("g_lin", z3.IntSort(), z3.RealSort())
    hr = z3.Function("h_lin", z3.IntSort(), z3.RealSort())
    Sf = z3.Function("S_f", z3.IntSort(), z3.RealSort())
    Sg = z3.Function("S_g", z3.IntSort(), z3.RealSort())
    Sh = z3.Function("S_h", z3.IntSort(), z3.RealSort())
    a_, c_, e_ = z3.Reals("a_lin c_lin e_lin")
    n, k = z3.Ints("n k")
    ldefs = [Sf(0) == 0, Sg(0) == 0, Sh(0) == 0, Sf(n + 1) == Sf(n) + fr(n), Sg(n + 1) == Sg(n) + gr(n), Sh(n + 1) == Sh(n) + hr(n), n >= 0,
             z3.ForAll([k], z3.Implies(k >= 0, hr(k) == a_ * fr(k) + c_ * gr(k) + e_))]
    P_lin = lambda nn: Sh(nn) == a_ * Sf(nn) + c_ * Sg(nn) + z3.ToReal(nn if z3.is_expr(nn) else z3.IntVal(nn)) * e_
    _prove("sum.linear.base", ldefs, P_lin(0), out)
    _prove("sum.linear.step", ldefs + [P_lin(n)], P_lin(n + 1), out)
    # -- a strictly increasing integer sequence of length n inside [0, n) is the identity (sorted == arange idiom)
    Sq = z3.Function("S_incr", z3.IntSort(), z3.IntSort())
    nn_, kk_, k1, k2 = z3.Ints("n_incr k_incr k1_incr k2_incr")
    strict = z3.ForAll([k1, k2], z3.Implies(z3.And(0 <= k1, k1 < k2, k2 < nn_), Sq(k1) < Sq(k2)))
    inr = z3.ForAll([k1], z3.Implies(z3.And(0 <= k1, k1 < nn_), z3.And(Sq(k1) >= 0, Sq(k1) < nn_)))
    base_h = [strict, inr, nn_ >= 1]
    _prove("incr.lower.base", base_h, Sq(0) >= 0, out)
    _prove("incr.lower.step", base_h + [kk_ >= 0, kk_ + 1 < nn_, Sq(kk_) >= kk_], Sq(kk_ + 1) >= kk_ + 1, out)
    _prove("incr.upper.base", base_h, Sq(nn_ - 1) <= nn_ - 1, out)
    _prove("incr.upper.step", base_h + [kk_ >= 1, kk_ < nn_, Sq(kk_) <= kk_], Sq(kk_ - 1) <= kk_ - 1, out)
    # index arithmetic used by batchify / unbatchify (C12, C13)
    b, j, Bn = z3.Ints("b j Bn")
    hyp = [Bn >= 1, b >= 0, b < Bn, j >= 0]
    _prove("divmod.row", hyp, z3.And((j * Bn + b) / Bn == j, (j * Bn + b) % Bn == b), out)
    pq, qq = z3.Ints("p_c q_c")
    _prove("mul.cancel", [Bn >= 1], z3.Implies(pq * Bn + b == qq * Bn + b, pq == qq), out)
    return out


if __name__ == "__main__":
    import json

    r = run_all()
    bad = [x for x in r if x["status"] != "proved"]
    print(json.dumps({"lemmas": len(r), "failed": [x["name"] for x in bad]}))
    raise SystemExit(1 if bad else 0)
