"""VC discharge: reduction axioms (lemma instances), solver dispatch, model extraction."""
from __future__ import annotations

import os
import subprocess
import tempfile
import time

import z3

from .core import AND, IMPL, OR, Ctx, Red, is_z3, sort_of, zint
from . import ops

Z3_TIMEOUT_MS = int(os.environ.get("TVC_Z3_TIMEOUT_MS", "20000"))
CVC5_TIMEOUT_S = int(os.environ.get("TVC_CVC5_TIMEOUT_S", "60"))


def _apps(formulas):
    """All function applications (decl id -> decl) occurring in formulas."""
    seen = set()
    decls = {}
    stack = list(formulas)
    while stack:
        t = stack.pop()
        i = t.get_id()
        if i in seen:
            continue
        seen.add(i)
        if z3.is_quantifier(t):
            stack.append(t.body())
            continue
        if z3.is_app(t):
            d = t.decl()
            decls[d.get_id()] = d
            if t.num_args() == 0 and d.kind() == z3.Z3_OP_UNINTERPRETED:
                decls[t.get_id()] = d
            stack.extend(t.children())
    return decls


def reds_in(ctx: Ctx, formulas):
    out = {}
    frontier = list(formulas)
    while frontier:
        decls = _apps(frontier)
        frontier = []
        for r in ctx.reds.values():
            if r.id in out:
                continue
            present = r.decl().get_id() in decls
            if present:
                out[r.id] = r
                ax = red_axioms(ctx, r)
                r._axioms = ax
                frontier.extend(ax)
    return list(out.values())


def _outer_vars(r: Red, tag=""):
    return [z3.Int(f"o{tag}_{r.id}_{k}") for k in range(r.outer_rank)]


def _skolem(r: Red, name, sort=None):
    sort = sort or z3.IntSort()
    if r.outer_rank:
        f = z3.Function(f"{name}_{r.id}", *([z3.IntSort()] * r.outer_rank), sort)
        return lambda o: f(*o)
    c = z3.Const(f"{name}_{r.id}", sort)
    return lambda o: c


def _q(vars_, body, pats=None):
    if isinstance(body, bool):
        return z3.BoolVal(body)
    if not vars_:
        return body
    if pats:
        return z3.ForAll(vars_, body, patterns=pats)
    return z3.ForAll(vars_, body)


def red_axioms(ctx: Ctx, r: Red):
    """Instances of library lemmas (tvc/lemmas.py proves the schemas by induction)."""
    o = _outer_vars(r)
    app = r.app(o)
    pat = [app] if r.outer_rank else None
    ks = [z3.Int(f"k_{r.id}_{j}") for j in range(len(r.ns))]
    ink = AND(*[z3.And(k >= 0, k < zint(n)) for k, n in zip(ks, r.ns)])
    body = lambda oo, kk: r.body(tuple(oo), tuple(kk))
    ax = []
    kind = r.kind
    if kind in ("any", "all"):
        ws = [_skolem(r, f"w{j}") for j in range(len(r.ns))]
        wk = [w(o) for w in ws]
        inw = AND(*[z3.And(k >= 0, k < zint(n)) for k, n in zip(wk, r.ns)])
        if kind == "any":
            ax.append(_q(o, IMPL(app, AND(inw, body(o, wk))), pat))
            ax.append(_q(o + ks, IMPL(AND(ink, body(o, ks)), app)))
        else:
            ax.append(_q(o + ks, IMPL(AND(app, ink), body(o, ks))))
            ax.append(_q(o, IMPL(z3.Not(app), AND(inw, z3.Not(ops.B_(body(o, wk))))), pat))
        return ax
    k = ks[0]
    n = zint(r.ns[0])
    if kind == "sum":
        zero = 0
        b_ok = body(o, [k])
        wn = _skolem(r, "wneg")(o)
        ax.append(_q(o, IMPL(n <= 0, app == zero), pat))
        # non-negative summands: sum >= each summand >= 0; sum = 0 iff all zero
        nonneg_fail = AND(wn >= 0, wn < n, body(o, [wn]) < zero)
        ax.append(_q(o, OR(nonneg_fail, app >= zero), pat))
        ax.append(_q(o + [k], OR(nonneg_fail, IMPL(ink, b_ok <= app))))
        ax.append(_q(o + [k], OR(nonneg_fail, IMPL(AND(app == zero, ink), b_ok == zero))))
        wz = _skolem(r, "wnz")(o)
        # all summands zero -> sum zero (contrapositive with witness)
        ax.append(_q(o, OR(app == zero, AND(wz >= 0, wz < n, body(o, [wz]) != zero)), pat))
        if r.dtype == "i":
            w01 = _skolem(r, "w01")(o)
            b01 = body(o, [w01])
            fail01 = AND(w01 >= 0, w01 < n, z3.Not(z3.And(b01 >= 0, b01 <= 1)))
            ax.append(_q(o, OR(fail01, app <= n), pat))
            w1 = _skolem(r, "wn1")(o)
            ax.append(_q(o, OR(fail01, app == n, AND(w1 >= 0, w1 < n, body(o, [w1]) != 1)), pat))
            ax.append(_q(o + [k], OR(fail01, IMPL(AND(app == n, ink), b_ok == 1))))
        return ax
    if kind in ("max", "min"):
        w = _skolem(r, "warg")(o)
        if r.dtype == "b":
            return ax
        cmp = (lambda a, b: a <= b) if kind == "max" else (lambda a, b: a >= b)
        ax.append(_q(o + [k], IMPL(ink, cmp(body(o, [k]), app))))
        ax.append(_q(o, IMPL(n >= 1, AND(w >= 0, w < n, body(o, [w]) == app)), pat))
        return ax
    if kind in ("argmax", "argmin"):
        cmp = (lambda a, b: a <= b) if kind == "argmax" else (lambda a, b: a >= b)
        ax.append(_q(o, IMPL(n >= 1, AND(app >= 0, app < n)), pat))
        ax.append(_q(o + [k], IMPL(ink, cmp(body(o, [k]), body(o, [app])))))
        return ax
    return ax


def sum_ext_axioms(reds):
    """Pairwise extensionality for sums: equal lengths and summands -> equal sums."""
    sums = [r for r in reds if r.kind == "sum"]
    ax = []
    for i, r1 in enumerate(sums):
        for r2 in sums[i:]:
            if r1.dtype != r2.dtype:
                continue
            o1 = _outer_vars(r1, "a")
            o2 = _outer_vars(r2, "b")
            if r1 is r2 and not o1:
                continue
            name = f"wext_{r1.id}_{r2.id}"
            if o1 or o2:
                f = z3.Function(name, *([z3.IntSort()] * (len(o1) + len(o2))), z3.IntSort())
                w = f(*(o1 + o2))
            else:
                w = z3.Int(name)
            n1, n2 = zint(r1.ns[0]), zint(r2.ns[0])
            diff = AND(w >= 0, w < n1, r1.body(tuple(o1), (w,)) != r2.body(tuple(o2), (w,)))
            a1, a2 = r1.app(o1), r2.app(o2)
            body = OR(n1 != n2, diff, a1 == a2)
            pats = None
            if o1 and o2:
                pats = [z3.MultiPattern(a1, a2)]
            elif o1:
                pats = [a1]
            elif o2:
                pats = [a2]
            ax.append(_q(o1 + o2, body, pats))
    return ax


def uses_decl(formulas, decl):
    d = _apps(formulas)
    return decl.get_id() in d


class Result:
    def __init__(self, status, backend, secs, model=None, reason=""):
        self.status = status  # proved | refuted | unknown
        self.backend = backend
        self.secs = secs
        self.model = model
        self.reason = reason


def build_query(ctx: Ctx, ob, extra_axioms=()):
    fs = [h for h in ob.hyps if not isinstance(h, bool)]
    goal = ob.goal
    base = fs + [goal] + list(extra_axioms)
    reds = reds_in(ctx, base)
    ax = []
    for r in reds:
        ax.extend(r._axioms)
    ax.extend(sum_ext_axioms(reds))
    allf = base + ax
    if uses_decl(allf, ops.NORM2):
        ax.extend(ops.norm2_axioms(allf))
    return fs + list(extra_axioms) + ax, goal


def solve(ctx: Ctx, ob, timeout_ms=None, want_model=False, extra_axioms=()):
    t0 = time.time()
    hyps, goal = build_query(ctx, ob, extra_axioms)
    s = z3.Solver()
    s.set("timeout", timeout_ms or Z3_TIMEOUT_MS)
    for h in hyps:
        s.add(h)
    s.add(z3.Not(goal))
    r = s.check()
    dt = time.time() - t0
    if r == z3.unsat:
        return Result("proved", "z3", dt)
    if r == z3.sat:
        return Result("refuted", "z3", dt, model=s.model())
    reason = s.reason_unknown()
    # second opinion: cvc5 on the same query
    r2 = _cvc5(s)
    dt = time.time() - t0
    if r2 == "unsat":
        return Result("proved", "cvc5", dt)
    return Result("unknown", "z3+cvc5", dt, reason=f"z3: {reason}; cvc5: {r2}")


def _cvc5(solver):
    exe = "/usr/bin/cvc5"
    if not os.path.exists(exe):
        return "absent"
    try:
        txt = solver.to_smt2()
    except Exception as e:  # pragma: no cover
        return f"export-failed {e}"
    with tempfile.NamedTemporaryFile("w", suffix=".smt2", delete=False) as f:
        f.write("(set-logic ALL)\n" + txt)
        path = f.name
    try:
        p = subprocess.run([exe, f"--tlimit={CVC5_TIMEOUT_S * 1000}", path], capture_output=True, text=True,
                           timeout=CVC5_TIMEOUT_S + 10)
        out = p.stdout.strip().splitlines()
        return out[0] if out else (p.stderr.strip()[:80] or "no-output")
    except subprocess.TimeoutExpired:
        return "timeout"
    finally:
        os.unlink(path)


# ----------------------------------------------------------------------------
# model -> concrete values
# ----------------------------------------------------------------------------


def _val(model, term, dtype):
    v = model.eval(term, model_completion=True)
    if dtype == "b":
        return bool(z3.is_true(v))
    if dtype == "i":
        return v.as_long()
    if z3.is_int_value(v):
        return float(v.as_long())
    if z3.is_rational_value(v):
        return float(v.numerator_as_long()) / float(v.denominator_as_long())
    if z3.is_algebraic_value(v):
        return float(v.approx(20).numerator_as_long()) / float(v.approx(20).denominator_as_long())
    raise ValueError(f"cannot read model value {v}")


def tensor_value(model, t, limit=4096):
    """Concrete nested list for a SymTensor with concrete shape under a model."""
    import itertools as it

    shape = []
    for n in t.shape:
        if not isinstance(n, int):
            n = model.eval(zint(n), model_completion=True).as_long()
        shape.append(n)
    tot = 1
    for n in shape:
        tot *= n
    if tot > limit:
        raise ValueError("tensor too large for extraction")

    def rec(prefix, d):
        if d == len(shape):
            v = t.at(*prefix)
            if not is_z3(v):
                from .core import cast

                v = cast(v, t.dtype)
            return _val(model, v, t.dtype)
        return [rec(prefix + (k,), d + 1) for k in range(shape[d])]

    return {"shape": shape, "dtype": t.dtype, "data": rec((), 0)}
