"""VC discharge: reduction axioms (lemma instances), solver dispatch, model extraction."""
from __future__ import annotations

import os
import subprocess
import tempfile
import time

import z3

from .core import AND, IMPL, OR, Ctx, Red, is_z3, sort_of, zint
from . import ops

Z3_TIMEOUT_MS = int(os.environ.get("TVC_Z3_TIMEOUT_MS", "40000"))
CVC5_TIMEOUT_S = int(os.environ.get("TVC_CVC5_TIMEOUT_S", "120"))


def _apps(formulas):
    """All function applications (decl id -> decl) occurring in formulas."""
    seen = set()
    decls = {}
    stack = list(formulas)
    while stack:
        t = stack.pop()
        i = t.get_id()
        if i in seen:
            continue
        seen.add(i)
        if z3.is_quantifier(t):
            stack.append(t.body())
            continue
        if z3.is_app(t):
            d = t.decl()
            decls[d.get_id()] = d
            if t.num_args() == 0 and d.kind() == z3.Z3_OP_UNINTERPRETED:
                decls[t.get_id()] = d
            stack.extend(t.children())
    return decls


def _is_ground(t):
    seen = set()
    stack = [t]
    while stack:
        x = stack.pop()
        if x.get_id() in seen:
            continue
        seen.add(x.get_id())
        if z3.is_var(x):
            return False
        stack.extend(x.children())
    return True


def _collect(formulas, red_decl_ids):
    """Scan formulas: ground / non-ground applications of reduction symbols, index-like ground terms."""
    seen = set()
    apps = {}  # decl id -> {"ground": {key: args}, "nonground": bool}
    consts = {}
    stack = list(formulas)
    while stack:
        t = stack.pop()
        i = t.get_id()
        if i in seen:
            continue
        seen.add(i)
        if z3.is_quantifier(t):
            stack.append(t.body())
            continue
        if z3.is_app(t):
            d = t.decl()
            did = d.get_id()
            if did in red_decl_ids:
                e = apps.setdefault(did, {"ground": {}, "nonground": False})
                args = [t.arg(k) for k in range(t.num_args())]
                if all(_is_ground(a) for a in args):
                    e["ground"][tuple(a.get_id() for a in args)] = args
                else:
                    e["nonground"] = True
            elif t.num_args() == 0 and d.kind() == z3.Z3_OP_UNINTERPRETED and t.sort() == z3.IntSort():
                consts[i] = t
            stack.extend(t.children())
    return apps, consts


def reds_in(ctx: Ctx, formulas):
    """Reductions reachable from formulas, with their lemma instances attached (r._axioms)."""
    out = {}
    done_keys = set()
    frontier = list(formulas)
    allf = list(formulas)
    ids = {r.decl().get_id(): r for r in ctx.reds.values()}
    rounds = 0
    while frontier and rounds < 6:
        rounds += 1
        apps, consts = _collect(allf, set(ids))
        cands = list(consts.values())[:40]
        ckey = tuple(c.get_id() for c in cands)
        cache = ctx.__dict__.setdefault("_red_ax_cache", {})      # the obligations of one path share most lemma instances
        frontier = []
        for did, e in apps.items():
            r = ids[did]
            if r.id not in out:
                out[r.id] = r
                r._axioms = []
            if e["nonground"] and (r.id, "q") not in done_keys:
                done_keys.add((r.id, "q"))
                ax = cache.get((r.id, "q", ckey))
                if ax is None:
                    ax = cache[(r.id, "q", ckey)] = red_axioms(ctx, r, None, cands)
                r._axioms.extend(ax)
                frontier.extend(ax)
            for key, args in e["ground"].items():
                if (r.id, key) in done_keys:
                    continue
                done_keys.add((r.id, key))
                ax = cache.get((r.id, key, ckey))
                if ax is None:
                    ax = cache[(r.id, key, ckey)] = red_axioms(ctx, r, args, cands)
                r._axioms.extend(ax)
                frontier.extend(ax)
        allf.extend(frontier)
    apps, _ = _collect(allf, set(ids))
    ctx._last_ground_apps = {ids[d].id: e for d, e in apps.items()}
    return list(out.values())


def _outer_vars(r: Red, tag=""):
    return [z3.Int(f"o{tag}_{r.id}_{k}") for k in range(r.outer_rank)]


def _skolem(r: Red, name, sort=None):
    sort = sort or z3.IntSort()
    if r.outer_rank:
        f = z3.Function(f"{name}_{r.id}", *([z3.IntSort()] * r.outer_rank), sort)
        return lambda o: f(*o)
    c = z3.Const(f"{name}_{r.id}", sort)
    return lambda o: c


def _q(vars_, body, pats=None):
    if isinstance(body, bool):
        return z3.BoolVal(body)
    if not vars_:
        return body
    if pats:
        return z3.ForAll(vars_, body, patterns=pats)
    return z3.ForAll(vars_, body)


def _count_cond(r, o):
    """If the summand is syntactically If(c, 1, 0) return c as a function of k."""
    probe = z3.Int(f"probe_{r.id}")
    try:
        t = r.body(tuple(o), (probe,))
    except Exception:
        return None
    if z3.is_app(t) and t.decl().kind() == z3.Z3_OP_ITE and z3.is_int_value(t.arg(1)) and z3.is_int_value(t.arg(2)) \
            and t.arg(1).as_long() == 1 and t.arg(2).as_long() == 0:
        def c(k, r=r, o=o):
            tt = r.body(tuple(o), (k,))
            return tt.arg(0)
        return c
    return None


def _const_int(n):
    if isinstance(n, int):
        return n
    try:
        n = z3.simplify(n)
        if z3.is_int_value(n):
            return n.as_long()
    except Exception:
        pass
    return None


def red_axioms(ctx: Ctx, r: Red, ground, cands):
    """Instances of library lemmas (tvc/lemmas.py proves the schemas by induction).

    ground = list of ground outer arguments (axioms for that application, the bound index stays
    quantified and is additionally instantiated at the index-like ground terms of the query),
    or None for the version quantified over the outer arguments (applications under binders)."""
    if ground is None:
        o = _outer_vars(r)
        qo = list(o)
    else:
        o = list(ground)
        qo = []
    app = r.app(o)
    pat = [app] if (qo and r.outer_rank) else None
    ks = [z3.Int(f"k_{r.id}_{j}") for j in range(len(r.ns))]
    lens = [r.length(o, j) for j in range(len(r.ns))]
    rng = lambda kk: AND(*[z3.And(zint(k) >= 0, zint(k) < zint(n)) for k, n in zip(kk, lens)])
    ink = rng(ks)
    body = lambda oo, kk: r.body(tuple(oo), tuple(kk))
    ax = []

    def forall_k(fn, instances=True):
        """fn(kk) -> formula; quantified over the bound indices + explicit instances."""
        cl = [_const_int(n_) for n_ in lens]
        if all(c is not None for c in cl):
            tot = 1
            for c in cl:
                tot *= max(c, 0)
            if tot <= 64:
                # concrete small length: the finite conjunction replaces the quantifier (keeps concrete-dimension queries decidable)
                import itertools as _it

                insts_ = [fn([z3.IntVal(v) for v in kk]) for kk in _it.product(*[range(c) for c in cl])]
                insts_ = [f for f in insts_ if not (isinstance(f, bool) and f)]
                if insts_:
                    ax.append(_q(qo, AND(*insts_)) if qo else AND(*insts_))
                return
        ax.append(_q(qo + ks, fn(ks)))
        if instances and ground is not None and len(ks) == 1:
            n = zint(lens[0])
            insts = [z3.IntVal(0), z3.simplify(n - 1)]
            for c in cands:
                insts.extend([c, c - 1, c + 1])
            seen = set()
            for t in insts:
                t = z3.simplify(t)
                if t.get_id() in seen:
                    continue
                seen.add(t.get_id())
                f = fn([t])
                if not isinstance(f, bool):
                    ax.append(f)

    kind = r.kind
    if kind in ("any", "all"):
        ws = [_skolem(r, f"w{j}") for j in range(len(r.ns))]
        wk = [w(o) for w in ws]
        inw = rng(wk)
        if kind == "any":
            ax.append(_q(qo, IMPL(app, AND(inw, body(o, wk))), pat))
            forall_k(lambda kk: IMPL(AND(rng(kk), body(o, kk)), app))
        else:
            forall_k(lambda kk: IMPL(AND(app, rng(kk)), body(o, kk)))
            ax.append(_q(qo, IMPL(z3.Not(app), AND(inw, z3.Not(ops.B_(body(o, wk))))), pat))
        return ax
    n = zint(lens[0])
    if kind == "sum":
        zero = 0
        cc = _count_cond(r, o) if r.dtype == "i" else None
        if cc is not None:
            # counting booleans: 0 <= cnt <= n; cnt = 0 iff none; cnt = n iff all
            w_some = _skolem(r, "wsome")(o)
            w_not = _skolem(r, "wnot")(o)
            ax.append(_q(qo, AND(app >= 0, app <= z3.If(n >= 0, n, 0)), pat))
            ax.append(_q(qo, OR(app == 0, AND(w_some >= 0, w_some < n, cc(w_some))), pat))
            forall_k(lambda kk: IMPL(AND(app == 0, rng(kk)), z3.Not(cc(kk[0]))))
            ax.append(_q(qo, OR(app == n, AND(w_not >= 0, w_not < n, z3.Not(cc(w_not)))), pat))
            forall_k(lambda kk: IMPL(AND(app == n, rng(kk)), cc(kk[0])))
            return ax
        wn = _skolem(r, "wneg")(o)
        ax.append(_q(qo, IMPL(n <= 0, app == zero), pat))
        nonneg_fail = AND(wn >= 0, wn < n, body(o, [wn]) < zero)
        ax.append(_q(qo, OR(nonneg_fail, app >= zero), pat))
        forall_k(lambda kk: OR(nonneg_fail, IMPL(rng(kk), body(o, kk) <= app)), instances=False)
        forall_k(lambda kk: OR(nonneg_fail, IMPL(AND(app == zero, rng(kk)), body(o, kk) == zero)), instances=False)
        wz = _skolem(r, "wnz")(o)
        ax.append(_q(qo, OR(app == zero, AND(wz >= 0, wz < n, body(o, [wz]) != zero)), pat))
        if r.dtype == "i":
            w01 = _skolem(r, "w01")(o)
            b01 = body(o, [w01])
            fail01 = AND(w01 >= 0, w01 < n, z3.Not(z3.And(b01 >= 0, b01 <= 1)))
            ax.append(_q(qo, OR(fail01, app <= n), pat))
            w1 = _skolem(r, "wn1")(o)
            ax.append(_q(qo, OR(fail01, app == n, AND(w1 >= 0, w1 < n, body(o, [w1]) != 1)), pat))
            forall_k(lambda kk: OR(fail01, IMPL(AND(app == n, rng(kk)), body(o, kk) == 1)), instances=False)
        return ax
    if kind in ("max", "min"):
        w = _skolem(r, "warg")(o)
        if r.dtype == "b":
            return ax
        cmp = (lambda a, b: a <= b) if kind == "max" else (lambda a, b: a >= b)
        forall_k(lambda kk: IMPL(rng(kk), cmp(body(o, kk), app)))
        ax.append(_q(qo, IMPL(n >= 1, AND(w >= 0, w < n, body(o, [w]) == app)), pat))
        return ax
    if kind in ("argmax", "argmin"):
        cmp = (lambda a, b: a <= b) if kind == "argmax" else (lambda a, b: a >= b)
        ax.append(_q(qo, IMPL(n >= 1, AND(app >= 0, app < n)), pat))
        forall_k(lambda kk: IMPL(rng(kk), cmp(body(o, kk), body(o, [app]))))
        return ax
    return ax


def sum_ext_axioms(reds, ground_apps=None):
    """Pairwise extensionality for sums (lemma sum.ext): equal lengths and summands -> equal sums.
    Instantiated for the pairs of ground applications present; quantified over the outer
    arguments only for reductions that occur under binders."""
    sums = [r for r in reds if r.kind == "sum"]
    ax = []
    ground_apps = ground_apps or {}
    cnt = [0]

    def one(r1, o1, r2, o2, qv):
        cnt[0] += 1
        name = f"wext_{r1.id}_{r2.id}_{cnt[0]}"
        if qv:
            f = z3.Function(name, *([z3.IntSort()] * len(qv)), z3.IntSort())
            w = f(*qv)
        else:
            w = z3.Int(name)
        n1, n2 = zint(r1.length(o1)), zint(r2.length(o2))
        diff = AND(w >= 0, w < n1, r1.body(tuple(o1), (w,)) != r2.body(tuple(o2), (w,)))
        a1, a2 = r1.app(o1), r2.app(o2)
        body = OR(n1 != n2, diff, a1 == a2)
        if not qv:
            return body
        q1 = [v for v in qv if any(v.eq(x) for x in o1)]
        q2 = [v for v in qv if any(v.eq(x) for x in o2)]
        pats = None
        if q1 and q2:
            pats = [z3.MultiPattern(a1, a2)]
        elif q1:
            pats = [a1]
        elif q2:
            pats = [a2]
        return _q(qv, body, pats)

    for i, r1 in enumerate(sums):
        for r2 in sums[i:]:
            if r1.dtype != r2.dtype:
                continue
            g1 = ground_apps.get(r1.id, {"ground": {}, "nonground": True})
            g2 = ground_apps.get(r2.id, {"ground": {}, "nonground": True})
            pairs = 0
            for k1, a1 in g1["ground"].items():
                for k2, a2 in g2["ground"].items():
                    if r1 is r2 and k1 >= k2:
                        continue
                    if pairs > 12:
                        break
                    pairs += 1
                    ax.append(one(r1, list(a1), r2, list(a2), []))
            if g1["nonground"] or g2["nonground"]:
                o1 = _outer_vars(r1, "a")
                o2 = _outer_vars(r2, "b")
                if r1 is r2 and not o1:
                    continue
                ax.append(one(r1, o1, r2, o2, o1 + o2))
    return ax


def uses_decl(formulas, decl):
    d = _apps(formulas)
    return decl.get_id() in d


class Result:
    def __init__(self, status, backend, secs, model=None, reason=""):
        self.status = status  # proved | refuted | unknown
        self.backend = backend
        self.secs = secs
        self.model = model
        self.reason = reason


NNF_LIMIT = int(os.environ.get("TVC_NNF_LIMIT", "600"))


def _dag_size(t, cap):
    seen = set()
    stack = [t]
    while stack and len(seen) < cap:
        x = stack.pop()
        if x.get_id() in seen:
            continue
        seen.add(x.get_id())
        stack.extend(x.children())
    return len(seen)


def _skolemize_neg(goal):
    """not(goal) in negation normal form with its existentials Skolemized (z3 'nnf' tactic), so that the
    Skolem constants are visible as instantiation candidates for the reduction lemmas."""
    qf = not _has_quantifiers([goal])
    if qf and _dag_size(goal, NNF_LIMIT + 1) > NNF_LIMIT:
        # nothing to Skolemize, and the NNF of a large if-then-else nest only blows the goal up: keep it as it is
        return [z3.Not(goal)]
    try:
        g = z3.Goal()
        g.add(z3.Not(goal))
        res = z3.Then("simplify", "nnf")(g)
        out = []
        for sub in res:
            out.extend(list(sub))
        if qf and out:
            # the untouched negation as well (equivalent; keeps the syntactic match of the goal with a hypothesis)
            out.append(z3.Not(goal))
        return out
    except Exception:
        return [z3.Not(goal)]


def build_query(ctx: Ctx, ob, extra_axioms=()):
    fs = [h for h in ob.hyps if not isinstance(h, bool)]
    neg = _skolemize_neg(ob.goal)
    goal = z3.Not(z3.And(*neg)) if neg else z3.BoolVal(False)  # empty NNF goal = not(goal) is true
    base = fs + neg + list(extra_axioms)
    if getattr(ob, "algebra_only", False):
        # quantified hypotheses and reduction lemmas are noise for a pure (non-linear) arithmetic goal
        fs = [h for h in fs if not _has_quantifiers([h])]
        return fs + list(extra_axioms), goal
    reds = reds_in(ctx, base)
    ax = []
    for r in reds:
        ax.extend(r._axioms)
    ax.extend(sum_ext_axioms(reds, getattr(ctx, '_last_ground_apps', None)))
    allf = base + ax
    if uses_decl(allf, ops.UF["exp"]):
        ax.extend(ops.exp_axioms(allf, exact=getattr(ctx, 'exact_norm', False), goal=neg))
    if uses_decl(allf, ops.NORM2):
        ax.extend(ops.norm2_axioms(allf, exact=getattr(ctx, 'exact_norm', False), goal=neg))
    return fs + list(extra_axioms) + ax, goal


def solve(ctx: Ctx, ob, timeout_ms=None, want_model=False, extra_axioms=(), use_cvc5=True, mbqi=True, cvc5_s=None, seed=None):
    """z3 (E-matching only first, then with MBQI), then cvc5 on z3's unknowns.
    seed: portfolio variant (z3's search on quantified non-linear queries is sensitive to its random seed; run_unit
    tries several seeds in parallel on what the default configuration leaves open)."""
    t0 = time.time()
    with ctx:
        hyps, goal = build_query(ctx, ob, extra_axioms)
    tmo = timeout_ms or Z3_TIMEOUT_MS
    reason = ""
    last = None
    # E-matching alone decides almost every obligation of the contracts (the lemma instances are explicit); it gets most of the
    # budget so that a loaded machine does not push a 1-second proof into the (divergence-prone) MBQI configuration.
    # Portfolio member 1 is E-matching only with the whole budget twice over.
    cfgs = (("ematch", False, max(1000, (tmo * 3) // 5)), ("mbqi", True, tmo))
    if seed == 1:
        cfgs = (("ematch", False, 2 * tmo),)
    for cfg in cfgs:
        s = z3.Solver()
        s.set("timeout", cfg[2])
        if not cfg[1]:
            s.set("smt.mbqi", False)
        if seed:
            s.set("smt.random_seed", int(seed))
            s.set("sat.random_seed", int(seed))
            if seed % 2 == 0:
                s.set("smt.arith.solver", 2)
        for h in hyps:
            s.add(h)
        s.add(z3.Not(goal))
        r = s.check()
        last = s
        dt = time.time() - t0
        if r == z3.unsat:
            return Result("proved", "z3" if not seed else f"z3[seed={seed}]", dt)
        if r == z3.sat and cfg[1]:
            return Result("refuted", "z3", dt, model=s.model())
        if r == z3.sat and not _has_quantifiers(hyps + [goal]):
            return Result("refuted", "z3", dt, model=s.model())
        reason = s.reason_unknown() if r == z3.unknown else "sat without mbqi (incomplete)"
    dt = time.time() - t0
    if not use_cvc5:
        return Result("unknown", "z3", dt, reason=f"z3: {reason}")
    r2 = _cvc5(last, cvc5_s)
    dt = time.time() - t0
    if r2 == "unsat":
        return Result("proved", "cvc5", dt)
    return Result("unknown", "z3+cvc5", dt, reason=f"z3: {reason}; cvc5: {r2}")


def _has_quantifiers(fs):
    seen = set()
    stack = list(fs)
    while stack:
        t = stack.pop()
        if t.get_id() in seen:
            continue
        seen.add(t.get_id())
        if z3.is_quantifier(t):
            return True
        stack.extend(t.children())
    return False


def _cvc5(solver, tlimit_s=None):
    exe = "/usr/bin/cvc5"
    if not os.path.exists(exe):
        return "absent"
    try:
        txt = solver.to_smt2()
    except Exception as e:  # pragma: no cover
        return f"export-failed {e}"
    with tempfile.NamedTemporaryFile("w", suffix=".smt2", delete=False) as f:
        f.write("(set-logic ALL)\n" + txt)
        path = f.name
    try:
        tl = tlimit_s or CVC5_TIMEOUT_S
        p = subprocess.run([exe, f"--tlimit={tl * 1000}", path], capture_output=True, text=True, timeout=tl + 10)
        out = p.stdout.strip().splitlines()
        return out[0] if out else (p.stderr.strip()[:80] or "no-output")
    except subprocess.TimeoutExpired:
        return "timeout"
    finally:
        os.unlink(path)


# ----------------------------------------------------------------------------
# model -> concrete values
# ----------------------------------------------------------------------------


def _val(model, term, dtype):
    v = model.eval(term, model_completion=True)
    if dtype == "b":
        return bool(z3.is_true(v))
    if dtype == "i":
        return v.as_long()
    if z3.is_int_value(v):
        return float(v.as_long())
    if z3.is_rational_value(v):
        return float(v.numerator_as_long()) / float(v.denominator_as_long())
    if z3.is_algebraic_value(v):
        return float(v.approx(20).numerator_as_long()) / float(v.approx(20).denominator_as_long())
    raise ValueError(f"cannot read model value {v}")


def tensor_value(model, t, limit=4096):
    """Concrete nested list for a SymTensor with concrete shape under a model."""
    import itertools as it

    shape = []
    for n in t.shape:
        if not isinstance(n, int):
            n = model.eval(zint(n), model_completion=True).as_long()
        shape.append(n)
    tot = 1
    for n in shape:
        tot *= n
    if tot > limit:
        raise ValueError("tensor too large for extraction")

    def rec(prefix, d):
        if d == len(shape):
            v = t.at(*prefix)
            if not is_z3(v):
                from .core import cast

                v = cast(v, t.dtype)
            return _val(model, v, t.dtype)
        return [rec(prefix + (k,), d + 1) for k in range(shape[d])]

    return {"shape": shape, "dtype": t.dtype, "data": rec((), 0)}
