"""Operation table: the assumed contracts of torch / tensordict operations.

Every rule gives (well-formedness obligations, result shape, result elem).
WF obligations are real proof obligations (ctx.wf / wf_forall).
"""
from __future__ import annotations

import math
from fractions import Fraction

import z3

from .core import (
    grad_of,
    AND,
    IMPL,
    NOT,
    OR,
    Inf,
    PathEnd,
    SymTensor,
    Unsupported,
    bidx,
    broadcast_shapes,
    cast,
    const_tensor,
    cur,
    fresh_index,
    in_range,
    is_z3,
    ite,
    mk,
    norm_dim,
    promote,
    scalar_dtype,
    simp_int,
    sort_of,
    zbool,
    zint,
    zreal,
)

# ----------------------------------------------------------------------------
# dtype tokens
# ----------------------------------------------------------------------------


class DType:
    def __init__(self, name, cls):
        self.name = name
        self.cls = cls

    def __repr__(self):
        return f"torch.{self.name}"

    def __eq__(self, o):
        return isinstance(o, DType) and o.name == self.name

    def __hash__(self):
        return hash(self.name)


DTYPES = {
    "float32": "f", "float": "f", "float64": "f", "double": "f", "float16": "f", "half": "f", "bfloat16": "f",
    "int64": "i", "long": "i", "int32": "i", "int": "i", "int16": "i", "int8": "i", "uint8": "i", "short": "i",
    "bool": "b",
}
DT_CANON = {"f": DType("float32", "f"), "i": DType("int64", "i"), "b": DType("bool", "b")}


def dtype_cls(d, default="f"):
    if d is None:
        return default
    if isinstance(d, DType):
        return d.cls
    if d is float:
        return "f"
    if d is int:
        return "i"
    if d is bool:
        return "b"
    if type(d).__name__ == "TypeTok" and getattr(d, "name", None) in ("float", "int", "bool"):
        return {"float": "f", "int": "i", "bool": "b"}[d.name]      # the python builtins used as dtype= (dtype=bool)
    raise Unsupported(f"dtype {d!r}")


# uninterpreted real functions (A1: reals)
_REAL = z3.RealSort()
NORM2 = z3.Function("norm2", _REAL, _REAL, _REAL)
FMOD = z3.Function("uf_fmod", _REAL, _REAL, _REAL)
UF = {n: z3.Function("uf_" + n, _REAL, _REAL) for n in ("exp", "log", "tanh", "sqrt", "cos", "sin", "sigmoid")}


def _norm2_apps(formulas):
    seen = set()
    stack = list(formulas)
    apps = []
    while stack:
        t = stack.pop()
        if t.get_id() in seen:
            continue
        seen.add(t.get_id())
        if z3.is_quantifier(t):
            continue
        if z3.is_app(t):
            if t.decl().eq(NORM2):
                apps.append(t)
            stack.extend(t.children())
    return apps


def _apps_of(formulas, decl):
    seen = set()
    stack = list(formulas)
    apps = []
    while stack:
        t = stack.pop()
        if t.get_id() in seen:
            continue
        seen.add(t.get_id())
        if z3.is_quantifier(t):
            continue
        if z3.is_app(t):
            if t.decl().eq(decl):
                apps.append(t)
            stack.extend(t.children())
    return apps


def exp_axioms(formulas=(), exact=False, goal=()):
    """exp is positive: quantified (pattern exp(x)) on the symbolic pass; ground instances for the applications of the goal, and
    for all applications on the concrete (quantifier-free) pass."""
    E = UF["exp"]
    apps = _apps_of(formulas if exact else goal, E)
    ax = [a > 0 for a in apps[:400]]
    if not exact:
        x = z3.Real("ex")
        ax.append(z3.ForAll([x], E(x) > 0, patterns=[E(x)]))
    return ax


def norm2_axioms(formulas=(), exact=False, goal=()):
    """Axioms of the Euclidean norm of a 2-vector (uninterpreted, A1): non-negative,
    zero iff the vector is zero (quantified, create no new terms); evenness
    norm2(x,y) = norm2(-x,-y) instantiated for the ground applications present."""
    x, y = z3.Reals("nx ny")
    ax = [
        z3.ForAll([x, y], NORM2(x, y) >= 0, patterns=[NORM2(x, y)]),
        z3.ForAll([x, y], (NORM2(x, y) == 0) == z3.And(x == 0, y == 0), patterns=[NORM2(x, y)]),
    ]
    seen = set()
    stack = list(formulas)
    apps = []
    while stack:
        t = stack.pop()
        if t.get_id() in seen:
            continue
        seen.add(t.get_id())
        if z3.is_quantifier(t):
            continue
        if z3.is_app(t):
            if t.decl().eq(NORM2):
                apps.append(t)
            stack.extend(t.children())
    for a in apps[:200]:
        ax.append(a == NORM2(z3.simplify(-a.arg(0)), z3.simplify(-a.arg(1))))
        if exact:
            # concrete-dimension runs (counterexample search): the true Euclidean norm, so that models replay
            ax.append(z3.And(a >= 0, a * a == a.arg(0) * a.arg(0) + a.arg(1) * a.arg(1)))
    # ground non-negativity for the applications of the GOAL only (found by unit propagation, whatever the quantifier engine
    # does; for every application of the context it makes unrelated sums of distances relevant and slows their proofs down)
    for a in _norm2_apps(goal)[:50]:
        ax.append(a >= 0)
    return ax


# ----------------------------------------------------------------------------
# helpers
# ----------------------------------------------------------------------------


def T(x):
    return isinstance(x, SymTensor)


def is_scalar(x):
    return isinstance(x, (bool, int, float, Fraction, Inf)) or (is_z3(x))


def dt_of(x):
    return x.dtype if T(x) else scalar_dtype(x)


def as_tensor(x, like=None):
    if T(x):
        return x
    return const_tensor((), scalar_dtype(x), x)


def ew(fn, args, out_dtype=None, compute=None, name=None):
    """Elementwise op with broadcasting. Scalars stay scalars."""
    ctx = cur()
    tens = [a for a in args if T(a)]
    if not tens:
        raise Unsupported("ew without tensor")
    shape = broadcast_shapes(ctx, [t.shape for t in tens])
    dts = [dt_of(a) for a in args]
    cdt = compute or promote(*dts)
    rank = len(shape)
    snaps = [(a.snap(), a.shape) if T(a) else None for a in args]

    def elem(idx):
        vals = []
        for a, s in zip(args, snaps):
            if s is None:
                vals.append(a if cdt is None or isinstance(a, Inf) else cast(a, cdt))
            else:
                v = s[0](bidx(idx, s[1], rank))
                vals.append(v if cdt is None else cast(v, cdt))
        return fn(*vals)

    odt = out_dtype or cdt
    return mk(shape, odt, elem, grad=(odt == "f" and grad_of(*args)))


def _cmp_inf(op, a, b):
    # comparisons against +-inf under A1 (all tensor values finite)
    if isinstance(a, Inf) and isinstance(b, Inf):
        return {"lt": a.sign < b.sign, "le": a.sign <= b.sign, "gt": a.sign > b.sign, "ge": a.sign >= b.sign,
                "eq": a.sign == b.sign, "ne": a.sign != b.sign}[op]
    if isinstance(b, Inf):
        pos = b.sign > 0
        return {"lt": pos, "le": pos, "gt": not pos, "ge": not pos, "eq": False, "ne": True}[op]
    if isinstance(a, Inf):
        pos = a.sign > 0
        return {"lt": not pos, "le": not pos, "gt": pos, "ge": pos, "eq": False, "ne": True}[op]
    raise AssertionError


def scalar_binop(op, a, b, wf=True):
    """Binary op on python / z3 scalars with python+torch-like promotion.
    wf=False: the caller (a tensor op) has already emitted the well-formedness obligation eagerly."""
    if isinstance(a, Inf) or isinstance(b, Inf):
        if op in ("lt", "le", "gt", "ge", "eq", "ne"):
            return _cmp_inf(op, a, b)
        raise Unsupported(f"arithmetic with inf: {op}")
    if not is_z3(a) and not is_z3(b):
        import operator as O

        table = {"add": O.add, "sub": O.sub, "mul": O.mul, "truediv": O.truediv, "floordiv": O.floordiv,
                 "mod": O.mod, "pow": O.pow, "lt": O.lt, "le": O.le, "gt": O.gt, "ge": O.ge, "eq": O.eq,
                 "ne": O.ne, "and": O.and_, "or": O.or_, "xor": O.xor, "max": max, "min": min}
        return table[op](a, b)
    da, db = scalar_dtype(a), scalar_dtype(b)
    if op in ("and", "or", "xor"):
        if da == "b" and db == "b":
            x, y = zbool(a), zbool(b)
            return {"and": z3.And, "or": z3.Or, "xor": z3.Xor}[op](x, y)
        raise Unsupported("bitwise op on non-bool scalars")
    d = promote(da, db)
    if d == "b":
        d = "i"
    if op == "truediv":
        d = "f"
    x, y = cast(a, d), cast(b, d)
    if op == "add":
        return x + y
    if op == "sub":
        return x - y
    if op == "mul":
        return x * y
    if op == "truediv":
        if wf:
            cur().wf("div-nonzero", y != 0)
        return x / y
    if op == "floordiv":
        if d == "f":
            return z3.ToReal(z3.ToInt(x / y))
        c = _cancel_factor(x, y)
        if c is not None:
            if wf and not (isinstance(b, int) and b > 0):
                cur().wf("floordiv-positive-divisor", y > 0)
            return c
        if wf and not (isinstance(b, int) and b > 0):
            cur().wf("floordiv-positive-divisor", y > 0)
        return x / y
    if op == "mod":
        if d == "f":
            # real remainder: an uninterpreted function with the facts of the positive-divisor case as ground instances
            # (0 <= r < y; whole-number operands give a whole-number remainder); nothing is said for y < 0
            xr, yr = zreal(x), zreal(y)
            if wf:
                cur().wf("mod-nonzero-divisor", yr != 0)
            r = FMOD(xr, yr)
            isint = lambda v: z3.ToReal(z3.ToInt(v)) == v
            cur().assume(z3.Implies(yr > 0, z3.And(r >= 0, r < yr)))
            cur().assume(z3.Implies(z3.And(isint(xr), isint(yr)), isint(r)))
            return r
        if wf and not (isinstance(b, int) and b > 0):
            cur().wf("mod-positive-divisor", y > 0)
        return x % y
    if op == "pow":
        if isinstance(b, int) and 0 <= b <= 4:
            r = cast(1, d)
            for _ in range(b):
                r = r * x
            return r
        if isinstance(b, float) and b == 0.5:
            # x ** 0.5 = sqrt(x): the uninterpreted square root, positive on positive arguments (ground instance)
            xr = zreal(x)
            r = UF["sqrt"](xr)
            cur().assume(z3.Implies(xr > 0, r > 0))
            return r
        raise Unsupported("pow with non-small exponent")
    if op == "lt":
        return x < y
    if op == "le":
        return x <= y
    if op == "gt":
        return x > y
    if op == "ge":
        return x >= y
    if op == "eq":
        return x == y
    if op == "ne":
        return x != y
    if op == "max":
        return z3.If(x >= y, x, y)
    if op == "min":
        return z3.If(x <= y, x, y)
    raise Unsupported(f"scalar op {op}")


def _flat_factors(x):
    if is_z3(x) and z3.is_mul(x):
        out = []
        for k in x.children():
            out.extend(_flat_factors(k))
        return out
    return [x]


def _cancel_factor(x, y):
    """(f1*...*y*...*fn) // y  ->  product of the other factors (y > 0 is obliged by the caller)."""
    if not is_z3(x) or not z3.is_mul(x):
        return None
    kids = _flat_factors(x)
    ys = _flat_factors(y) if is_z3(y) else [y]
    rest = list(kids)
    for yf in ys:
        hit = None
        for i, k in enumerate(rest):
            if (is_z3(yf) and k.eq(yf)) or (z3.is_int_value(k) and ((isinstance(yf, int) and k.as_long() == yf) or (is_z3(yf) and z3.is_int_value(yf) and k.as_long() == yf.as_long()))):
                hit = i
                break
        if hit is None:
            return None
        rest.pop(hit)
    if not rest:
        return z3.IntVal(1)
    r = rest[0]
    for t in rest[1:]:
        r = r * t
    return r


def binop(op, a, b):
    if not T(a) and not T(b):
        return scalar_binop(op, a, b)
    cur().used_ops.add(op)
    da, db = dt_of(a), dt_of(b)
    if op in ("and", "or", "xor"):
        if da == "b" and db == "b":
            f = {"and": lambda x, y: AND(x, y), "or": lambda x, y: OR(x, y), "xor": lambda x, y: z3.Xor(B_(x), B_(y))}[op]
            return ew(lambda x, y: B_(f(x, y)), [a, b], out_dtype="b", compute="b")
        # integer flags: modelled for 0/1 values only (uint8 flags, A2)
        return ew(lambda x, y: _int_bit(op, x, y), [a, b], out_dtype=promote(da, db), compute="i")
    if op in ("lt", "le", "gt", "ge", "eq", "ne"):
        return ew(lambda x, y: B_(scalar_binop(op, x, y)), [a, b], out_dtype="b", compute=_cmp_dt(da, db))
    if op in ("truediv", "floordiv", "mod"):
        # divisor obligation emitted eagerly (elem closures are evaluated lazily)
        if T(b):
            bs = b.snap()
            if op == "truediv":
                wf_forall(b.shape, lambda I: zreal(bs(I)) != 0 if b.dtype == "f" else zint(bs(I)) != 0, "div-nonzero")
            elif b.dtype != "f":
                wf_forall(b.shape, lambda I: zint(bs(I)) > 0, op + "-positive-divisor")
        elif is_z3(b):
            cur().wf("div-nonzero" if op == "truediv" else op + "-positive-divisor", (b != 0) if op == "truediv" else (b > 0))
        elif b == 0:
            cur().wf("div-nonzero", False)
    if op == "truediv":
        return ew(lambda x, y: scalar_binop(op, x, y, wf=False), [a, b], out_dtype="f", compute="f")
    d = promote(da, db)
    if d == "b":
        if op in ("add",):
            return ew(lambda x, y: B_(OR(x, y)), [a, b], out_dtype="b", compute="b")
        if op in ("mul",):
            return ew(lambda x, y: B_(AND(x, y)), [a, b], out_dtype="b", compute="b")
        d = "i"
    return ew(lambda x, y: scalar_binop(op, x, y, wf=False), [a, b], out_dtype=d, compute=d)


def _cmp_dt(da, db):
    d = promote(da, db)
    return "i" if d == "b" else d


def B_(x):
    return z3.BoolVal(x) if isinstance(x, bool) else x


def _int_bit(op, x, y):
    # |, & on 0/1 integer flags
    bx, by = x != 0, y != 0
    r = {"and": z3.And, "or": z3.Or, "xor": z3.Xor}[op](bx, by)
    return z3.If(r, z3.IntVal(1), z3.IntVal(0))


def unop(op, a):
    if not T(a):
        if op == "neg":
            if isinstance(a, Inf):
                return -a
            return -a
        if op == "not":
            if is_z3(a):
                return z3.Not(zbool(a))
            return not a
        if op == "invert":
            if is_z3(a) and z3.is_bool(a):
                return z3.Not(a)
            if isinstance(a, bool):
                return not a
            return ~a
        if op == "abs":
            if is_z3(a):
                return z3.If(a >= 0, a, -a)
            return abs(a)
    if op == "neg":
        d = "i" if a.dtype == "b" else a.dtype
        return ew(lambda x: -x, [a], out_dtype=d, compute=d)
    if op == "invert":
        if a.dtype != "b":
            raise Unsupported("~ on non-bool tensor")
        return ew(lambda x: B_(NOT(x)), [a], out_dtype="b", compute="b")
    if op == "abs":
        return ew(lambda x: z3.If(x >= 0, x, -x), [a])
    raise Unsupported(f"unop {op}")


def to_dtype(a, d):
    if a.dtype == d:
        return ew(lambda x: x, [a])
    return ew(lambda x: cast(x, d), [a], out_dtype=d, compute=a.dtype)


# ----------------------------------------------------------------------------
# creation
# ----------------------------------------------------------------------------


def _shape_args(args):
    if len(args) == 1 and isinstance(args[0], (tuple, list)):
        args = tuple(args[0])
    out = []
    for a in args:
        if isinstance(a, (tuple, list)):
            out.extend(a)
        else:
            out.append(a)
    return tuple(simp_int(x) for x in out)


def full(shape, value, dtype=None):
    d = dtype_cls(dtype, scalar_dtype(value) if not isinstance(value, Inf) else "f")
    if T(value):
        if value.rank != 0:
            raise Unsupported("full with non-scalar tensor")
        value = value.at()
    if isinstance(value, Inf):
        value = _cast_like(value, d)          # torch.full(..., float("-inf")): the constant -INF (A1b)
    return const_tensor(tuple(shape), d, value)


def arange(*args, dtype=None):
    if len(args) == 1:
        lo, hi = 0, args[0]
    elif len(args) == 2:
        lo, hi = args
    else:
        raise Unsupported("arange with step")
    n = simp_int(scalar_binop("sub", hi, lo))
    d = dtype_cls(dtype, "i")
    lo_z = lo
    return mk((n,), d, lambda idx: cast(scalar_binop("add", lo_z, idx[0]), d), prov=("arange", lo))


# ----------------------------------------------------------------------------
# views
# ----------------------------------------------------------------------------


def _norm_slice_bound(ctx, s, n, default):
    if s is None:
        return default
    if T(s):
        if s.rank != 0:
            raise Unsupported("tensor slice bound")
        s = s.at()
    if isinstance(s, int):
        if s < 0:
            s = simp_int(scalar_binop("add", n, s))
            if isinstance(s, int) and s < 0:
                s = 0
        if isinstance(s, int) and isinstance(n, int):
            return min(s, n)
        if isinstance(s, int):
            # s >= 0 concrete, n symbolic: clamp to n
            if s == 0 or ctx.proves(zint(s) <= zint(n)):
                return s
            return simp_int(z3.If(zint(s) <= zint(n), zint(s), zint(n)))
    # symbolic
    s = zint(s)
    if ctx.proves(s < 0):
        s = zint(n) + s
    elif not ctx.proves(s >= 0):
        if ctx.decide(s < 0):
            s = zint(n) + s
    if not ctx.proves(s >= 0):
        s = z3.If(s < 0, 0, s)
    if not ctx.proves(s <= zint(n)):
        s = z3.If(s > zint(n), zint(n), s)
    return simp_int(s)


def getitem(t: SymTensor, index):
    ctx = cur()
    if not isinstance(index, tuple):
        index = (index,)
    # a one-element python list index [k] selects like the slice k:k+1 (keeps the dim)
    index = tuple(slice(i[0], i[0] + 1) if isinstance(i, list) and len(i) == 1 and isinstance(i[0], int) and i[0] >= 0 else i for i in index)
    if any(isinstance(i, list) and len(i) == 1 and is_z3(i[0]) for i in index):
        # the same with a symbolic position (e.g. the loop variable of `for i in range(n)`): non-negative by a WF obligation
        conv = []
        for i in index:
            if isinstance(i, list) and len(i) == 1 and is_z3(i[0]):
                ctx.wf("list-index-nonnegative", zint(i[0]) >= 0)
                conv.append(slice(i[0], simp_add(i[0], 1)))
            else:
                conv.append(i)
        index = tuple(conv)
    if any(isinstance(i, list) for i in index):
        # a python list of integers indexes like an integer tensor
        conv = []
        for i in index:
            if isinstance(i, list):
                if not all(isinstance(x, int) or is_z3(x) for x in i):
                    raise Unsupported("list index with non-integer entries")
                vals = [zint(x) for x in i]
                conv.append(mk((len(vals),), "i", lambda I, vals=vals: vals[I[0]] if isinstance(I[0], int) else _select(vals, I[0])))
            else:
                conv.append(i)
        index = tuple(conv)
    # advanced indexing?
    has_tensor = any(T(i) for i in index)
    if has_tensor:
        return _adv_getitem(t, index)
    # expand Ellipsis
    n_real = sum(1 for i in index if i is not None and i is not Ellipsis)
    if any(i is Ellipsis for i in index):
        k = [j for j, i in enumerate(index) if i is Ellipsis]
        if len(k) > 1:
            raise Unsupported("multiple Ellipsis")
        fill = t.rank - n_real
        index = index[: k[0]] + (slice(None),) * fill + index[k[0] + 1:]
    else:
        index = index + (slice(None),) * (t.rank - n_real)
    if sum(1 for i in index if i is not None) != t.rank:
        raise Unsupported(f"too many indices for tensor of rank {t.rank}")
    # plan: for each base dim, either ('int', k) or ('slice', start, len); new dims list
    plan = []  # per output dim: ('new',) or ('slice', base_dim, start)
    base_plan = []  # per base dim: ('int', k) | ('slice', start, stop, outpos)
    shape = []
    bd = 0
    for it in index:
        if it is None:
            plan.append(("new",))
            shape.append(1)
            continue
        n = t.shape[bd]
        if isinstance(it, slice):
            if it.step not in (None, 1):
                raise Unsupported("slice step")
            start = _norm_slice_bound(ctx, it.start, n, 0)
            stop = _norm_slice_bound(ctx, it.stop, n, n)
            ln = simp_int(scalar_binop("sub", stop, start))
            if isinstance(ln, int):
                ln = max(ln, 0)
            elif not ctx.proves(zint(ln) >= 0):
                ln = simp_int(z3.If(zint(ln) >= 0, zint(ln), 0))
            base_plan.append(("slice", start, stop, len(plan)))
            plan.append(("slice", bd, start))
            shape.append(ln)
        else:
            k = it
            if T(k):
                k = k.at()
            if isinstance(k, int):
                if k < 0:
                    k = simp_int(scalar_binop("add", n, k))
                if isinstance(k, int) and isinstance(n, int) and not (0 <= k < n):
                    ctx.wf(f"index {k} in range {n}", False)
                elif not isinstance(n, int) or not isinstance(k, int):
                    ctx.wf("index-in-range", AND(zint(k) >= 0, zint(k) < zint(n)))
            else:
                k = zint(k)
                ctx.wf("index-in-range", AND(k >= 0, k < zint(n)))
            base_plan.append(("int", k))
        bd += 1

    def fwd(idx, plan=plan, base_plan=base_plan):
        out = []
        for bp in base_plan:
            if bp[0] == "int":
                out.append(bp[1])
            else:
                _, start, _stop, pos = bp
                i = idx[pos]
                out.append(simp_add(start, i))
        return tuple(out)

    def inv(J, plan=plan, base_plan=base_plan):
        conds = []
        idx = [0] * len(plan)
        for j, bp in zip(J, base_plan):
            if bp[0] == "int":
                conds.append(eqv(j, bp[1]))
            else:
                _, start, stop, pos = bp
                conds.append(AND(lev(start, j), ltv(j, stop)))
                idx[pos] = simp_sub(j, start)
        return AND(*conds), tuple(idx)

    return SymTensor(tuple(shape), t.dtype, base=t, fwd=fwd, inv=inv)


def _select(vals, i):
    r = vals[-1]
    for k in range(len(vals) - 2, -1, -1):
        r = z3.If(zint(i) == k, vals[k], r)
    return r


def simp_add(a, b):
    if isinstance(a, int) and isinstance(b, int):
        return a + b
    if isinstance(a, int) and a == 0:
        return b
    if isinstance(b, int) and b == 0:
        return a
    return simp_int(zint(a) + zint(b))


def simp_sub(a, b):
    if isinstance(a, int) and isinstance(b, int):
        return a - b
    if isinstance(b, int) and b == 0:
        return a
    return simp_int(zint(a) - zint(b))


def eqv(a, b):
    if isinstance(a, int) and isinstance(b, int):
        return a == b
    return zint(a) == zint(b)


def lev(a, b):
    if isinstance(a, int) and isinstance(b, int):
        return a <= b
    return zint(a) <= zint(b)


def ltv(a, b):
    if isinstance(a, int) and isinstance(b, int):
        return a < b
    return zint(a) < zint(b)


def _adv_getitem(t, index):
    """Integer-tensor (and full-slice) advanced indexing -> copy."""
    ctx = cur()
    if any(i is None or i is Ellipsis for i in index):
        # allow trailing Ellipsis only
        if index[-1] is Ellipsis and not any(i is None or i is Ellipsis for i in index[:-1]):
            index = index[:-1]
        else:
            raise Unsupported("advanced indexing mixed with None/Ellipsis")
    # single boolean mask: data dependent shape
    if any(T(i) and i.dtype == "b" for i in index):
        full = lambda i: isinstance(i, slice) and i.start is None and i.stop is None and i.step is None
        if T(index[0]) and index[0].dtype == "b" and index[0].rank <= t.rank and all(full(i) for i in index[1:]):
            # x[mask] and x[mask, :, ...]: the rows selected by the mask
            from .methods import MaskedSel

            return MaskedSel(t, index[0])
        raise Unsupported("boolean-mask getitem (data-dependent shape)")
    index = tuple(index) + (slice(None),) * (t.rank - len(index))
    tens_pos = [k for k, i in enumerate(index) if T(i) or isinstance(i, int) or (is_z3(i))]
    only_t = [k for k, i in enumerate(index) if T(i)]
    for k, i in enumerate(index):
        if isinstance(i, slice) and not (i.start is None and i.stop is None and i.step is None):
            raise Unsupported("advanced indexing with partial slices")
    # contiguity rule for placement
    contiguous = tens_pos == list(range(tens_pos[0], tens_pos[-1] + 1))
    tlist = [index[k] for k in only_t]
    bshape = broadcast_shapes(ctx, [x.shape for x in tlist])
    for k in only_t:
        _wf_index_range(index[k], t.shape[k], f"advidx-dim{k}")
    snaps = {k: (index[k].snap(), index[k].shape) for k in only_t}
    slice_dims = [k for k, i in enumerate(index) if isinstance(i, slice)]
    if contiguous:
        first = tens_pos[0]
        pre = [k for k in slice_dims if k < first]
        post = [k for k in slice_dims if k > first]
        shape = tuple(t.shape[k] for k in pre) + bshape + tuple(t.shape[k] for k in post)
    else:
        pre, post = [], slice_dims
        shape = bshape + tuple(t.shape[k] for k in post)
    src = t.snap()
    nb = len(bshape)

    def elem(idx):
        pi = idx[: len(pre)]
        bi = idx[len(pre): len(pre) + nb]
        po = idx[len(pre) + nb:]
        J = [None] * t.rank
        for k, v in zip(pre, pi):
            J[k] = v
        for k, v in zip(post, po):
            J[k] = v
        for k in tens_pos:
            it = index[k]
            if T(it):
                s, shp = snaps[k]
                J[k] = s(bidx(bi, shp, nb))
            else:
                J[k] = it
        return src(tuple(J))

    return mk(shape, t.dtype, elem, grad=grad_of(t))


def _wf_index_range(idx_t, n, what):
    ctx = cur()
    if idx_t.dtype != "i":
        raise Unsupported("non-integer index tensor")
    wf_forall(idx_t.shape, lambda I, s=idx_t.snap(): AND(zint(s(I)) >= 0, zint(s(I)) < zint(n)), what)


def wf_forall(shape, cond_fn, what):
    """Oblige cond for every index of shape; then assume it universally."""
    ctx = cur()
    names = [f"w{d}" for d in range(len(shape))]
    vs = []
    I = []
    rng = []
    for d, n in enumerate(shape):
        if isinstance(n, int) and n == 1:
            I.append(0)
            continue
        v = ctx.fresh_int(names[d])
        vs.append(v)
        I.append(v)
        rng.append(z3.And(v >= 0, v < zint(n)))
    c = cond_fn(tuple(I))
    if isinstance(c, bool) and c:
        return
    goal = IMPL(AND(*rng), c)
    loc = ctx.loc or "?"
    head, _, detail = what.partition(" ")
    ctx.oblige(f"wf:{loc}:{head}", goal, kind="wf", note=detail)
    fin = _finite_conj(shape, cond_fn)
    if fin is not None:
        ctx.assume(fin)
    elif vs:
        body = B_(goal)
        ctx.assume(z3.ForAll(vs, body))
    else:
        ctx.assume(B_(goal))


def _finite_conj(shape, cond_fn, limit=64):
    """Concrete small shape: the universal fact as a finite (quantifier-free) conjunction, else None."""
    if not all(isinstance(n, int) for n in shape):
        return None
    tot = 1
    for n in shape:
        tot *= max(n, 0)
    if tot > limit:
        return None
    import itertools as it

    cs = [cond_fn(tuple(I)) for I in it.product(*[range(n) for n in shape])]
    cs = [c for c in cs if not (isinstance(c, bool) and c)]
    return B_(AND(*cs)) if cs else z3.BoolVal(True)


def assume_forall(shape, cond_fn):
    ctx = cur()
    fin = _finite_conj(shape, cond_fn)
    if fin is not None:
        ctx.assume(fin)
        return
    vs, I, rng = [], [], []
    for d, n in enumerate(shape):
        if isinstance(n, int) and n == 1:
            I.append(0)
            continue
        v = ctx.fresh_int(f"a{d}")
        vs.append(v)
        I.append(v)
        rng.append(z3.And(v >= 0, v < zint(n)))
    c = IMPL(AND(*rng), cond_fn(tuple(I)))
    if isinstance(c, bool):
        return
    ctx.assume(z3.ForAll(vs, c) if vs else c)


def setitem(t: SymTensor, index, value):
    ctx = cur()
    if not isinstance(index, tuple):
        index = (index,)
    # boolean mask write: t[mask] = v
    if len(index) == 1 and T(index[0]) and index[0].dtype == "b":
        m = index[0]
        if m.rank > t.rank:
            raise Unsupported("mask rank > tensor rank")
        for a, b in zip(m.shape, t.shape):
            if not ctx.same(a, b):
                ctx.wf("mask-shape", zint(a) == zint(b))
        ms = m.snap()
        mr = m.rank
        if type(value).__name__ == "MaskedSel":
            # x[mask] = y[mask]: rows selected by the same mask are copied from y (values, not storage)
            if value.mask is not m:
                raise Unsupported("masked assignment from a selection with a different mask")
            ys = value.t.snap()
            if value.t.rank != t.rank:
                raise Unsupported("masked assignment: rank mismatch")
            for a_, b_ in zip(value.t.shape, t.shape):
                if not ctx.same(a_, b_):
                    ctx.wf("masked-assign-shape", zint(a_) == zint(b_))
            t.write(lambda idx, old: ite(ms(idx[:mr]), cast(ys(idx), t.dtype), old))
            return
        if T(value):
            if value.rank != 0:
                raise Unsupported("masked assignment of a non-scalar tensor (data-dependent)")
            v = value.at()
        else:
            v = value
        t.write(lambda idx, old: ite(ms(idx[:mr]), _cast_like(v, t.dtype), old))
        return
    full_ = lambda i: isinstance(i, slice) and i.start is None and i.stop is None and i.step is None
    if any(i is Ellipsis for i in index) and sum(1 for i in index if i is Ellipsis) == 1:
        e_ = list(index).index(Ellipsis)
        index = tuple(index[:e_]) + (slice(None),) * (t.rank - (len(index) - 1)) + tuple(index[e_ + 1:])
    tpos = [k for k, i in enumerate(index) if T(i)]
    is_ar = lambda i: T(i) and i.rank == 1 and i.prov and i.prov[0] == "arange" and isinstance(i.prov[1], int) and i.prov[1] == 0
    if (len(tpos) == 2 and tpos == [t.rank - 2, t.rank - 1] and len(index) == t.rank and all(full_(i) for i in index[:-2])
            and is_ar(index[-2]) and is_ar(index[-1]) and (not T(value) or value.rank == 0)):
        # t[..., arange(n), arange(n)] = scalar: the first n diagonal entries of the last two dims
        n1, n2 = index[-2].shape[0], index[-1].shape[0]
        if not ctx.same(n1, n2):
            ctx.wf("diag-index-lengths", zint(n1) == zint(n2))
        ctx.wf("diag-index-in-range", AND(zint(n1) <= zint(t.shape[-2]), zint(n1) <= zint(t.shape[-1])))
        v = value.at() if T(value) else value
        t.write(lambda J, old: ite(AND(eqv(J[-2], J[-1]), zint(J[-1]) < zint(n1)), _cast_like(v, t.dtype), old))
        return
    if (len(tpos) == 1 and all(full_(i) for k, i in enumerate(index) if k != tpos[0]) and index[tpos[0]].dtype == "i" and index[tpos[0]].rank <= 1
            and (index[tpos[0]].rank == 0 or isinstance(index[tpos[0]].shape[0], int)) and (not T(value) or value.rank == 0)):
        # t[:, idx, ...] = scalar with a short index tensor: the whole slices at the listed positions are overwritten
        k, it = tpos[0], index[tpos[0]]
        cnt = 1 if it.rank == 0 else it.shape[0]
        if cnt <= 32:
            its = it.snap()
            pos = [its(()) if it.rank == 0 else its((q,)) for q in range(cnt)]
            for q, pv in enumerate(pos):
                ctx.wf(f"setitem-index{q}-in-range", AND(zint(pv) >= -zint(t.shape[k]), zint(pv) < zint(t.shape[k])))
            v = value.at() if T(value) else value
            n_k = t.shape[k]
            hit = lambda J: OR(*[OR(eqv(J[k], pv), eqv(J[k], zint(pv) + zint(n_k))) for pv in pos]) if pos else False
            t.write(lambda J, old: ite(hit(J), _cast_like(v, t.dtype), old))
            return
    if any(T(i) for i in index):
        return _adv_setitem(t, index, value)
    view = getitem(t, index)
    assign(view, value)


def _cast_like(v, dt):
    if isinstance(v, Inf):
        # x[mask] = +/-inf: the same treatment as masked_fill / where (A1b: the literal is the constant INF, compared only)
        if dt != "f":
            raise Unsupported("writing inf into a non-float tensor")
        uses_inf()
        return inf_value(v)
    return cast(v, dt)


def assign(view: SymTensor, value):
    """view[...] = value with broadcasting of value to view.shape."""
    ctx = cur()
    if T(value):
        vs = value.snap()
        vshape = value.shape
        rank = view.rank
        if len(vshape) > rank:
            # leading 1 dims allowed
            extra = len(vshape) - rank
            if not all(isinstance(d, int) and d == 1 for d in vshape[:extra]):
                raise Unsupported("assign: value rank too large")
            vs0 = vs
            vs = lambda idx, vs0=vs0, extra=extra: vs0((0,) * extra + tuple(idx))
            vshape = vshape[extra:]
        # check broadcastability to view.shape
        for k in range(1, len(vshape) + 1):
            a, b = vshape[-k], view.shape[-k]
            if isinstance(a, int) and a == 1:
                continue
            if not ctx.same(a, b):
                ctx.wf("assign-shape", zint(a) == zint(b))
        view.write(lambda idx, old: vs(bidx(idx, vshape, rank)))
    else:
        view.write(lambda idx, old: _cast_like(value, view.dtype))


def _adv_setitem(t, index, value, accumulate=None):
    """t[idx0, idx1, ...] = value for integer index tensors.

    Supported when the write is injective along the first index being an
    arange over dim 0 (the `x[rng, a] = v` idiom): element (b, a[b]) gets v[b].
    """
    ctx = cur()
    if not all(T(i) or (isinstance(i, int) and not isinstance(i, bool)) for i in index) or not T(index[0]):
        raise Unsupported("advanced setitem with mixed indices")
    if len(index) != t.rank:
        raise Unsupported("advanced setitem must index all dims")
    first = index[0]
    if not (first.prov and first.prov[0] == "arange" and isinstance(first.prov[1], int) and first.prov[1] == 0):
        raise Unsupported("advanced setitem: first index must be arange(0, n)")
    if not ctx.same(first.shape[0], t.shape[0]):
        ctx.wf("advset-arange-len", zint(first.shape[0]) == zint(t.shape[0]))
    others = index[1:]
    osn = []
    for k, o in enumerate(others):
        if isinstance(o, int):
            # a plain integer position (negative = from the end) broadcasts against the index tensors
            pos = o if o >= 0 else simp_add(t.shape[k + 1], o)
            ctx.wf(f"advset-dim{k + 1}-int-in-range", AND(zint(pos) >= 0, zint(pos) < zint(t.shape[k + 1])))
            osn.append(lambda I, pos=pos: pos)
            continue
        if o.rank != 1:
            raise Unsupported("advanced setitem index rank")
        _wf_index_range(o, t.shape[k + 1], f"advset-dim{k + 1}")
        osn.append(o.snap())
    if T(value):
        vs = value.snap()
        vshape = value.shape
        val = lambda b: vs(bidx((b,), vshape, 1))
    else:
        val = lambda b: value

    def fn(J, old):
        b = J[0]
        c = AND(*[eqv(J[k + 1], s((b,))) for k, s in enumerate(osn)])
        v = val(b)
        if accumulate == "add":
            v = scalar_binop("add", old, v)
        elif accumulate == "sub":
            v = scalar_binop("sub", old, v)
        return ite(c, cast(v, t.dtype), old)

    t.write(fn)


def unsqueeze(t, dim):
    d = dim if dim >= 0 else dim + t.rank + 1
    idx = [slice(None)] * t.rank
    idx.insert(d, None)
    return getitem(t, tuple(idx))


def squeeze(t, dim=None):
    ctx = cur()
    if dim is None:
        keep = []
        for d, n in enumerate(t.shape):
            if isinstance(n, int):
                if n != 1:
                    keep.append(d)
            else:
                # data-independent but size-dependent: case split on n == 1
                if ctx.decide(zint(n) == 1):
                    continue
                keep.append(d)
        idx = tuple(slice(None) if d in keep else 0 for d in range(t.rank))
        return getitem(t, idx) if len(keep) != t.rank else t
    if isinstance(dim, (tuple, list)):
        r = t
        for d in sorted([norm_dim(x, t.rank) for x in dim], reverse=True):
            r = squeeze(r, d)
        return r
    if t.rank == 0:
        return t
    d = norm_dim(dim, t.rank)
    n = t.shape[d]
    is1 = (n == 1) if isinstance(n, int) else ctx.decide(zint(n) == 1)
    if not is1:
        return t
    idx = tuple(0 if k == d else slice(None) for k in range(t.rank))
    return getitem(t, idx)


def expand(t, *sizes):
    ctx = cur()
    sizes = _shape_args(sizes)
    if len(sizes) < t.rank:
        raise Unsupported("expand to fewer dims")
    off = len(sizes) - t.rank
    shape = []
    expanded = []
    for k, s in enumerate(sizes):
        if k < off:
            if isinstance(s, int) and s == -1:
                raise Unsupported("expand -1 on new dim")
            shape.append(s)
            expanded.append(k)
            continue
        n = t.shape[k - off]
        if isinstance(s, int) and s == -1:
            shape.append(n)
        elif isinstance(n, int) and n == 1:
            shape.append(s)
            if not (isinstance(s, int) and s == 1):
                expanded.append(k)
        else:
            if not ctx.same(n, s):
                ctx.wf("expand-size", zint(n) == zint(s))
            shape.append(n)
    tshape = t.shape

    def fwd(idx):
        out = []
        for k, n in enumerate(tshape):
            if (k + off) in expanded:
                out.append(0)
            else:
                out.append(idx[k + off])
        return tuple(out)

    r = SymTensor(tuple(shape), t.dtype, base=t, fwd=fwd, inv=None, prov=("expand", tuple(expanded)))
    return r


def permute(t, *dims):
    dims = _shape_args(dims)
    dims = [norm_dim(d, t.rank) for d in dims]
    if sorted(dims) != list(range(t.rank)):
        raise Unsupported("bad permutation")
    shape = tuple(t.shape[d] for d in dims)

    def fwd(idx):
        J = [None] * len(dims)
        for k, d in enumerate(dims):
            J[d] = idx[k]
        return tuple(J)

    def inv(J):
        return True, tuple(J[d] for d in dims)

    return SymTensor(shape, t.dtype, base=t, fwd=fwd, inv=inv)


def transpose(t, d0, d1):
    d0, d1 = norm_dim(d0, t.rank), norm_dim(d1, t.rank)
    p = list(range(t.rank))
    p[d0], p[d1] = p[d1], p[d0]
    return permute(t, *p)


def _prod(xs):
    r = 1
    for x in xs:
        r = simp_int(scalar_binop("mul", r, x))
    return r


def reshape(t, *sizes):
    """view/reshape. 1-dims may be added/removed freely; otherwise flat-index remap."""
    ctx = cur()
    sizes = list(_shape_args(sizes))
    # resolve -1
    if any(isinstance(s, int) and s == -1 for s in sizes):
        k = [j for j, s in enumerate(sizes) if isinstance(s, int) and s == -1]
        if len(k) > 1:
            raise Unsupported("multiple -1 in view")
        rest = _prod([s for j, s in enumerate(sizes) if j != k[0]])
        tot = _prod(t.shape)
        sizes[k[0]] = _exact_div(ctx, tot, rest)
    sizes = tuple(sizes)
    # fast path: same non-1 dims in order
    a = [s for s in t.shape if not (isinstance(s, int) and s == 1)]
    b = [s for s in sizes if not (isinstance(s, int) and s == 1)]
    if len(a) == len(b) and all(ctx.same(x, y) for x, y in zip(a, b)):
        src_pos = [k for k, s in enumerate(t.shape) if not (isinstance(s, int) and s == 1)]
        dst_pos = [k for k, s in enumerate(sizes) if not (isinstance(s, int) and s == 1)]
        tr = t.rank

        def fwd(idx):
            J = [0] * tr
            for sp, dp in zip(src_pos, dst_pos):
                J[sp] = idx[dp]
            return tuple(J)

        def inv(J):
            idx = [0] * len(sizes)
            for sp, dp in zip(src_pos, dst_pos):
                idx[dp] = J[sp]
            return True, tuple(idx)

        return SymTensor(sizes, t.dtype, base=t, fwd=fwd, inv=inv)
    # dimension-wise alignment: groups of adjacent dims merged / one dim split (the view idioms of the code)
    plan = _align_shapes(ctx, t.shape, sizes)
    if plan is not None:
        ashape = t.shape

        def fwd(idx, plan=plan):
            J = [None] * len(ashape)
            for olds, news in plan:
                # flat index of the group from the new indices
                flat = 0
                for k in news:
                    flat = simp_add(simp_int(scalar_binop("mul", flat, sizes[k], wf=False)), idx[k])
                # decompose over the old dims of the group
                rem = flat
                for pos, k in enumerate(reversed(olds)):
                    n = ashape[k]
                    if pos == len(olds) - 1:
                        J[k] = rem
                    else:
                        J[k] = simp_int(scalar_binop("mod", rem, n, wf=False))
                        rem = simp_int(scalar_binop("floordiv", rem, n, wf=False))
            return tuple(J)

        def inv(J, plan=plan):
            idx = [None] * len(sizes)
            for olds, news in plan:
                flat = 0
                for k in olds:
                    flat = simp_add(simp_int(scalar_binop("mul", flat, ashape[k], wf=False)), J[k])
                rem = flat
                for pos, k in enumerate(reversed(news)):
                    n = sizes[k]
                    if pos == len(news) - 1:
                        idx[k] = rem
                    else:
                        idx[k] = simp_int(scalar_binop("mod", rem, n, wf=False))
                        rem = simp_int(scalar_binop("floordiv", rem, n, wf=False))
            return True, tuple(idx)

        return SymTensor(sizes, t.dtype, base=t, fwd=fwd, inv=inv, prov=("reshape",))
    # general: element counts must agree
    tot_a, tot_b = _prod(t.shape), _prod(sizes)
    if not ctx.same(tot_a, tot_b):
        ctx.wf("view-numel", zint(tot_a) == zint(tot_b))
    ashape = t.shape

    def fwd(idx):
        flat = 0
        for i, n in zip(idx, sizes):
            flat = simp_add(simp_int(scalar_binop("mul", flat, n, wf=False)), i)
        J = []
        rem = flat
        for k in range(len(ashape) - 1, -1, -1):
            n = ashape[k]
            if k == 0:
                J.append(rem)
            else:
                J.append(simp_int(scalar_binop("mod", rem, n, wf=False)) if not (isinstance(n, int) and n == 1) else 0)
                rem = simp_int(scalar_binop("floordiv", rem, n, wf=False)) if not (isinstance(n, int) and n == 1) else rem
        return tuple(reversed(J))

    return SymTensor(sizes, t.dtype, base=t, fwd=fwd, inv=None, prov=("reshape",))


def _align_shapes(ctx, old, new):
    """Partition both shapes into aligned groups with equal products where each group has a single
    dim on at least one side. Returns [(old_dim_indices, new_dim_indices)] or None."""
    i = j = 0
    plan = []
    while i < len(old) or j < len(new):
        if i < len(old) and j < len(new) and ctx.same(old[i], new[j]):
            plan.append(([i], [j]))
            i += 1
            j += 1
            continue
        # try merge: new[j] == old[i] * old[i+1] * ...
        done = False
        if j < len(new):
            prod = 1
            for e in range(i, len(old)):
                prod = simp_int(scalar_binop("mul", prod, old[e], wf=False))
                if e > i and ctx.same(prod, new[j]):
                    plan.append((list(range(i, e + 1)), [j]))
                    i, j = e + 1, j + 1
                    done = True
                    break
        if done:
            continue
        if i < len(old):
            prod = 1
            for e in range(j, len(new)):
                prod = simp_int(scalar_binop("mul", prod, new[e], wf=False))
                if e > j and ctx.same(prod, old[i]):
                    plan.append(([i], list(range(j, e + 1))))
                    i, j = i + 1, e + 1
                    done = True
                    break
        if done:
            continue
        # 1-dims may be skipped on either side
        if i < len(old) and isinstance(old[i], int) and old[i] == 1:
            plan.append(([i], []))
            i += 1
            continue
        if j < len(new) and isinstance(new[j], int) and new[j] == 1:
            plan.append(([], [j]))
            j += 1
            continue
        return None
    # groups with an empty side: fix indices to 0
    out = []
    for olds, news in plan:
        if not olds or not news:
            out.append((olds, news))
        else:
            out.append((olds, news))
    return out


def _exact_div(ctx, a, b):
    if isinstance(a, int) and isinstance(b, int):
        if b == 0 or a % b:
            ctx.wf("view -1 divisibility", False)
        return a // b
    # try syntactic: a = b * q
    q = ctx.fresh_int("q")
    # find q by simplification of a / b when b divides structurally
    s = z3.simplify(zint(a) / zint(b))
    if ctx.proves(s * zint(b) == zint(a)):
        return simp_int(s)
    raise Unsupported(f"cannot resolve -1 in view: {a} / {b}")


def flatten(t, start=0, end=-1):
    s, e = norm_dim(start, t.rank), norm_dim(end, t.rank)
    sizes = t.shape[:s] + (_prod(t.shape[s: e + 1]),) + t.shape[e + 1:]
    return reshape(t, *sizes)


# ----------------------------------------------------------------------------
# gather / scatter
# ----------------------------------------------------------------------------


def gather(src, dim, idx):
    ctx = cur()
    ctx.used_ops.add("gather")
    d = norm_dim(dim, src.rank)
    if idx.rank != src.rank:
        ctx.wf(f"gather-rank src={src.rank} idx={idx.rank}", False)
    for k in range(src.rank):
        if k != d and not ctx.same(idx.shape[k], src.shape[k]):
            ctx.wf(f"gather-size dim{k}", zint(idx.shape[k]) <= zint(src.shape[k]))
    n = src.shape[d]
    isn = idx.snap()
    wf_forall(idx.shape, lambda I: AND(zint(isn(I)) >= 0, zint(isn(I)) < zint(n)), "gather-index-range")
    ss = src.snap()

    def elem(I):
        J = list(I)
        J[d] = isn(I)
        return ss(tuple(J))

    return mk(idx.shape, src.dtype, elem, grad=grad_of(src))


def _expanded_along(t, d):
    return t.prov is not None and t.prov[0] == "expand" and d in t.prov[1]


def scatter(src, dim, idx, val, mode="set", inplace=False):
    ctx = cur()
    ctx.used_ops.add("scatter" if mode == "set" else "scatter_add")
    d = norm_dim(dim, src.rank)
    if idx.rank != src.rank:
        ctx.wf(f"scatter-rank src={src.rank} idx={idx.rank}", False)
    K = idx.shape[d]
    single = (isinstance(K, int) and K == 1) or _expanded_along(idx, d)
    if (not single and mode == "set" and idx.prov and idx.prov[0] == "sortidx" and idx.prov[1]["dim"] == d
            and all(ctx.same(a, b) for a, b in zip(idx.shape, src.shape)) and (not T(val) or all(ctx.same(a, b) for a, b in zip(val.shape, src.shape)))):
        # scattering along the permutation returned by torch.sort: every position j is written exactly once, by the source
        # element at the inverse permutation Q(j) (assumed sort contract: the indices are a bijection with inverse Q)
        Qf = idx.prov[1]["Q"]
        if T(val):
            vs_ = val.snap()
            newf = lambda J: cast(vs_(tuple(J[:d]) + (Qf(*[zint(x) for x in J]),) + tuple(J[d + 1:])), src.dtype)
        else:
            newf = lambda J: cast(val, src.dtype)
        if inplace:
            src.write(lambda J, old: newf(J))
            return src
        return mk(src.shape, src.dtype, newf, grad=grad_of(src, val))
    if not single and mode == "set" and not isinstance(K, int):
        raise Unsupported("scatter with symbolic index count along dim")
    if not single and mode == "add" and not isinstance(K, int):
        raise Unsupported("scatter_add with symbolic index count along dim")
    n = src.shape[d]
    isn = idx.snap()
    wf_forall(idx.shape, lambda I: AND(zint(isn(I)) >= 0, zint(isn(I)) < zint(n)), "scatter-index-range")
    if T(val):
        if val.rank != idx.rank:
            ctx.wf("scatter-src-rank", False)
        for k in range(idx.rank):
            if not ctx.same(val.shape[k], idx.shape[k]):
                ctx.wf(f"scatter-src-size dim{k}", zint(idx.shape[k]) <= zint(val.shape[k]))
        vsn = val.snap()
        valf = lambda I: vsn(I)
    else:
        valf = lambda I: val
    partial = []
    for k in range(src.rank):
        if k != d and not ctx.same(idx.shape[k], src.shape[k]):
            ctx.wf(f"scatter-size dim{k}", zint(idx.shape[k]) <= zint(src.shape[k]))
            partial.append(k)
    ss = src.snap()
    ks = [0] if single else list(range(K))
    dt = src.dtype
    ishape = idx.shape

    def new(J, old):
        r = old
        inreg = AND(*[ltv(J[k], ishape[k]) for k in partial])
        for k in ks:
            I = list(J)
            I[d] = k
            I = tuple(I)
            hit = AND(inreg, eqv(isn(I), J[d]))
            v = cast(valf(I), dt)
            if mode == "add":
                r = ite(hit, scalar_binop("add", r, v), r)
            else:
                r = ite(hit, v, r)
        return r

    if inplace:
        src.write(new)
        return src
    out = mk(src.shape, dt, lambda J: new(J, ss(J)), grad=grad_of(src, val))
    if single and not partial:
        out.prov = ("scatter", src, d, idx, val, mode)
    return out


# ----------------------------------------------------------------------------
# joins
# ----------------------------------------------------------------------------


def cat(tensors, dim=0):
    ctx = cur()
    ctx.used_ops.add("cat")
    tensors = [t for t in tensors]
    if not tensors:
        raise Unsupported("cat of nothing")
    rank = tensors[0].rank
    d = norm_dim(dim, rank)
    for t in tensors[1:]:
        if t.rank != rank:
            ctx.wf("cat-rank", False)
        for k in range(rank):
            if k != d and not ctx.same(t.shape[k], tensors[0].shape[k]):
                ctx.wf(f"cat-size dim{k}: {t.shape[k]} vs {tensors[0].shape[k]}", zint(t.shape[k]) == zint(tensors[0].shape[k]))
    dt = promote(*[t.dtype for t in tensors])
    sizes = [t.shape[d] for t in tensors]
    offs = [0]
    for s in sizes:
        offs.append(simp_int(scalar_binop("add", offs[-1], s)))
    shape = list(tensors[0].shape)
    shape[d] = offs[-1]
    snaps = [t.snap() for t in tensors]
    tdts = [t.dtype for t in tensors]

    def elem(I):
        i = I[d]
        r = None
        last = len(tensors) - 1
        for k in range(last, -1, -1):
            c = True if k == last else ltv(i, offs[k + 1])
            if isinstance(c, bool) and not c:
                continue
            J = list(I)
            J[d] = simp_sub(i, offs[k])
            v = cast(snaps[k](tuple(J)), dt)
            if isinstance(c, bool) or r is None:
                r = v
            else:
                r = ite(c, v, r)
        return r

    return mk(tuple(shape), dt, elem, grad=grad_of(*tensors))


def stack(tensors, dim=0):
    tensors = list(tensors)
    rank = tensors[0].rank + 1
    d = norm_dim(dim, rank)
    return cat([unsqueeze(t, d) for t in tensors], d)


def roll(t, shifts, dims):
    ctx = cur()
    if isinstance(dims, (tuple, list)):
        if len(dims) != 1:
            raise Unsupported("roll over several dims")
        dims = dims[0]
        shifts = shifts[0] if isinstance(shifts, (tuple, list)) else shifts
    d = norm_dim(dims, t.rank)
    n = t.shape[d]
    s = t.snap()
    sh = simp_int(shifts)

    def elem(I):
        i = I[d]
        J = list(I)
        if isinstance(sh, int) and sh == -1:
            j = simp_add(i, 1)
            c = ltv(j, n)
            J[d] = ite(c, j, 0) if not isinstance(c, bool) else (j if c else 0)
        elif isinstance(sh, int) and sh == 1:
            c = lev(1, i)
            J[d] = ite(c, simp_sub(i, 1), simp_sub(n, 1)) if not isinstance(c, bool) else (simp_sub(i, 1) if c else simp_sub(n, 1))
        else:
            J[d] = zint(simp_sub(i, sh)) % zint(n)
        return s(tuple(J))

    return mk(t.shape, t.dtype, elem, grad=grad_of(t))


def pad(t, padding, mode="constant", value=0):
    if mode != "constant":
        raise Unsupported("pad mode")
    padding = tuple(padding)
    if len(padding) % 2:
        raise Unsupported("pad spec")
    r = t
    for k in range(len(padding) // 2):
        l, rr = padding[2 * k], padding[2 * k + 1]
        d = t.rank - 1 - k
        pieces = []
        if not (isinstance(l, int) and l == 0):
            shp = list(r.shape)
            shp[d] = l
            pieces.append(const_tensor(tuple(shp), r.dtype, value))
        pieces.append(r)
        if not (isinstance(rr, int) and rr == 0):
            shp = list(r.shape)
            shp[d] = rr
            pieces.append(const_tensor(tuple(shp), r.dtype, value))
        r = cat(pieces, d) if len(pieces) > 1 else r
    return r


# ----------------------------------------------------------------------------
# reductions
# ----------------------------------------------------------------------------

UNROLL_LIMIT = 8


def reduce(kind, t, dim=None, keepdim=False, label=""):
    ctx = cur()
    ctx.used_ops.add(kind)
    if dim is None:
        dims = list(range(t.rank))
    elif isinstance(dim, (tuple, list)):
        dims = sorted(norm_dim(d, t.rank) for d in dim)
    else:
        dims = [norm_dim(dim, t.rank)]
    outer_dims = [d for d in range(t.rank) if d not in dims]
    ns = [t.shape[d] for d in dims]
    outer_shape = tuple(t.shape[d] for d in outer_dims)
    s = t.snap()
    in_dt = t.dtype
    if kind in ("any", "all"):
        out_dt = "b"
        conv = lambda v: zbool(v)
    elif kind in ("sum",):
        out_dt = "i" if in_dt in ("b", "i") else "f"
        conv = lambda v: cast(v, out_dt)
    elif kind in ("max", "min"):
        out_dt = in_dt
        conv = lambda v: v
    elif kind in ("argmax", "argmin"):
        out_dt = "i"
        conv = (lambda v: cast(v, "i")) if in_dt == "b" else (lambda v: v)
    else:
        raise Unsupported(kind)

    def full_idx(outer, ks):
        J = [None] * t.rank
        for d, v in zip(outer_dims, outer):
            J[d] = v
        for d, v in zip(dims, ks):
            J[d] = v
        return tuple(J)

    body = lambda outer, ks: conv(s(full_idx(outer, ks)))
    concrete = all(isinstance(n, int) for n in ns)
    total = 1
    if concrete:
        for n in ns:
            total *= n
    if concrete and total <= UNROLL_LIMIT and kind not in ("argmax", "argmin"):
        import itertools as it

        def elem(outer):
            vals = [body(outer, ks) for ks in it.product(*[range(n) for n in ns])]
            if kind == "sum":
                r = cast(0, out_dt)
                for v in vals:
                    r = r + v
                return r
            if kind == "any":
                return B_(OR(*vals))
            if kind == "all":
                return B_(AND(*vals))
            if not vals:
                raise Unsupported("max of empty")
            r = vals[0]
            for v in vals[1:]:
                if out_dt == "b":
                    r = B_(OR(r, v)) if kind == "max" else B_(AND(r, v))
                else:
                    r = z3.If(v > r, v, r) if kind == "max" else z3.If(v < r, v, r)
            return r

        res = mk(outer_shape, out_dt, elem, grad=(out_dt == "f" and grad_of(t)))
    else:
        if kind in ("sum", "max", "min", "argmax", "argmin") and len(ns) > 1:
            # nest one dim at a time (last first)
            r = t
            for d in sorted(dims, reverse=True):
                r = reduce(kind, r, d, keepdim=False, label=label)
            res = r
            if keepdim:
                raise Unsupported("keepdim on multi-dim reduce")
            return res
        red = ctx.new_red(kind, ns, body, len(outer_shape), out_dt, label)
        if kind in ("max", "min", "argmax", "argmin"):
            ctx.wf(f"{kind}-nonempty", zint(ns[0]) >= 1)
        res = mk(outer_shape, out_dt, lambda outer: red.app(outer), prov=("red", red), grad=(out_dt == "f" and grad_of(t)))
        # provenance hint: sum of a point-update of another tensor
        if kind == "sum" and t.prov and t.prov[0] == "scatter" and t.prov[2] == dims[0]:
            red.hints.append(("point_update", t.prov))
    if keepdim:
        r = res
        for d in dims:
            r = unsqueeze(r, d)
        return r
    return res


def max_with_indices(t, dim, keepdim=False, kind="max"):
    v = reduce(kind, t, dim, keepdim)
    i = reduce("arg" + kind, t, dim, keepdim)
    # link (assumed contract of torch.max / torch.min with dim): the returned index attains the returned value,
    # values[o] == input[o, indices[o]] - stated once, quantified over the outer indices with the value as trigger,
    # so that "max == element at argmax" is a one-step fact instead of a consequence of two separate lemma families
    rv = v.prov[1] if (v.prov and v.prov[0] == "red") else None
    ri = i.prov[1] if (i.prov and i.prov[0] == "red") else None
    if rv is not None and ri is not None and rv.dtype != "b":
        ctx = cur()
        outs = [z3.Int(f"mxo_{rv.id}_{k}") for k in range(rv.outer_rank)]
        rng = [z3.And(o_ >= 0, o_ < zint(n_)) for o_, n_ in zip(outs, v.shape if not keepdim else [s_ for d_, s_ in enumerate(v.shape) if d_ != norm_dim(dim, t.rank)])]
        fact = z3.Implies(z3.And(*rng, zint(rv.ns[0]) >= 1) if rng else zint(rv.ns[0]) >= 1,
                          z3.And(ri.app(tuple(outs)) >= 0, ri.app(tuple(outs)) < zint(rv.ns[0]),
                                 rv.app(tuple(outs)) == rv.body(tuple(outs), (ri.app(tuple(outs)),))))
        ctx.assume(z3.ForAll(outs, fact, patterns=[rv.app(tuple(outs))]) if outs else fact)
    return MaxResult(v, i)


class MaxResult(tuple):
    def __new__(cls, values, indices):
        o = super().__new__(cls, (values, indices))
        return o

    @property
    def values(self):
        return self[0]

    @property
    def indices(self):
        return self[1]


def norm(t, p=2, dim=-1, keepdim=False):
    ctx = cur()
    ctx.used_ops.add("norm")
    if p not in (1, 2):
        raise Unsupported("norm p not in {1,2}")
    d = norm_dim(dim, t.rank)
    n = t.shape[d]
    if not isinstance(n, int):
        raise Unsupported("norm over symbolic dim")
    s = t.snap()
    outer_dims = [k for k in range(t.rank) if k != d]
    shape = tuple(t.shape[k] for k in outer_dims)

    def elem(outer):
        vals = []
        for k in range(n):
            J = list(outer)
            J.insert(d, k)
            vals.append(zreal(s(tuple(J))))
        if p == 1:
            r = zreal(0)
            for v in vals:
                r = r + z3.If(v >= 0, v, -v)
            return r
        if n == 2:
            return NORM2(vals[0], vals[1])
        if n == 1:
            return z3.If(vals[0] >= 0, vals[0], -vals[0])
        raise Unsupported("norm over dim of size > 2")

    r = mk(shape, "f", elem, grad=grad_of(t))
    return unsqueeze(r, d) if keepdim else r


INF = z3.Real("INF")  # +infinity as a value: only compared, never used in arithmetic (A1b)


def inf_value(x):
    return INF if x.sign > 0 else -INF


def uses_inf():
    ctx = cur()
    if not getattr(ctx, "inf_declared", False):
        ctx.inf_declared = True
        # every finite quantity that meets the literal infinity in a comparison is below it: stated for the
        # input tensors; computed quantities are covered by A1b (documented assumption)
        ctx.assume(INF > 0)
        for (fn, shape, dt) in list(getattr(ctx, "input_fns", [])):
            if dt != "f":
                continue
            if len(shape) == 0:
                ctx.assume(z3.And(fn < INF, fn > -INF))
            else:
                vs = [z3.Int(f"infq{k}") for k in range(len(shape))]
                ctx.assume(z3.ForAll(vs, z3.And(fn(*vs) < INF, fn(*vs) > -INF), patterns=[fn(*vs)]))


def where(c, a, b):
    if not T(c):
        raise Unsupported("where with scalar condition")
    if isinstance(a, Inf):
        uses_inf()
        a = inf_value(a)
    if isinstance(b, Inf):
        uses_inf()
        b = inf_value(b)
    d = promote(dt_of(a), dt_of(b))
    return ew(lambda cc, x, y: ite(zbool(cc), cast(x, d), cast(y, d)), [c, a, b], out_dtype=d, compute=None)


def clamp(x, lo=None, hi=None):
    if not T(x):
        r = x
        if lo is not None:
            r = scalar_binop("max", r, lo)
        if hi is not None:
            r = scalar_binop("min", r, hi)
        return r
    args = [x]
    if lo is not None:
        args.append(lo)
    if hi is not None:
        args.append(hi)

    def f(*v):
        r = v[0]
        k = 1
        if lo is not None:
            r = scalar_binop("max", r, v[k])
            k += 1
        if hi is not None:
            r = scalar_binop("min", r, v[k])
        return r

    return ew(f, args)


def uf_apply(name, x):
    f = UF[name]
    if T(x):
        return ew(lambda v: f(zreal(v)), [x], out_dtype="f", compute="f")
    return f(zreal(x))
