"""Per-property metadata for evidence files."""
META = {}
for _p in ["C%02d" % i for i in range(1, 21)]:
    META[_p] = {"level": "proof", "not_covered": [], "assumptions": [], "explanation": ""}
