"""Per-property metadata: what is claimed, at which level, with which caveats."""
HOOK_COMMITS = []
_T = "contract-based deductive verification: VCs generated from the Python AST of the real functions (sidecar contracts), discharged by z3 (cvc5 on unknown); counterexamples replayed on the real code"
_NOTE = ("Assumes A1 (floats are reals), A2 (ints mathematical), A3 (tvc operation table states torch/tensordict semantics), "
         "A12 (Python semantics of the interpreter); see DESIGN.md section 7. Functions under contract are listed in the evidence file; "
         "everything outside them is unverified.")
META = {}
for _p in ["C%02d" % i for i in range(1, 21)]:
    META[_p] = {"claimed": False, "level": "proof", "level_text": "", "level_note": _NOTE, "technique": _T,
                "not_covered": [], "assumptions": [], "explanation": ""}


def claim(pid, text, level="proof", note=None, not_covered=(), explanation="", assumptions=()):
    META[pid].update(claimed=True, level=level, level_text=text, not_covered=list(not_covered), explanation=explanation,
                     assumptions=list(assumptions))
    if note:
        META[pid]["level_note"] = note + " " + _NOTE


claim("C01", "Proof, for all batch sizes, problem sizes and states, of the one-step obligations (reset establishes the invariant; an advertised action is enabled in the independent problem definition; the successor state refines next(sigma,a); done iff complete) on the real _reset/_step/get_action_mask bodies of the environments listed in the evidence.")
claim("C02", "Proof of liveness (some action advertised in every reachable state), done-stability and a strictly decreasing variant with the stated step bound, per environment listed in the evidence.")
claim("C03", "Proof that _get_reward equals the objective recomputed from instance data and the action sequence (over the reals), per environment listed in the evidence.",
      not_covered=["float32 rounding (A1)"])
claim("C04", "Proof of 2-run non-interference (independent batch sizes incl. 1 and row positions) of the env methods listed in the evidence, plus padding idempotence of finished rows.")
claim("C05", "Proof that every enabled, non-pruned action of the problem definition is advertised by the mask (including constraints met with equality), per environment listed in the evidence.",
      not_covered=["that pruned moves never carry the optimum (A7, paper-level argument)", "float32 rounding at exact boundaries (A1)"])

claim("C08", "Mixed: proof for FLPEnv (_reset/_step/_get_reward: quota counter, distinctness, mask = not chosen, done exactly at the quota, distances = distance to the nearest chosen facility, reward = minus their sum; torch.nonzero seen through its enumeration contract) plus a bounded stand-in for MCP/DPP/MDPP (index-put with duplicates, offline-unavailable data).",
      level="other", note="FLP proved; MCP/DPP/MDPP bounded run-time contract check.",
      explanation="FLPEnv methods are proved by tvc (obligations/discharged count those); MCPEnv, DPPEnv, MDPPEnv are covered by the bounded stand-in selection_envs (labelled bounded, not counted as proved).")
claim("C12", "Proof of the replication layout: batchify/unbatchify (tensors: layout and inverse for nesting depth <= 2; TensorDicts: layout depth <= 2, inverse depth 1) put copy j of instance b at row j*B+b, row r belongs to instance r mod B; unbatchify_and_gather and best-of-k selection return exactly the rows of one maximal rollout of the same instance; forced start nodes are in range, instance-aligned and pairwise distinct for k <= n.",
      not_covered=["nesting depth 3 (r,a,s): the non-linear index arithmetic (mod of mod over products of three symbolic factors) is not decided reliably by z3/cvc5; covered by the eval/loss stand-in only", "feasibility of forced OP start nodes when num_starts < #feasible (see known findings / stand-in)", "POMO/SymNCO regrouping lines (covered by the eval/loss stand-in)"])
claim("C18", "Bounded stand-in only so far (labelled bounded): run-time contract check of every generator over the parameter grid stated in the evidence against the documented ranges, plus a mask-confined rollout per generated batch (solvable).",
      level="exploration", note="Bounded run-time contract check, not a proof.")
claim("C09", "Mixed: proof of the best-so-far bookkeeping of TSPkoptEnv._step with the tour surgery abstracted by its contract (current cost = length of the current tour; best cost = min, never increases, = length of the stored best tour; reward = decrease; best tour replaced row-wise by values exactly on improvement; visited_time = position along the tour, by a loop invariant) and of get_costs; tour validity under every admitted / sampled / policy-chosen move is checked by a bounded stand-in (exhaustive for small N).",
      level="other", note="bookkeeping proved; _local_operator, PDPRuinRepairEnv, samplers and policies bounded run-time contract check.",
      explanation="TSPkoptEnv._step (bookkeeping) and ImprovementEnvBase.get_costs are proved by tvc; _local_operator (2-opt / k-opt relinking loops), PDPRuinRepairEnv and the improvement policies are covered by the bounded stand-in improvement_envs (labelled bounded, not counted as proved).")
claim("C16", "Proof that REINFORCE.calculate_loss equals -mean((reward - baseline) * log_likelihood) + baseline loss for scalar, per-instance, dataset ('extra') and absent baselines (shapes included), that shared-baseline advantages sum to zero per instance, and that exponential / critic baseline values are detached (ghost grad-path flag).",
      not_covered=["numerical equality of autograd gradients (A8)", "PPO / A2C / POMO / SymNCO step functions (stand-in)"])
claim("C17", "Bounded stand-in only so far (labelled bounded): run-time contract check of every dataset class through the real dataloader construction, and of RolloutBaseline.wrap_dataset, over the grid stated in the evidence.",
      level="exploration", note="Bounded run-time contract check, not a proof.")
claim("C19", "Bounded stand-in only so far (labelled bounded): npz / load_data / FJSP-JSSP text / deepcopy-pickle / checkpoint round trips on the real functions over the grid stated in the evidence.",
      level="exploration", note="Bounded run-time contract check, not a proof. Checkpoint restore runs inside Lightning/torch.load: no contract within reach decides it deductively.")
claim("C20", "Proof of the representation invariant of RewardScaler (count, mean, M2 against n, sum, sum of squares) for any batch size (batched Welford, non-linear real arithmetic), of the four output transformations, of the EMA recurrence and of the warm-up convex combination and its schedule.",
      not_covered=["accumulated float32 error (A1)"])
claim("C15", "Proof that the 8 dihedral maps and the rotation/reflection with arbitrary angle preserve squared distances between any two points of an instance (polynomial identities, NRA; cos^2+sin^2=1 assumed), that copy 0 is the identity, that StateAugmentation places copy a of instance b at row a*B+b; and that the augmentation / multi-start / combined evaluators compute rewards on the original instance of each row and return, per instance, the maximum over its own candidates with the actions of that candidate.",
      not_covered=["float32 rounding (A1)", "SamplingEval / GreedyEval delegate to the policy (stand-in)", "EvalBase.__call__ concatenation (stand-in)"],
      assumptions=["cos^2+sin^2=1, cos 0=1, sin 0=0 for the uninterpreted trigonometric functions"])
claim("C06", "Mixed: proof for the TSP / ATSP checkers (passes iff the actions are a permutation of 0..T-1) and the CVRP checker (passes => every customer exactly once and the load by the problem definition never above capacity + 1e-5, via a loop invariant; the capacity asserts pass for every feasible solution), with torch.sort seen through its assumed contract; the remaining checkers are covered by a bounded stand-in (all mask-generated / brute-force feasible solutions accepted, all single-edit corruptions rejected on tiny instances).",
      level="other", note="TSP/ATSP/CVRP checkers proved (completeness of CVRP's sort-based permutation test assumed); other checkers bounded run-time contract check.",
      explanation="TSPEnv/ATSPEnv/CVRPEnv.check_solution_validity are proved by tvc; CVRPTW, SDVRP, SVRP, OP, PCTSP, PDP, MTVRP, k-opt and ruin-repair checkers are covered by the bounded stand-ins routing_bruteforce / improvement_envs (labelled bounded, not counted as proved).")
claim("C07", "Mixed: proof for SMTWTPEnv (_reset/_step/_get_reward) and for the loop-free building blocks of FJSPEnv (clock transition, scheduling of one operation, availability mask in both no-op modes, action translation, makespan reward; inherited by JSSPEnv) plus a bounded stand-in for the composed FJSP/JSSP/FFSP episodes (exhaustive enumeration of all mask-admitted sequences on tiny instances against an independent dispatch simulation).",
      level="other", note="SMTWTP and FJSP building blocks proved; FJSPEnv._step composition (masked_select + while loop), JSSP mask and FFSP bounded run-time contract check.",
      explanation="SMTWTPEnv methods are proved by tvc (obligations/discharged count those); FJSPEnv, JSSPEnv, FFSPEnv are covered by the bounded stand-in sched_episodes (labelled bounded, not counted as proved).")
claim("C10", "Mixed: proof that greedy selection returns a maximiser, in range and never a masked action (its in-code assert is discharged) given a proper step distribution, and that DecodingStrategy.step stores the action / the log-prob of exactly that action; the properness of the distribution itself (normalisation, masked => probability 0, top-k / top-p clauses, shift invariance) is checked by a bounded stand-in against a float64 reference over an exhaustive value grid.",
      level="other", note="greedy / step bookkeeping proved; process_logits, top-k, top-p: bounded run-time contract check (sorting, cumulative sums and log-softmax over floats).",
      explanation="DecodingStrategy.greedy and .step are proved by tvc with process_logits abstracted by its contract; process_logits / modify_logits_for_top_k/top_p_filtering / sampling are covered by the bounded stand-in decoding_dist (labelled bounded, not counted as proved).")
claim("C11", "Mixed: proof that DecodingStrategy.step (Greedy, Evaluate; with and without store_all_logp) appends exactly one action and the log-prob the step distribution assigns to that action, that Evaluate uses the given action, and that get_log_likelihood selects / masks / sums as stated; the end-to-end evaluate round trip of the bundled policies is checked by a bounded stand-in (neural modules are outside the verifier).",
      level="other", note="step bookkeeping and get_log_likelihood proved; policy round trips bounded run-time contract check.",
      explanation="DecodingStrategy.step, get_log_likelihood are proved by tvc; ConstructivePolicy.forward with the zoo policies is covered by the bounded stand-in policy_roundtrip (labelled bounded, not counted as proved).")
claim("C13", "Mixed: proof for one beam step (BeamSearch._make_beam_step, beam widths 2 and 3, any batch and problem size): every kept beam continues a beam of the same instance with a node in range, its score is the parent's score plus the step log-prob, kept beams are pairwise distinct (parent, node) pairs in score order and dominate every expansion that was not kept (torch.topk through its assumed contract); back-tracking, best-beam selection and the end-to-end re-scoring are checked by a bounded stand-in.",
      level="other", note="_make_beam_step proved for widths 2 and 3 (the loop over beams is unrolled for concrete widths); _backtrack, _select_best_beam, feasibility and re-scoring of complete beams: bounded run-time contract check.",
      explanation="BeamSearch._make_beam_step is proved by tvc for beam widths 2 and 3 (complete for those widths, stated bound); the rest of beam search is covered by the bounded stand-in policy_roundtrip (labelled bounded, not counted as proved).")
claim("C14", "Bounded stand-in only so far (labelled bounded): every instance decoded alone, in reversed, sub-sampled and duplicated batches for 24 policy/environment pairs with random weights.",
      level="exploration", note="Bounded run-time contract check, not a proof.")
