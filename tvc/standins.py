"""Bounded stand-ins: run-time contract checks of real functions over an explicitly
bounded input space (under /venv/bin/python). Labelled bounded, never counted as proved."""
import json
import os
import subprocess

ROOT = os.path.dirname(os.path.dirname(os.path.abspath(__file__)))
REGISTRY = []  # dicts: name, props, script, quick_args, thorough_args


def register(name, props, script, quick=(), thorough=None):
    REGISTRY.append({"name": name, "props": tuple(props), "script": script, "quick": list(quick),
                     "thorough": list(thorough if thorough is not None else quick)})


def run_for(prop, tier, seed, repo):
    out = []
    for s in REGISTRY:
        if prop not in s["props"]:
            continue
        args = s["thorough"] if tier == "thorough" else s["quick"]
        env = dict(os.environ)
        env["PYTHONPATH"] = repo
        env["TVC_REPO"] = repo
        env["VERIF_SEED"] = str(seed)
        cmd = ["/venv/bin/python", os.path.join(ROOT, "concrete", "standins", s["script"]), "--prop", prop] + args
        try:
            p = subprocess.run(cmd, capture_output=True, text=True, timeout=3000, env=env)
            last = [l for l in p.stdout.splitlines() if l.startswith("{")]
            if not last:
                out.append({"name": s["name"], "errors": [f"no result (rc={p.returncode}): {(p.stdout + p.stderr)[-1500:]}"]})
                continue
            r = json.loads(last[-1])
            r["name"] = s["name"]
            out.append(r)
        except subprocess.TimeoutExpired:
            out.append({"name": s["name"], "errors": ["timeout"]})
    return out
