#!/usr/bin/env python3
"""Dev-time helper (never run by a check): add the `known` entries a stand-in reports on the unchanged tree
to known_findings.json, for the property named by the clause prefix."""
import json, subprocess, sys, os
ROOT = os.path.dirname(os.path.dirname(os.path.abspath(__file__)))
name, script = sys.argv[1], sys.argv[2]
tier = sys.argv[3] if len(sys.argv) > 3 else "quick"
env = dict(os.environ, TVC_REPO="/repo", PYTHONPATH="/repo")
p = subprocess.run(["/venv/bin/python", os.path.join(ROOT, "concrete/standins", script), "--tier", tier], capture_output=True, text=True, env=env)
last = [l for l in p.stdout.splitlines() if l.startswith("{")][-1]
d = json.loads(last)
k = json.load(open(os.path.join(ROOT, "known_findings.json")))
have = {(e["property"], e["unit"], e["obligation"]) for e in k["known"]}
n = 0
for e in d.get("known", []):
    prop = e["name"].split(".")[0]
    key = (prop, name, e["name"])
    if key in have:
        continue
    k["known"].append({"property": prop, "unit": name, "obligation": e["name"], "what": f"{e['name']}: {e['what']} (input: {json.dumps(e.get('input'))[:300]})", "status": "known"})
    n += 1
json.dump(k, open(os.path.join(ROOT, "known_findings.json"), "w"), indent=1)
print("violations:", len(d["violations"]), "known:", len(d.get("known", [])), "added:", n, "errors:", d["errors"][:3])
