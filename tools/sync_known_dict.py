#!/usr/bin/env python3
"""Dev-time: register every clause name of a stand-in's module-level KNOWN dict in known_findings.json."""
import ast, json, os, sys
ROOT = os.path.dirname(os.path.dirname(os.path.abspath(__file__)))
name, script = sys.argv[1], sys.argv[2]
src = open(os.path.join(ROOT, "concrete/standins", script)).read()
tree = ast.parse(src)
known = None
for st in tree.body:
    if isinstance(st, ast.Assign) and any(isinstance(t, ast.Name) and t.id == "KNOWN" for t in st.targets):
        try:
            known = ast.literal_eval(st.value)
        except Exception as e:
            ns = {}
            exec(compile(ast.Module([st], []), "k", "exec"), ns)
            known = ns["KNOWN"]
if known is None:
    print("no literal KNOWN dict"); sys.exit(0)
k = json.load(open(os.path.join(ROOT, "known_findings.json")))
have = {(e["property"], e["unit"], e["obligation"]) for e in k["known"]}
n = 0
for cl, what in (known.items() if isinstance(known, dict) else [(c, "") for c in known]):
    prop = cl.split(".")[0]
    if (prop, name, cl) in have:
        continue
    k["known"].append({"property": prop, "unit": name, "obligation": cl, "what": f"{cl}: {what}", "status": "known"})
    n += 1
json.dump(k, open(os.path.join(ROOT, "known_findings.json"), "w"), indent=1)
print(name, "KNOWN entries:", len(known), "added:", n)
