#!/usr/bin/env python3
"""Run the contract units that read the files touched by a behaviour-preserving patch against a scratch worktree with that
patch applied (TVC_REPO) and report every obligation that is not proved / canary that is not refuted / checker error:
on a harmless refactoring the expected output is `OK` for every unit.
usage: tools/run_refactor.py <worktree> <patch.diff> [...]   (the worktree must be clean; it is restored afterwards)"""
import json, os, re, subprocess, sys
ROOT = os.path.dirname(os.path.dirname(os.path.abspath(__file__)))
sys.path.insert(0, ROOT)
wt = sys.argv[1]
patches = sys.argv[2:]
# unit -> files it reads, from the committed evidence (functions_under_contract carry the file path)
unit_files = {}
import glob
sys.argv = sys.argv[:1]
from tvc.unit import UNITS
import importlib, pkgutil, contracts
for m in pkgutil.iter_modules(contracts.__path__):
    importlib.import_module("contracts." + m.name)
src = {n: open(os.path.join(ROOT, "contracts", f)).read() for n, f in ((f[:-3], f) for f in os.listdir(os.path.join(ROOT, "contracts")) if f.endswith(".py"))}
for name, ud in UNITS.items():
    unit_files.setdefault(ud.file, set()).add(name)
allsrc = "\n".join(src.values())
for p in patches:
    subprocess.run(["git", "-C", wt, "checkout", "-q", "--", "."], check=True)
    a = subprocess.run(["git", "-C", wt, "apply", p], capture_output=True, text=True)
    if a.returncode:
        print(p, "DOES NOT APPLY", a.stderr[:200]); continue
    files = [l[6:].strip() for l in open(p) if l.startswith("+++ b/")]
    names = set()
    for f in files:
        names |= unit_files.get(f, set())
        # units of other files that inline / call into this file (textual mention of the path in the contract sources)
        for n, ud in UNITS.items():
            mod = sys.modules[ud.fn.__module__]
            if f in open(mod.__file__).read():
                names.add(n)
    names = sorted(names)
    bad = []
    if names:
        env = dict(os.environ, TVC_REPO=wt, V="1")
        for k in range(0, len(names), 40):
            r = subprocess.run([os.path.join(ROOT, "verif"), "units"] + names[k:k + 40], capture_output=True, text=True, env=env, cwd=ROOT)
            cur_unit = None
            for l in r.stdout.splitlines():
                if l.startswith("== "):
                    cur_unit = l.split()[1].rstrip(":")
                elif "!!" in l or "ERROR" in l:
                    bad.append(f"{cur_unit}: {l.strip()[:200]}")
    print(os.path.relpath(p, "/tmp"), "files", files, "units", len(names), "OK" if not bad else f"PROBLEMS {len(bad)}")
    for b in bad[:12]:
        print("    ", b)
subprocess.run(["git", "-C", wt, "checkout", "-q", "--", "."], check=True)
