#!/usr/bin/env python3
"""Regenerate MANIFEST.json from tvc/props.py (claimed properties) - keeps it valid at all times."""
import json, os, sys
ROOT = os.path.dirname(os.path.dirname(os.path.abspath(__file__)))
sys.path.insert(0, ROOT)
from tvc import props as P

BASE = json.load(open("/root/.vp/BASELINE.json"))["cmd"] if os.path.exists("/root/.vp/BASELINE.json") else "cd /repo && /venv/bin/python -m pytest -ra -q -p no:cacheprovider --timeout=900 --continue-on-collection-errors"
checks, na = [], []
for pid in sorted(P.META):
    m = P.META[pid]
    if not m.get("claimed"):
        na.append({"property_id": pid, "reason": m.get("na_reason", "no contract unit built yet for this property (work in progress; see DESIGN.md section 5)")})
        continue
    checks.append({
        "property_id": pid,
        "quick_cmd": f"./verif check {pid} --tier quick",
        "thorough_cmd": f"./verif check {pid} --tier thorough",
        "evidence_file": f"evidence/{pid}.json",
        "replay_cmd_template": "./verif replay {path}",
        "engine": "tvc",
        "level_claimed": {"category": m["level"], "text": m["level_text"], "design_ref": m.get("design_ref", "DESIGN.md section 5")},
        "level_note": m["level_note"],
        "technique": m.get("technique", "contract-based deductive verification: VCs generated from the Python AST of the real functions (sidecar contracts), discharged by z3/cvc5"),
    })
man = {
    "version": 1,
    "setup_cmd": "./setup.sh",
    "hooks": {"guard": "RL4CO_VERIF", "enable": "none needed: contracts are sidecar files under /verif/contracts, no source line in /repo is instrumented",
              "baseline_off_cmd": BASE.replace(" --junitxml=<file>", ""), "source_commits": P.HOOK_COMMITS, "add_only": True},
    "engines": [{"name": "tvc", "path": "tvc/", "serves_properties": [c["property_id"] for c in checks],
                 "kind_free_text": "deductive verifier for the torch/Python subset used by rl4co: symbolic execution of the real function ASTs, contracts as units, VCs to z3 (cvc5 second opinion), counterexample replay on the real code"}],
    "checks": checks,
    "not_applicable": na,
    "notes": "Exit codes of every check: 0 proved, 1 violation (VIOLATION line), 2 undecided, 3 verifier could not process the code. Bounded stand-ins are labelled in evidence and never counted in obligations/discharged.",
}
json.dump(man, open(os.path.join(ROOT, "MANIFEST.json"), "w"), indent=1)
print("claimed:", [c["property_id"] for c in checks])
