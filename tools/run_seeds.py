#!/usr/bin/env python3
"""Apply every seeded mutation (seeded/<id>/patch.diff) to /repo, run the check of its property, undo.
Writes seeded/<id>/detect.json and refreshes meta.json. Usage: tools/run_seeds.py [id ...]"""
import json, os, re, subprocess, sys, time
ROOT = os.path.dirname(os.path.dirname(os.path.abspath(__file__)))
ids = sys.argv[1:] or sorted(os.listdir(os.path.join(ROOT, "seeded")))
assert subprocess.run(["git", "-C", "/repo", "status", "--porcelain", "--untracked-files=no"], capture_output=True, text=True).stdout.strip() == "", "/repo dirty"
for sid in ids:
    d = os.path.join(ROOT, "seeded", sid)
    patch = os.path.join(d, "patch.diff")
    if not os.path.exists(patch):
        continue
    prop = sid.split("-")[0]
    extra = []
    mj = os.path.join(d, "meta.json")
    meta = json.load(open(mj)) if os.path.exists(mj) else {}
    props = [prop] + [p for p in meta.get("also_check", []) if p != prop]
    a = subprocess.run(["git", "-C", "/repo", "apply", patch], capture_output=True, text=True)
    res = {"id": sid, "applied": a.returncode == 0, "checks": {}}
    try:
        if a.returncode == 0:
            for p in props:
                t = time.time()
                r = subprocess.run([os.path.join(ROOT, "verif"), "check", p, "--tier", "quick"], capture_output=True, text=True, cwd=ROOT)
                viol = [l for l in r.stdout.splitlines() if l.startswith("VIOLATION")]
                res["checks"][p] = {"exit": r.returncode, "violations": len(viol), "obligations": sorted({re.search(r"obligation=(\S+)", l).group(1) for l in viol if "obligation=" in l})[:12],
                                    "unconfirmed": sum(1 for l in viol if l.endswith("no-failing-input-found")), "wall_s": round(time.time() - t, 1)}
    finally:
        subprocess.run(["git", "-C", "/repo", "checkout", "--", "."])
    json.dump(res, open(os.path.join(d, "detect.json"), "w"), indent=1)
    print(sid, {p: (c["exit"], c["violations"]) for p, c in res["checks"].items()}, "applied" if res["applied"] else "PATCH DOES NOT APPLY: " + a.stderr[:200])
