#!/usr/bin/env python3
"""Write seeded/<id>/meta.json from the confirmation (confirm.json), the detection run (detect.json) and SEEDS below."""
import json, os
ROOT = os.path.dirname(os.path.dirname(os.path.abspath(__file__)))
SEEDS = {
 "C01-m1": ("MTVRPEnv.get_action_mask drops the service time from the return-to-depot test", "hand-supplied instance with a binding depot deadline (the generator cannot produce one)"),
 "C01-m2": ("MTSPEnv._step reads the agent limit from batch row 0", "batch >= 2 with different num_agents per row, row 0 having more agents"),
 "C02-m1": ("FJSPEnv.get_action_mask (mask_no_ops=False) loses the no-op of finished rows", "mask_no_ops=False and rows finishing at different steps"),
 "C02-m2": ("PCTSPEnv.get_action_mask counts the depot among the customers", "instance with total prize < 1 and every customer visited"),
 "C03-m1": ("MTVRPEnv._get_reward masks depot legs batch-wide when any row has an open route", "batch mixing open-route and closed-route instances"),
 "C03-m2": ("FLPEnv._step incremental distances + _get_reward read from the state (two cooperating sites)", "locations farther than the unit-box diagonal (custom sampler / unnormalised data)"),
 "C04-m1": ("FJSPEnv._transit_to_next_time advances the clock of every row", "batch of unrelated instances needing clock transitions at different steps"),
 "C04-m2": ("CVRPEnv._get_reward without the leading depot", "tour ending at a customer, evaluated with vs without depot padding"),
 "C05-m1": ("CVRPEnv.get_action_mask uses >= on the capacity", "load exactly filling the vehicle"),
 "C05-m2": ("PDPEnv._reset hides the last pickup at the first step", "default free-start mode and an optimum starting at pickup num_loc//2"),
 "C06-m1": ("CVRPEnv.check_solution_validity refills by a constant 1.0 at the depot", "vehicle_capacity > 1 and two routes with load > 1"),
 "C06-m2": ("MTVRPEnv.check_solution_validity resets the route length before testing the limit", "hand-built tour exceeding the limit only on the return leg"),
 "C07-m1": ("FJSPEnv._transit_to_next_time releases jobs that are not in process", "schedule horizon reaching INIT_FINISH = 9999"),
 "C07-m2": ("FFSPEnv._step indexes with the stage-local machine table", "flatten_stages=False"),
 "C08-m1": ("FLPEnv._step updates the nearest-facility distances incrementally", "points outside the unit box or a reused TensorDict"),
 "C08-m2": ("MDPPEnv._reset no longer removes probing ports from the mask", "instance not made by the generator (ports only in 'probe')"),
 "C10-m1": ("process_logits masks with -1e9 instead of -inf", "hugely negative feasible logits or an extreme temperature"),
 "C10-m2": ("top-p filtering by a cut-off threshold instead of scatter", "tied logits across the nucleus boundary"),
 "C12-m1": ("DecodingStrategy._select_best returns the state of rollout 0", "select_best with num_starts > 1 and a reward read from the final state (mTSP, FLP, MCP)"),
 "C12-m2": ("PrecomputedCache.batchify uses repeat_interleave", "dynamic decoder embedding (SDVRP), num_starts > 1, batch size > 1"),
 "C09-m1": ("TSPkoptEnv._step keeps a stale visited_time on the step_to_solution path", "k_max > 2, step_to_solution(rec_best) while the current tour differs, then a further sampled move"),
 "C09-m2": ("PDPRuinRepairEnv._local_operator reinserts the pickup before the delivery", "a mask-admitted move with first == second"),
 "C11-m1": ("PrecomputedCache.batchify uses repeat_interleave (instance-major copies)", "dynamic decoder embedding (SDVRP / L2D), num_starts > 1, batch size > 1"),
 "C11-m2": ("process_logits takes the log-softmax before the top-k / top-p filters (no renormalisation)", "top_k > 0 or 0 < top_p < 1 and a step where the filter removes a feasible action"),
 "C13-m1": ("BeamSearch._make_beam_step flattens the kept scores instance-major", "beam search with batch size >= 2"),
 "C13-m2": ("ConstructivePolicy.forward forces temperature 1.0 for 'deterministic' decode types incl. beam search", "policy constructed with temperature != 1 and beam_search without a temperature kwarg"),
 "C14-m1": ("PrecomputedCache.batchify uses repeat_interleave (instance-major copies)", "multistart decoding of SDVRP (dynamic embedding) with batch size >= 2"),
 "C14-m2": ("OPEnv.get_action_mask no longer masks everything once back at the depot", "batch whose rows finish at different steps"),
 "C15-m1": ("StateAugmentation.__call__ stops passing num_augment to the augmentation function", "symmetric augmentation with num_augment < 8"),
 "C15-m2": ("AugmentationEval._inner selects the best actions by flat index b*A+a", "data-loader batch > 1 with num_augment > 1 and someone recomputing the objective of the returned actions"),
 "C16-m1": ("PPO.shared_step drops the pessimistic min of the clipped surrogate", "a mini-batch after the first optimiser step with a ratio outside the clip range on the pessimistic side"),
 "C16-m2": ("WarmupBaseline.eval mixes the baseline values with torch.lerp (weights swapped)", "warm-up with n_epochs >= 3, 0 < alpha < 1, alpha != 0.5"),
 "C17-m1": ("ExtraKeyDataset.__getitem__ attaches the extra value only on first access", "the same base dataset wrapped again with new values after items were read"),
 "C17-m2": ("RolloutBaseline.rollout fills a pre-allocated buffer at offset i * len(chunk)", "len(dataset) % eval batch size != 0 with batch size < len(dataset)"),
 "C18-m1": ("ATSPGenerator._generate stops the Floyd-Warshall pivots at the first pivot that changes nothing", "tmat_class generation with batch size 1 or 2"),
 "C18-m2": ("MTVRPGenerator.generate_time_windows divides by (d_0i * speed)", "speed < 1 on a closed-route time-window preset"),
 "C19-m1": ("CVRPEnv.load_data normalises every instance by the first instance's capacity", "npz file whose instances have different capacities"),
 "C19-m2": ("REINFORCE.load_from_checkpoint strips every 'baseline.' prefix and loads the baseline non-strictly", "nested (warm-up + rollout) baseline whose policy differs from the acting policy at checkpoint time"),
 "C20-m1": ("RewardScaler.update counts rows before flattening the batch", "a 2-D observed tensor (multi-start advantages) with reward_scale norm/scale"),
 "C20-m2": ("ExponentialBaseline.eval re-initialises when the stored value is falsy", "running value exactly 0 when eval is entered and beta > 0"),
 "C06-m3": ("SVRPEnv.check_solution_validity does not reset the segment start when moving to the next batch row", "batch >= 2 and an unmet-skill fault in the first route of a row with index >= 1"),
 "C06-m4": ("OPEnv.check_solution_validity compares every tour with the largest length budget of the batch (.max() without dim)", "batch whose instances have different max_length and an over-length tour in a tight row"),
 "C07-m3": ("FFSPEnv._move_to_next_machine looks the next machine up in the stage-local table", "flatten_stages=False and more than one stage"),
 "C07-m4": ("jssp/parser.read builds the pad mask from num_jobs * max_ops_per_job", "several JSSP files of different size, a padded one with unequal operations per job"),
 "C08-m3": ("MCPEnv._step trims the chosen memberships to the longest non-zero count before scanning them", "chosen set with an interior zero and no batch-mate with a longer set in the same step"),
 "C08-m4": ("DPPEnv._step scatters into the action mask in place (the reset does not clone it)", "second episode on instances whose mask storage is shared (views / slices of a dataset)"),
 "C10-m3": ("modify_logits_for_top_k_filtering uses one scalar threshold for the whole batch", "top_k > 0 and batch >= 2 with different k-th largest logits"),
 "C10-m4": ("select_start_nodes wraps start number num_loc+1 to the depot", "depot environment with num_starts / beam_width > num_loc"),
 "C11-m3": ("_multistart_batched_index (heatmap decoder) uses repeat_interleave", "non-autoregressive policy, num_starts > 1, batch > 1"),
 "C11-m4": ("get_log_likelihood skips the td['mask'] step flags on the full-distribution path", "user-supplied td['mask'] and log-likelihood requested with return_entropy / store_all_logp"),
 "C09-m3": ("PDPRuinRepairEnv._step keeps a stale visited_time on the step_to_solution path", "ordinary steps, then step_to_solution(rec_best), then a masked move"),
 "C09-m4": ("NeuOptPolicy.forward breaks out of the sub-action loop once every row of the batch has closed its move", "very small batches in which all rows close early"),
 "C13-m3": ("PDPEnv.select_start_nodes wraps modulo P+1 (forced starts reach a delivery node)", "beam width / starts > number of pickups"),
 "C13-m4": ("PrecomputedCache.batchify uses repeat_interleave", "SDVRP beam search, width > 1, batch >= 2"),
 "C19-m3": ("jssp/parser.read pads the processing times in front of the operations", "files of different size in one directory, or max_ops larger than the instance"),
 "C19-m4": ("MTVRPEnv.load_data(scale=True) normalises by the first instance's capacity", "scale=True and mixed capacity_original in one file"),
 "C18-m3": ("Cluster.sample discards the result of the final clamp (clamp instead of clamp_)", "clustered / mixed location distribution and a ~3-sigma draw near a border"),
 "C18-m4": ("CVRPGenerator.__init__ lets the capacity table override an explicit capacity=", "explicit capacity= together with a tabulated num_loc"),
 "C20-m3": ("WarmupBaseline.eval scales the exponential baseline's state tensor in place", "n_epochs >= 2, 0 < alpha < 1 and at least two eval calls"),
 "C20-m4": ("RewardScaler.__call__ skips the update for single-value batches", "reward_scale norm/scale and a later batch with exactly one value"),
 "C14-m3": ("PointerNetworkPolicy.forward reshapes locs instead of transposing them", "batch size > 1"),
 "C14-m4": ("MTVRPEnv.get_action_mask uses row 0's open-route flag in the distance-limit test", "batch mixing open-route and closed-route instances with a distance limit"),
 "C05-m3": ("MTVRPEnv.get_action_mask reduces the open-route flag over the whole batch (.all())", "open-route instance with a distance limit next to a closed-route batch-mate"),
 "C05-m4": ("FJSPEnv.__init__ swaps the mask_no_ops / check_mask parameters (JSSPEnv forwards positionally)", "JSSPEnv(mask_no_ops=False) and an optimum that needs an idle machine"),
 "C12-m3": ("unbatchify peels nested factors in the wrong order", "a tuple of at least two unequal factors"),
 "C12-m4": ("PDPEnv.select_start_nodes lays the starts out start-major (repeat instead of repeat_interleave)", "gcd(batch size, number of starts) > 1"),
 "C15-m3": ("unbatchify_and_gather indexes flat rows instance-major", "sampling evaluation with select_best and batch > 1"),
 "C15-m4": ("POMO.shared_step augments the raw batch before env.reset (the depot key is not augmented)", "validation / test, num_augment > 1, environment with a separate depot key"),
 "C16-m3": ("RolloutBaseline._update_policy takes a shallow copy of the actor", "an optimiser step between the baseline update and its next evaluation"),
 "C16-m4": ("solution_symmetricity_loss defaults to dim=1", "SymNCO with num_starts > 1 and num_augment > 1"),
 "C17-m3": ("RL4COLitModule._dataloader_single drops the last partial batch when shuffling", "shuffle_train_dataloader=True and a batch size that does not divide the set"),
 "C17-m4": ("TensorDictDatasetFastGeneration serves batches from a column cache that add_key does not refresh", "the same dataset object keyed again with new values"),
 "C03-m3": ("MTSPEnv._step updates the minmax objective before the last agent's return leg is added", "a row that gets no further step after completing (batch of one / the row finishing last) whose last sub-tour is the longest"),
 "C03-m4": ("ATSPEnv._get_reward rolls the flattened action tensor (no dims=)", "batch > 1 with neighbouring rows whose tours start at different nodes"),
 "C01-m3": ("CVRPTWEnv._step gathers the service duration with the customer-only index (action - 1)", "hand-supplied / Solomon data with non-zero service durations"),
 "C01-m4": ("OPEnv._reset builds the length budget from the generator's max_length instead of the instance's", "instance whose max_length is smaller than the generator's value"),
 "C02-m3": ("process_logits masks infeasible actions after the top-k / top-p filters", "top_k > 0 or 0 < top_p < 1 and no feasible action among the top-k raw logits"),
 "C02-m4": ("OPEnv.get_action_mask does not offer the depot as the very first action", "OP instance whose budget reaches no customer"),
 "C04-m3": ("MTVRPEnv.get_action_mask drops the return leg from the limit test only if the whole batch has open routes", "open-route instance with a binding distance limit next to a closed-route batch-mate"),
 "C04-m4": ("MTSPEnv._step takes the fleet size of batch row 0 for every row", "instances with different num_agents, the affected one not in row 0"),
 "C06-m5": ("PDPRuinRepairEnv.check_solution_validity reuses the state's visited_time (current tour) instead of walking rec_best", "a best tour that differs from the current one and delivers before picking up"),
 "C06-m6": ("PCTSPEnv.check_solution_validity counts visited customers over the whole batch (lost reduction axis)", "total prize < 1 and batch size > 1"),
 "C10-m5": ("DecodingStrategy.step passes top_p = 0 / top_k = 0 to process_logits when an action is given", "non-default top_k / top_p together with evaluate mode (re-evaluation of sampled actions)"),
 "C10-m6": ("sample_n_random_actions sums the mask over the batch axis in its replacement test", "batch with >= n rows where some instance has fewer than n admissible actions"),
 "C01-m5": ("PCTSPEnv.__init__ stores a `stochastic` instance attribute that shadows SPCTSPEnv's class attribute (two cooperating sites)", "SPCTSPEnv: the minimum prize is checked against expected instead of revealed prizes"),
 "C01-m6": ("CVRPTWEnv._reset casts the service durations to int64 (truncation)", "hand-supplied / scaled instances with non-integer service durations"),
 "C03-m5": ("CVRPEnv._get_reward no longer prepends the depot (relies on padding to close the tour)", "the longest row of a batch / a batch of one (no trailing depot padding)"),
 "C03-m6": ("PCTSPEnv._get_reward takes the unvisited penalty from the state's `visited` field", "get_reward on a td that is not the final state of that roll-out (evaluation, re-scoring)"),
 "C04-m5": ("PCTSPEnv.get_action_mask: `all nodes visited` reduced over the whole batch", "batch whose rows visit all customers at different steps"),
 "C04-m6": ("FFSPEnv._reset builds the index tables (and their batch size) only once", "two episodes with different batch sizes on the same env object"),
 "C18-m5": ("CVRPTWGenerator._generate scales the coordinates by max_loc instead of max_time", "scale=True with max_loc != max_time"),
 "C18-m6": ("MTVRPGenerator.subsample_problems keeps only the first non-zero feature of a preset (nonzero(...)[0])", "a named preset with two or more features"),
}
for sid in sorted(os.listdir(os.path.join(ROOT, "seeded"))):
    d = os.path.join(ROOT, "seeded", sid)
    if not os.path.isdir(d):
        continue
    what, needs = SEEDS.get(sid, ("see notes.md", "see notes.md"))
    meta = {"id": sid, "breaks_property": sid.split("-")[0], "change": what, "needs_to_manifest": needs,
            "files": {"patch": "patch.diff", "demonstration": "demo.py", "notes": "notes.md"},
            "produced_by": "independent sub-agent given only the property text and a private worktree of /repo"}
    cj = os.path.join(d, "confirm.json")
    if os.path.exists(cj):
        c = json.load(open(cj))
        meta["confirmed_by_me"] = {
            "ran": "tools/confirm_seed.sh: fresh `git worktree` of /repo; demo on the clean tree; `git apply patch.diff`; demo again; full pytest with the patch",
            "patch_applies": c["apply_rc"] == 0, "demo_exit_clean_tree": c["demo_clean_rc"], "demo_exit_patched_tree": c["demo_patched_rc"],
            "pytest_with_patch": c["pytest_summary"], "expected_failures_on_clean_tree": c["expected_always_failing"]}
    dj = os.path.join(d, "detect.json")
    if os.path.exists(dj):
        x = json.load(open(dj))
        meta["detection"] = {"ran": "tools/run_seeds.py: git -C /repo apply patch.diff; ./verif check <property> --tier quick; git -C /repo checkout -- .",
                             "checks": x.get("checks", {})}
    old = os.path.join(d, "meta.json")
    if os.path.exists(old):
        try:
            o = json.load(open(old))
            for k in ("also_check", "remarks"):
                if k in o:
                    meta[k] = o[k]
        except Exception:
            pass
    json.dump(meta, open(old, "w"), indent=1)
print("meta written for", len(os.listdir(os.path.join(ROOT, "seeded"))))
