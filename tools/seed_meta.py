#!/usr/bin/env python3
"""Write seeded/<id>/meta.json from the confirmation (confirm.json), the detection run (detect.json) and SEEDS below."""
import json, os
ROOT = os.path.dirname(os.path.dirname(os.path.abspath(__file__)))
SEEDS = {
 "C01-m1": ("MTVRPEnv.get_action_mask drops the service time from the return-to-depot test", "hand-supplied instance with a binding depot deadline (the generator cannot produce one)"),
 "C01-m2": ("MTSPEnv._step reads the agent limit from batch row 0", "batch >= 2 with different num_agents per row, row 0 having more agents"),
 "C02-m1": ("FJSPEnv.get_action_mask (mask_no_ops=False) loses the no-op of finished rows", "mask_no_ops=False and rows finishing at different steps"),
 "C02-m2": ("PCTSPEnv.get_action_mask counts the depot among the customers", "instance with total prize < 1 and every customer visited"),
 "C03-m1": ("MTVRPEnv._get_reward masks depot legs batch-wide when any row has an open route", "batch mixing open-route and closed-route instances"),
 "C03-m2": ("FLPEnv._step incremental distances + _get_reward read from the state (two cooperating sites)", "locations farther than the unit-box diagonal (custom sampler / unnormalised data)"),
 "C04-m1": ("FJSPEnv._transit_to_next_time advances the clock of every row", "batch of unrelated instances needing clock transitions at different steps"),
 "C04-m2": ("CVRPEnv._get_reward without the leading depot", "tour ending at a customer, evaluated with vs without depot padding"),
 "C05-m1": ("CVRPEnv.get_action_mask uses >= on the capacity", "load exactly filling the vehicle"),
 "C05-m2": ("PDPEnv._reset hides the last pickup at the first step", "default free-start mode and an optimum starting at pickup num_loc//2"),
 "C06-m1": ("CVRPEnv.check_solution_validity refills by a constant 1.0 at the depot", "vehicle_capacity > 1 and two routes with load > 1"),
 "C06-m2": ("MTVRPEnv.check_solution_validity resets the route length before testing the limit", "hand-built tour exceeding the limit only on the return leg"),
 "C07-m1": ("FJSPEnv._transit_to_next_time releases jobs that are not in process", "schedule horizon reaching INIT_FINISH = 9999"),
 "C07-m2": ("FFSPEnv._step indexes with the stage-local machine table", "flatten_stages=False"),
 "C08-m1": ("FLPEnv._step updates the nearest-facility distances incrementally", "points outside the unit box or a reused TensorDict"),
 "C08-m2": ("MDPPEnv._reset no longer removes probing ports from the mask", "instance not made by the generator (ports only in 'probe')"),
 "C10-m1": ("process_logits masks with -1e9 instead of -inf", "hugely negative feasible logits or an extreme temperature"),
 "C10-m2": ("top-p filtering by a cut-off threshold instead of scatter", "tied logits across the nucleus boundary"),
 "C12-m1": ("DecodingStrategy._select_best returns the state of rollout 0", "select_best with num_starts > 1 and a reward read from the final state (mTSP, FLP, MCP)"),
 "C12-m2": ("PrecomputedCache.batchify uses repeat_interleave", "dynamic decoder embedding (SDVRP), num_starts > 1, batch size > 1"),
}
for sid in sorted(os.listdir(os.path.join(ROOT, "seeded"))):
    d = os.path.join(ROOT, "seeded", sid)
    if not os.path.isdir(d):
        continue
    what, needs = SEEDS.get(sid, ("see notes.md", "see notes.md"))
    meta = {"id": sid, "breaks_property": sid.split("-")[0], "change": what, "needs_to_manifest": needs,
            "files": {"patch": "patch.diff", "demonstration": "demo.py", "notes": "notes.md"},
            "produced_by": "independent sub-agent given only the property text and a private worktree of /repo"}
    cj = os.path.join(d, "confirm.json")
    if os.path.exists(cj):
        c = json.load(open(cj))
        meta["confirmed_by_me"] = {
            "ran": "tools/confirm_seed.sh: fresh `git worktree` of /repo; demo on the clean tree; `git apply patch.diff`; demo again; full pytest with the patch",
            "patch_applies": c["apply_rc"] == 0, "demo_exit_clean_tree": c["demo_clean_rc"], "demo_exit_patched_tree": c["demo_patched_rc"],
            "pytest_with_patch": c["pytest_summary"], "expected_failures_on_clean_tree": c["expected_always_failing"]}
    dj = os.path.join(d, "detect.json")
    if os.path.exists(dj):
        x = json.load(open(dj))
        meta["detection"] = {"ran": "tools/run_seeds.py: git -C /repo apply patch.diff; ./verif check <property> --tier quick; git -C /repo checkout -- .",
                             "checks": x.get("checks", {})}
    old = os.path.join(d, "meta.json")
    if os.path.exists(old):
        try:
            o = json.load(open(old))
            for k in ("also_check", "remarks"):
                if k in o:
                    meta[k] = o[k]
        except Exception:
            pass
    json.dump(meta, open(old, "w"), indent=1)
print("meta written for", len(os.listdir(os.path.join(ROOT, "seeded"))))
