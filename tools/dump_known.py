import importlib.util, json, sys, os
sys.path.insert(0, "/verif/concrete/standins"); sys.path.insert(0, "/repo")
sys.argv = [sys.argv[0]] + sys.argv[2:]
path = "/verif/concrete/standins/" + os.environ["SCRIPT"]
spec = importlib.util.spec_from_file_location("standin_mod", path)
mod = importlib.util.module_from_spec(spec)
spec.loader.exec_module(mod)
print("KNOWNJSON" + json.dumps(getattr(mod, "KNOWN", {})))
