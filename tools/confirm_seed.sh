#!/bin/bash
# usage: confirm_seed.sh <prop> <mk> <srcdir>   e.g. C03 m1 /tmp/seed/C03/_out/m1
# Confirms a seeded mutation in a fresh scratch worktree: demo passes clean, fails patched, test suite unchanged.
set -u
P=$1; M=$2; SRC=$3
ID="${P}-${M}"
DST=/verif/seeded/$ID
WT=/tmp/confirm/$ID
mkdir -p $DST /tmp/confirm
cp $SRC/patch.diff $DST/patch.diff
cp $SRC/demo.py $DST/demo.py
cp $SRC/notes.md $DST/notes.md 2>/dev/null
git -C /repo worktree remove --force $WT >/dev/null 2>&1
git -C /repo worktree add --detach $WT >/dev/null 2>&1
mkdir -p $WT/_out/$M && cp $DST/demo.py $WT/_out/$M/demo.py
cd $WT
export OMP_NUM_THREADS=4 MKL_NUM_THREADS=4
/venv/bin/python _out/$M/demo.py > $DST/demo_clean.log 2>&1; RC_CLEAN=$?
git apply $DST/patch.diff; RC_APPLY=$?
/venv/bin/python _out/$M/demo.py > $DST/demo_patched.log 2>&1; RC_PATCHED=$?
/venv/bin/python -m pytest -q -p no:cacheprovider --timeout=1800 --continue-on-collection-errors tests > $DST/pytest_patched.log 2>&1
FAILED=$(grep -E "^(FAILED|ERROR)" $DST/pytest_patched.log | sed 's/ - .*//' | sort | tr '\n' ';')
SUMMARY=$(tail -1 $DST/pytest_patched.log)
cd /; git -C /repo worktree remove --force $WT >/dev/null 2>&1
python3 - <<PY
import json
json.dump({"id":"$ID","property":"$P","apply_rc":$RC_APPLY,"demo_clean_rc":$RC_CLEAN,"demo_patched_rc":$RC_PATCHED,
 "pytest_failed":"$FAILED","pytest_summary":"""$SUMMARY""",
 "expected_always_failing":"tests/test_envs.py::test_eda[DPPEnv];tests/test_envs.py::test_eda[MDPPEnv];tests/test_policy.py::test_am_policy[dpp];tests/test_policy.py::test_am_policy[mdpp]"},
 open("$DST/confirm.json","w"),indent=1)
PY
tail -2 $DST/demo_patched.log | cut -c1-200
echo "$ID apply=$RC_APPLY clean=$RC_CLEAN patched=$RC_PATCHED tests: $SUMMARY"
