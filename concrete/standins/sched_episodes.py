"""Bounded stand-in: scheduling environments FJSPEnv, JSSPEnv, FFSPEnv, SMTWTPEnv (properties C07, C02, C03, C04).

The real env.reset / env.step / env.get_reward are driven through mask-confined episodes. Every expected value comes
from an oracle written from the problem definition in plain Python (lists, no rl4co call), fed ONLY with the original
instance data (generator output / the text written to instance files) and the executed action sequence.

Clauses, named "<prop>.<env>.<clause>" with env in fjsp|jssp|ffsp|smtwtp:
  C07 *.op-once-eligible-exact-time  every real op on exactly one machine, eligible (p>0), finish-start == p[m][op], padded
                                     ops never processed. Oracle: validity checker run on the schedule the env reports
                                     (start_times/finish_times/ma_assignment; FFSP schedule/job_duration)
  C07 *.job-order-no-overlap         start(next op of the job / next stage) >= finish(previous)       (same checker)
  C07 *.machine-no-overlap           ops of one machine, sorted by start, do not overlap              (same checker)
  C07 *.schedule-matches-actions     reported (machine,start,finish) of every op == dispatch simulation of the actions:
                                     FJSP/JSSP action (job[,machine]) starts at max(time, job ready, machine free), wait
                                     moves time to the next completion; FFSP polls machines stage-major at integer
                                     times and offers the first (free machine, ready job) slot, job index J = wait
  C07 fjsp|jssp.file-instance-parsed instances read from FJSPLIB / JSSP text files == the data written (incl. padding)
  C07 smtwtp.permutation-no-dummy    executed actions are a permutation of jobs 1..n (dummy node 0 never scheduled)
  C02 *.dead-end / *.finished-row-all-masked   a row (unfinished / finished) has no feasible action while the batch runs
  C02 *.finished-becomes-unfinished  done flips back
  C02 *.step-bound                   row done within #ops (+ #waits <= #ops when waiting is allowed) [FJSP/JSSP],
                                     J*S + S*M*(sum_j max dur_j + 1) [FFSP], n [SMTWTP]
  C02 *.done-step                    done reported exactly at the step at which the oracle completes the schedule
  C02 *.step-raises                  library raised (or did not return within 20 s) on mask-admitted actions
  C03 *.reward-equals-objective      get_reward == -(latest completion) of the reported schedule and of the oracle
                                     schedule (exact); SMTWTP -(sum w*max(0,C-d)) recomputed in float64, rel. tol 1e-5
  C04 *.solo|rebatch.masks|done-step|reward   same instance + same actions stepped alone (batch 1) and inside another
                                     batch (other size/position, next to copies of itself and other instances, random
                                     post-finish padding): identical masks before every step, finishing step, reward
Bound: printed in the result ("bound"; quick ~57k complete episodes in ~20 s + 7 s imports, thorough ~690k in ~4 min,
2 GB RSS). Options: --only fjsp,jssp,ffsp,smtwtp restricts the envs, --prop Cxx the reported clauses. Exhaustive part = ALL mask-admitted action sequences (incl. waits) of tiny
instances, explored breadth-first with the whole frontier stepped as one batch (rows = instance x action prefix, so
every row sits next to copies of itself at other progress); random part = uniformly random feasible actions.
"""
import os
import random
import shutil
import signal
import sys
import tempfile

sys.path.insert(0, os.path.dirname(os.path.abspath(__file__)))
import _lib  # noqa: E402

_lib.setup_path()
import torch  # noqa: E402

from rl4co.envs.scheduling import FFSPEnv, FJSPEnv, JSSPEnv, SMTWTPEnv  # noqa: E402

KNOWN = {}  # no clause is violated by the unchanged library within the bound
ARGS, REP, RNG = None, None, None
UNSCHED = -999999  # FFSP 'schedule' filler


def V(name, what, inp=None):
    if ARGS.prop and not name.startswith(ARGS.prop):
        return
    (REP.known if name in KNOWN else REP.violation)(name, what, inp)


class limit:
    """SIGALRM watchdog: a library call that does not return is reported (C02 step-raises), the harness never hangs."""

    hung = set()  # envs that timed out once are not driven any further

    def __init__(self, name, seconds=20):
        self.name, self.s = name, seconds

    def __enter__(self):
        signal.signal(signal.SIGALRM, self.fire)
        signal.setitimer(signal.ITIMER_REAL, self.s)

    def __exit__(self, *a):
        signal.setitimer(signal.ITIMER_REAL, 0)

    def fire(self, *a):
        limit.hung.add(self.name)
        raise TimeoutError(f"library call did not return within {self.s} s")


# ----------------------------------------------------------------------------- oracles (plain Python)
def js_inst(td0, i, jssp):
    """FJSP/JSSP instance as lists from generator output row i; None if not well formed (precondition)."""
    pad = td0["pad_mask"][i].tolist()
    nops = pad.count(False)
    s = [int(x) for x in td0["start_op_per_job"][i].tolist()]
    e = [int(x) for x in td0["end_op_per_job"][i].tolist()]
    P = [[float(x) for x in r[:nops]] for r in td0["proc_times"][i].tolist()]
    jobs = [list(range(a, b + 1)) for a, b in zip(s, e)]
    nel = [sum(P[m][o] > 0 for m in range(len(P))) for o in range(nops)]
    ok = pad == [False] * nops + [True] * (len(pad) - nops) and sum(jobs, []) == list(range(nops))
    ok = ok and all(n == 1 if jssp else n >= 1 for n in nel) and all(x >= 0 for r in P for x in r)
    return dict(kind="jssp" if jssp else "fjsp", jobs=jobs, P=P, nops=nops, npad=len(pad) - nops) if ok else None


def js_oracle(inst, acts, no_wait_mode):
    """Dispatch simulation from instance + actions alone -> ({op: (machine, start, finish)}, done_step, problems)."""
    jobs, P = inst["jobs"], inst["P"]
    M, t, done, bad, sched = len(P), 0.0, None, [], {}
    nxt, jready, mfree = [0] * len(jobs), [0.0] * len(jobs), [0.0] * M
    for k, a in enumerate(acts):
        if done is not None:
            bad.append(f"still running at step {k} although all operations completed at step {done}")
            break
        if a == 0:  # wait: jump to the next completion
            fut = [f for (_, _, f) in sched.values() if f > t]
            if not fut:
                bad.append(f"step {k}: wait executed with nothing in process")
                break
            t = min(fut)
        else:
            j, m = (a - 1, None) if inst["kind"] == "jssp" else divmod(a - 1, M)
            if j >= len(jobs) or nxt[j] >= len(jobs[j]):
                bad.append(f"step {k}: action {a} selects job {j} which has no operation left")
                break
            op = jobs[j][nxt[j]]
            m = [mm for mm in range(M) if P[mm][op] > 0][0] if m is None else m
            if P[m][op] <= 0:
                bad.append(f"step {k}: action {a} puts op {op} on ineligible machine {m}")
                break
            t = max(t, jready[j], mfree[m])
            sched[op] = (m, t, t + P[m][op])
            nxt[j] += 1
            jready[j] = mfree[m] = t + P[m][op]
        if len(sched) == inst["nops"] and (no_wait_mode or t >= max(f for (_, _, f) in sched.values())):
            done = k + 1
    return sched, done, bad


def ffsp_oracle(inst, acts):
    """FFSP: D[j][machine] durations, S stages x M machines per stage; absolute integer times."""
    D, S, M = inst["D"], inst["S"], inst["M"]
    J, MT, t, s, done, bad, sched = len(D), S * M, 0, 0, None, [], {}
    loc, jready, mfree = [0] * J, [0] * J, [0] * MT
    for k, a in enumerate(acts):
        if done is not None:
            bad.append(f"still running at step {k} although all jobs left the last stage at step {done}")
            break
        if a != J:
            if not (0 <= a < J) or loc[a] != s // M or jready[a] > t or mfree[s] > t:
                bad.append(f"step {k}: job {a} taken on machine {s} at t={t}: job not at this stage / not ready / machine busy")
                break
            sched[(a, s // M)] = (s, t, t + D[a][s])
            loc[a] += 1
            jready[a] = mfree[s] = t + D[a][s]
        if all(x == S for x in loc):
            done = k + 1
            continue
        for _ in range(MT * (sum(max(r) for r in D) + 2) + 1):  # next (free machine, ready job) slot
            s += 1
            if s == MT:
                s, t = 0, t + 1
            if mfree[s] <= t and any(loc[j] == s // M and jready[j] <= t for j in range(J)):
                break
        else:
            bad.append(f"step {k}: no further slot")
            break
    return sched, done, bad


def judge(name, ops, chains, oracle, nops, reward, dstep, ctx):
    """ops: reported {op: (machine, start, finish, eligible, p)}; chains: op lists that must run in order."""
    p = f"C07.{name}"
    for op, (m, s, f, el, pt) in ops.items():
        if not el or s < 0 or f - s != pt:
            V(p + ".op-once-eligible-exact-time", f"op {op} on machine {m} [{s},{f}] eligible={el} p={pt}", ctx)
    for ch in chains:
        for a, b in zip(ch, ch[1:]):
            if a in ops and b in ops and ops[b][1] < ops[a][2]:
                V(p + ".job-order-no-overlap", f"op {b} starts {ops[b][1]} before predecessor {a} ends {ops[a][2]}", ctx)
    bym = {}
    for op, (m, s, f, _, _) in ops.items():
        bym.setdefault(m, []).append((s, f, op))
    for m, lst in bym.items():
        lst.sort(key=lambda x: x[:2])
        for x, y in zip(lst, lst[1:]):
            if y[0] < x[1]:
                V(p + ".machine-no-overlap", f"machine {m}: op {y[2]} [{y[0]},{y[1]}] overlaps op {x[2]} [{x[0]},{x[1]}]", ctx)
    sched, odone, bad = oracle
    for b in bad:
        V(p + ".schedule-matches-actions", b, ctx)
    got = {op: v[:3] for op, v in ops.items()}
    if not bad and got != sched:
        diff = {str(op): (got.get(op), sched.get(op)) for op in set(got) | set(sched) if got.get(op) != sched.get(op)}
        V(p + ".schedule-matches-actions", f"(reported, oracle) (machine,start,finish) per op: {diff}", ctx)
    if not bad and odone != dstep:
        V(f"C02.{name}.done-step", f"env done at step {dstep}, oracle schedule complete at step {odone}", ctx)
    rep_ms = max([v[2] for v in ops.values()], default=None)
    orc_ms = max([f for (_, _, f) in sched.values()], default=None)
    if rep_ms is None or reward != -rep_ms or (not bad and len(sched) == nops and reward != -orc_ms):
        V(f"C03.{name}.reward-equals-objective", f"reward {reward}, reported makespan {rep_ms}, oracle makespan {orc_ms}", ctx)


# ----------------------------------------------------------------------------- per-environment adapters
class Kind:
    exact, big = True, 0

    def gen(self, n):
        return self.env.generator(batch_size=[n])

    def reward(self, td, acts):
        return self.env.get_reward(td, acts)

    def finish(self, child, done, acts):  # BFS: final states + rewards of the rows that just finished
        fin = child[done]
        return fin, self.reward(fin, torch.tensor(acts, dtype=torch.long))


class JobShop(Kind):
    def __init__(self, name, gp, mode):
        self.name, self.mode = name, mode
        self.env = (FJSPEnv if name == "fjsp" else JSSPEnv)(generator_params=gp, mask_no_ops=mode)
        self.label = f"{name}:{gp}:mask_no_ops={mode}"

    def inst(self, td0, i):
        return js_inst(td0, i, self.name == "jssp")

    def bound(self, inst):
        return inst["nops"] * (1 if self.mode else 2)

    def final_lists(self, td):
        return [td[k].tolist() for k in ("start_times", "finish_times", "ma_assignment")]

    def check(self, inst, acts, fl, r, reward, dstep, ctx):
        S, F, A, P, n, ops = fl[0][r], fl[1][r], fl[2][r], inst["P"], inst["nops"], {}
        for op in range(n + inst["npad"]):
            ms = [m for m in range(len(P)) if A[m][op] != 0]
            if len(ms) != (1 if op < n else 0):
                V(f"C07.{self.name}.op-once-eligible-exact-time", f"{'real' if op < n else 'padded'} op {op} processed on machines {ms}", ctx)
            elif op < n:
                ops[op] = (ms[0], S[op], F[op], P[ms[0]][op] > 0, P[ms[0]][op])
        judge(self.name, ops, inst["jobs"], js_oracle(inst, acts, self.mode), n, reward, dstep, ctx)


class FlowShop(Kind):
    name = "ffsp"

    def __init__(self, gp, big=0):
        self.env, self.big, self.label = FFSPEnv(generator_params=gp), big, f"ffsp:{gp}"

    def inst(self, td0, i):
        return dict(kind="ffsp", D=td0["run_time"][i].tolist(), S=self.env.num_stage, M=self.env.num_machine)

    def bound(self, inst):
        return len(inst["D"]) * inst["S"] + inst["S"] * inst["M"] * (sum(max(r) for r in inst["D"]) + 1)

    def finish(self, child, done, acts):
        if bool(done.all()):
            return child, child["reward"]
        fin = child[done]  # the env fills 'reward' once the whole stepped batch is done: one padding step
        m = fin["action_mask"]
        if not bool(m.any(-1).all()):
            V("C02.ffsp.finished-row-all-masked", "finished row offered no action while batch-mates run (BFS frontier)", None)
            return fin, torch.full((fin.batch_size[0],), float("nan"))
        fin.set("action", m.int().argmax(-1))
        fin = self.env.step(fin)["next"]
        return fin, fin["reward"]

    def final_lists(self, td):
        return [td["schedule"].tolist(), td["job_duration"].tolist()]

    def check(self, inst, acts, fl, r, reward, dstep, ctx):
        (SC, JD), D, S, M = (fl[0][r], fl[1][r]), inst["D"], inst["S"], inst["M"]
        J, ops = len(D), {}
        if [row[: S * M] for row in JD[:J]] != D:
            V("C07.ffsp.op-once-eligible-exact-time", "job_duration in the state differs from the instance run_time", ctx)
        for j in range(J):
            for st in range(S):
                ms = [m for m in range(st * M, st * M + M) if SC[m][j] != UNSCHED]
                if len(ms) != 1:
                    V("C07.ffsp.op-once-eligible-exact-time", f"job {j} stage {st} processed on machines {ms} (must be exactly one)", ctx)
                else:
                    ops[(j, st)] = (ms[0], SC[ms[0]][j], SC[ms[0]][j] + D[j][ms[0]], True, D[j][ms[0]])
        judge("ffsp", ops, [[(j, st) for st in range(S)] for j in range(J)], ffsp_oracle(inst, acts), J * S, reward, dstep, ctx)


class Tardiness(Kind):
    name, exact = "smtwtp", False

    def __init__(self, gp):
        self.env, self.label = SMTWTPEnv(generator_params=gp), f"smtwtp:{gp}"

    def inst(self, td0, i):
        return dict(kind="smtwtp", due=td0["job_due_time"][i].tolist(), w=td0["job_weight"][i].tolist(), p=td0["job_process_time"][i].tolist())

    def bound(self, inst):
        return len(inst["p"]) - 1

    def final_lists(self, td):
        return []

    def check(self, inst, acts, fl, r, reward, dstep, ctx):
        n = len(inst["p"]) - 1
        if sorted(acts) != list(range(1, n + 1)):
            return V("C07.smtwtp.permutation-no-dummy", f"actions {acts} are not a permutation of 1..{n}", ctx)
        t = obj = 0.0
        for a in acts:
            t += inst["p"][a]
            obj += inst["w"][a] * max(0.0, t - inst["due"][a])
        if abs(reward + obj) > 1e-5 * max(1.0, abs(obj)):
            V("C03.smtwtp.reward-equals-objective", f"reward {reward}, weighted tardiness {obj}", ctx)


# ----------------------------------------------------------------------------- drivers
def episode(K, td0, plan=None, tag=""):
    """One batched mask-confined episode; plan[i] = actions to replay for row i (afterwards / else random feasible)."""
    env, B = K.env, td0.batch_size[0]
    insts = [K.inst(td0, i) for i in range(B)]
    if K.name in limit.hung:
        return None
    if any(x is None for x in insts):
        return REP.error(f"{K.label}: instance not well formed, batch skipped")
    bounds = [K.bound(x) for x in insts]
    rec = dict(acts=[[] for _ in range(B)], masks=[[] for _ in range(B)], dstep=[None] * B, insts=insts, ok=False, reward=None)
    ctx = lambda i, k: dict(config=K.label, tag=tag, row=i, batch=B, instance=insts[i], actions=rec["acts"][i][:k])  # noqa: E731
    td = env.reset(td0.clone())
    prev, k = [False] * B, 0
    while True:
        done = td["done"].reshape(-1).tolist()
        for i in range(B):
            if prev[i] and not done[i]:
                V(f"C02.{K.name}.finished-becomes-unfinished", f"row {i} done at step {rec['dstep'][i]} is not done at step {k}", ctx(i, k))
            if done[i] and rec["dstep"][i] is None:
                rec["dstep"][i] = k
        prev = done
        if all(done):
            break
        if k > max(bounds):
            late = [i for i in range(B) if not done[i]]
            V(f"C02.{K.name}.step-bound", f"rows {late} not done after {k} steps (bounds {[bounds[i] for i in late]})", ctx(late[0], k))
            return rec
        ml, a = td["action_mask"].tolist(), []
        for i in range(B):
            feas = [x for x, f in enumerate(ml[i]) if f]
            rec["masks"][i].append(tuple(ml[i]))
            if not feas:
                V(f"C02.{K.name}." + ("finished-row-all-masked" if done[i] else "dead-end"),
                  f"row {i} (done={done[i]}) has no feasible action at step {k} while rows {[j for j in range(B) if not done[j]]} run", ctx(i, k))
                return rec
            if plan is not None and k < len(plan[i]) and not ml[i][plan[i][k]]:
                return rec  # replay diverged: reported by the C04 comparison of the masks
            a.append(plan[i][k] if plan is not None and k < len(plan[i]) else RNG.choice(feas))
            rec["acts"][i].append(a[-1])
        td.set("action", torch.tensor(a, dtype=torch.long))
        try:
            with limit(K.name):
                td = env.step(td)["next"]
        except Exception as e:  # library raised on mask-admitted actions
            V(f"C02.{K.name}.step-raises", f"env.step raised {type(e).__name__}: {e} at step {k}, batch actions {a}", ctx(0, k + 1))
            return rec
        k += 1
    for i in range(B):
        if rec["dstep"][i] > bounds[i]:
            V(f"C02.{K.name}.step-bound", f"row {i} done after {rec['dstep'][i]} steps > bound {bounds[i]}", ctx(i, rec["dstep"][i]))
    try:
        rec["reward"] = K.reward(td, torch.tensor(rec["acts"], dtype=torch.long)).reshape(-1).tolist()
    except Exception as e:
        V(f"C03.{K.name}.reward-equals-objective", f"get_reward raised {type(e).__name__}: {e} on a completed episode", ctx(0, k))
        return rec
    fl = K.final_lists(td)
    for i in range(B):
        d = rec["dstep"][i]
        K.check(insts[i], rec["acts"][i][:d], fl, i, rec["reward"][i], d, ctx(i, d))
    rec["ok"] = True
    return rec


def compare(K, base, i, other, r, how, info):
    """C04: row i of the base episode vs row r of a replay of the same instance with the same actions."""
    d = base["dstep"][i]
    ctx = dict(config=K.label, instance=base["insts"][i], actions=base["acts"][i][:d], **info)
    m0, m1 = base["masks"][i][:d], other["masks"][r][:d]
    if m0 != m1:
        k = next((x for x in range(min(len(m0), len(m1))) if m0[x] != m1[x]), min(len(m0), len(m1)))
        V(f"C04.{K.name}.{how}.masks", f"mask before step {k} differs: {m0[k] if k < len(m0) else None} vs {m1[k] if k < len(m1) else None}", ctx)
    elif other["dstep"][r] != d:
        V(f"C04.{K.name}.{how}.done-step", f"done at step {d} vs {other['dstep'][r]}", ctx)
    elif other["reward"] is not None:
        a, b = base["reward"][i], other["reward"][r]
        if (a != b) if K.exact else abs(a - b) > 1e-5 * max(1.0, abs(a)):
            V(f"C04.{K.name}.{how}.reward", f"reward {a} vs {b}", ctx)


def random_config(K, B, td0=None, nsolo=2):
    td0 = K.gen(B) if td0 is None else td0
    B = td0.batch_size[0]
    base = episode(K, td0, tag="random batch")
    if base is None or not base["ok"]:
        return
    dd = base["dstep"]
    for i in range(B):
        REP.case((K.label, "rand", REP.cases, tuple(base["acts"][i][: dd[i]])))  # every generated row is a fresh instance
    order = sorted(range(B), key=lambda i: dd[i])
    for i in dict.fromkeys([order[0], order[-1]] + RNG.sample(range(B), min(B, nsolo))):
        solo = episode(K, td0[i : i + 1], plan=[base["acts"][i][: dd[i]]], tag=f"solo replay of row {i}")
        if solo is not None:
            compare(K, base, i, solo, 0, "solo", dict(base_batch=B, base_row=i))
    idx = [RNG.randrange(B) for _ in range(max(2, B // 2 + 1))]
    idx[-1] = idx[0]  # at least one instance sits next to a copy of itself
    reb = episode(K, td0[torch.tensor(idx)], plan=[base["acts"][i][: dd[i]] for i in idx], tag=f"rebatch rows {idx}")
    if reb is not None:
        for r, i in enumerate(idx):
            compare(K, base, i, reb, r, "rebatch", dict(base_batch=B, base_row=i, new_batch_rows=idx, new_row=r))


def bfs(K, td0, chunk=8192):
    """All mask-admitted action sequences of the instances in td0; the frontier is stepped as one batch."""
    env, n = K.env, td0.batch_size[0]
    insts = [K.inst(td0, i) for i in range(n)]
    if K.name in limit.hung:
        return None
    if any(x is None for x in insts):
        return REP.error(f"{K.label}: instance not well formed, exhaustive exploration skipped")
    cap = max(K.bound(x) for x in insts)
    # FFSP keeps batch-size dependent index tables on the env: reset a large batch and explore sub-batches of it
    td = env.reset(td0[torch.arange(K.big) % n].clone())[:n] if K.big else env.reset(td0.clone())
    hist, depth = [(i, ()) for i in range(n)], 0
    while hist:
        mk = lambda h: dict(config=K.label, tag="exhaustive", instance=insts[h[0]], actions=list(h[1]))  # noqa: E731
        if depth > cap:
            return V(f"C02.{K.name}.step-bound", f"{len(hist)} action prefixes still unfinished after {depth} steps", mk(hist[0]))
        mask = td["action_mask"]
        for r in (~mask.any(-1)).nonzero().reshape(-1).tolist():
            V(f"C02.{K.name}.dead-end", f"no feasible action after prefix {list(hist[r][1])}", mk(hist[r]))
        rows, acts = mask.nonzero(as_tuple=True)
        nh, nxt = [], []
        for c in range(0, rows.numel(), chunk):
            rr, aa = rows[c : c + chunk], acts[c : c + chunk]
            child = td[rr].clone()
            child.set("action", aa.clone())
            hh = [(hist[r][0], hist[r][1] + (a,)) for r, a in zip(rr.tolist(), aa.tolist())]
            try:
                with limit(K.name):
                    child = env.step(child)["next"]
                    done = child["done"].reshape(-1)
                    dl = done.nonzero().reshape(-1).tolist()
                    if dl:
                        fin, rew = K.finish(child, done, [hh[r][1] for r in dl])
                        fl, rew = K.final_lists(fin), rew.reshape(-1).tolist()
            except Exception as e:
                return V(f"C02.{K.name}.step-raises", f"{type(e).__name__}: {e} at depth {depth} (batch of {len(hh)} prefixes, last action of each mask-admitted)", mk(hh[0]))
            for q, r in enumerate(dl):
                if rew[q] != rew[q]:  # NaN: no reward obtainable, already reported by finish()
                    continue
                REP.case((K.label, "bfs", hh[r]))  # (instance index, action sequence)
                K.check(insts[hh[r][0]], list(hh[r][1]), fl, q, rew[q], depth + 1, mk(hh[r]))
            keep = (~done).nonzero().reshape(-1)
            if keep.numel():
                nxt.append(child[keep])
                nh += [hh[r] for r in keep.tolist()]
        td, hist, depth = (torch.cat(nxt, 0) if nxt else None), nh, depth + 1


# ----------------------------------------------------------------------------- instances read from files
FILES = dict(  # 2 jobs x 2 machines; jobs -> ops -> {machine: duration}
    fjsp=[[[{0: 3, 1: 4}, {1: 5}], [{0: 2}]], [[{0: 3}], [{1: 2}]], [[{0: 1, 1: 1}, {0: 2, 1: 1}], [{0: 2}, {1: 3, 0: 1}]],
          [[{1: 2}, {0: 1, 1: 2}, {0: 1}], [{0: 2, 1: 2}]]],
    jssp=[[[{0: 3}, {1: 4}], [{1: 2}, {0: 5}]], [[{0: 3}], [{1: 2}, {0: 1}]], [[{1: 2}, {0: 2}, {1: 1}], [{0: 4}]]])


def file_config(name, mode, tmp):
    """Write FJSPLIB / JSSP text files, build the env on the directory, check the parsed instances."""
    d, specs, want = tempfile.mkdtemp(dir=tmp), FILES[name], []
    for n, spec in enumerate(specs):
        op_txt = lambda op: " ".join(([str(len(op))] if name == "fjsp" else []) + [f"{m + 1} {p}" for m, p in op.items()])  # noqa: E731
        lines = ["2 2"] + [" ".join(([str(len(job))] if name == "fjsp" else []) + [op_txt(op) for op in job]) for job in spec]
        with open(os.path.join(d, f"inst{n}.txt"), "w") as fh:
            fh.write("\n".join(lines) + "\n")
        ops, ends = [op for job in spec for op in job], [sum(len(j) for j in spec[: x + 1]) - 1 for x in range(len(spec))]
        want.append(dict(jobs=[list(range(e - len(j) + 1, e + 1)) for j, e in zip(spec, ends)],
                         P=[[float(op.get(m, 0)) for op in ops] for m in range(2)], nops=len(ops)))
    K = JobShop(name, {"file_path": d}, mode)
    K.label = f"{name}:files({len(specs)} x 2 jobs x 2 machines, 2-4 ops):mask_no_ops={mode}"
    td0 = K.gen(len(specs))
    got = [K.inst(td0, i) for i in range(td0.batch_size[0])]
    strip = [None if g is None else {k: g[k] for k in ("jobs", "P", "nops")} for g in got]
    width = max(w["nops"] for w in want)
    if len(got) != len(specs) or any(w not in strip for w in want) or any(g and g["nops"] + g["npad"] != width for g in got):
        V(f"C07.{name}.file-instance-parsed", f"parsed instances differ from the {len(specs)} written files (padded width {width})",
          dict(written=want, parsed=strip))
    return K, td0


# ----------------------------------------------------------------------------- main
def main():
    global ARGS, REP, RNG
    ARGS = _lib.args()
    th = ARGS.tier == "thorough"
    torch.set_num_threads(2)
    torch.manual_seed(ARGS.seed)
    RNG = random.Random(ARGS.seed)
    fj = lambda j, m, lo, hi, pt=3, **kw: dict(num_jobs=j, num_machines=m, min_ops_per_job=lo, max_ops_per_job=hi, max_processing_time=pt, **kw)  # noqa: E731
    jp = lambda j, m, pt=3, **kw: dict(num_jobs=j, num_machines=m, max_processing_time=pt, **kw)  # noqa: E731
    ff = lambda s, m, j, hi=3, **kw: dict(num_stage=s, num_machine=m, num_job=j, min_time=1, max_time=hi, **kw)  # noqa: E731
    loose = dict(one2one_ma_map=False)
    nx, nb, B = (16, 8, 32) if th else (6, 2, 16)  # instances per exhaustive config; random batches per config; rows per batch
    # exhaustive configs: (generator params, modes)
    XFJ = [(fj(2, 2, 1, 2), (True, False)), (fj(1, 2, 1, 3), (True, False)), (fj(3, 1, 1, 2), (True, False)), (fj(2, 3, 1, 3), (True, False)),
           (fj(3, 2, 1, 2), (True, False)), (fj(3, 3, 2, 2, 4), (True, False) if th else (True,))]
    XJP = [(jp(2, 2), (True, False)), (jp(3, 1), (True, False)), (jp(3, 2), (True, False)), (jp(3, 2, min_ops_per_job=1, max_ops_per_job=3, **loose), (True, False)),
           (jp(3, 3), (True,))]
    XFF = [ff(1, 2, 3), ff(2, 2, 1), ff(2, 1, 2), ff(2, 2, 2), ff(2, 2, 3), ff(3, 2, 2), ff(2, 2, 2, flatten_stages=False), ff(3, 1, 3)]
    XSM = (1, 2, 3, 4, 5, 6) if th else (1, 2, 3, 4, 5)
    # random configs
    RFJ = [fj(3, 2, 1, 3, 5), fj(4, 3, 2, 4, 9), fj(5, 3, 1, 3, 20, same_mean_per_op=False), fj(6, 2, 3, 3, 7, max_eligible_ma_per_op=1)]
    RJP = [jp(3, 3, 9), jp(4, 3, 6, min_ops_per_job=1, max_ops_per_job=3, **loose), dict(num_jobs=6, num_machines=6)]
    RFF = [ff(2, 2, 3, 4), dict(num_stage=2, num_machine=3, num_job=4), ff(3, 2, 5, 6), ff(2, 2, 4, 5, flatten_stages=False)]
    RSM = (3, 5, 8)
    if th:
        RFJ += [dict(num_jobs=10, num_machines=5), fj(8, 4, 1, 5, 30)]
        RJP += [jp(8, 4, 50, min_ops_per_job=2, max_ops_per_job=5, **loose), dict(num_jobs=10, num_machines=5)]
        RFF += [dict(num_stage=3, num_machine=3, num_job=6), dict(num_stage=3, num_machine=4, num_job=8)]
        RSM += (12, 20)
    bound = (f"tier={ARGS.tier} seed={ARGS.seed} envs={ARGS.only or 'fjsp,jssp,ffsp,smtwtp'}. EXHAUSTIVE = every mask-admitted action sequence (incl. waits) of {nx} generated "
             f"instances per config, frontier stepped as one batch: FJSP {[(g, m) for g, m in XFJ]} ; JSSP {[(g, m) for g, m in XJP]} "
             f"(second element = mask_no_ops values); FJSP/JSSP instances read from {len(FILES['fjsp'])}/{len(FILES['jssp'])} hand-written FJSPLIB/JSSP "
             f"text files (2 jobs x 2 machines, 2-4 ops, padded to a common width) x mask_no_ops in (True,False); FFSP {XFF}; SMTWTP all n! orders, "
             f"num_job in {XSM}, 3 instances each. RANDOM = uniformly random feasible action at every step, {nb} batches x {B} rows per config: "
             f"FJSP {RFJ} and JSSP {RJP} x mask_no_ops in (True,False), FFSP {RFF} ({2 * nb} batches), SMTWTP num_job in {RSM}, plus the FJSP/JSSP file "
             f"instances as one padded batch; every random batch is replayed solo (batch size 1) for its first and last finishing row + 2 random rows "
             f"and re-batched once (size {B // 2 + 1}, rows resampled with repetition, other positions, random post-finish padding).")
    REP = _lib.Report(bound=bound, rule="case = (config, instance data, complete mask-confined action sequence of one instance)", exhaustive=False)
    only = [x for x in ARGS.only.split(",") if x]
    want = lambda n: not only or n in only  # noqa: E731
    tmp = tempfile.mkdtemp(prefix="sched_standin_")
    jobs = []
    for name, X, R in (("fjsp", XFJ, RFJ), ("jssp", XJP, RJP)):
        if want(name):
            jobs += [lambda name=name, g=g, m=m: bfs(K := JobShop(name, g, m), K.gen(nx)) for g, ms in X for m in ms]
            jobs += [lambda name=name, m=m: bfs(*file_config(name, m, tmp)) for m in (True, False)]
            jobs += [lambda name=name, m=m: random_config(*(lambda K, td0: (K, None, td0))(*file_config(name, m, tmp))) for m in (True, False)]
            jobs += [lambda name=name, g=g, m=m: random_config(JobShop(name, g, m), B) for g in R for m in (True, False) for _ in range(nb)]
    if want("ffsp"):
        jobs += [lambda g=g: bfs(K := FlowShop(g, big=8192), K.gen(nx)) for g in XFF]
        jobs += [lambda g=g: random_config(FlowShop(g), B) for g in RFF for _ in range(2 * nb)]
    if want("smtwtp"):
        jobs += [lambda n=n: bfs(K := Tardiness(dict(num_job=n)), K.gen(3)) for n in XSM]
        jobs += [lambda n=n: random_config(Tardiness(dict(num_job=n)), B) for n in RSM for _ in range(nb)]
    try:
        for n, job in enumerate(jobs):
            c0, t0 = REP.cases, REP.elapsed()
            REP.guard(job, f"job {n}")
            if os.environ.get("V"):
                print(f"job {n}: {REP.cases - c0} cases, {REP.elapsed() - t0:.2f}s", file=sys.stderr)
    finally:
        shutil.rmtree(tmp, ignore_errors=True)
    return REP.finish()


if __name__ == "__main__":
    sys.exit(main())
