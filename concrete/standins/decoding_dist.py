#!/usr/bin/env python
"""Bounded stand-in for C10: decoding distributions are proper and confined to feasible actions.

Functions under test (real code, imported from TVC_REPO): rl4co.utils.decoding.process_logits,
modify_logits_for_top_k_filtering, modify_logits_for_top_p_filtering, DecodingStrategy.greedy/.sampling/.step
(Greedy, Sampling, Evaluate), decode_logprobs, get_log_likelihood, and rl4co.utils.ops.calculate_entropy.

Oracle: `ref()` below -- an independent float64 implementation written from the definitions: masked softmax of
tanh-clipped, temperature-scaled logits (u); top-k = keep every action whose scaled logit is >= the k-th largest (v = u
renormalised on that set); nucleus = smallest prefix of v sorted by DEcreasing probability with mass >= p; final = v
renormalised on the nucleus. The library works in float32, so comparisons use tol = 1e-6 + 2^-21*max|scaled feasible
logit| (float32 rounding of the scaling; 1e-5 + same for whole-vector equality). Rows where the reference itself is
discontinuous (a float32-indistinguishable near-tie at the top-k boundary, cumulative mass within tol of p, or equal
probabilities straddling the nucleus boundary) are marked ambiguous: they skip only the equality/shift clauses.

Clauses (names = "C10." + ...), per (row, config) with config = (temperature, top_k, top_p, tanh_clipping):
  process_logits.no-exception / .no-nan / .normalised (|sum exp - 1| <= 1e-5) / .masked-zero-prob (exactly -inf)
  process_logits.argmax-kept           some float64 maximiser of the unfiltered masked distribution keeps p > 0
  process_logits.top_k.at-most-k-modulo-ties   support within {scaled logit >= k-th largest (or float32-near it)}
  process_logits.top_p.mass-at-least-p  support carries >= p - tol of the unfiltered distribution (of the top-k
                                        renormalised distribution when top_k is also active, as top-k is applied first)
  process_logits.matches-float64-reference     whole vector equals ref (unambiguous rows)
  process_logits.shift-invariant        tanh_clipping == 0: output(x + c) == output(x) for c in {3, -7.5, 64} on rows where
                                        x + c is exact in float32 (with tanh_clipping > 0 the shift would have to be applied
                                        to the clipped logits, which is internal: covered by matches-float64-reference)
  process_logits.mask-not-modified / .logits-only-masked-entries-mutated  (observed and reported in `rule`: with
                                        tanh_clipping == 0 the INPUT logits tensor is mutated in place, masked entries
                                        become -inf; with tanh_clipping > 0 the input is untouched)
  process_logits.rows-independent       row b of a batch == the row processed alone (bitwise, NaN == NaN)
  process_logits.top_p-tiny.all-actions-removed-nan   (KNOWN) NaN row for 0 < top_p < 1e-6
  greedy.feasible / greedy.maximal / greedy.maximiser-of-unfiltered / decode_logprobs.greedy-agrees
  sampling.positive-probability-feasible (inline draws per config) / sampling.frequencies (6-sigma, dedicated rows)
  top_k_filter.* / top_p_filter.*       direct calls: out-of-place, kept entries unchanged, removed == -inf, set == ref
  get_log_likelihood.value / .raises-on-unmasked-neginf / .finite-logprob-below-minus-1000.assert (KNOWN)
  calculate_entropy.value               == -sum_{p>0} p ln p summed over steps (float64), finite, in [0, sum ln #feasible]
  strategy_step.action-feasible / .logprob-matches-reference   Greedy/Sampling/Evaluate .step incl. store_all_logp

Bound: float32 CPU, N in 2..8 actions. Rows per N: exhaustive value grid V^N x all non-empty masks for N <= 3 (quick)
/ N <= 4 (thorough), V = {-1e4,-1,0,1e-8,1,1+2^-23,1e4}, plus random families (24 rows each quick / 500 thorough: randn, 10*randn, dyadic multiples of 1/64, small-int ties,
all-equal, huge +-1e4 mixes, adjacent-float near-ties) x random masks, single-feasible masks, all-True masks; duplicates
removed. Configs: temperature {0.1,.5,1,2,10} x top_k {0,1,2,3,N,N+5} x top_p {0,.1,.5,.9,.99,1, 1e-9,1e-7,1e-4} x
tanh_clipping {0,1,10}, full product (1e-9, 1e-7, 1e-4 probe the top_p -> 0 end of the quantifier). Exact numbers are
printed in the result's `bound`. A library call that does not return within 20 s (sampling's resample loop can spin
forever once a masked action has probability mass) is reported as a violation of the clause being checked.
"""
import itertools
import math
import os
import signal
import sys

sys.path.insert(0, os.path.dirname(os.path.abspath(__file__)))
import _lib  # noqa: E402

_lib.setup_path()
import torch  # noqa: E402
from tensordict import TensorDict  # noqa: E402

from rl4co.utils import decoding as D  # noqa: E402
from rl4co.utils.ops import calculate_entropy  # noqa: E402

KNOWN = {
    "C10.process_logits.top_p-tiny.all-actions-removed-nan": "logits [0,1,2,3], mask all True, top_p=1e-9 (any 0<top_p<~3e-8; "
    "~0.5% of random rows at 1e-7): `cum <= 1-top_p` is evaluated in float32, removes every action -> all-NaN log-probs",
    "C10.get_log_likelihood.finite-logprob-below-minus-1000.assert": "logits [1e4,-1e4,1e4,0] T=0.1, action 3 (feasible, "
    "log-prob -1e5, finite): assert `logprobs > -1000` raises 'should not be -inf'",
}
INF, U = math.inf, 2.0**-21
TEMPS, PS, CLIPS = [0.1, 0.5, 1.0, 2.0, 10.0], [0.0, 0.1, 0.5, 0.9, 0.99, 1.0, 1e-9, 1e-7, 1e-4], [0, 1.0, 10.0]
SHIFTS = [3.0, -7.5, 64.0]
V = [-1e4, -1.0, 0.0, 1e-8, 1.0, 1.0000001, 1e4]
CALL_TIMEOUT, HUNG = 20.0, set()
OBS = {}  # observed in-place behaviour of process_logits on its input, keyed by tanh_clipping > 0


def near(a, b):
    return (a - b).abs() <= U * torch.maximum(a.abs(), b.abs())


def ref(x, m, T, k, p, C):
    """float64 reference (see module docstring). x [B,N] float32, m [B,N] bool with >= 1 True per row."""
    N = x.shape[1]
    z = x.double()
    if C > 0:
        z = torch.tanh(z) * C
    z = z / T
    zm, zs = z.masked_fill(~m, -INF), z.masked_fill(~m, 0.0)
    zmax = zm.max(-1, keepdim=True).values
    e = torch.exp(zm - zmax)
    u = e / e.sum(-1, keepdim=True)
    scale = zs.abs().max(-1).values
    tol = 1e-6 + U * scale
    nearmax = m & (near(zs, zmax) | (zmax - zs <= 1e-6))  # maximisers up to what float32 probabilities can resolve
    req, allowed = m, m
    if k > 0:
        kth = zm.sort(-1, descending=True).values[:, min(k, N) - 1].unsqueeze(-1)  # -inf if fewer feasible than k
        fin = kth.isfinite()
        kf = torch.where(fin, kth, torch.zeros_like(kth))
        req = m & (zm >= kth)
        allowed = m & (~fin | (zs >= kf) | near(zs, kf))
    amb_k = (req != allowed).any(-1)
    v = u * req
    v = v / v.sum(-1, keepdim=True)
    nuc, amb = req, amb_k
    if 0 < p < 1:
        vs, idx = v.sort(dim=-1, descending=True, stable=True)
        before = vs.cumsum(-1) - vs  # mass of strictly better-ranked actions
        keep = (before < p) & (vs > 0)
        nuc = torch.zeros_like(req).scatter(-1, idx, keep)
        t = tol.unsqueeze(-1)
        close = ((before - p).abs() <= 4 * t) & (vs > 0)
        close[:, 0] = False
        nk = keep.sum(-1, keepdim=True)
        last, nxt = vs.gather(-1, nk - 1), vs.gather(-1, nk.clamp(max=N - 1))
        straddle = (nk < N) & (nxt > 0) & (nxt >= last * (1 - 4 * t))
        amb = amb | close.any(-1) | straddle.squeeze(-1)
    f = v * nuc
    f = f / f.sum(-1, keepdim=True)
    return dict(u=u, v=v, f=f, nearmax=nearmax, allowed=allowed, req=req, amb=amb, amb_k=amb_k, tol=tol, scale=scale)


def flag(rep, rows, name, what, x, m, cfg, **extra):
    if isinstance(rows, bool):
        rows = torch.full((len(x),), rows)
    if not bool(rows.any()):
        return
    i = int(rows.nonzero()[0])
    inp = dict(logits=x[i].tolist(), mask=m[i].tolist(), temperature=cfg[0], top_k=cfg[1], top_p=cfg[2], tanh_clipping=cfg[3],
               n_failing_rows=int(rows.sum()))
    inp.update({k_: (v_[i].tolist() if torch.is_tensor(v_) else v_) for k_, v_ in extra.items()})
    (rep.known if name in KNOWN else rep.violation)("C10." + name if not name.startswith("C10.") else name, what, inp)


class LibTimeout(Exception):
    pass


def _alarm(*_):
    raise LibTimeout(f"no result within {CALL_TIMEOUT} s (DecodingStrategy.sampling resamples forever while a masked action has probability mass)")


def call(rep, fn, name, x, m, cfg):
    """Run a library call; an exception (or a hang > CALL_TIMEOUT s) on a valid input is a violation of clause `name`."""
    if name in HUNG:
        return None
    signal.setitimer(signal.ITIMER_REAL, CALL_TIMEOUT)
    try:
        return fn()
    except Exception as e:
        if isinstance(e, LibTimeout):
            HUNG.add(name)  # do not pay the timeout again for every config
        flag(rep, True, name, f"library raised {type(e).__name__}: {e}", x, m, cfg)
        return None
    finally:
        signal.setitimer(signal.ITIMER_REAL, 0)


def proc(x, m, cfg):
    return D.process_logits(x, m, temperature=cfg[0], top_k=cfg[1], top_p=cfg[2], tanh_clipping=cfg[3])


def check_config(rep, x, m, cfg, n_draws):
    """All per-(row, config) clauses for one batch x [B,N], m [B,N] and one config."""
    T, k, p, C = cfg
    xin, min_ = x.clone(), m.clone()
    lp = call(rep, lambda: proc(xin, min_, cfg), "C10.process_logits.no-exception", x, m, cfg)
    rep.cases += len(x)
    if lp is None:
        return
    R = ref(x, m, T, k, p, C)
    P = lp.double().exp()
    nan = lp.isnan().any(-1)
    flag(rep, nan, "C10.process_logits.top_p-tiny.all-actions-removed-nan" if 0 < p < 1e-6 else "C10.process_logits.no-nan",
         "NaN log-probabilities", x, m, cfg, out=lp)
    ok = ~nan
    sup = lp > -INF
    flag(rep, ok & (((P.sum(-1) - 1).abs() > 1e-5) | (lp > 1e-6).any(-1)), "C10.process_logits.normalised", "exp(out) does not sum to 1", x, m, cfg, out=lp)
    flag(rep, ok & ((lp != -INF) & ~m).any(-1), "C10.process_logits.masked-zero-prob", "masked action has log-prob != -inf", x, m, cfg, out=lp)
    flag(rep, ok & ~(sup & R["nearmax"]).any(-1), "C10.process_logits.argmax-kept", "most likely feasible action lost", x, m, cfg, out=lp)
    if k > 0:
        flag(rep, ok & (sup & ~R["allowed"]).any(-1), "C10.process_logits.top_k.at-most-k-modulo-ties",
             "an action below the k-th largest logit keeps positive probability", x, m, cfg, out=lp)
    if 0 < p < 1:
        mass = (R["v"] * sup).sum(-1)
        flag(rep, ok & ~R["amb_k"] & (mass < p - R["tol"]), "C10.process_logits.top_p.mass-at-least-p",
             "surviving actions carry less than top_p of the unfiltered distribution", x, m, cfg, out=lp, mass=mass)
    flag(rep, ok & ~R["amb"] & ((P - R["f"]).abs().max(-1).values > 1e-5 + R["tol"]), "C10.process_logits.matches-float64-reference",
         "distribution differs from the float64 reference", x, m, cfg, out=P, expected=R["f"])
    # aliasing: mask untouched; logits may only be changed at masked entries, and only to -inf
    flag(rep, (min_ != m).any(-1), "C10.process_logits.mask-not-modified", "input mask mutated", x, m, cfg)
    ch = xin != x
    flag(rep, (ch & (m | (xin != -INF))).any(-1), "C10.process_logits.logits-only-masked-entries-mutated", "input logits mutated", x, m, cfg, after=xin)
    if bool((~m).any()):
        OBS.setdefault(C > 0, set()).add(bool(ch.any()))
    # shift invariance (tanh_clipping == 0), on rows where x + c is exact in float32
    if C == 0:
        for c in SHIFTS:
            xc = x + c
            rows = ok & ~R["amb"] & ((xc - c) == x).all(-1)
            if not bool(rows.any()):
                continue
            lp2 = call(rep, lambda: proc(xc.clone(), m.clone(), cfg), "C10.process_logits.no-exception", xc, m, cfg)
            if lp2 is None:
                continue
            d = (lp2.double().exp() - P).abs().max(-1).values
            bad = rows & ~((d <= 1e-5 + 2 * U * (R["scale"] + abs(c) / T)) | (lp2.isnan().any(-1) & (0 < p < 1e-6)))
            flag(rep, bad, "C10.process_logits.shift-invariant", f"output changes when {c} is added to all logits", x, m, cfg, shift=c, out=P, shifted=lp2.exp())
    # greedy / sampling on the non-NaN rows
    if not bool(ok.any()):
        return
    xo, mo, lpo, Po, nm = x[ok], m[ok], lp[ok], P[ok], R["nearmax"][ok]
    a = call(rep, lambda: D.DecodingStrategy.greedy(lpo, mo), "C10.greedy.feasible", xo, mo, cfg)
    if a is not None:
        g = lambda t: t.gather(-1, a.unsqueeze(-1)).squeeze(-1)  # noqa: E731
        flag(rep, ~g(mo), "C10.greedy.feasible", "greedy returned a masked action", xo, mo, cfg, action=a)
        flag(rep, g(lpo) < lpo.max(-1).values, "C10.greedy.maximal", "greedy action is not a maximiser of the distribution", xo, mo, cfg, action=a)
        flag(rep, ~g(nm), "C10.greedy.maximiser-of-unfiltered", "greedy action is not a most likely feasible action", xo, mo, cfg, action=a)
        a2 = call(rep, lambda: D.decode_logprobs(lpo, mo, "greedy"), "C10.decode_logprobs.greedy-agrees", xo, mo, cfg)
        if a2 is not None:
            flag(rep, a2 != a, "C10.decode_logprobs.greedy-agrees", "decode_logprobs('greedy') != DecodingStrategy.greedy", xo, mo, cfg)
    for d_ in range(n_draws):
        fn = (lambda: D.DecodingStrategy.sampling(lpo, mo)) if d_ % 2 == 0 else (lambda: D.decode_logprobs(lpo, mo, "sampling"))
        s = call(rep, fn, "C10.sampling.positive-probability-feasible", xo, mo, cfg)
        if s is not None:
            ps, ms = Po.gather(-1, s.unsqueeze(-1)).squeeze(-1), mo.gather(-1, s.unsqueeze(-1)).squeeze(-1)
            flag(rep, (ps <= 0) | ~ms, "C10.sampling.positive-probability-feasible", "sampled a zero-probability or masked action", xo, mo, cfg, action=s)


def all_masks(N):
    return torch.tensor([b for b in itertools.product([False, True], repeat=N) if any(b)])


def rand_masks(B, N, g):
    m = torch.rand(B, N, generator=g) < torch.rand(B, 1, generator=g)
    m[torch.arange(B), torch.randint(N, (B,), generator=g)] = True
    return m


def build_rows(N, tier, g):
    """Rows (logits, mask) for N actions; see module docstring."""
    R = 24 if tier == "quick" else 500
    xs, ms = [], []
    gridN = 3 if tier == "quick" else 4
    if N <= gridN:
        vals = V
        gx, am = torch.tensor(list(itertools.product(vals, repeat=N)), dtype=torch.float32), all_masks(N)
        xs.append(gx.repeat_interleave(len(am), 0)); ms.append(am.repeat(len(gx), 1))
    rn = lambda *s: torch.randn(*s, generator=g)  # noqa: E731
    vt = torch.tensor(V, dtype=torch.float32)
    fams = [rn(R, N), 10 * rn(R, N), torch.randint(-512, 513, (R, N), generator=g) / 64.0,
            torch.randint(0, 3, (R, N), generator=g).float(), vt[torch.randint(len(V), (R // 2, 1), generator=g)].expand(-1, N).clone(),
            vt[torch.randint(len(V), (R, N), generator=g)] + (torch.rand(R, 1, generator=g) < 0.5) * rn(R, N),
            rn(R // 2, 1) * (1 + 2.0**-23 * torch.randint(0, 3, (R // 2, N), generator=g))]
    for f in fams:
        f = f.float()
        xs.append(f); ms.append(rand_masks(len(f), N, g))
        h = max(2, len(f) // 4)
        xs.append(f[:h]); ms.append(torch.nn.functional.one_hot(torch.randint(N, (h,), generator=g), N).bool())  # single feasible
        xs.append(f[:h]); ms.append(torch.ones(h, N, dtype=torch.bool))
    x, m = torch.cat(xs), torch.cat(ms)
    key = torch.unique(torch.cat([x.view(torch.int32), m.int()], 1), dim=0)  # drop duplicate rows (bit patterns)
    return key[:, :N].contiguous().view(torch.float32), key[:, N:].bool()


def configs(N):
    ks = sorted({0, 1, 2, 3, N, N + 5})
    return [(T, k, p, C) for T in TEMPS for k in ks for p in PS for C in CLIPS]


def check_rows_independent(rep, x, m, g, n):
    N = x.shape[1]
    sel = torch.randperm(len(x), generator=g)[:n]
    xb, mb = x[sel], m[sel]
    for cfg in configs(N):
        full = call(rep, lambda: proc(xb.clone(), mb.clone(), cfg), "C10.process_logits.no-exception", xb, mb, cfg)
        if full is None:
            continue
        rep.cases += len(xb)
        for b in range(len(xb)):
            one = call(rep, lambda: proc(xb[b:b + 1].clone(), mb[b:b + 1].clone(), cfg), "C10.process_logits.no-exception", xb[b:b + 1], mb[b:b + 1], cfg)
            if one is not None and not torch.equal(one[0].nan_to_num(nan=7.0), full[b].nan_to_num(nan=7.0)):
                flag(rep, torch.arange(len(xb)) == b, "C10.process_logits.rows-independent", "row output depends on the other rows of the batch",
                     xb, mb, cfg, batch_logits=xb.tolist(), batch_mask=mb.tolist(), alone=one[0].tolist(), in_batch=full[b].tolist())


def check_filters(rep, x, m):
    """Direct calls of the two filter functions on masked, unscaled logits (incl. -inf entries)."""
    N = x.shape[1]
    z = x.masked_fill(~m, -INF)
    for k in sorted({k for k in (1, 2, 3, N) if k <= N}):  # the bare filter requires k <= N (process_logits clamps)
        cfg = (1.0, k, 0.0, 0)
        zin = z.clone()
        out = call(rep, lambda: D.modify_logits_for_top_k_filtering(zin, k), "C10.top_k_filter.no-exception", x, m, cfg)
        rep.cases += len(x)
        if out is None:
            continue
        R = ref(x, m, 1.0, k, 0.0, 0)
        kept = out > -INF
        flag(rep, not torch.equal(zin, z) or out.data_ptr() == zin.data_ptr(), "C10.top_k_filter.out-of-place", "input modified", x, m, cfg)
        flag(rep, ((out != z) & kept).any(-1) | (out.isnan()).any(-1), "C10.top_k_filter.kept-unchanged", "kept logit altered", x, m, cfg, out=out)
        flag(rep, (kept & ~R["allowed"]).any(-1) | (R["req"] & ~kept).any(-1), "C10.top_k_filter.set-matches-reference", "wrong top-k set", x, m, cfg, out=out)
    for p in PS + [-0.5, 1.5]:
        cfg = (1.0, 0, p, 0)
        zin = z.clone()
        out = call(rep, lambda: D.modify_logits_for_top_p_filtering(zin, p), "C10.top_p_filter.no-exception", x, m, cfg)
        rep.cases += len(x)
        if out is None:
            continue
        R = ref(x, m, 1.0, 0, p if 0 < p < 1 else 0.0, 0)
        kept = out > -INF
        tiny = (0 < p < 1e-6) & ~kept.any(-1)  # covered by the KNOWN process_logits clause
        flag(rep, tiny, "C10.process_logits.top_p-tiny.all-actions-removed-nan", "top-p filter removed every action", x, m, cfg, out=out)
        flag(rep, not torch.equal(zin, z), "C10.top_p_filter.out-of-place", "input modified", x, m, cfg)
        flag(rep, ((out != z) & kept).any(-1) | out.isnan().any(-1), "C10.top_p_filter.kept-unchanged", "kept logit altered", x, m, cfg, out=out)
        flag(rep, ~tiny & ((R["u"] * kept).sum(-1) < min(max(p, 0.0), 1.0) - R["tol"]), "C10.top_p_filter.mass-at-least-p", "kept mass < top_p", x, m, cfg, out=out)
        flag(rep, ~tiny & ~R["amb"] & (kept != (R["f"] > 0)).any(-1) & (0 < p < 1),
             "C10.top_p_filter.set-matches-reference", "nucleus differs from the smallest top set with mass >= p", x, m, cfg, out=out, expected=R["f"])
        if not 0 < p < 1:
            flag(rep, (out != z).any(-1) & ~(out.isnan() | z.isnan()).any(-1), "C10.top_p_filter.off-is-identity", "top_p outside (0,1) must not filter", x, m, cfg, out=out)


def check_sampling_freq(rep, g, draws):
    x = torch.tensor([[0.0, 1.0, 2.0, 3.0, -1.0], [1.0, 1.0, 1.0, 1.0, 1.0], [5.0, 0.0, 0.0, -5.0, 2.0], [0.3, 0.2, 0.1, 0.0, 9.0]])
    m = torch.tensor([[1, 1, 0, 1, 1], [1, 0, 1, 1, 0], [1, 1, 1, 1, 1], [1, 1, 1, 0, 0]]).bool()
    for cfg in [(1.0, 0, 0.0, 0), (2.0, 3, 0.0, 0), (0.5, 0, 0.9, 0), (1.0, 2, 0.5, 10.0)]:
        R = ref(x, m, *cfg)
        B, N = x.shape
        lp = call(rep, lambda: proc(x.clone(), m, cfg), "C10.process_logits.no-exception", x, m, cfg)
        s = None if lp is None else call(rep, lambda: D.DecodingStrategy.sampling(lp.repeat_interleave(draws, 0), m.repeat_interleave(draws, 0)),
                                         "C10.sampling.frequencies", x, m, cfg)
        if s is None:
            continue
        s = s.view(B, draws)
        freq = torch.stack([(s == j).double().mean(-1) for j in range(N)], -1)
        sd = (R["f"] * (1 - R["f"]) / draws).sqrt()
        rep.cases += B * draws
        flag(rep, ~R["amb"] & (((freq - R["f"]).abs() > 6 * sd + 1e-4) | ((R["f"] == 0) & (freq > 0))).any(-1), "C10.sampling.frequencies",
             f"empirical frequencies over {draws} draws deviate > 6 sigma from the reference distribution", x, m, cfg, freq=freq, expected=R["f"])


def check_ll_entropy(rep, g, trials):
    for t in range(trials):
        B, S, N = 4, 1 + t % 5, 2 + t % 7
        x, m = torch.randn(B * S, N, generator=g) * (1 + t % 3), rand_masks(B * S, N, g)
        cfg = (TEMPS[t % 5], [0, 2, N][t % 3], [0.0, 0.9, 0.5][(t // 3) % 3], CLIPS[(t // 2) % 3])
        lp = call(rep, lambda: proc(x.clone(), m, cfg), "C10.process_logits.no-exception", x, m, cfg)
        act = None if lp is None else call(rep, lambda: D.DecodingStrategy.sampling(lp, m), "C10.sampling.positive-probability-feasible", x, m, cfg)
        if act is None:
            continue
        lp, act = lp.view(B, S, N), act.view(B, S)
        sm = torch.rand(B, S, generator=g) < 0.7
        rep.cases += 1
        # oracle, plain loops in float64
        per = [[float(lp[b, s, int(act[b, s])]) for s in range(S)] for b in range(B)]
        per_m = [[per[b][s] if bool(sm[b, s]) else 0.0 for s in range(S)] for b in range(B)]
        ent = [sum(-math.exp(float(v)) * float(v) for s in range(S) for v in lp[b, s] if float(v) > -INF) for b in range(B)]
        emax = [sum(math.log(int(m.view(B, S, N)[b, s].sum())) for s in range(S)) for b in range(B)]
        inp = dict(logprobs=lp.tolist(), actions=act.tolist(), step_mask=sm.tolist())
        two_d = lp.gather(-1, act.unsqueeze(-1)).squeeze(-1)
        variants = [("3d", lambda: D.get_log_likelihood(lp.clone(), act, None, True), [sum(r) for r in per]),
                    ("3d+mask", lambda: D.get_log_likelihood(lp.clone(), act, sm.clone(), True), [sum(r) for r in per_m]),
                    ("3d+mask,nosum", lambda: D.get_log_likelihood(lp.clone(), act, sm.clone(), False), per_m),
                    ("2d+mask", lambda: D.get_log_likelihood(two_d.clone(), None, sm.clone(), True), [sum(r) for r in per_m]),
                    ("2d,nosum", lambda: D.get_log_likelihood(two_d.clone(), None, None, False), per)]
        for nm, fn, exp in variants:
            try:
                got = fn()
                e = torch.tensor(exp, dtype=torch.float64)
                if got.shape != e.shape or not bool(((got.double() - e).abs() <= 1e-5 * (1 + e.abs())).all()):
                    rep.violation("C10.get_log_likelihood.value", f"variant {nm}: got {got.tolist()} expected {exp}", inp)
            except Exception as ex:
                rep.violation("C10.get_log_likelihood.value", f"variant {nm}: library raised {type(ex).__name__}: {ex}", inp)
        # an action of probability zero on an unmasked step must be rejected; on a masked step it is zeroed
        zero = (lp == -INF)
        if bool(zero.any()):
            b, s, j = [int(v) for v in zero.nonzero()[0]]
            a2, on, off = act.clone(), torch.ones(B, S, dtype=torch.bool), torch.ones(B, S, dtype=torch.bool)
            a2[b, s], off[b, s] = j, False
            try:
                D.get_log_likelihood(lp.clone(), a2, on, True)
                rep.violation("C10.get_log_likelihood.raises-on-unmasked-neginf", "no error for an action with log-prob -inf", dict(inp, actions=a2.tolist()))
            except AssertionError:
                pass
            try:
                got = D.get_log_likelihood(lp.clone(), a2, off, False)
                if float(got[b, s]) != 0.0 or not bool(got.isfinite().all()):
                    rep.violation("C10.get_log_likelihood.value", "masked step with -inf log-prob not zeroed", dict(inp, actions=a2.tolist(), step_mask=off.tolist()))
            except Exception as ex:
                rep.violation("C10.get_log_likelihood.value", f"masked -inf step: library raised {type(ex).__name__}: {ex}", dict(inp, actions=a2.tolist()))
        try:
            H = calculate_entropy(lp.clone())
            for b in range(B):
                if not (abs(float(H[b]) - ent[b]) <= 1e-5 * (1 + abs(ent[b])) and -1e-6 <= float(H[b]) <= emax[b] + 1e-5 and math.isfinite(float(H[b]))):
                    rep.violation("C10.calculate_entropy.value", f"row {b}: got {float(H[b])} expected {ent[b]} (max {emax[b]})", inp)
        except Exception as ex:
            rep.violation("C10.calculate_entropy.value", f"library raised {type(ex).__name__}: {ex}", inp)
    # finite but very negative log-prob of a feasible action (KNOWN) and entropy on the same distribution
    x, m = torch.tensor([[1e4, -1e4, 1e4, 0.0]]), torch.tensor([[True, False, True, True]])
    lp = proc(x.clone(), m, (0.1, 0, 0.0, 0)).view(1, 1, 4)
    rep.cases += 1
    inp = dict(logits=x.tolist(), mask=m.tolist(), temperature=0.1, action=[[3]], logprobs=lp.tolist())
    try:
        got = D.get_log_likelihood(lp.clone(), torch.tensor([[3]]), None, True)
        rep.check(abs(float(got[0]) - float(lp[0, 0, 3])) < 1, "C10.get_log_likelihood.value", "wrong value for very negative log-prob", inp)
    except AssertionError as ex:
        rep.known("C10.get_log_likelihood.finite-logprob-below-minus-1000.assert", f"finite log-prob {float(lp[0, 0, 3])} of a feasible action rejected: {ex}", inp)
    try:
        H = float(calculate_entropy(lp.clone())[0])
        rep.check(abs(H - math.log(2)) < 1e-5, "C10.calculate_entropy.value", f"entropy of [.5,0,.5,~0] is {H}, expected ln 2", inp)
    except Exception as ex:
        rep.violation("C10.calculate_entropy.value", f"library raised {type(ex).__name__}: {ex}", inp)


def check_strategy_step(rep, g, trials):
    for t in range(trials):
        N, B = 2 + t % 7, 6
        x, m = torch.randn(B, N, generator=g) * 3, rand_masks(B, N, g)
        cfg = (TEMPS[t % 5], [0, 1, 3, N + 5][t % 4], [0.0, 0.5, 0.99][t % 3], CLIPS[t % 3])
        R = ref(x, m, *cfg)
        for name in ["greedy", "sampling", "evaluate", "multistart_greedy"]:
            for store_all in [False, True]:
                rep.cases += B
                st = D.get_decoding_strategy(name, temperature=cfg[0], top_k=cfg[1], top_p=cfg[2], tanh_clipping=cfg[3], store_all_logp=store_all)
                given = torch.multinomial(R["f"].float(), 1, generator=g).squeeze(1) if name == "evaluate" else None
                td = call(rep, lambda: st.step(x.clone(), m.clone(), TensorDict({}, batch_size=[B]), action=given), "C10.strategy_step.no-exception", x, m, cfg, )
                if td is None:
                    continue
                a, lp = td["action"], st.logprobs[-1]
                pa = R["f"].gather(-1, a.unsqueeze(-1)).squeeze(-1)
                flag(rep, ~m.gather(-1, a.unsqueeze(-1)).squeeze(-1) | (~R["amb"] & (pa <= 0)), "C10.strategy_step.action-feasible",
                     f"{name}.step chose a masked / zero-probability action", x, m, cfg, action=a)
                if given is not None:
                    flag(rep, a != given, "C10.strategy_step.action-feasible", "evaluate.step did not return the given action", x, m, cfg, action=a)
                if "greedy" in name:
                    flag(rep, ~R["nearmax"].gather(-1, a.unsqueeze(-1)).squeeze(-1), "C10.greedy.maximiser-of-unfiltered", f"{name}.step not argmax", x, m, cfg, action=a)
                got = lp.double().exp() if store_all else lp.double().exp().unsqueeze(-1)
                exp = R["f"] if store_all else pa.unsqueeze(-1)
                flag(rep, ~R["amb"] & ((got.shape != exp.shape) | ((got - exp).abs().max(-1).values > 1e-5 + R["tol"])), "C10.strategy_step.logprob-matches-reference",
                     f"{name}.step(store_all_logp={store_all}) stored log-prob differs from reference", x, m, cfg, action=a, got=got, expected=exp)


def main():
    a = _lib.args()
    signal.signal(signal.SIGALRM, _alarm)
    torch.set_num_threads(2)
    torch.manual_seed(a.seed)
    g = torch.Generator().manual_seed(a.seed + 1)
    quick = a.tier != "thorough"
    Ns = [2, 3, 4, 5, 6, 7, 8]
    rows = {N: build_rows(N, "quick" if quick else "thorough", g) for N in Ns}
    n_cfg = {N: len(configs(N)) for N in Ns}
    bound = ("float32 CPU; N in 2..8; rows per N (deduplicated; grid V^N x all masks for N<=%d + 7 random families x {random, single-feasible, all-True} masks): %s; "
             "configs per N = 5 temperatures x |{0,1,2,3,N,N+5}| top_k x 9 top_p {0,.1,.5,.9,.99,1,1e-9,1e-7,1e-4} x 3 tanh_clipping (full product: %s); "
             "shifts {3,-7.5,64}; %d sampling draws per (row, config); row-independence on %d rows per N x all configs; filters called directly on all rows; "
             "sampling frequencies 4 rows x 4 configs x %d draws; get_log_likelihood/entropy %d random [4,S<=5,N<=8] trials; strategy.step %d trials x 4 strategies x store_all_logp; seed %d"
             % (3 if quick else 4, {N: len(rows[N][0]) for N in Ns}, n_cfg, 2 if quick else 6, 6 if quick else 12, 20000 if quick else 200000,
                40 if quick else 400, 30 if quick else 300, a.seed))
    rep = _lib.Report(bound=bound, rule="one case = one (logit row, mask, temperature, top_k, top_p, tanh_clipping) evaluated through the real function; rows are "
                      "deduplicated by bit pattern, so all cases are distinct inputs")
    only = a.only

    def section(name, fn):
        if not only or only in name:
            rep.guard(fn, name)

    for N in Ns:
        x, m = rows[N]
        section(f"process_logits.N{N}", lambda: [check_config(rep, x, m, cfg, 2 if quick else 6) for cfg in configs(N)])
        section(f"rows_independent.N{N}", lambda: check_rows_independent(rep, x, m, g, 6 if quick else 12))
        section(f"filters.N{N}", lambda: check_filters(rep, x, m))
    section("sampling_freq", lambda: check_sampling_freq(rep, g, 20000 if quick else 200000))
    section("ll_entropy", lambda: check_ll_entropy(rep, g, 40 if quick else 400))
    section("strategy_step", lambda: check_strategy_step(rep, g, 30 if quick else 300))
    rep.rule += "; observed aliasing of process_logits input logits (True = mutated in place at masked entries): " + str(
        {("tanh_clipping>0" if k_ else "tanh_clipping==0"): sorted(v_) for k_, v_ in OBS.items()})
    if not only:
        rep.check(OBS.get(False) == {True} and OBS.get(True) == {False}, "C10.process_logits.documented-aliasing",
                  "in-place behaviour differs from the documented one (tanh_clipping==0: masked entries of the INPUT set to -inf; >0: input untouched)", {str(k_): sorted(v_) for k_, v_ in OBS.items()})
    return rep.finish()


if __name__ == "__main__":
    sys.exit(main())
