#!/usr/bin/env python
"""Bounded stand-in for C18: generators emit well-formed, solvable instances within documented bounds.

Functions under test (real code, imported from TVC_REPO): every `*Generator._generate` in rl4co/envs/{routing,scheduling,
graph}/*/generator.py (tsp atsp cvrp(+sdvrp) cvrptw op pctsp(+spctsp) pdp mtsp svrp mdcpdp mpdp mtvrp fjsp jssp ffsp smtwtp
flp mcp), `get_sampler` (envs/common/utils.py) and the samplers of envs/common/distribution_utils.py; for solvability also
`env.reset/step/get_action_mask` of the matching env.

Clauses (name = C18.<env>.<clause>); the oracle is always the documented range / the problem definition, computed here
from the generator *parameters* and the emitted tensors only (never by calling generator code):
  doc-keys, doc-shape.<key>   emitted keys/shapes == the generator docstring (symbolic shapes evaluated on the parameters)
  finite, locs-range, depot-range   coordinates finite and inside [min_loc,max_loc] ([0,1] for cluster/mixed/gaussian-mixture
                              samplers, /max_time when CVRPTW scale=True; unbounded for 'normal')
  capacity, demand-integer/-range/-le-capacity   CVRP-like: demand*capacity is an integer in [min_demand,max_demand], demand<=1,
                              capacity == override or inside the bracket of the documented size->capacity table
  tw-*                        CVRPTW/MTVRP: depot window [0,max_time]; start<end; depot->i travel <= end_i; end_i+service_i+return <= max_time
  prize-*, max_length, penalty-range, det-prize-range, stoch-prize-range   OP / PCTSP documented ranges (OP 'dist' prize recomputed
                              from the Fischetti formula 1+floor(99 d/dmax) over 100)
  even-num-loc                PDP/MDCPDP/MPDP: even number of customer nodes (pickup i <-> delivery i+n/2), odd request rounded up
  num-agents-range, capacity-range, lateness-range, depot-single, techs-*, skills-*   mTSP/MDCPDP/SVRP ranges
  tmat-triangle, diag-zero, dist-range   ATSP: d[i,j] <= d[i,k]+d[k,j] for all i,j,k when tmat_class=True
  feat-preset, feat-*         MTVRP: (O,TW,L,B) features of every row allowed by the requested preset (parsed from the preset
                              name), no backhaul unless B, limit inf unless L, windows [0,inf] & service 0 unless TW
  job-structure, pad-mask, eligible-real, eligible-pad, proc-range, one2one   FJSP/JSSP shapes: ops per job in range, every real op
                              eligible on [min,max] machines (JSSP exactly 1), padded ops on none (FJSP), times in range
  run-time-range (FFSP), *-range/dummy-zero (SMTWTP), orig-distances/init-distances/chosen/to_choose (FLP),
  membership-*/weights-range/set-size-*/n_sets (MCP)
  generate-raises.<Exc>:<msg> generator (or env construction) raised on a valid parameterisation
  solvable.mask-all-false / .not-done / .raises.<Exc>   a uniformly random mask-confined rollout from the generated instance
                              (finished rows are dropped, so no padding actions) always has a feasible action and is done within 10*size+10 steps
  C18.get_sampler.*           get_sampler(name) returns a sampler with the requested shape and documented support

  batch-size                  TensorDict batch_size == [B] for both `gen(B)` and `gen([B])`
Clauses that fail on the unchanged library are listed in KNOWN (reported via rep.known, everything else is a violation).

Bound (exact text in `BOUND`): explicit grid() of parameterisations x batch sizes x seeds, one random rollout per batch.
  quick:    128 parameterisations, routing num_loc in {5,13,20} (variants at 13), batch sizes {1,4}, 5 seeds  -> 1346 cases, ~20 s
  thorough: 269 parameterisations, routing num_loc in {2,5,13,20,33,50,101} (variants at 13 and 50), batch sizes {1,3,8}, 8 seeds -> 6561 cases, ~3 min
  get_sampler: 13 distributions x seeds, sample shape [64,100,2]. Not covered: file-based generators (FJSP/JSSPFileGenerator), EDA
  (DPP/MDPP, need downloads), num_loc > 101, user-supplied sampler objects/callables, heterogeneous OP max_length tensors.
"""
import logging
import os
import random
import re
import sys
import warnings

sys.path.insert(0, os.path.dirname(os.path.abspath(__file__)))
import _lib  # noqa: E402

_lib.setup_path()
warnings.filterwarnings("ignore")
import numpy as np  # noqa: E402
import torch  # noqa: E402

logging.disable(logging.WARNING)
torch.set_num_threads(2)
from rl4co import envs as E  # noqa: E402
from rl4co.envs.common.utils import get_sampler  # noqa: E402
from rl4co.envs.routing.mpdp.generator import MPDPGenerator  # noqa: E402

KNOWN = {
    # crashes on valid parameterisations
    "C18.op.generate-raises.AttributeError:'OPGenerator' object has no attribute 'device'":
        "OPGenerator(prize_type='const'|'unif') uses undefined self.device",
    "C18.mcp.generate-raises.RuntimeError:The size of tensor a (#) must match the size of tensor b (#) at non-singleton dimension #":
        "MCPGenerator: membership built with sampled max set size but masked with self.max_size; raises when no set in the batch reaches max_size (e.g. num_sets=3)",
    "C18.fjsp.generate-raises.RuntimeError:random_ expects 'from' to be less than 'to', but got from=# >= to=#":
        "FJSPGenerator(min_processing_time == max_processing_time, same_mean_per_op=True): randint(min,max) on empty range",
    # documented range not respected
    "C18.mcp.set-size-below-min": "sets are sampled with replacement then de-duplicated, so a set can end up with fewer than min_size items",
    "C18.get_sampler.center.midpoint": "get_sampler(.., 'center', low, high) returns (high-low)/2, not (low+high)/2: outside [low,high] when low != 0 (low=2, high=3 -> 0.5)",
    # docstring vs emitted keys/shapes (documentation defects)
    "C18.atsp.doc-keys:missing=locs;extra=cost_matrix": "ATSPGenerator docstring documents `locs`, emits `cost_matrix` [B,n,n]",
    "C18.pctsp.doc-keys:missing=capacity,demand;extra=deterministic_prize,penalty,stochastic_prize": "PCTSPGenerator docstring is the CVRP one",
    "C18.cvrp.doc-shape.capacity.got[B,1]": "CVRPGenerator documents capacity [B], emits [B,1]",
    "C18.cvrptw.doc-shape.durations.got[B,n+1]": "CVRPTWGenerator documents durations [B,n], emits [B,n+1] (depot first)",
    "C18.cvrptw.doc-shape.time_windows.got[B,n+1,2]": "CVRPTWGenerator documents time_windows [B,n,2], emits [B,n+1,2]",
    "C18.op.doc-shape.max_length.got[B]": "OPGenerator documents max_length [B,1], emits [B]",
    "C18.svrp.doc-shape.techs.got[B,T,1]": "SVRPGenerator documents techs [B,n], emits [B,num_tech,1]",
    "C18.svrp.doc-shape.skills.got[B,n,1]": "SVRPGenerator documents skills [B,n], emits [B,n,1]",
    "C18.ffsp.doc-shape.run_time.got[B,J,M*S]": "FFSPGenerator documents run_time [B,job,machine,stage], emits [B,job,machine*stage]",
    "C18.flp.doc-shape.to_choose.got[B]": "FLPGenerator documents to_choose [B,1], emits [B]",
}
KNOWN.update({k.replace("C18.cvrp.", "C18.sdvrp."): v for k, v in KNOWN.items() if k.startswith("C18.cvrp.")})
KNOWN.update({k.replace("C18.pctsp.", "C18.spctsp."): v for k, v in KNOWN.items() if k.startswith("C18.pctsp.")})
ALT = {("cvrp", "capacity"): "B,1", ("cvrptw", "durations"): "B,n+1", ("cvrptw", "time_windows"): "B,n+1,2", ("op", "max_length"): "B",
       ("svrp", "techs"): "B,T,1", ("svrp", "skills"): "B,n,1", ("ffsp", "run_time"): "B,J,M*S", ("flp", "to_choose"): "B"}
ALT[("sdvrp", "capacity")] = "B,1"
UNIT_SAMPLERS = ("cluster", "mixed", "gaussian_mixture", "mix_distribution", "mix_multi_distributions")
KOOL_CAP = {10: 20, 15: 25, 20: 30, 30: 33, 40: 37, 50: 40, 60: 43, 75: 45, 100: 50, 125: 55, 150: 60, 200: 70, 500: 100, 1000: 150}
OP_LEN = {20: 2.0, 50: 3.0, 100: 4.0}
EPS = 1e-5


def bracket(table, n):
    lo = max((k for k in table if k <= n), default=min(table))
    hi = min((k for k in table if k >= n), default=max(table))
    return min(table[lo], table[hi]), max(table[lo], table[hi])


def dist(a, b):
    return ((a - b) ** 2).sum(-1).sqrt()


def isint(x):
    return (x - x.round()).abs() < 1e-3


class Cx:
    """One case = (env, generator params, batch size, seed); `ok` records a violation/known finding with a reproducible input."""

    def __init__(self, rep, env, tag, cfg, B, seed):
        self.rep, self.env, self.tag, self.cfg, self.B, self.seed = rep, env, tag, cfg, B, seed

    def p(self, k, d):
        return self.cfg.get(k, d)

    def fail(self, clause, what, **kw):
        name = f"C18.{self.env}.{clause}"
        inp = {"env": self.env, "generator_params": self.cfg, "batch_size": self.B, "torch_seed": self.seed,
               "repro": "env=Env(generator_params=p); torch.manual_seed(seed); random.seed(seed); td=env.generator(B if seed%2 else [B])", **kw}
        (self.rep.known if name in KNOWN else self.rep.violation)(name, what, inp)

    def ok(self, clause, cond, what, **kw):
        if torch.is_tensor(cond):
            if bool(cond.all()):
                return True
            n = cond.shape[0] if cond.dim() else 1
            row = int((~cond.reshape(n, -1).all(-1)).nonzero()[0]) if cond.dim() else 0
            kw = {"row": row, **{k: (v[row] if torch.is_tensor(v) and v.dim() > 0 and v.shape[0] == n else v) for k, v in kw.items()}}
        elif cond:
            return True
        self.fail(clause, what, **kw)
        return False

    def doc(self, td, doc, **dims):
        dims["B"] = self.B
        got, want = set(td.keys()), set(doc)
        if got != want:
            self.fail("doc-keys:missing=%s;extra=%s" % (",".join(sorted(want - got)), ",".join(sorted(got - want))),
                      "emitted keys differ from the documented ones", got=sorted(got), documented=sorted(want))
        for k in sorted(got & want):
            ev = lambda s: tuple(eval(f"({s},)", {}, dims))  # noqa: E731
            if tuple(td[k].shape) != ev(doc[k]):
                alt = ALT.get((self.env, k))
                cl = f"doc-shape.{k}.got[{alt}]" if alt and tuple(td[k].shape) == ev(alt) else f"doc-shape.{k}"
                self.fail(cl, f"{k}: documented shape [{doc[k]}]={ev(doc[k])}, emitted {tuple(td[k].shape)}")
        for k in got:
            if td[k].is_floating_point():
                self.ok("finite", ~torch.isnan(td[k]).reshape(self.B, -1).any(-1), f"{k} contains NaN")

    def locs(self, x, clause="locs-range", scale=1.0, hi=None):
        d = self.p("loc_distribution" if clause == "locs-range" else "depot_distribution", "uniform") or "uniform"
        self.ok("finite", torch.isfinite(x).reshape(self.B, -1).all(-1), f"{clause}: non-finite coordinate", value=x)
        if d == "normal":
            return
        lo, hi = (0.0, 1.0) if d in UNIT_SAMPLERS else (self.p("min_loc", 0.0) / scale, (hi or self.p("max_loc", 1.0)) / scale)
        self.ok(clause, ((x >= lo - EPS) & (x <= hi + EPS)).reshape(self.B, -1).all(-1), f"coordinate outside [{lo},{hi}]", value=x)

    def depot(self, td, **kw):  # without a depot sampler the depot is drawn by the location sampler
        self.locs(td["depot"], "locs-range" if self.p("depot_distribution", None) is None else "depot-range", **kw)

    def rng(self, clause, x, lo, hi, integer=False, what=None):
        good = ((x >= lo - EPS) & (x <= hi + EPS)).reshape(self.B, -1).all(-1)
        if integer:
            good &= isint(x).reshape(self.B, -1).all(-1)
        return self.ok(clause, good, what or f"{clause}: value outside {'integer ' if integer else ''}[{lo},{hi}]", value=x)


# ----------------------------------------------------------------------------- per-generator contract checks
def chk_tsp(c, td):
    n = c.p("num_loc", 20)
    c.doc(td, {"locs": "B,n,2"}, n=n)
    c.locs(td["locs"])
    return n


def chk_atsp(c, td):
    n, lo, hi = c.p("num_loc", 10), c.p("min_dist", 0.0), c.p("max_dist", 1.0)
    c.doc(td, {"locs": "B,n,2"}, n=n)
    m = td["cost_matrix"]
    c.ok("doc-shape.cost_matrix", tuple(m.shape) == (c.B, n, n), f"cost_matrix shape {tuple(m.shape)} != [B,n,n]")
    eye = torch.eye(n, dtype=torch.bool)
    c.ok("diag-zero", (m[:, eye] == 0).all(-1), "diagonal not zero", value=m)
    c.ok("dist-range", ((m >= lo - EPS) & (m <= hi + EPS) | eye).reshape(c.B, -1).all(-1), f"off-diagonal cost outside [{lo},{hi}]", value=m)
    if c.p("tmat_class", True):
        tri = m[:, :, None, :] <= m[:, :, :, None] + m[:, None, :, :] + 1e-6  # [b,i,k,j]: d_ij <= d_ik + d_kj
        c.ok("tmat-triangle", tri.reshape(c.B, -1).all(-1), "triangle inequality violated although tmat_class=True", value=m)
    return n


def demand_checks(c, dem, cap, lo, hi, pre=""):
    raw = dem * cap
    c.ok(pre + "demand-integer", isint(raw).reshape(c.B, -1).all(-1), "demand*capacity is not an integer", value=raw)
    c.ok(pre + "demand-range", ((raw.round() >= lo) & (raw.round() <= hi)).reshape(c.B, -1).all(-1), f"integer demand outside [{lo},{hi}]", value=raw)
    c.ok(pre + "demand-le-capacity", (dem <= 1 + 1e-6).reshape(c.B, -1).all(-1), "normalised demand above the (unit) vehicle capacity", value=dem)


def chk_cvrp(c, td, tw=False):
    n = c.p("num_loc", 20)
    doc = {"locs": "B,n,2", "depot": "B,2", "demand": "B,n", "capacity": "B,1" if tw else "B"}
    if tw:
        doc.update(durations="B,n", time_windows="B,n,2")
    c.doc(td, doc, n=n)
    sc = c.p("max_time", 480) if (tw and c.p("scale", False)) else 1.0
    hi = c.p("max_loc", 150.0 if tw else 1.0)  # documented defaults
    c.locs(td["locs"], scale=sc, hi=hi)
    c.depot(td, scale=sc, hi=hi)
    cap = td["capacity"].reshape(c.B, -1)
    if c.p("capacity", None) is not None:
        c.ok("capacity", cap == c.p("capacity", None), "capacity differs from the override", value=cap)
    else:
        lo, hi = bracket(KOOL_CAP, n)
        c.ok("capacity", (cap >= lo) & (cap <= hi), f"capacity outside the documented table bracket [{lo},{hi}] for num_loc={n}", value=cap)
    demand_checks(c, td["demand"], cap[:, :1], c.p("min_demand", 1), c.p("max_demand", 10))
    return n + 1


def chk_cvrptw(c, td):
    size = chk_cvrp(c, td, tw=True)
    T, scaled = c.p("max_time", 480), c.p("scale", False)
    end_depot = 1.0 if scaled else T
    tw, dur = td["time_windows"].float(), td["durations"].float()
    d0 = torch.cat((torch.zeros(c.B, 1), dist(td["depot"][:, None], td["locs"])), 1)
    eps = 1e-5 * end_depot
    c.ok("tw-depot", (tw[:, 0, 0] == 0) & ((tw[:, 0, 1] - end_depot).abs() <= eps) & (dur[:, 0] == 0), f"depot window != [0,{end_depot}] or depot duration != 0", tw=tw[:, 0])
    c.ok("tw-ordered", (tw[..., 0] < tw[..., 1]).all(-1) & (tw[..., 0] >= 0).all(-1), "window start >= end (or negative start)", tw=tw)
    c.ok("tw-reachable", (d0 <= tw[..., 1] + eps).all(-1), "depot->customer travel time exceeds the window end", tw_end=tw[..., 1], dist=d0)
    c.ok("tw-return", (tw[..., 1] + dur + d0 <= end_depot + eps).all(-1), "end + service + return travel exceeds the depot deadline", tw_end=tw[..., 1], dur=dur, dist=d0)
    if not scaled:
        c.ok("tw-integer", isint(tw).reshape(c.B, -1).all(-1), "unscaled windows are documented integers", tw=tw)
    return size


def chk_op(c, td):
    n = c.p("num_loc", 20)
    c.doc(td, {"locs": "B,n,2", "depot": "B,2", "prize": "B,n", "max_length": "B,1"}, n=n)
    c.locs(td["locs"])
    c.depot(td)
    ml, pz, pt = td["max_length"].reshape(c.B, -1), td["prize"], c.p("prize_type", "dist")
    lo, hi = (c.p("max_length", None),) * 2 if c.p("max_length", None) is not None else bracket(OP_LEN, n)
    c.ok("max_length", (ml >= lo - EPS) & (ml <= hi + EPS), f"max_length outside documented [{lo},{hi}]", value=ml)
    k = pz * 100
    c.ok("prize-grid", (isint(k) & (k.round() >= 1) & (k.round() <= 100)).all(-1), "prize not in {1..100}/100", prize=pz)
    if pt == "const":
        c.ok("prize-const", (pz == 1).all(-1), "const prize != 1", prize=pz)
    if pt == "dist":
        d = dist(td["depot"][:, None], td["locs"])
        want = 1 + torch.floor(d / d.max(-1, keepdim=True)[0] * 99)
        c.ok("prize-dist", ((k - want).abs() <= 1 + 1e-3).all(-1) & (k.max(-1)[0].round() == 100), "prize != (1+floor(99 d/dmax))/100", prize=pz, want=want / 100)
    return n + 1


def chk_pctsp(c, td):
    n = c.p("num_loc", 20)
    c.doc(td, {"locs": "B,n,2", "depot": "B,2", "demand": "B,n", "capacity": "B,1"}, n=n)
    c.locs(td["locs"])
    c.depot(td)
    lo, hi = (c.p("max_penalty", None),) * 2 if c.p("max_penalty", None) is not None else bracket(OP_LEN, n)
    c.rng("penalty-range", td["penalty"], 0.0, hi * c.p("penalty_factor", 3.0) / n)
    c.rng("det-prize-range", td["deterministic_prize"], 0.0, 4.0 / n)
    c.ok("stoch-prize-range", ((td["stochastic_prize"] >= 0) & (td["stochastic_prize"] <= 2 * td["deterministic_prize"] + EPS)).all(-1),
         "stochastic prize outside [0, 2*expected prize]", stoch=td["stochastic_prize"], det=td["deterministic_prize"])
    for k in ("penalty", "deterministic_prize", "stochastic_prize"):
        c.ok(f"doc-shape.{k}", tuple(td[k].shape) == (c.B, n), f"{k} shape {tuple(td[k].shape)} != [B,n]")
    return n + 1


def chk_pdp(c, td, multi_agent=False):
    n = c.p("num_loc", 20)
    n += n % 2
    c.doc(td, {"locs": "B,n,2", "depot": "B,2", **({"num_agents": "B"} if multi_agent else {})}, n=n)
    if multi_agent:
        c.rng("num-agents-range", td["num_agents"].float(), c.p("min_num_agents", 2), c.p("max_num_agents", 10), integer=True)
    c.ok("even-num-loc", td["locs"].shape[1] % 2 == 0 and td["locs"].shape[1] == n, f"{td['locs'].shape[1]} customer nodes: not even / not num_loc rounded up to even")
    c.locs(td["locs"])
    c.depot(td)
    return n + 1


def chk_mtsp(c, td):
    n = c.p("num_loc", 20)
    c.doc(td, {"locs": "B,n,2", "num_agents": "B"}, n=n)
    c.locs(td["locs"])
    c.ok("num-agents-dtype", not td["num_agents"].is_floating_point(), "num_agents is not an integer tensor")
    c.rng("num-agents-range", td["num_agents"].float(), c.p("min_num_agents", 5), c.p("max_num_agents", 5), integer=True)
    return n


def chk_svrp(c, td):
    n, T = c.p("num_loc", 20), len(c.p("tech_costs", [1, 2, 3]))
    c.doc(td, {"locs": "B,n,2", "depot": "B,2", "techs": "B,n", "skills": "B,n"}, n=n, T=T)
    c.locs(td["locs"])
    c.depot(td)
    te, sk = td["techs"].reshape(c.B, -1), td["skills"].reshape(c.B, -1)
    c.ok("techs-count", te.shape[1] == T, f"{te.shape[1]} technicians for {T} tech_costs")
    c.rng("techs-range", te, c.p("min_skill", 1.0), c.p("max_skill", 10.0))
    c.ok("techs-sorted", (te[:, 1:] >= te[:, :-1]).all(-1), "technician skills not ascending", techs=te)
    c.ok("skills-serviceable", ((sk >= 0) & (sk <= te.max(-1, keepdim=True)[0] + EPS)).all(-1), "a customer requires more skill than the best technician has", skills=sk, techs=te)
    return n + 1


def chk_mdcpdp(c, td):
    n, D = c.p("num_loc", 20), c.p("num_depot", 5)
    n += n % 2
    c.doc(td, {"locs": "B,n,2", "depot": "B,D,2", "capacity": "B,1", "lateness_weight": "B,1"}, n=n, D=D)
    c.ok("even-num-loc", td["locs"].shape[1] % 2 == 0 and td["locs"].shape[1] == n, f"{td['locs'].shape[1]} customer nodes: not even")
    c.locs(td["locs"])
    c.locs(td["depot"], "depot-range")
    c.rng("capacity-range", td["capacity"].float(), c.p("min_capacity", 1), c.p("max_capacity", 5), integer=True)
    c.rng("lateness-range", td["lateness_weight"], c.p("min_lateness_weight", 1.0), c.p("max_lateness_weight", 1.0))
    if c.p("depot_mode", "multiple") == "single":
        c.ok("depot-single", (td["depot"] == td["depot"][:, :1]).reshape(c.B, -1).all(-1), "depot_mode=single but depots differ", depot=td["depot"])
    return n + D


def preset_feats(name):
    """Oracle: feature set encoded in an MTVRP variant name, e.g. 'ovrpbltw' -> O,B,L,TW (parsed from the name, not from the library table)."""
    m = re.fullmatch(r"(o|c)?vrp(b)?(l)?(tw)?", name)
    return {"O": m.group(1) == "o", "B": bool(m.group(2)), "L": bool(m.group(3)), "TW": bool(m.group(4))}


def chk_mtvrp(c, td):
    n = c.p("num_loc", 20)
    c.doc(td, {"locs": "B,n+1,2", "demand_backhaul": "B,n+1", "demand_linehaul": "B,n+1", "distance_limit": "B,1", "time_windows": "B,n+1,2",
               "service_time": "B,n+1", "vehicle_capacity": "B,1", "capacity_original": "B,1", "open_route": "B,1", "speed": "B,1"}, n=n)
    c.locs(td["locs"])
    cap = c.p("capacity", None) or (30 if n <= 20 else 30 + n // 5)  # documented: 30 + num_loc/5 above 20 nodes
    scaled, T, speed, lim = c.p("scale_demand", True), c.p("max_time", 4.6), c.p("speed", 1.0), c.p("distance_limit", 3.0)
    c.ok("capacity", (td["capacity_original"] == cap).all(-1) & (td["vehicle_capacity"] == (1.0 if scaled else cap)).all(-1), f"capacity_original != {cap} or vehicle_capacity not normalised",
         cap=td["capacity_original"], veh=td["vehicle_capacity"])
    c.ok("speed", (td["speed"] == speed).all(-1), "speed differs from the parameter", speed=td["speed"])
    lh, bh = td["demand_linehaul"], td["demand_backhaul"]
    unit = float(cap) if scaled else 1.0
    c.ok("demand-depot-zero", (lh[:, 0] == 0) & (bh[:, 0] == 0), "depot has demand")
    c.ok("demand-exclusive", ((lh[:, 1:] > 0) ^ (bh[:, 1:] > 0)).all(-1), "a customer must have exactly one of linehaul / backhaul demand", lh=lh, bh=bh)
    dl, dh, bl, bhh = c.p("min_demand", 1), c.p("max_demand", 10), c.p("min_backhaul", 1), c.p("max_backhaul", 10)
    for nm, x, lo, hi in (("linehaul-", lh[:, 1:], min(dl, bl), max(dh, bhh)), ("backhaul-", bh[:, 1:], bl, bhh)):
        raw, pos = x * unit, x > 0
        c.ok(nm + "demand-integer", (isint(raw) | ~pos).all(-1), "demand*capacity is not an integer", value=raw)
        c.ok(nm + "demand-range", (((raw.round() >= lo) & (raw.round() <= hi)) | ~pos).all(-1), f"integer demand outside [{lo},{hi}]", value=raw)
        c.ok(nm + "demand-le-capacity", (raw <= cap + 1e-3).all(-1), "demand above the vehicle capacity", value=raw)
    # features present in each row
    tw, st = td["time_windows"], td["service_time"]
    O, L, Bk = td["open_route"].reshape(-1), torch.isfinite(td["distance_limit"]).reshape(-1), (bh > 0).any(-1)
    TW = torch.isfinite(tw[..., 1]).all(-1)
    notw = (tw[..., 0] == 0).all(-1) & torch.isinf(tw[..., 1]).all(-1) & (st == 0).all(-1)
    c.ok("feat-tw-default", TW | notw, "row is neither a full TW row nor the [0,inf]/service 0 default", tw=tw, service=st)
    d0 = dist(td["locs"][:, :1], td["locs"]) / speed
    eps = 1e-5 * T
    twr = lambda cond: cond | ~TW  # noqa: E731  (clauses on TW rows only)
    c.ok("tw-depot", twr((tw[:, 0, 0] == 0) & ((tw[:, 0, 1] - T).abs() <= eps) & (st[:, 0] == 0)), f"depot window != [0,{T}]", tw=tw[:, 0])
    c.ok("tw-ordered", twr((tw[..., 0] < tw[..., 1]).all(-1) & (tw[..., 0] >= 0).all(-1) & (st >= 0).all(-1)), "window start >= end", tw=tw)
    c.ok("tw-reachable", twr((d0 <= tw[..., 1] + eps).all(-1)), "depot->customer travel time exceeds the window end", tw_end=tw[..., 1], travel=d0)
    c.ok("tw-return", twr((tw[..., 1] + st + d0 <= T + eps)[:, 1:].all(-1)), "end + service + return travel exceeds max_time", tw_end=tw[..., 1], service=st, travel=d0)
    c.ok("feat-limit", ~L | ((td["distance_limit"].reshape(-1) == lim) & (2 * d0.max(-1)[0] * speed <= lim + EPS)), "finite distance limit != parameter or a node is not reachable back and forth", limit=td["distance_limit"])
    preset = c.p("variant_preset", None)
    feats = {"O": O, "TW": TW, "L": L, "B": Bk}
    cnt = O.int() + TW.int() + L.int() + Bk.int()
    if not c.p("subsample", True):
        good, want = O & TW & L, "all of O,TW,L (subsample=False)"
    elif preset == "all":
        good, want = torch.ones_like(O), "any"
    elif preset == "single_feat":
        good, want = cnt <= 1, "at most one of O,TW,L,B"
    elif preset == "single_feat_otw":
        good, want = (cnt <= 1) | ((cnt == 2) & O & TW), "at most one feature, or exactly O+TW"
    else:
        pf = preset_feats(preset)
        good = torch.ones_like(O)
        for f in ("O", "TW", "L"):
            good &= feats[f] == pf[f]
        good &= pf["B"] | ~Bk
        want = str(pf)
    c.ok("feat-preset", good, f"row features not allowed by preset {preset!r}: expected {want}", open=O, has_tw=TW, has_limit=L, has_backhaul=Bk)
    return n + 1


def chk_shop(c, td, flexible):
    J, M = c.p("num_jobs", 10 if flexible else 6), c.p("num_machines", 5 if flexible else 6)
    lo_o, hi_o = (c.p("min_ops_per_job", 4), c.p("max_ops_per_job", 6)) if flexible else (c.p("min_ops_per_job", None) or M, c.p("max_ops_per_job", None) or M)
    N = hi_o * J
    c.doc(td, {"start_op_per_job": "B,J", "end_op_per_job": "B,J", "proc_times": "B,M,N", "pad_mask": "B,N"}, J=J, M=M, N=N)
    s, e, pt, pad = td["start_op_per_job"], td["end_op_per_job"], td["proc_times"], td["pad_mask"]
    nops = e - s + 1
    c.ok("job-structure", (s[:, 0] == 0) & (s[:, 1:] == e[:, :-1] + 1).all(-1) & ((nops >= lo_o) & (nops <= hi_o)).all(-1),
         f"jobs are not consecutive op ranges with [{lo_o},{hi_o}] ops each", start=s, end=e)
    c.ok("pad-mask", (pad == (torch.arange(N)[None] > e[:, -1:])).all(-1), "pad_mask != (op index beyond the last real op)", pad=pad, end=e)
    elig = (pt > 0).sum(1)
    lo_e, hi_e = (c.p("min_eligible_ma_per_op", 1), c.p("max_eligible_ma_per_op", None) or M) if flexible else (1, 1)
    c.ok("eligible-real", ((elig >= max(lo_e, 1)) & (elig <= hi_e) | pad).all(-1), f"a real operation is eligible on a number of machines outside [{max(lo_e, 1)},{hi_e}]", eligible=elig, pad=pad)
    if flexible:
        c.ok("eligible-pad", ((elig == 0) | ~pad).all(-1), "a padded operation is eligible on a machine", eligible=elig, pad=pad)
    lo_t, hi_t = c.p("min_processing_time", 1), c.p("max_processing_time", 20 if flexible else 99)
    c.ok("proc-range", ((pt == 0) | (isint(pt) & (pt >= lo_t) & (pt <= hi_t))).reshape(c.B, -1).all(-1), f"processing time outside integer [{lo_t},{hi_t}]", proc_times=pt)
    if not flexible and c.p("one2one_ma_map", True):
        ma = (pt > 0).float().argmax(1).reshape(c.B, J, M).sort(-1)[0]
        c.ok("one2one", (ma == torch.arange(M)).reshape(c.B, -1).all(-1), "one2one_ma_map: a job does not visit every machine exactly once", machines=ma)
    return N


def chk_ffsp(c, td):
    S, M, J = c.p("num_stage", 2), c.p("num_machine", 3), c.p("num_job", 4)
    c.doc(td, {"run_time": "B,J,M,S"}, S=S, M=M, J=J)
    c.rng("run-time-range", td["run_time"].float(), c.p("min_time", 2), c.p("max_time", 10), integer=True)
    return J * S * M


def chk_smtwtp(c, td):
    n = c.p("num_job", 10)
    c.doc(td, {"job_due_time": "B,n+1", "job_weight": "B,n+1", "job_process_time": "B,n+1"}, n=n)
    c.rng("due-range", td["job_due_time"][:, 1:], c.p("min_time_span", 0), c.p("max_time_span", None) or n / 2)
    c.rng("weight-range", td["job_weight"][:, 1:], c.p("min_job_weight", 0), c.p("max_job_weight", 1))
    c.rng("process-range", td["job_process_time"][:, 1:], c.p("min_process_time", 0), c.p("max_process_time", 1))
    c.ok("dummy-zero", (td["job_due_time"][:, 0] == 0) & (td["job_weight"][:, 0] == 0) & (td["job_process_time"][:, 0] == 0), "dummy job 0 has non-zero features")
    return n + 1


def chk_flp(c, td):
    n, k = c.p("num_loc", 100), c.p("to_choose", 10)
    c.doc(td, {"locs": "B,n,2", "orig_distances": "B,n,n", "distances": "B,n", "chosen": "B,n", "to_choose": "B,1"}, n=n)
    c.locs(td["locs"])
    d = dist(td["locs"][:, :, None], td["locs"][:, None])
    c.ok("orig-distances", ((td["orig_distances"] - d).abs() <= 1e-4 * max(1.0, abs(c.p("max_loc", 1.0)))).reshape(c.B, -1).all(-1), "orig_distances != pairwise Euclidean distances")
    c.ok("init-distances", (td["distances"][:, :, None] >= d - 1e-4).reshape(c.B, -1).all(-1), "initial distance is not an upper bound of all pairwise distances", value=td["distances"])
    c.ok("chosen", ~td["chosen"].any(-1), "a location is chosen initially")
    c.ok("to_choose", (td["to_choose"].reshape(c.B, -1) == k).all(-1), f"to_choose != {k}", value=td["to_choose"])
    return n


def chk_mcp(c, td):
    I, S = c.p("num_items", 200), c.p("num_sets", 100)
    lo_s, hi_s = c.p("min_size", 5), c.p("max_size", 15)
    c.doc(td, {"membership": "B,S,Z", "weights": "B,I", "n_sets_to_choose": "B,1"}, S=S, I=I, Z=hi_s)
    mem = td["membership"]
    c.ok("membership-items", (isint(mem) & (mem >= 0) & (mem <= I)).reshape(c.B, -1).all(-1), f"membership entry not an item id in 0..{I}", membership=mem)
    srt = mem.sort(-1)[0]
    c.ok("membership-distinct", ((srt[..., 1:] != srt[..., :-1]) | (srt[..., 1:] == 0)).reshape(c.B, -1).all(-1), "an item is repeated inside one set", membership=mem)
    size = (mem > 0).sum(-1)
    c.ok("set-nonempty", (size >= 1).all(-1), "empty set", sizes=size)
    c.ok("set-size-below-min", (size >= lo_s).all(-1), f"a set has fewer than min_size={lo_s} items", sizes=size)
    c.ok("set-size-above-max", (size <= hi_s).all(-1), f"a set has more than max_size={hi_s} items", sizes=size)
    c.rng("weights-range", td["weights"], c.p("min_weight", 1), c.p("max_weight", 10), integer=True)
    c.ok("n_sets", (td["n_sets_to_choose"] == c.p("n_sets_to_choose", 10)).all(-1), "n_sets_to_choose differs from the parameter", value=td["n_sets_to_choose"])
    return S


ENVS = {  # env name -> (env class or bare generator class, checker)
    "tsp": (E.TSPEnv, chk_tsp), "atsp": (E.ATSPEnv, chk_atsp), "cvrp": (E.CVRPEnv, chk_cvrp), "sdvrp": (E.SDVRPEnv, chk_cvrp),
    "cvrptw": (E.CVRPTWEnv, chk_cvrptw), "op": (E.OPEnv, chk_op), "pctsp": (E.PCTSPEnv, chk_pctsp), "spctsp": (E.SPCTSPEnv, chk_pctsp),
    "pdp": (E.PDPEnv, chk_pdp), "mtsp": (E.MTSPEnv, chk_mtsp), "svrp": (E.SVRPEnv, chk_svrp), "mdcpdp": (E.MDCPDPEnv, chk_mdcpdp),
    "mpdp": (MPDPGenerator, lambda c, td: chk_pdp(c, td, True)), "mtvrp": (E.MTVRPEnv, chk_mtvrp), "fjsp": (E.FJSPEnv, lambda c, td: chk_shop(c, td, True)),
    "jssp": (E.JSSPEnv, lambda c, td: chk_shop(c, td, False)), "ffsp": (E.FFSPEnv, chk_ffsp), "smtwtp": (E.SMTWTPEnv, chk_smtwtp),
    "flp": (E.FLPEnv, chk_flp), "mcp": (E.MCPEnv, chk_mcp),
}
MTVRP_PRESETS = ["all", "single_feat", "single_feat_otw", "cvrp", "ovrp", "vrpb", "vrpl", "vrptw", "ovrptw", "ovrpb", "ovrpl", "vrpbl", "vrpbtw",
                 "vrpltw", "ovrpbl", "ovrpbtw", "ovrpltw", "vrpbltw", "ovrpbltw"]
DISTS = {"cluster": dict(n_cluster=3), "mixed": dict(n_cluster_mix=1), "normal": dict(loc_mean=0.5, loc_std=0.15), "gaussian_mixture": dict(num_modes=3, cdist=10),
         "mix_distribution": dict(n_cluster=3, n_cluster_mix=1), "mix_multi_distributions": {}}


SHAPES = {  # scheduling / graph parameterisations: env -> [(tag, thorough-only, generator params)]
    "fjsp": [("tiny", 0, dict(num_jobs=2, num_machines=1, min_ops_per_job=1, max_ops_per_job=1)), ("j3m2", 0, dict(num_jobs=3, num_machines=2, min_ops_per_job=1, max_ops_per_job=3)),
             ("j5m4-indep", 0, dict(num_jobs=5, num_machines=4, min_ops_per_job=2, max_ops_per_job=5, same_mean_per_op=False)),
             ("j5m4-elig2-3", 0, dict(num_jobs=5, num_machines=4, min_ops_per_job=2, max_ops_per_job=5, min_eligible_ma_per_op=2, max_eligible_ma_per_op=3)),
             ("const-proc-time", 0, dict(num_jobs=4, num_machines=3, min_ops_per_job=2, max_ops_per_job=4, min_processing_time=3, max_processing_time=3)),
             ("pt3-4", 0, dict(num_jobs=4, num_machines=3, min_ops_per_job=2, max_ops_per_job=4, min_processing_time=3, max_processing_time=4)),
             ("default", 1, {}), ("j10m10", 1, dict(num_jobs=10, num_machines=10, min_ops_per_job=5, max_ops_per_job=10))],
    "jssp": [("j3m3", 0, dict(num_jobs=3, num_machines=3)), ("j5m2", 0, dict(num_jobs=5, num_machines=2, max_processing_time=9)),
             ("var-ops", 0, dict(num_jobs=4, num_machines=3, min_ops_per_job=1, max_ops_per_job=4, one2one_ma_map=False)), ("default", 1, {}), ("j10m5", 1, dict(num_jobs=10, num_machines=5))],
    "ffsp": [("s2m2j4", 0, dict(num_stage=2, num_machine=2, num_job=4)), ("s3m1j3", 0, dict(num_stage=3, num_machine=1, num_job=3, min_time=1, max_time=3)),
             ("s1m3j5", 0, dict(num_stage=1, num_machine=3, num_job=5)), ("default", 1, {}), ("s3m4j10", 1, dict(num_stage=3, num_machine=4, num_job=10))],
    "smtwtp": [("j1", 0, dict(num_job=1)), ("j7", 0, dict(num_job=7)),
               ("j12-ranges", 0, dict(num_job=12, min_time_span=2, max_time_span=5, min_job_weight=1, max_job_weight=3, min_process_time=0.5, max_process_time=2))],
    "flp": [("n5k1", 0, dict(num_loc=5, to_choose=1)), ("n12k12", 0, dict(num_loc=12, to_choose=12)), ("n12k4-box", 0, dict(num_loc=12, to_choose=4, min_loc=2.0, max_loc=5.0)),
            ("n20-cluster", 0, dict(num_loc=20, to_choose=3, loc_distribution="cluster", n_cluster=3)), ("default", 1, {})],
    "mcp": [("i20s10", 0, dict(num_items=20, num_sets=10, n_sets_to_choose=3)), ("few-sets", 0, dict(num_items=20, num_sets=3, n_sets_to_choose=2, min_size=2, max_size=6)),
            ("i6s30", 0, dict(num_items=6, num_sets=30, n_sets_to_choose=2, min_size=2, max_size=6)),
            ("w3-4", 0, dict(num_items=50, num_sets=40, n_sets_to_choose=5, min_weight=3, max_weight=4, min_size=1, max_size=3)), ("default", 1, {})],
}


def grid(tier):
    T = tier == "thorough"
    sizes, var = ([2, 5, 13, 20, 33, 50, 101], [13, 50]) if T else ([5, 13, 20], [13])
    G = []
    add = lambda env, tag, **p: G.append((env, tag, p))  # noqa: E731
    for n in sizes:  # base parameterisation at every size (13, 33, 101: not in the capacity / max-length tables)
        for env in ("tsp", "atsp", "cvrp", "sdvrp", "cvrptw", "op", "pctsp", "spctsp", "pdp", "svrp"):
            add(env, f"n{n}", num_loc=n)
        add("cvrptw", f"n{n}-scaled", num_loc=n, scale=True)
        add("mtsp", f"n{n}", num_loc=max(n, 3), min_num_agents=1, max_num_agents=3)
        add("mdcpdp", f"n{n}", num_loc=n, num_depot=2)
        add("mpdp", f"n{n}", num_loc=n, min_num_agents=2, max_num_agents=4)
        add("mtvrp", f"n{n}-all", num_loc=n, variant_preset="all")
        add("mtvrp", f"n{n}-nosub", num_loc=n, subsample=False)
    for n in var:
        for d, kw in DISTS.items():
            add("tsp", f"n{n}-{d}", num_loc=n, loc_distribution=d, **kw)
            if d in ("cluster", "mixed", "normal") or T:
                add("cvrp", f"n{n}-{d}", num_loc=n, loc_distribution=d, **kw)
                add("op", f"n{n}-{d}", num_loc=n, loc_distribution=d, **kw)
        add("tsp", f"n{n}-box", num_loc=n, min_loc=-1.0, max_loc=3.0)
        add("atsp", f"n{n}-notmat", num_loc=n, tmat_class=False)
        add("atsp", f"n{n}-range", num_loc=n, min_dist=0.5, max_dist=2.0)
        add("cvrp", f"n{n}-cap10", num_loc=n, capacity=10.0)
        add("cvrp", f"n{n}-cap37.5-dem3-6", num_loc=n, capacity=37.5, min_demand=3, max_demand=6)
        add("cvrp", f"n{n}-dem5-5", num_loc=n, min_demand=5, max_demand=5)
        add("cvrp", f"n{n}-depot-unif-box", num_loc=n, depot_distribution="uniform", min_loc=2.0, max_loc=3.0)
        add("cvrp", f"n{n}-depot-center", num_loc=n, depot_distribution="center")
        add("sdvrp", f"n{n}-cap12", num_loc=n, capacity=12.0)
        add("cvrptw", f"n{n}-t600-depot", num_loc=n, max_time=600, depot_distribution="uniform", capacity=15.0)
        add("cvrptw", f"n{n}-loc100-scaled", num_loc=n, max_loc=100.0, max_time=400, scale=True)
        for pt in ("const", "unif", "dist"):
            add("op", f"n{n}-prize-{pt}", num_loc=n, prize_type=pt)
        add("op", f"n{n}-len1.5-depot", num_loc=n, max_length=1.5, depot_distribution="uniform")
        add("pctsp", f"n{n}-pen5", num_loc=n, penalty_factor=5.0, depot_distribution="uniform")
        add("spctsp", f"n{n}-maxpen1", num_loc=n, max_penalty=1.0)
        add("pdp", f"n{n}-depot", num_loc=n, depot_distribution="uniform", min_loc=-2.0, max_loc=-1.0)
        add("mtsp", f"n{n}-a1", num_loc=n, min_num_agents=1, max_num_agents=1)
        add("mtsp", f"n{n}-a5", num_loc=n)
        add("svrp", f"n{n}-2tech", num_loc=n, tech_costs=[1, 5], min_skill=2.0, max_skill=4.0, depot_distribution="uniform")
        add("mdcpdp", f"n{n}-single", num_loc=n, num_depot=3, depot_mode="single", min_capacity=1, max_capacity=1)
        add("mdcpdp", f"n{n}-cap2-4", num_loc=n, num_depot=1, min_capacity=2, max_capacity=4, min_lateness_weight=0.5, max_lateness_weight=2.0)
        add("mpdp", f"n{n}-depot", num_loc=n, depot_distribution="uniform")
        for ps in MTVRP_PRESETS[1:]:
            add("mtvrp", f"n{n}-{ps}", num_loc=n, variant_preset=ps)
        add("mtvrp", f"n{n}-cap20-raw", num_loc=n, variant_preset="all", capacity=20, scale_demand=False)
        add("mtvrp", f"n{n}-speed2-t6", num_loc=n, variant_preset="vrpltw", speed=2.0, max_time=6.0, distance_limit=3.5)
        add("mtvrp", f"n{n}-dem2-4-bh3-5", num_loc=n, variant_preset="vrpb", min_demand=2, max_demand=4, min_backhaul=3, max_backhaul=5, backhaul_ratio=0.5)
    for env, rows in SHAPES.items():
        for tag, thorough_only, p in rows:
            if T or not thorough_only:
                add(env, tag, **p)
    return G


# ----------------------------------------------------------------------------- solvability
def rollout(c, env, td0, limit):
    """Uniformly random mask-confined rollout; finished rows are dropped (no padding actions are ever taken)."""
    idx, steps, acts = torch.arange(td0.batch_size[0]), 0, [[] for _ in range(td0.batch_size[0])]
    bad = lambda cl, what, row: c.fail(cl, what, row=int(row), actions_so_far=acts[int(row)], instance=td0[int(row)])  # noqa: E731
    try:
        td = env.reset(td0.clone())
    except Exception as e:
        return bad(f"solvable.raises.{type(e).__name__}", f"env.reset raised on a generated instance: {e}"[:200], 0)
    while True:
        done = td["done"].reshape(td.batch_size[0], -1).all(-1)
        if done.all():
            return
        if done.any():
            td, idx = td[~done], idx[~done]
        m = td["action_mask"].reshape(td.batch_size[0], -1)
        if (~m.any(-1)).any():
            return bad("solvable.mask-all-false", f"no feasible action at step {steps} of an unfinished episode", idx[~m.any(-1)][0])
        if steps >= limit:
            return bad("solvable.not-done", f"episode not done after {limit} mask-confined steps", idx[0])
        a = torch.multinomial(m.float(), 1).squeeze(-1)
        for i, ai in zip(idx.tolist(), a.tolist()):
            acts[i].append(ai)
        td.set("action", a)
        try:
            td = env.step(td)["next"]
        except Exception as e:  # library raised on a masked-feasible action of a generated instance
            return bad(f"solvable.raises.{type(e).__name__}", f"env.step raised on a feasible action: {e}"[:200], idx[0])
        steps += 1


def run_case(rep, envname, tag, cfg, B, seed):
    cls, chk = ENVS[envname]
    c = Cx(rep, envname, tag, cfg, B, seed)
    rep.case((envname, tag, B, seed))
    try:
        obj = cls(generator_params=dict(cfg)) if hasattr(cls, "reset") else cls(**cfg)
        gen = obj.generator if hasattr(cls, "reset") else obj
        torch.manual_seed(seed), random.seed(seed), np.random.seed(seed)  # env construction reseeds torch: seed after it
        td0 = gen(B if seed % 2 else [B])
    except Exception as e:
        msg = re.sub(r"\d+", "#", str(e).split("\n")[0])[:110]
        return c.fail(f"generate-raises.{type(e).__name__}:{msg}", f"generator raised on a valid parameterisation: {type(e).__name__}: {e}"[:300])
    c.ok("batch-size", tuple(td0.batch_size) == (B,), f"TensorDict batch_size {tuple(td0.batch_size)} != ({B},)")
    try:
        size = chk(c, td0)
    except KeyError as e:  # a documented key that the checks (and the env) consume is absent
        return c.fail("doc-keys.missing-consumed-key", f"generated TensorDict lacks key {e}", got=sorted(td0.keys()))
    if hasattr(cls, "reset"):
        rollout(c, obj, td0, 10 * size + 10)


# ----------------------------------------------------------------------------- get_sampler / distribution_utils
def chk_samplers(rep, seeds, B, n):
    for seed in seeds:
        for name, kw, lo, hi in [("uniform", {}, 2.0, 3.0), (0.7, {}, 0.7, 0.7), ("center", {}, 0.0, 1.0), ("center-box", {}, 2.0, 3.0), ("corner", {}, 2.0, 3.0),
                                 ("normal", dict(x_mean=0.5, x_std=0.1), None, None), ("exponential", dict(x_rate=2.0), 0.0, float("inf")),
                                 ("poisson", dict(x_rate=3.0), 0.0, float("inf"))] + [(d, kw, 0.0, 1.0) for d, kw in DISTS.items() if d != "normal"]:
            rep.case(("get_sampler", str(name), seed))
            dname = "center" if name == "center-box" else name
            bounds = (lo, hi) if lo is not None and hi != float("inf") else ()
            inp = {"call": f"get_sampler('x', {dname!r}, *{bounds}, **{kw}).sample(({B},{n},2))", "torch_seed": seed}

            def emit(cl, cond, what, **k):
                nm = f"C18.get_sampler.{dname}.{cl}"
                if not cond:
                    (rep.known if nm in KNOWN else rep.violation)(nm, what, {**inp, **k})
            try:
                torch.manual_seed(seed), random.seed(seed), np.random.seed(seed)
                s = get_sampler("x", dname, *bounds, **kw)
                x = s.sample((B, n, 2))
            except Exception as e:
                emit(f"raises.{type(e).__name__}", False, f"get_sampler/sample raised: {e}"[:200])
                continue
            emit("shape", tuple(x.shape) == (B, n, 2), f"sample shape {tuple(x.shape)} != {(B, n, 2)}")
            emit("finite", bool(torch.isfinite(x).all()), "non-finite sample")
            if lo is not None and dname != "center":  # for 'center' the midpoint clause below is strictly stronger
                emit("support", bool(((x >= lo - EPS) & (x <= hi + EPS)).all()), f"sample outside documented support [{lo},{hi}]", min=float(x.min()), max=float(x.max()))
            if dname == "center":
                emit("midpoint", bool(((x - (lo + hi) / 2).abs() < EPS).all()), f"'center' sample != midpoint {(lo + hi) / 2} of [{lo},{hi}]", got=float(x.flatten()[0]))
            if name == "poisson":
                emit("integer", bool(isint(x).all()), "poisson sample not integer")
    rep.case(("get_sampler", "invalid", 0))
    try:
        get_sampler("x", "no-such-distribution", 0, 1)
        rep.violation("C18.get_sampler.invalid.accepted", "unknown distribution name did not raise ValueError", {"call": "get_sampler('x','no-such-distribution',0,1)"})
    except ValueError:
        pass
    except Exception as e:
        rep.violation("C18.get_sampler.invalid.wrong-exception", f"raised {type(e).__name__} instead of ValueError", {})


def main():
    a = _lib.args()
    T = a.tier == "thorough"
    G = grid(a.tier)
    bss, nseeds = ((1, 3, 8), 8) if T else ((1, 4), 5)
    envs = sorted({g[0] for g in G})
    BOUND = (f"tier={a.tier}: {len(G)} generator parameterisations over {len(envs)} generators ({','.join(envs)}); routing num_loc in "
             f"{[2, 5, 13, 20, 33, 50, 101] if T else [5, 13, 20]} (variants at {[13, 50] if T else [13]}: 6 location samplers, box/min-max ranges, capacity overrides 10/12/15/20/37.5, "
             f"demand ranges, depot samplers, OP prize types, CVRPTW scaled/unscaled max_time 400/480/600, all 19 MTVRP presets + subsample=False + raw demand + speed 2), "
             f"scheduling/graph shapes as listed in grid(); batch sizes {list(bss)} (int and list form) x {nseeds} seeds (VERIF_SEED={a.seed} offset); "
             f"one uniformly random mask-confined rollout per generated batch, step limit 10*size+10; get_sampler: 13 distributions x {nseeds} seeds, sample shape [64,100,2]")
    rep = _lib.Report(bound=BOUND, rule="case = (generator, parameterisation tag, batch size, seed); every case generates one batch with the real generator, checks all "
                      "range/shape clauses on every row, then runs one random rollout on the real env; distinct = distinct (generator, tag, batch size, seed)", max_violations=25)
    only = set(filter(None, a.only.split(",")))
    budget = a.budget or (3000 if T else 600)   # guard against hangs; wall-clock, far above the normal run time so that a loaded machine does not truncate the grid
    skipped = 0
    for i, (env, tag, cfg) in enumerate(G):
        if only and env not in only:
            continue
        for B in bss:
            for s in range(nseeds):
                if rep.elapsed() > budget:
                    skipped += 1
                    continue
                seed = 100003 * a.seed + 1009 * s + 7 * B + i
                try:
                    run_case(rep, env, tag, cfg, B, seed)
                except Exception as e:  # harness problem, not a library violation
                    import traceback
                    rep.error(f"harness {env}/{tag}/B={B}/seed={seed}: {type(e).__name__}: {e} | {traceback.format_exc(limit=4)[-400:]}")
    if not only or "get_sampler" in only:
        rep.guard(lambda: chk_samplers(rep, [1000 * a.seed + s for s in range(nseeds)], 64, 100), "get_sampler")
    if skipped:
        rep.error(f"time budget {budget}s exhausted: {skipped} cases skipped")
    return rep.finish()


if __name__ == "__main__":
    sys.exit(main())
