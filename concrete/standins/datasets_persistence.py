"""Bounded stand-in for C17 (datasets / collation / baseline wrapping) and C19 (persistence round trips) of rl4co.

Every clause runs the REAL rl4co function and compares with an oracle that never calls the function under test.
Sections (select with --only <section>, or --prop C17|C19), clause names, and the oracle of each:

C17 datasets  C17.<DatasetClass>.{read-raises,batch-sizes,keys,dtype-shape,order,permutation,extra-travels,second-pass,source-mutated}
              oracle: the source TensorDict cloned before wrapping; every row of every batch returned by the real
              RL4COLitModule._dataloader_single(dataset, bs, shuffle) is matched on ALL keys against the source rows.
C17 wrap      C17.rollout.{order,bl_vals}, C17.wrap_dataset.<DatasetClass>.{raises,extra-is-own-greedy-reward,extra-travels}
              oracle: reward of instance i = minus closed tour length (own float64 formula from the problem definition) of
              the greedy actions of the same policy run on instance i ALONE (batch of one).
C19 npz       C19.npz.{raises,keys,values-dtypes,batch-size}; oracle: the TensorDict that was saved.
C19 loaddata  C19.cvrp.load_data.{raises,demand-rowwise,other-keys,reset-content}, C19.cvrp.dataset-from-file,
              C19.mtvrp.load_data.{raises,scale-rowwise,noscale,other-keys,scale.masks-equivalent},
              C19.generate_dataset.<problem>.{raises,loader-content,deterministic,seed-sensitive,reset-content}
              oracle: numpy arithmetic on the raw arrays of the npz file (demand[i, j] / capacity[i]); masks of the unscaled instance.
C19 sched     C19.<fjsp|jssp>.{raises,write-text,read-content,read-content.padded,file-generator.content,file-generator.order,load_data.content,masks-along-actions}
              oracle: jobs / operations / (machine, duration) structure extracted by own code from the generated instance, an own
              parser of the text files, and the env on the ORIGINAL instances driven by the same random action sequence.
C19 envcopy   C19.env.<deepcopy|pickle>.<env>.{raises,attributes,rng-state,reset-state,masks-along-actions,reward},
              C19.env.pickle.unpickle-rewinds-global-rng; oracle: the original env driven from the same rng state / same actions.
C19 ckpt      C19.ckpt.load-default-raises, C19.ckpt.<baseline>.{load-raises,policy-weights,greedy-actions-rewards,baseline-policy,baseline-eval}
              oracle: the in-memory trained REINFORCE module that wrote the checkpoint (RL4COTrainer.fit + save_checkpoint).

Bound: see BOUND (per tier); all randomness is seeded from VERIF_SEED. KNOWN lists clauses that the unchanged library falsifies.
"""
import copy
import glob
import logging
import os
import pickle
import sys
import tempfile
import types
import warnings

sys.path.insert(0, os.path.dirname(os.path.abspath(__file__)))
import _lib  # noqa: E402

_lib.setup_path()
warnings.filterwarnings("ignore")
import numpy as np  # noqa: E402
import torch  # noqa: E402
from tensordict import TensorDict  # noqa: E402

from rl4co.data import dataset as D  # noqa: E402
from rl4co.data.generate_data import generate_dataset  # noqa: E402
from rl4co.data.utils import load_npz_to_tensordict, save_tensordict_to_npz  # noqa: E402
from rl4co.envs import get_env  # noqa: E402
from rl4co.envs.scheduling.fjsp import parser as fjsp_parser  # noqa: E402
from rl4co.envs.scheduling.jssp import parser as jssp_parser  # noqa: E402
from rl4co.models.rl.common.base import RL4COLitModule  # noqa: E402
from rl4co.models.rl.reinforce.baselines import RolloutBaseline  # noqa: E402

logging.disable(logging.WARNING)  # rl4co / lightning loggers are chatty ("val_file not set", ...)

KNOWN = {
    "C19.fjsp.file-generator.order": "FJSPFileGenerator lists files with unsorted os.listdir: files 0001..000N written by parser.write come back permuted",
    "C19.jssp.file-generator.order": "JSSPFileGenerator lists files with unsorted os.listdir: instance files 0001..000N come back permuted",
    "C19.env.pickle.unpickle-rewinds-global-rng": "env.rng IS torch.default_generator; __setstate__ does torch.manual_seed(0)+set_state, so "
    "pickle.loads(env blob) rewinds the global RNG and the ORIGINAL env regenerates the same instances",
    "C19.mtvrp.load_data.scale.masks-equivalent": "MTVRPEnv.load_data(scale=True) divides demands by capacity_original but leaves "
    "vehicle_capacity unscaled: capacity masks differ from the unscaled instance",
    "C19.ckpt.load-default-raises": "REINFORCE.load_from_checkpoint(path) raises UnpicklingError under torch>=2.6 (torch.load without "
    "weights_only=False on a checkpoint holding env/policy hparams)",
    "C19.ckpt.exponential.baseline-eval": "ExponentialBaseline.v is a plain attribute, not in state_dict: after restore the moving average restarts",
    "C19.ckpt.rollout.baseline-eval": "WarmupBaseline.alpha (and warmup ExponentialBaseline.v) not in state_dict: restored model falls back to warmup",
    "C19.ckpt.warmup.baseline-eval": "WarmupBaseline.alpha (and warmup ExponentialBaseline.v) not in state_dict: restored model falls back to warmup",
}
CLASSES = ["TensorDictDataset", "FastTdDataset", "TensorDictDatasetFastGeneration"]
_n6 = dict(generator_params=dict(num_loc=6))
ENVCFG = {
    **{k: _n6 for k in ("tsp", "atsp", "cvrp", "sdvrp", "cvrptw", "op", "pctsp", "spctsp", "pdp", "svrp", "tsp_kopt", "pdp_ruin_repair")},
    "mtsp": dict(generator_params=dict(num_loc=6, min_num_agents=2, max_num_agents=2), cost_type="minmax"),
    "mdcpdp": dict(generator_params=dict(num_loc=6, num_agents=2)),
    "mtvrp": dict(generator_params=dict(num_loc=6, variant_preset="all")),
    "ffsp": dict(generator_params=dict(num_job=4, num_machine=2, num_stage=2)),
    "fjsp": dict(generator_params=dict(num_jobs=3, num_machines=3, min_ops_per_job=1, max_ops_per_job=3), mask_no_ops=False),
    "jssp": dict(generator_params=dict(num_jobs=3, num_machines=3)),
    "smtwtp": dict(generator_params=dict(num_job=5)),
    "mcp": dict(generator_params=dict(num_items=8, num_sets=5, n_sets_to_choose=2, min_size=3, max_size=3)),
    "flp": dict(generator_params=dict(num_loc=8, to_choose=3)),
}
A = _lib.args()
THOROUGH = A.tier == "thorough"
ROUNDS = 6 if THOROUGH else 2  # every section is repeated with fresh random data; seed of a round = VERIF_SEED + 1000 * round
BOUND = (
    f"{ROUNDS} rounds (seed VERIF_SEED+1000*round) of: "
    "datasets: 3 dataset classes x instance sets {synthetic mixed-dtype (f32,f64,i64,i32,bool), tsp6, cvrp6, fjsp3x3} x N in "
    + ("{1,2,5,8,12}" if THOROUGH else "{1,5,8}") + " x batch sizes {1,2,3,N,N+2} x shuffle on/off x extra key on/off, 2 passes over each loader; "
    "wrap: RolloutBaseline with 1-layer AM policy (embed 16) on tsp6/cvrp6, N=7 instances, eval batch sizes "
    + ("{1,2,3,4,7,10}" if THOROUGH else "{1,3,7,10}") + " x 3 dataset classes, train loader (bs,shuffle) in {(7,off),(3,off),(2,on),(3,on)}; "
    "npz: 5 instance sets x N in {1,3,8} x compress on/off; loaddata: CVRP npz with per-row capacities (4x5, 6x7), MTVRP npz scale on/off "
    "(3 and 5 rows, capacities 16/32/64), generate_dataset tsp10/vrp10/pdp10/atsp10/op20(const,unif,dist)/pctsp20 x 5 instances x seeds {s,s,s+1}; "
    "sched: FJSP " + ("4" if THOROUGH else "2") + " configs and JSSP " + ("3" if THOROUGH else "2") + " configs (2-5 jobs, 2-4 machines) x 4 instances x 1 random "
    "action sequence; envcopy: 21 envs (19 constructive + 2 improvement, reset only) x {deepcopy,pickle} of a used env x batch 3 x 1 random action "
    "sequence; ckpt: REINFORCE+AM(1 layer) tsp6" + ("/cvrp6" if THOROUGH else "") + ", 2 epochs x 2 batches of 4, baselines "
    + ("{no,exponential,mean,rollout,warmup,critic}" if THOROUGH else "{no,exponential,rollout}") + " x load_baseline on/off, 6 test instances."
)
rep = _lib.Report(bound=BOUND, rule="one case = one (round, section, class/env/config, size, batch size, shuffle, extra) combination; key = that tuple")
RND, NFAIL = [0], {}


def case(*key):
    rep.case((RND[0],) + key)


def fail(name, what, inp=None):
    NFAIL[name] = NFAIL.get(name, 0) + 1
    if name in KNOWN:
        rep.known(name, what, inp)
    elif NFAIL[name] <= 2:  # at most two witnesses per clause so that other clauses still fit in the report
        rep.violation(name, what, inp)


def check(cond, name, what, inp=None):
    if not cond:
        fail(name, what, inp)
    return bool(cond)


def teq(a, b):
    return a.shape == b.shape and a.dtype == b.dtype and (torch.equal(a, b) or (a.is_floating_point() and torch.allclose(a, b, rtol=0, atol=0, equal_nan=True)))


def tdeq(a, b, keys=None):
    """keys on which TensorDicts a and b differ (value, dtype or shape; missing keys too when keys is None)"""
    ks = sorted(a.keys()) if keys is None else keys
    return [k for k in ks if k not in b.keys() or not teq(a[k], b[k])] + [k for k in b.keys() if keys is None and k not in a.keys()]


def small(td, n=4):
    return {k: td[k][:n] for k in sorted(td.keys())}


def loader(ds, bs, shuffle):  # the data loader the trainer uses
    return RL4COLitModule._dataloader_single(types.SimpleNamespace(dataloader_num_workers=0), ds, bs, shuffle)


def match_rows(src, batch, keys):
    """index of the source row equal on all keys to each batch row; -1 if none"""
    cand = lambda r: [j for j in range(src.batch_size[0]) if all(teq(src[k][j], batch[k][r]) for k in keys)]  # noqa: E731
    return [(cand(r) + [-1])[0] for r in range(batch.batch_size[0])]


# ------------------------------------------------------------------ C17 datasets
def instance_sets(N):
    yield "synthetic", TensorDict({"locs": torch.rand(N, 4, 2), "id": torch.arange(N) * 3 + 1, "flag": torch.rand(N, 4) > 0.5,
                                   "cap": torch.rand(N, dtype=torch.float64), "mat": torch.randint(0, 9, (N, 2, 3), dtype=torch.int32)}, batch_size=[N])
    for name in ("tsp", "cvrp", "fjsp"):
        yield name, get_env(name, **ENVCFG[name]).generator(batch_size=[N])


def sec_datasets(tmp, seed):
    combos = [(N, sname, src, cname, ex) for N in ([1, 2, 5, 8, 12] if THOROUGH else [1, 5, 8]) for sname, src in instance_sets(N) for cname in CLASSES for ex in (False, True)]
    for N, sname, src, cname, with_extra in combos:
        keys, P = sorted(src.keys()), f"C17.{cname}."
        extra = torch.arange(N, dtype=torch.float32) * 7.0 - 3.0
        orig, given = src.clone(), src.clone()
        ds = getattr(D, cname)(given)
        if with_extra:
            ds = ds.add_key("extra", extra.clone())
        for bs, shuffle in [(b, s) for b in sorted({1, 2, 3, N, N + 2}) for s in (False, True)]:
            cfg = dict(cls=cname, set=sname, N=N, batch_size=bs, shuffle=shuffle, extra=with_extra)
            case("datasets", *cfg.values())
            try:
                passes = [[b for b in loader(ds, bs, shuffle)] for _ in range(2)]
            except Exception as e:
                fail(P + "read-raises", f"reading through the DataLoader raised {type(e).__name__}: {e}", cfg)
                continue
            for pi, out in enumerate(passes):
                exp_sizes = [bs] * (N // bs) + ([N % bs] if N % bs else [])
                if not check([tuple(b.batch_size) for b in out] == [(x,) for x in exp_sizes], P + "batch-sizes", f"batch sizes {[tuple(b.batch_size) for b in out]} != {exp_sizes}", cfg):
                    continue
                perm = []
                for b in out:
                    ok = check(sorted(b.keys()) == sorted(keys + (["extra"] if with_extra else [])), P + "keys", f"keys {sorted(b.keys())}", cfg)
                    ok = ok and check(all(b[k].dtype == orig[k].dtype and b[k].shape == (b.batch_size[0],) + orig[k].shape[1:] for k in keys), P + "dtype-shape",
                                      "dtype/shape of a key changed: " + str({k: (str(b[k].dtype), list(b[k].shape)) for k in b.keys()}), cfg)
                    if not ok:
                        perm = None
                        break
                    rows = match_rows(orig, b, keys)
                    if with_extra:
                        bad = [(r, j) for r, j in enumerate(rows) if j >= 0 and float(b["extra"][r]) != float(extra[j])]
                        check(not bad, P + "extra-travels", f"extra value does not belong to its instance (batch row, source row) {bad[:3]}", {**cfg, "extra_in_batch": b["extra"], "source_rows": rows})
                    perm += rows
                if perm is not None and shuffle:
                    check(sorted(perm) == list(range(N)), P + "permutation", f"shuffled read-back is not a permutation of the instances (all keys together): {perm}", cfg)
                elif perm is not None:
                    check(perm == list(range(N)), P + "order", f"read-back source rows {perm} != {list(range(N))} (pass {pi})", {**cfg, "instances": small(orig)})
            if not shuffle and len(passes[0]) == len(passes[1]):
                check(all(not tdeq(a, b) for a, b in zip(*passes)), P + "second-pass", "second pass over the loader differs from the first", cfg)
        check(not tdeq(orig, given, keys), P + "source-mutated", "values of the wrapped TensorDict changed by wrapping/reading", dict(cls=cname, set=sname, N=N, extra=with_extra))


# ------------------------------------------------------------------ C17 baseline wrapping
def own_reward(env_name, inst, actions):
    """minus the closed tour length; CVRP tours start and end at the depot (node 0)"""
    nodes, tour = (inst["locs"], actions) if env_name == "tsp" else (torch.cat((inst["depot"][None], inst["locs"]), 0), [0] + list(actions) + [0])
    p = nodes.double()[torch.as_tensor(tour)]
    return -float((p - p.roll(-1, 0)).norm(dim=-1).sum())


def tiny_policy(env_name, embed=16):
    from rl4co.models import AttentionModelPolicy
    return AttentionModelPolicy(env_name=env_name, embed_dim=embed, num_encoder_layers=1, num_heads=2, feedforward_hidden=32)


def solo_greedy(policy, env, env_name, src):
    policy.eval()
    with torch.inference_mode():
        acts = [policy(env.reset(src[i:i + 1].clone()), env, decode_type="greedy")["actions"][0].tolist() for i in range(src.batch_size[0])]
    return torch.tensor([own_reward(env_name, src[i], a) for i, a in enumerate(acts)], dtype=torch.float64)


def sec_wrap(tmp, seed):
    N = 7
    for env_name in ("tsp", "cvrp"):
        env = get_env(env_name, **ENVCFG[env_name])
        bl = RolloutBaseline()
        bl.setup(tiny_policy(env_name), env, batch_size=3, device="cpu", dataset_size=N)  # the path used by REINFORCE.post_setup_hook
        own = next(iter(loader(bl.dataset, N, False)))  # the baseline's own evaluation instances, in dataset order
        case("wrap", env_name, "bl_vals")
        exp = solo_greedy(bl.policy, env, env_name, own)
        check(np.allclose(bl.bl_vals, exp.numpy(), atol=1e-4), "C17.rollout.bl_vals", f"bl_vals[i] is not the baseline policy's greedy reward on instance i: {bl.bl_vals.tolist()} vs {exp.tolist()}",
              dict(env=env_name, instances=small(own, N)))
        src = env.generator(batch_size=[N])
        keys, exp = sorted(src.keys()), solo_greedy(bl.policy, env, env_name, src)
        for cname, ebs in [(c, e) for c in CLASSES for e in ([1, 2, 3, 4, 7, 10] if THOROUGH else [1, 3, 7, 10])]:
            cfg = dict(env=env_name, cls=cname, N=N, eval_batch_size=ebs)
            case("wrap", *cfg.values())
            try:
                r = bl.rollout(bl.policy, env, batch_size=ebs, dataset=getattr(D, cname)(src.clone()))
                wrapped = bl.wrap_dataset(getattr(D, cname)(src.clone()), env, batch_size=ebs, device="cpu")
            except Exception as e:
                fail(f"C17.wrap_dataset.{cname}.raises", f"{type(e).__name__}: {e}", cfg)
                continue
            check(r.shape == (N,) and torch.allclose(r.double(), exp, atol=1e-4), "C17.rollout.order", f"rollout()[i] != greedy reward of instance i alone: {r.tolist()} vs {exp.tolist()}",
                  {**cfg, "instances": small(src, N)})
            for bs, shuffle in ((N, False), (3, False), (2, True), (3, True)):
                for b in loader(wrapped, bs, shuffle):
                    rows = match_rows(src, b, keys)
                    bad = [(i, j, float(b["extra"][i]), float(exp[j])) for i, j in enumerate(rows) if j < 0 or abs(float(b["extra"][i]) - float(exp[j])) > 1e-4]
                    check(not bad, f"C17.wrap_dataset.{cname}." + ("extra-travels" if shuffle else "extra-is-own-greedy-reward"),
                          f"(batch row, source row, extra, own greedy reward of that instance) {bad[:3]}", {**cfg, "train_batch_size": bs, "shuffle": shuffle, "instances": small(src, N)})


# ------------------------------------------------------------------ C19 npz / load_data / generate_dataset
def sec_npz(tmp, seed):
    for N in (1, 3, 8):
        for sname, src in list(instance_sets(N)) + [("mtvrp", get_env("mtvrp", **ENVCFG["mtvrp"]).generator(batch_size=[N]))]:
            for compress in (False, True):
                cfg = dict(set=sname, N=N, compress=compress)
                case("npz", *cfg.values())
                f = os.path.join(tmp, f"npz_{sname}_{N}_{compress}.npz")
                try:
                    save_tensordict_to_npz(src.clone(), f, compress=compress)
                    got = load_npz_to_tensordict(f)
                except Exception as e:
                    fail("C19.npz.raises", f"{type(e).__name__}: {e}", cfg)
                    continue
                check(sorted(got.keys()) == sorted(src.keys()), "C19.npz.keys", f"{sorted(got.keys())} != {sorted(src.keys())}", cfg)
                check(not tdeq(src, got), "C19.npz.values-dtypes", f"keys differing in value/dtype/shape: {tdeq(src, got)}", {**cfg, "saved": small(src, 3)})
                check(tuple(got.batch_size) == (N,), "C19.npz.batch-size", f"batch_size {tuple(got.batch_size)} != ({N},)", cfg)


def replay(env, td, actions=None, g=None, maxsteps=120):
    """Step env from reset state td, sampling actions from the mask (actions=None) or replaying the given ones.
    Returns the trace of [action_mask | done] per step, the actions, and the final td."""
    snap = lambda t: torch.cat((t["action_mask"].reshape(t.batch_size[0], -1), t["done"].reshape(t.batch_size[0], -1)), 1)  # noqa: E731
    trace, acts = [], []
    while not bool(td["done"].all()) and len(acts) < maxsteps and (actions is None or len(acts) < len(actions)):
        trace.append(snap(td))
        if actions is None:
            w = td["action_mask"].reshape(td.batch_size[0], -1).float()
            w[w.sum(1) == 0, 0] = 1.0
            a = torch.multinomial(w, 1, generator=g).squeeze(-1)
        else:
            a = actions[len(acts)]
        acts.append(a)
        td.set("action", a.clone())
        td = env.step(td)["next"]
    return trace + [snap(td)], acts, td


def trace_diff(m1, m2):
    if len(m1) != len(m2):
        return f"episode lengths differ: {len(m1)} vs {len(m2)}"
    return next((f"[action_mask | done] differ at step {t}: {a.int().tolist()} vs {b.int().tolist()}" for t, (a, b) in enumerate(zip(m1, m2)) if not torch.equal(a, b)), "")


def sec_loaddata(tmp, seed):
    rng = np.random.RandomState(seed)
    for B, n in ((4, 5), (6, 7)):  # CVRP: per-row capacities, integer demands
        raw = dict(depot=rng.rand(B, 2).astype(np.float32), locs=rng.rand(B, n, 2).astype(np.float32), demand=rng.randint(1, 10, (B, n)).astype(np.float32),
                   capacity=rng.permutation([20., 25., 30., 7.5, 40., 33.])[:B].astype(np.float32))
        f = os.path.join(tmp, f"cvrp_{B}.npz")
        np.savez(f, **raw)
        cfg = dict(env="cvrp", B=B, n=n, demand=raw["demand"].tolist(), capacity=raw["capacity"].tolist())
        case("loaddata", "cvrp", B, n)
        env = get_env("cvrp", generator_params=dict(num_loc=n), data_dir=tmp, val_file=f"cvrp_{B}.npz", test_file=f"cvrp_{B}.npz")
        try:
            got = env.load_data(f)
            td = env.reset(got.clone())
            through = [torch.cat([b["demand"] for b in loader(env.dataset(B, phase=ph), bs, False)], 0).numpy() for ph, bs in (("val", 3), ("test", B))]
        except Exception as e:
            fail("C19.cvrp.load_data.raises", f"{type(e).__name__}: {e}", cfg)
            continue
        exp = raw["demand"] / raw["capacity"][:, None]
        check(got["demand"].shape == (B, n) and np.array_equal(got["demand"].numpy(), exp), "C19.cvrp.load_data.demand-rowwise",
              f"loaded demand != demand[i,j]/capacity[i]: {got['demand'].tolist()} vs {exp.tolist()}", cfg)
        check(all(np.array_equal(got[k].numpy(), raw[k]) and got[k].numpy().dtype == raw[k].dtype for k in ("depot", "locs", "capacity")), "C19.cvrp.load_data.other-keys", "depot/locs/capacity changed", cfg)
        check(all(np.array_equal(t, exp) for t in through), "C19.cvrp.dataset-from-file", "env.dataset(phase=val/test) read through the loader is not the file content in order", cfg)
        check(np.array_equal(td["locs"].numpy(), np.concatenate((raw["depot"][:, None], raw["locs"]), 1)) and np.array_equal(td["demand"].numpy(), exp),
              "C19.cvrp.load_data.reset-content", "reset state of the loaded data does not hold depot+locs / normalised demand", cfg)
    for B in (3, 5):  # MTVRP: scale on/off; capacities are powers of two so that scaling is exact in float32
        env = get_env("mtvrp", generator_params=dict(num_loc=6, variant_preset="all", scale_demand=False))
        src = env.generator(batch_size=[B])
        cap = torch.tensor([16., 32., 64., 32., 16.])[:B, None]
        src["capacity_original"], src["vehicle_capacity"] = cap.clone(), cap.clone()
        f = os.path.join(tmp, f"mtvrp_{B}.npz")
        np.savez(f, **{k: v.numpy() for k, v in src.items()})
        cfg = dict(env="mtvrp", B=B, capacity_original=cap.flatten().tolist(), demand_linehaul=src["demand_linehaul"], demand_backhaul=src["demand_backhaul"])
        case("loaddata", "mtvrp", B)
        try:
            sc, ns = env.load_data(f, scale=True), env.load_data(f, scale=False)
        except Exception as e:
            fail("C19.mtvrp.load_data.raises", f"{type(e).__name__}: {e}", cfg)
            continue
        dk = ("demand_linehaul", "demand_backhaul")
        check(all(np.array_equal(sc[k].numpy(), src[k].numpy() / cap.numpy()) for k in dk), "C19.mtvrp.load_data.scale-rowwise", "scaled demand != demand[i,j]/capacity_original[i]", {**cfg, "got_linehaul": sc["demand_linehaul"]})
        check(not tdeq(src, ns), "C19.mtvrp.load_data.noscale", f"scale=False changed {tdeq(src, ns)}", cfg)
        check(not tdeq(src, sc, [k for k in src.keys() if k not in dk + ("vehicle_capacity",)]), "C19.mtvrp.load_data.other-keys", "scale=True changed a non-demand key", cfg)
        m0, acts, _ = replay(env, env.reset(src.clone()), g=torch.Generator().manual_seed(seed))
        d = trace_diff(m0, replay(env, env.reset(sc.clone()), actions=acts)[0])
        check(not d, "C19.mtvrp.load_data.scale.masks-equivalent", "instance loaded with scale=True is not equivalent to the unscaled one: " + d,
              {**cfg, "vehicle_capacity_loaded": sc["vehicle_capacity"].flatten().tolist(), "actions": [a.tolist() for a in acts]})
    # generate_dataset writers consumed by the env loaders
    with_depot = lambda r: np.concatenate((r["depot"][:, None], r["locs"]), 1)  # noqa: E731
    probs = [("tsp", "tsp", 10, None, lambda r: r["locs"]), ("vrp", "cvrp", 10, None, with_depot), ("pdp", "pdp", 10, None, with_depot), ("atsp", "atsp", 10, None, None),
             ("pctsp", "pctsp", 20, None, with_depot)] + [("op", "op", 20, d, with_depot) for d in ("const", "unif", "dist")]
    for prob, env_name, size, dist, locs_of in probs:
        cfg = dict(problem=prob, size=size, distribution=dist, dataset_size=5, seeds=[seed + 11, seed + 11, seed + 12])
        case("generate", prob, dist)
        P = f"C19.generate_dataset.{prob}."
        try:
            fs = [os.path.join(tmp, f"gen_{prob}_{dist}_{i}.npz") for i in range(3)]
            for f, s in zip(fs, cfg["seeds"]):
                generate_dataset(filename=f, problem=prob, data_distribution=dist or "all", dataset_size=5, graph_sizes=[size], seed=s, overwrite=True)
            raws = [dict(np.load(f)) for f in fs]
            env = get_env(env_name, generator_params=dict(num_loc=size))
            got = env.load_data(fs[0])
            td = env.reset(got.clone())
        except Exception as e:
            fail(P + "raises", f"writer/loader/reset raised {type(e).__name__}: {e}", cfg)
            continue
        raw = raws[0]
        exp = dict(raw, demand=raw["demand"] / raw["capacity"][:, None]) if prob == "vrp" else raw
        check(sorted(got.keys()) == sorted(exp) and all(np.array_equal(got[k].numpy(), exp[k]) and exp[k].shape[0] == 5 for k in exp) and tuple(got.batch_size) == (5,),
              P + "loader-content", "env.load_data(file) is not the written arrays (demand/capacity row-wise for vrp)", cfg)
        check(all(np.array_equal(raws[0][k], raws[1][k]) for k in raw), P + "deterministic", "same seed gave different files", cfg)
        check(any(not np.array_equal(raws[0][k], raws[2][k]) for k in raw), P + "seed-sensitive", "different seeds gave identical files", cfg)
        ok = np.array_equal(td["cost_matrix"].numpy(), raw["cost_matrix"]) if locs_of is None else np.array_equal(td["locs"].numpy(), locs_of(raw))
        check(ok, P + "reset-content", "reset state of the loaded file does not hold the written coordinates / matrix", cfg)


# ------------------------------------------------------------------ C19 FJSP / JSSP text files
def structure(td, i):
    """own reading of instance i: (jobs -> ops -> sorted [(machine0, duration)], #unpadded ops - #ops (0 if consistent), weight in the padded tail (0 if clean))"""
    jobs, pt = [], td["proc_times"]
    try:
        for s, e in zip(td["start_op_per_job"][i].long().tolist(), td["end_op_per_job"][i].long().tolist()):
            jobs.append([sorted((m, int(pt[i, m, o])) for m in range(pt.shape[1]) if pt[i, m, o] > 0) for o in range(s, e + 1)])
    except IndexError as e:  # inconsistent start/end indices in a read-back instance
        return f"unreadable: {e}", 0, 0.0
    n_ops = sum(len(j) for j in jobs)
    return jobs, int((~td["pad_mask"][i]).sum()) - n_ops, float(pt[i, :, n_ops:].sum()) + float(td["pad_mask"][i, :n_ops].sum())


def parse_text(path, flexible):
    """own parser. FJSP line: <n ops> then per op <n eligible> (<machine1> <dur>)*; JSSP line: (<machine1> <dur>)* ; machines are 1-based"""
    rows = [[int(float(x)) for x in ln.split()] for ln in open(path) if ln.strip()]
    jobs = []
    for row in rows[1:]:
        ops, k = [], (1 if flexible else 0)
        while k < len(row):
            ne = row[k] if flexible else 1
            k += 1 if flexible else 0
            ops.append(sorted((row[k + 2 * q] - 1, row[k + 2 * q + 1]) for q in range(ne)))
            k += 2 * ne
        assert not flexible or len(ops) == row[0]
        jobs.append(ops)
    return rows[0][:2], jobs


def write_jssp(d, td):  # rl4co has no JSSP writer: own writer in the format documented in jssp/parser.py
    for i in range(td.batch_size[0]):
        jobs = structure(td, i)[0]
        lines = [f"{len(jobs)} {td['proc_times'].shape[1]}"] + [" ".join(f"{op[0][0] + 1} {op[0][1]}" for op in job) for job in jobs]
        open(os.path.join(d, f"{i + 1:04d}_jssp.txt"), "w").write("\n".join(lines) + "\n")


def sec_sched(tmp, seed):
    fj = [dict(num_jobs=3, num_machines=3, min_ops_per_job=1, max_ops_per_job=3, max_processing_time=9), dict(num_jobs=4, num_machines=2, min_ops_per_job=2, max_ops_per_job=4),
          dict(num_jobs=2, num_machines=4, min_ops_per_job=3, max_ops_per_job=3, same_mean_per_op=False), dict(num_jobs=5, num_machines=3, min_ops_per_job=1, max_ops_per_job=2)]
    js = [dict(num_jobs=3, num_machines=3), dict(num_jobs=4, num_machines=2, max_processing_time=9), dict(num_jobs=2, num_machines=4)]
    for kind, ci, gp in [("fjsp", i, g) for i, g in enumerate(fj[: 4 if THOROUGH else 2])] + [("jssp", i, g) for i, g in enumerate(js[: 3 if THOROUGH else 2])]:
        B, P, parser = 4, f"C19.{kind}.", (fjsp_parser if kind == "fjsp" else jssp_parser)
        case("sched", kind, ci)
        env = get_env(kind, generator_params=gp)
        src = env.generator(batch_size=[B])
        cfg = dict(env=kind, generator_params=gp, B=B, proc_times=src["proc_times"], start_op_per_job=src["start_op_per_job"], end_op_per_job=src["end_op_per_job"])
        want = [structure(src, i) for i in range(B)]
        d = os.path.join(tmp, f"{kind}_{ci}")
        os.makedirs(d)
        try:
            fjsp_parser.write(d, env.reset(src.clone())) if kind == "fjsp" else write_jssp(d, src)
            files = sorted(glob.glob(os.path.join(d, "*.txt")))
            try:
                texts = [parse_text(f, kind == "fjsp") for f in files]
            except (IndexError, ValueError, AssertionError):
                texts = []  # malformed file
            check(len(texts) == B and all(t[0] == [gp["num_jobs"], gp["num_machines"]] and t[1] == w[0] for t, w in zip(texts, want)), P + "write-text",
                  "text files (own parser) do not hold the instances' jobs/ops/(machine,duration) in order", {**cfg, "first_file": open(files[0]).read() if files else None})
            singles = [parser.read(f) for f in files]
            check(all(structure(s[0], 0) == w and s[1:3] == (gp["num_jobs"], gp["num_machines"]) for s, w in zip(singles, want)), P + "read-content", "parser.read(file i) != instance i", cfg)
            # the same file read with room for more operations (what the file generator does for the smaller files of a
            # directory of mixed sizes): same jobs / operations, padding flagged and empty, at the END
            padded = [parser.read(f, int(s[0]["proc_times"].shape[-1]) + 2) for f, s in zip(files, singles)]
            check(all(structure(p_[0], 0) == w and int(p_[0]["proc_times"].shape[-1]) == int(s[0]["proc_times"].shape[-1]) + 2
                      and bool(p_[0]["pad_mask"][0, -2:].all()) for p_, s, w in zip(padded, singles, want)),
                  P + "read-content.padded", "parser.read(file i, max_ops = n_ops + 2) != instance i followed by two flagged empty columns", cfg)
            env2 = get_env(kind, generator_params={"file_path": d})
            order = [int(os.path.basename(f)[:4]) - 1 for f in env2.generator.files]  # which written instance each generator row comes from
            td2 = env2.reset(batch_size=[B])
            ld = env.load_data(d, batch_size=[B])
        except Exception as e:
            fail(P + "raises", f"write/read/file generator raised {type(e).__name__}: {e}", cfg)
            continue
        for what, got in (("file-generator.content", td2), ("load_data.content", ld)):
            check(got.batch_size[0] == B and all(structure(got, k) == want[order[k]] for k in range(B)), P + what, "instance read back differs from the instance written to that file", {**cfg, "file_order": order})
        check(order == list(range(B)), P + "file-generator.order", f"instances come back in file order {[o + 1 for o in order]} instead of 1..{B}", {**cfg, "listdir": [os.path.basename(f) for f in env2.generator.files]})
        m0, acts, t0 = replay(env, env.reset(src[order].clone()), g=torch.Generator().manual_seed(seed + ci))
        try:
            m1, _, t1 = replay(env2, td2, actions=acts)
            diff = trace_diff(m0, m1) or ("" if torch.equal(env.get_reward(t0, None), env2.get_reward(t1, None)) else "makespans differ")
        except Exception as e:
            diff = f"replay on the read-back instances raised {type(e).__name__}: {e}"
        check(not diff, P + "masks-along-actions", diff, {**cfg, "actions": [a.tolist() for a in acts]})


# ------------------------------------------------------------------ C19 env deepcopy / pickle
def sec_envcopy(tmp, seed):
    for name, kw, how in [(n, k, h) for n, k in ENVCFG.items() for h in ("deepcopy", "pickle")]:
        cfg = dict(env=name, how=how, env_seed=seed, kwargs=kw, batch=3)
        case("envcopy", name, how)
        P, acts = f"C19.env.{how}.{name}.", []
        try:  # the original env gives the reference behaviour (a failure here is not a copy defect)
            env = get_env(name, seed=seed, **kw)
            env.reset(batch_size=[2])  # copy a USED env whose stream has advanced
            st = env.rng.get_state().clone()
            a = env.reset(batch_size=[3])
            if "action_mask" in a.keys():
                m0, acts, t0 = replay(env, a.clone(), g=torch.Generator().manual_seed(seed))
            torch.set_rng_state(st)
        except Exception as e:
            rep.error(f"envcopy {name}: original env failed, nothing checked: {type(e).__name__}: {e}")
            continue
        try:
            if how == "pickle":
                blob = pickle.dumps(env)
                torch.rand(7)  # time passes between dump and load
                cp = pickle.loads(blob)
            else:
                cp = copy.deepcopy(env)
            lost = [k for k, v in env.__dict__.items() if isinstance(v, (int, float, str, bool, type(None))) and (k not in cp.__dict__ or cp.__dict__[k] != v)]
            check(not lost, P + "attributes", f"scalar attributes not preserved by the copy: {lost}", cfg)
            check(type(cp) is type(env) and torch.equal(cp.rng.get_state(), st), P + "rng-state", "copy's rng state differs from the original's at copy time", cfg)
            torch.set_rng_state(st)
            b = cp.reset(batch_size=[3])
            if not check(not tdeq(a, b), P + "reset-state", f"reset state (same rng state) differs in {tdeq(a, b)}", cfg) or not acts:
                continue
            m1, _, t1 = replay(cp, b, actions=acts)
            check(not trace_diff(m0, m1), P + "masks-along-actions", trace_diff(m0, m1), {**cfg, "actions": [x.tolist() for x in acts]})
            r = []
            for e_, t_ in ((env, t0), (cp, t1)):
                try:
                    r.append(e_.get_reward(t_, torch.stack(acts, 1)))
                except Exception as ex:  # some envs reject random roll-outs; the copy must then do the same
                    r.append(type(ex).__name__)
            check(type(r[0]) is type(r[1]) and (r[0] == r[1] if isinstance(r[0], str) else teq(r[0], r[1])), P + "reward", f"rewards differ: {r[0]} vs {r[1]}", {**cfg, "actions": [x.tolist() for x in acts]})
            if how == "pickle":
                torch.set_rng_state(st)
                first = env.reset(batch_size=[3])
                pickle.loads(blob)
                check(bool(tdeq(first, env.reset(batch_size=[3]))), "C19.env.pickle.unpickle-rewinds-global-rng",
                      "after pickle.loads(blob) the ORIGINAL env regenerates the instances it produced before (global RNG rewound)", cfg)
        except Exception as e:
            fail(P + "raises", f"copying / using the copy raised {type(e).__name__}: {e}", cfg)


# ------------------------------------------------------------------ C19 checkpoint round trip
def sec_ckpt(tmp, seed):
    from rl4co.models import REINFORCE
    from rl4co.utils.trainer import RL4COTrainer
    combos = [("tsp", b) for b in (["no", "exponential", "mean", "rollout", "warmup", "critic"] if THOROUGH else ["no", "exponential", "rollout"])]
    combos += [("cvrp", "rollout"), ("cvrp", "exponential")] if THOROUGH else []
    for env_name, bl in combos:
        # embed 128 for critic: create_critic_from_actor builds its value head for the default embed_dim only
        cfg = dict(env=env_name, baseline=bl, embed_dim=128 if bl == "critic" else 16, epochs=2, train_data_size=8, batch_size=4, seed=seed)
        case("ckpt", env_name, bl)
        P = f"C19.ckpt.{bl}."
        torch.manual_seed(seed)
        env = get_env(env_name, **ENVCFG[env_name])
        path = os.path.join(tmp, f"{env_name}_{bl}.ckpt")
        try:
            model = REINFORCE(env, tiny_policy(env_name, cfg["embed_dim"]), baseline=bl, batch_size=4, val_batch_size=4, test_batch_size=4, train_data_size=8,
                              val_data_size=8, test_data_size=8, data_dir=tmp, optimizer_kwargs={"lr": 1e-2})
            trainer = RL4COTrainer(max_epochs=2, accelerator="cpu", devices=1, precision="32-true", matmul_precision=None, logger=False, enable_checkpointing=False,
                                   enable_progress_bar=False, enable_model_summary=False, default_root_dir=tmp, num_sanity_val_steps=0)
            trainer.fit(model)
            trainer.save_checkpoint(path)
        except Exception as e:
            rep.error(f"ckpt {env_name}/{bl}: training/saving failed, nothing checked: {type(e).__name__}: {e}")
            continue
        test = env.generator(batch_size=[6])

        def greedy(m, pol=None):
            with torch.inference_mode():
                o = (pol or m.policy).eval()(m.env.reset(test.clone()), m.env, decode_type="greedy")
            return o["actions"], o["reward"]

        def bl_eval(m):  # the baseline value the training step would subtract for this batch
            with torch.inference_mode():
                return torch.as_tensor(m.baseline.eval(m.env.reset(test.clone()), greedy(m)[1].clone(), m.env)[0]).float().reshape(-1)

        def bl_policy(m):
            b = m.baseline
            while not hasattr(b, "policy") and hasattr(b, "baseline"):
                b = b.baseline
            return getattr(b, "policy", None)

        ref_a, ref_r = greedy(model)
        ref_bl = bl_eval(model)
        for load_baseline in (True, False):
            c2, loaded = {**cfg, "load_baseline": load_baseline}, None
            try:
                loaded = REINFORCE.load_from_checkpoint(path, load_baseline=load_baseline)
            except Exception as e:
                name = "C19.ckpt.load-default-raises" if isinstance(e, pickle.UnpicklingError) and "eights only" in str(e) else P + "load-raises"
                fail(name, f"REINFORCE.load_from_checkpoint(path) raised {type(e).__name__}: {str(e)[:160]}", {**c2, "torch": torch.__version__})
                os.environ["TORCH_FORCE_NO_WEIGHTS_ONLY_LOAD"] = "1"  # retry the way a user would work around it, to check the remaining clauses
                try:
                    loaded = REINFORCE.load_from_checkpoint(path, load_baseline=load_baseline)
                except Exception as e2:
                    fail(P + "load-raises", f"load_from_checkpoint raised even with weights_only disabled: {type(e2).__name__}: {str(e2)[:300]}", c2)
                finally:
                    os.environ.pop("TORCH_FORCE_NO_WEIGHTS_ONLY_LOAD", None)
            if loaded is None:
                continue
            sd0, sd1 = model.policy.state_dict(), loaded.policy.state_dict()
            check(sd0.keys() == sd1.keys() and all(teq(sd0[k], sd1[k]) for k in sd0), P + "policy-weights", "restored policy state_dict differs", c2)
            a, r = greedy(loaded)
            check(torch.equal(a, ref_a) and torch.equal(r, ref_r), P + "greedy-actions-rewards", f"greedy actions/rewards differ after restore: {r.tolist()} vs {ref_r.tolist()}", {**c2, "instances": small(test, 6)})
            if load_baseline:
                p0, p1 = bl_policy(model), bl_policy(loaded)
                if p0 is not None:
                    check(p1 is not None and all(torch.equal(x, y) for x, y in zip(greedy(model, p0), greedy(loaded, p1))), P + "baseline-policy",
                          "restored rollout-baseline policy gives different greedy actions/rewards", c2)
                got = bl_eval(loaded)
                if getattr(model.baseline, "critic", None) is not None:
                    check(teq(got, ref_bl), P + "baseline-policy", "restored critic gives different values", c2)
                check(got.shape == ref_bl.shape and torch.allclose(got, ref_bl, atol=1e-5), P + "baseline-eval", f"baseline.eval on the same batch differs after restore: {got.tolist()} vs {ref_bl.tolist()}", c2)


def main():
    torch.set_num_threads(2)
    secs = {"datasets": ("C17", sec_datasets), "wrap": ("C17", sec_wrap), "npz": ("C19", sec_npz), "loaddata": ("C19", sec_loaddata),
            "sched": ("C19", sec_sched), "envcopy": ("C19", sec_envcopy), "ckpt": ("C19", sec_ckpt)}
    for rnd in range(ROUNDS):
        RND[0], seed = rnd, A.seed + 1000 * rnd
        with tempfile.TemporaryDirectory(prefix="standin_data_") as tmp:
            for i, (name, (prop, fn)) in enumerate(secs.items()):
                if (A.only and A.only != name) or (A.prop and A.prop != prop):
                    continue
                torch.manual_seed(seed * 100 + i)
                np.random.seed(seed * 100 + i)
                rep.guard(lambda: fn(tmp, seed), f"section {name} (round {rnd})")
    return rep.finish()


if __name__ == "__main__":
    sys.exit(main())
